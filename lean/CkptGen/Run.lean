import CkptGen.Src
/-!
# Line-protocol runner for the GENERATED functions (`lean --run CkptGen/Run.lean`)

Used to validate the translator itself: the harness runs the real Python functions and the Lean text generated
from them on the same inputs and compares the answers (`harness/gensrc.py validate`).
-/
open Ckpt.Py

def stName : StorageType → String
  | .ram => "RAM" | .disk => "DISK" | .work => "WORK" | .none => "NONE"

def stOf (s : String) : StorageType :=
  if s = "RAM" then .ram else if s = "DISK" then .disk else if s = "WORK" then .work else .none

def b01 (b : Bool) : String := if b then "1" else "0"

def actStr : PyAction → String
  | .forward n0 n1 a b st => s!"F {n0} {n1} {b01 a} {b01 b} {stName st}"
  | .reverse n1 n0 c => s!"R {n1} {n0} {b01 c}"
  | .copy n f t => s!"C {n} {stName f} {stName t}"
  | .move n f t => s!"M {n} {stName f} {stName t}"
  | .endForward => "EF"
  | .endReverse => "ER"

def evStr (e : PyEv) : String := s!"{actStr e.act} | {e.n} {e.r} {b01 e.exhausted}"

def errStr : PyErr → String
  | .valueError => "ValueError" | .runtimeError => "RuntimeError" | .assertionError => "AssertionError"
  | .indexError => "IndexError" | .keyError => "KeyError" | .typeError => "TypeError"
  | .zeroDivisionError => "ZeroDivisionError" | .stopIteration => "StopIteration"
  | .notImplementedError => "NotImplementedError" | .fuel => "FUEL"
  | .invalidForwardStep => "InvalidForwardStep" | .invalidReverseStep => "InvalidReverseStep"
  | .invalidRevolverAction => "InvalidRevolverAction" | .invalidActionIndex => "InvalidActionIndex"

def showEvs (r : M (List PyEv)) : String :=
  match r with
  | .ok evs => String.intercalate ";" (evs.map evStr)
  | .error e => "raise:" ++ errStr e

def showInt (r : M Int) : String :=
  match r with
  | .ok v => toString v
  | .error e => "raise:" ++ errStr e

def stepName : StepType → String
  | .none => "0" | .forward => "1" | .forward_reverse => "2" | .write_adj_deps => "3" | .write_ics => "4"
  | .read_adj_deps => "5" | .read_ics => "6"

/-- `Forward:0:3` / `Write_memory:2` -/
def opOf (t : String) : PyOp :=
  match t.splitOn ":" with
  | [k, a, b] => ⟨k, .pair (a.toInt?.getD 0) (b.toInt?.getD 0)⟩
  | [k, a] => ⟨k, .single (a.toInt?.getD 0)⟩
  | _ => ⟨t, .single 0⟩

/-- `7/4` or `3` -/
def ratOf (t : String) : Rat :=
  match t.splitOn "/" with
  | [a, b] => (a.toInt?.getD 0 : Rat) / (b.toInt?.getD 1 : Rat)
  | _ => (t.toInt?.getD 0 : Rat)

def ratStr (q : Rat) : String := if q.den = 1 then toString q.num else s!"{q.num}/{q.den}"

def answer (w : List String) : String :=
  let i (k : Nat) : Int := (w.getD k "0").toInt?.getD 0
  let fuel : Nat := 1000000
  match w.head? with
  | some "n_advance" => showInt (n_advance fuel (i 1) (i 2) (w.getD 3 "maximum"))
  | some "optimal_extra_steps" => showInt (optimal_extra_steps fuel (i 1) (i 2))
  | some "optimal_steps_binomial" => showInt (optimal_steps_binomial fuel (i 1) (i 2))
  | some "optimal_steps_mixed" => showInt (optimal_steps_mixed fuel (i 1) (i 2))
  | some "mixed_step_memoization" =>
    match mixed_step_memoization fuel (i 1) (i 2) with
    | .ok (t, a, b) => s!"{stepName t} {a} {b}"
    | .error e => "raise:" ++ errStr e
  | some "tabulation" =>
    match mixed_steps_tabulation (i 1) (i 2) with
    | .ok t => String.intercalate ";" (t.map (fun row => String.intercalate "," (row.map (fun c => s!"{c.1} {c.2.1} {c.2.2}"))))
    | .error e => "raise:" ++ errStr e
  | some "opt0" =>
    match get_opt_0_table (i 1) (i 2) (ratOf (w.getD 3 "1")) (ratOf (w.getD 4 "1")) with
    | .ok t => String.intercalate ";" (t.map (fun row => String.intercalate "," (row.map ratStr)))
    | .error e => "raise:" ++ errStr e
  | some "optinf" =>
    match get_opt_inf_table (i 1) (i 2) (ratOf (w.getD 3 "1")) (ratOf (w.getD 4 "1")) (ratOf (w.getD 5 "2")) (ratOf (w.getD 6 "2")) none with
    | .ok t => String.intercalate "," (t.map ratStr)
    | .error e => "raise:" ++ errStr e
  | some "hopt" =>
    -- hopt lmax c0 c1 w0 w1 r0 r1 ub uf
    let er (x : ER) : String := match x with | .fin q => ratStr q | .inf => "inf"
    let sh (t : List (List (List ER))) : String :=
      String.intercalate "|" (t.map (fun lvl => String.intercalate ";" (lvl.map (fun row => String.intercalate "," (row.map er)))))
    match get_hopt_table (i 1) [i 2, i 3] [ratOf (w.getD 4 "0"), ratOf (w.getD 5 "2")] [ratOf (w.getD 6 "0"), ratOf (w.getD 7 "2")]
        (ratOf (w.getD 8 "1")) (ratOf (w.getD 9 "1")) with
    | .ok (a, b) => sh a ++ " # " ++ sh b
    | .error e => "raise:" ++ errStr e
  | some "seq" =>
    -- seq revolve|disk|periodic l cm rd wd uf ub
    let opS (o : PyOp) : String := match o.index with
      | .pair a b => s!"{o.type}:{a}:{b}"
      | .single a => s!"{o.type}:{a}"
    let r : M (List PyOp) := match w.getD 1 "" with
      | "revolve" => revolve fuel (i 2) (i 3) (ratOf (w.getD 4 "2")) (ratOf (w.getD 5 "2")) (ratOf (w.getD 6 "1")) (ratOf (w.getD 7 "1")) none
      | "disk" => disk_revolve fuel (i 2) (i 3) (ratOf (w.getD 4 "2")) (ratOf (w.getD 5 "2")) (ratOf (w.getD 6 "1")) (ratOf (w.getD 7 "1")) none none
      | _ => periodic_disk_revolve fuel (i 2) (i 3) (ratOf (w.getD 4 "2")) (ratOf (w.getD 5 "2")) (ratOf (w.getD 6 "1")) (ratOf (w.getD 7 "1")) none none
    match r with
    | .ok ops => String.intercalate "," (ops.map opS)
    | .error e => "raise:" ++ errStr e
  | some "hseq" =>
    -- hseq top|rec|aux l K cmem c0 c1 w0 w1 r0 r1 uf ub
    let opS (o : PyOp) : String := match o.index with
      | .pair a b => s!"{o.type}:{a}:{b}"
      | .single a => s!"{o.type}:{a}"
    let cv : List Int := [i 5, i 6]
    let wv : List Rat := [ratOf (w.getD 7 "0"), ratOf (w.getD 8 "2")]
    let rv : List Rat := [ratOf (w.getD 9 "0"), ratOf (w.getD 10 "2")]
    let uf := ratOf (w.getD 11 "1")
    let ub := ratOf (w.getD 12 "1")
    let r : M (List PyOp) := match w.getD 1 "" with
      | "top" => hrevolve fuel (i 2) cv wv rv uf ub
      | "rec" => hrevolve_recurse fuel (i 2) (i 3) (i 4) cv wv rv none none uf ub
      | _ => hrevolve_aux fuel (i 2) (i 3) (i 4) cv wv rv none none uf ub
    match r with
    | .ok ops => String.intercalate "," (ops.map opS)
    | .error e => "raise:" ++ errStr e
  | some "beta" =>
    match beta (i 1) (i 2) with
    | .ok q => if q.den = 1 then toString q.num else s!"{q.num}/{q.den}"
    | .error e => "raise:" ++ errStr e
  | some "mxrr" => showInt (mxrr_close_formula fuel (i 1) (ratOf (w.getD 2 "1")) (ratOf (w.getD 3 "2")) (ratOf (w.getD 4 "2")))
  | some "argmin" => showInt (argmin ((w.drop 1).map (fun s => s.toInt?.getD 0)))
  | some "singleMemory" => showEvs (singleMemory_iterator fuel 0 0 none (i 1) (i 2))
  | some "singleDisk" => showEvs (singleDisk_iterator fuel 0 0 none (w.getD 1 "0" = "1") false (i 2) (i 3))
  | some "none" => showEvs (none_iterator fuel 0 0 none false (i 1))
  | some "multistage" =>
    showEvs (multistage_iterator fuel 0 0 (some (i 1)) (i 2) (i 3) (((w.getD 5 "").splitOn ",").filter (· ≠ "") |>.map stOf)
      (w.getD 4 "maximum") false)
  | some "finalize" =>
    let mx : Option Int := if w.getD 3 "-" = "-" then none else some (i 3)
    match finalize (i 1) (i 2) mx with
    | .ok (n, m) => s!"{n} {match m with | none => "-" | some v => toString v}"
    | .error e => "raise:" ++ errStr e
  | some "init" =>
    let mx : Option Int := if w.getD 1 "-" = "-" then none else some (i 1)
    match checkpointSchedule_init mx with
    | .ok (n, r, m) => s!"{n} {r} {match m with | none => "-" | some v => toString v}"
    | .error e => "raise:" ++ errStr e
  | some "mixedInit" =>
    match mixed_init (i 1) (i 2) (stOf (w.getD 3 "DISK")) with
    | .ok (n, r, m, ex, sn, st) => s!"{n} {r} {m} {b01 ex} {sn} {stName st}"
    | .error e => "raise:" ++ errStr e
  | some "revInit" =>
    -- revInit H|D|P|R max_n ram disk uf ub wd rd
    let opS (o : PyOp) : String := match o.index with
      | .pair a b => s!"{o.type}:{a}:{b}"
      | .single a => s!"{o.type}:{a}"
    let uf := ratOf (w.getD 5 "1")
    let ub := ratOf (w.getD 6 "1")
    let wd := ratOf (w.getD 7 "2")
    let rd := ratOf (w.getD 8 "2")
    let r := match w.getD 1 "" with
      | "H" => hrevolve_init fuel (i 2) (i 3) (i 4) uf ub wd rd
      | "D" => diskRevolve_init fuel (i 2) (i 3) uf ub wd rd
      | "P" => periodicDiskRevolve_init fuel (i 2) (i 3) uf ub wd rd
      | _ => revolve_init fuel (i 2) (i 3) uf ub wd rd
    let o (x : Option Int) : String := match x with | none => "none" | some v => s!"(some {v})"
    match r with
    | .ok (n, r, m, ex, sd, sr, sch) => s!"{n} {r} {o m} {b01 ex} {o sd} {sr} {String.intercalate "," (sch.map opS)}"
    | .error e => "raise:" ++ errStr e
  | some "twoLevelInit" =>
    match twoLevel_init (i 1) (i 2) (stOf (w.getD 3 "DISK")) (w.getD 4 "maximum") with
    | .ok (n, r, m, p, b, st, tr) => s!"{n} {r} {m} {p} {b} {stName st} {tr}"
    | .error e => "raise:" ++ errStr e
  | some "multistageInit" =>
    -- the oracle answers with the storage tuple given in the request (what the real allocate_snapshots returned)
    let orc : Int → Int → Int → String → M (List Int × List StorageType) :=
      fun _ _ _ _ => pure ([], ((w.getD 5 "").splitOn ",").filter (· ≠ "") |>.map stOf)
    match multistage_init (i 1) (i 2) (i 3) (w.getD 4 "maximum") orc with
    | .ok (n, r, m, a, b, st, ex, tr) => s!"{n} {r} {m} {a} {b} {String.intercalate "," (st.map stName)} {b01 ex} {tr}"
    | .error e => "raise:" ++ errStr e
  | some "len" => showInt (if w.getD 1 "F" = "F" then forward_len (i 2) (i 3) else reverse_len (i 2) (i 3))
  | some "contains" =>
    match (if w.getD 1 "F" = "F" then forward_contains (i 4) (i 2) (i 3) else reverse_contains (i 4) (i 2) (i 3)) with
    | .ok b => b01 b
    | .error e => "raise:" ++ errStr e
  | some "uses" =>
    let st := stOf (w.getD 2 "NONE")
    let ob (r : M Bool) : String := match r with | .ok b => b01 b | .error e => "raise:" ++ errStr e
    match w.getD 1 "" with
    | "singleMemory" => ob (singleMemory_uses st .work)
    | "singleDisk" => ob (singleDisk_uses st .disk)
    | "none" => ob (none_uses st)
    | "multistage" => match multistage_uses st (i 3) (i 4) with
        | .ok (some b) => b01 b | .ok none => "None" | .error e => "raise:" ++ errStr e
    | "mixed" => ob (mixed_uses st (stOf (w.getD 3 "DISK")))
    | "twoLevel" => ob (twoLevel_uses st (stOf (w.getD 3 "DISK")))
    | "revolve" => ob (revolve_uses st (i 3) (if w.getD 4 "-" = "-" then none else some (i 4)))
    | _ => "bad-request"
  | some "alloc" =>
    -- alloc max_n ram disk ww rw dw trajectory
    match allocate_snapshots fuel (i 1) (i 2) (i 3) (ratOf (w.getD 4 "1")) (ratOf (w.getD 5 "1")) (ratOf (w.getD 6 "0")) (w.getD 7 "maximum") with
    | .ok (ws, al) => String.intercalate "," (ws.map ratStr) ++ " " ++ String.intercalate "," (al.map stName)
    | .error e => "raise:" ++ errStr e
  | some "revObj" =>
    -- revObj H|D|P|R max_n ram disk uf ub wd rd : the generated constructor, then the generated iterator on its fields
    let uf := ratOf (w.getD 5 "1")
    let ub := ratOf (w.getD 6 "1")
    let wd := ratOf (w.getD 7 "2")
    let rd := ratOf (w.getD 8 "2")
    let r := match w.getD 1 "" with
      | "H" => hrevolve_init fuel (i 2) (i 3) (i 4) uf ub wd rd
      | "D" => diskRevolve_init fuel (i 2) (i 3) uf ub wd rd
      | "P" => periodicDiskRevolve_init fuel (i 2) (i 3) uf ub wd rd
      | _ => revolve_init fuel (i 2) (i 3) uf ub wd rd
    showEvs (do
      let (n, r, mx, ex, _sd, _sr, sch) ← r
      revolve_iterator fuel n r mx sch ex)
  | some "revolveIter" =>
    showEvs (revolve_iterator fuel 0 0 (some (i 1)) (((w.getD 2 "").splitOn ",").filter (· ≠ "") |>.map opOf) false)
  | some "lastReads" =>
    match last_reads (((w.getD 1 "").splitOn ",").filter (· ≠ "") |>.map opOf) with
    | .ok l => String.intercalate " " (l.map toString)
    | .error e => "raise:" ++ errStr e
  | some "mixed" => showEvs (mixed_iterator fuel 0 0 (some (i 1)) (i 2) (stOf (w.getD 3 "DISK")) false)
  | some "twoLevel" =>
    showEvs (twoLevel_iterator fuel 0 0 none (i 1) (i 2) (stOf (w.getD 3 "DISK")) (w.getD 4 "maximum") (i 5) (i 6))
  | _ => "bad-request"

partial def loop (h : IO.FS.Stream) : IO Unit := do
  let line ← h.getLine
  if line.isEmpty then return ()
  let w := (line.trimAscii.toString.splitOn " ").filter (· ≠ "")
  IO.println (answer w)
  loop h

def main : IO Unit := do loop (← IO.getStdin)
