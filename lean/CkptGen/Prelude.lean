/-!
# Run-time support for the Lean text generated from the Python sources (`harness/py2lean.py`)

Import-free.  Python `int` is `Int`; a Python function is a function into `M = Except PyErr`; `raise`
is `throw`; every `while` loop and every recursive function carries a `fuel : Nat` argument and raises
`PyErr.fuel` when it runs out (the refinement theorems of `CkptGen/Refine*.lean` show that the fuel the
callers supply suffices).  `//` and `%` are Python's floor division and modulus and raise
`ZeroDivisionError`.
-/
namespace Ckpt.Py

inductive PyErr
  | valueError | runtimeError | assertionError | indexError | keyError | typeError
  | zeroDivisionError | stopIteration | notImplementedError | fuel
  | invalidForwardStep | invalidReverseStep | invalidRevolverAction | invalidActionIndex
deriving DecidableEq, Repr, Inhabited

abbrev M := Except PyErr

/-- `a // b` -/
def floordiv (a b : Int) : M Int := if b = 0 then throw .zeroDivisionError else pure (Int.fdiv a b)
/-- `a % b` -/
def pymod (a b : Int) : M Int := if b = 0 then throw .zeroDivisionError else pure (Int.fmod a b)

/-- `range(a, b)` -/
def pyRange (a b : Int) : List Int := (List.range (b - a).toNat).map (fun (k : Nat) => a + (k : Int))

/-- using a value that may be `None` where a number / tuple is needed -/
def unwrap {α : Type} : Option α → M α
  | some a => pure a
  | none => throw .typeError

/-- `xs[i]` for a Python list, with negative indices and `IndexError` -/
def pyIndex {α : Type} (xs : List α) (i : Int) : M α :=
  let j : Int := if i < 0 then i + xs.length else i
  if j < 0 then throw .indexError else
  match xs[j.toNat]? with
  | some a => pure a
  | none => throw .indexError

/-- `xs.pop()` as a statement: the list without its last element; `IndexError` on an empty list -/
def pyPop {α : Type} (xs : List α) : M (List α) :=
  if xs.isEmpty then throw .indexError else pure xs.dropLast

/-- `s.add(x)` for a Python set kept as a duplicate-free list -/
def pySetAdd {α : Type} [DecidableEq α] (s : List α) (x : α) : List α := if x ∈ s then s else s ++ [x]

/-- `s.remove(x)`: `KeyError` if absent -/
def pySetRemove {α : Type} [DecidableEq α] (s : List α) (x : α) : M (List α) :=
  if x ∈ s then pure (s.erase x) else throw .keyError

/-- a numpy `int64` array of shape `(a, b, 3)`: rows of cells (overflow of int64 is not modelled) -/
abbrev Tab3 := List (List (Int × Int × Int))

/-- `np.zeros((a, b, 3), dtype=np.int64)` -/
def tab3Zeros (a b : Int) : M Tab3 :=
  if a < 0 ∨ b < 0 then throw .valueError      -- "negative dimensions are not allowed"
  else pure (List.replicate a.toNat (List.replicate b.toNat (0, 0, 0)))

/-- `t[:, :, k] = v` -/
def tab3Fill (t : Tab3) (k : Nat) (v : Int) : Tab3 :=
  t.map (fun row => row.map (fun c => match k with | 0 => (v, c.2.1, c.2.2) | 1 => (c.1, v, c.2.2) | _ => (c.1, c.2.1, v)))

/-- `t[i, j, :]` (numpy: negative indices wrap, out of range is `IndexError`) -/
def tab3Get (t : Tab3) (i j : Int) : M (Int × Int × Int) := do
  let row ← pyIndex t i
  pyIndex row j

/-- `t[i, j, :] = c` -/
def tab3Set (t : Tab3) (i j : Int) (c : Int × Int × Int) : M Tab3 := do
  let i' : Int := if i < 0 then i + t.length else i
  if i' < 0 ∨ i' ≥ t.length then throw .indexError
  let row ← pyIndex t i
  let j' : Int := if j < 0 then j + row.length else j
  if j' < 0 ∨ j' ≥ row.length then throw .indexError
  pure (t.set i'.toNat (row.set j'.toNat c))

/-- `a / b` on exact rationals (they stand for Python's floats; rounding is not modelled) -/
def ratDiv (a b : Rat) : M Rat := if b = 0 then throw .zeroDivisionError else pure (a / b)

/-- `int(x)`: truncation towards zero -/
def ratTrunc (x : Rat) : Int := if x ≥ 0 then x.floor else - (-x).floor

/-- `math.factorial(n)` (`ValueError` for negative arguments) -/
def pyFactorial (n : Int) : M Int :=
  if n < 0 then throw .valueError else pure ((List.range n.toNat).foldl (fun (acc : Int) (k : Nat) => acc * ((k : Int) + 1)) 1)

/-- `xs[i] = v` for a list (negative indices wrap, `IndexError` out of range) -/
def pySetAt {α : Type} (xs : List α) (i : Int) (v : α) : M (List α) :=
  let j : Int := if i < 0 then i + xs.length else i
  if j < 0 ∨ j ≥ xs.length then throw .indexError else pure (xs.set j.toNat v)

/-- `min(xs)` (`ValueError` on an empty list; the first of several minima, as in Python) -/
def pyMin {α : Type} [LT α] [DecidableRel (α := α) (· < ·)] : List α → M α
  | [] => throw .valueError
  | x :: xs => pure (xs.foldl (fun m y => if y < m then y else m) x)

/-- `max(xs)` -/
def pyMax {α : Type} [LT α] [DecidableRel (α := α) (· < ·)] : List α → M α
  | [] => throw .valueError
  | x :: xs => pure (xs.foldl (fun m y => if m < y then y else m) x)

/-- a cost that may be `float("inf")` -/
inductive ER
  | fin (q : Rat)
  | inf
deriving DecidableEq, Repr, Inhabited

instance : Add ER := ⟨fun a b => match a, b with | .fin x, .fin y => .fin (x + y) | _, _ => .inf⟩

instance : LT ER := ⟨fun a b => match a, b with | .fin x, .fin y => x < y | .fin _, .inf => True | .inf, _ => False⟩

instance : DecidableRel (α := ER) (· < ·) := fun a b => by
  cases a <;> cases b <;> simp only [LT.lt] <;> infer_instance

instance : LE ER := ⟨fun a b => match a, b with | .fin x, .fin y => x ≤ y | _, .inf => True | .inf, .fin _ => False⟩

instance : DecidableRel (α := ER) (· ≤ ·) := fun a b => by
  cases a <;> cases b <;> simp only [LE.le] <;> infer_instance

/-- `min(a, b)` of Python: `b` only if it is strictly smaller -/
instance : Min ER := ⟨fun a b => if b < a then b else a⟩

/-- `max(a, b)` of Python: `b` only if it is strictly greater -/
instance : Max ER := ⟨fun a b => if a < b then b else a⟩

/-- `Operation.index` of hrevolve_sequences: a pair (`[n0, n1]`, `[level, n]`) or a plain integer -/
inductive PyIdx
  | pair (a b : Int)
  | single (a : Int)
deriving DecidableEq, Repr, Inhabited

/-- `Operation(type, index)` as the schedule iterator sees it (`.type`, `.index`) -/
structure PyOp where
  type : String
  index : PyIdx
deriving DecidableEq, Repr, Inhabited

/-- `Operation.shift(size)` (basic_functions.py; the branch variants do not occur): a plain index and both ends of a
`Forward`/`Backward` move by `size`; of any other pair `[level, n]` only the step `n` -/
def opShift (o : PyOp) (size : Int) : PyOp :=
  match o.index with
  | .single a => { o with index := .single (a + size) }
  | .pair a b =>
    if o.type = "Forward" ∨ o.type = "Backward" then { o with index := .pair (a + size) (b + size) }
    else { o with index := .pair a (b + size) }

/-- `Sequence.shift(size)` on the flattened operation list (Python mutates the operations in place; the sequences the
builders shift are freshly built, so sharing is not modelled) -/
def seqShift (s : List PyOp) (size : Int) : List PyOp := s.map (opShift · size)

/-- `Sequence.remove_useless_wm(K)`: a leading `Write_memory` (or `Write [K, ·]`) is dropped -/
def seqRemoveUselessWm (s : List PyOp) (K : Int) : List PyOp :=
  match s with
  | [] => []
  | o :: rest =>
    if o.type = "Write_memory" ∨ o.type = "Checkpoint" then rest
    else if o.type = "Write" ∧ (match o.index with | .pair a _ => decide (a = K) | .single _ => false) = true then rest
    else s

/-- `a, b = op.index` (`TypeError` when the index is a plain integer) -/
def idxPair : PyIdx → M (Int × Int)
  | .pair a b => pure (a, b)
  | .single _ => throw .typeError

/-- `n = op.index` used as a number (a pair used as a number: `TypeError`; Python itself fails only later) -/
def idxSingle : PyIdx → M Int
  | .single a => pure a
  | .pair _ _ => throw .typeError

/-- `{k0: v0, k1: v1, …}[k]` -/
def pyDictGet {α : Type} (d : List (Int × α)) (k : Int) : M α :=
  match d.find? (fun p => p.1 = k) with
  | some p => pure p.2
  | none => throw .keyError

/-- `range(a, b, -1)` -/
def pyRangeDown (a b : Int) : List Int := (List.range (a - b).toNat).map (fun (k : Nat) => a - (k : Int))

/-- the last leaf of a `Sequence` tree (`aux = sequence; while aux.type == 'Function': aux = aux.sequence[-1]` in
`hrevolve_aux`): with a Sequence as its flattened operation list, the last element; `IndexError` when there is none -/
def seqLast (s : List PyOp) : M PyOp :=
  match s.getLast? with
  | some o => pure o
  | none => throw .indexError

/-- stable insertion into a list sorted by descending weight (after every element that is not smaller) -/
def insDescQ (x : Int × Rat) : List (Int × Rat) → List (Int × Rat)
  | [] => [x]
  | y :: ys => if x.2 ≤ y.2 then y :: insDescQ x ys else x :: y :: ys

/-- `[i for i, _ in sorted(enumerate(ws), key=itemgetter(1), reverse=True)[:k]]`: Python's sort is stable also with
`reverse=True` (equal weights keep their original order); the slice `[:k]` with Python's meaning of a negative `k` -/
def pySortedDescIdx (ws : List Rat) (k : Int) : List Int :=
  let sorted := (ws.zipIdx.map (fun p => ((p.2 : Int), p.1))).foldl (fun acc x => insDescQ x acc) []
  let n : Int := sorted.length
  let stop : Int := if k < 0 then max 0 (n + k) else min k n
  (sorted.take stop.toNat).map (·.1)

end Ckpt.Py
