import CkptGen.RefineMixed
import CkptGen.RefineCommon
import CkptVerif.Properties.C16
import Mathlib.Tactic
/-!
# The Lean text generated from `mixed_steps_tabulation` (mixed.py, the numba path) computes the model `mixedTab`

`mixed_steps_tabulation_refines`: for all `n, s ≥ 0` the table (`Tab3`, numpy `int64` array of shape
`(n+1, s+1, 3)`) returned by the generated function is the table of the model `mixedTab n s`, cell by cell
(`tabPy`); where the model fails (`n = 0` only) the generated function raises (`IndexError`).
`mixed_steps_tabulation_negative`, `…_s_minus_one`, `…_n_minus_one`: the remaining integer arguments.
`mixed_steps_tabulation_memoSpec`, `mixed_steps_tabulation_eq_memoization`: property C16 at source level — every
entry of the table returned by the GENERATED function is the answer of the memoised planner (the model `memoSpec`,
resp. the generated `mixed_step_memoization`).

The generated text contains the `assert … > 0` statements of the Python source, which the model does not have:
the simulation therefore carries the invariant `TabInv` of `CkptVerif/Proofs/MixedTab.lean` (the cells read are
final, hence hold a planner answer, whose cost is positive: `memoCell_cost_pos`) through the three nested loops;
the same invariant keeps every `tab3Get`/`tab3Set` inside the array (no `IndexError`).  No fuel: the function has
only `for` loops.
-/

namespace Ckpt.Py
open Ckpt

/-- a cell of the model's table as the `int64` triple `(type, steps, cost)` -/
def cellPy (c : TCell) : Int × Int × Int := ((c.kind : Int), (c.len : Int), c.cost)
/-- the model's table as the numpy array -/
def tabPy (t : Array (Array TCell)) : Tab3 := t.toList.map (fun row => row.toList.map cellPy)

theorem pyIndex_of_getElem? {α : Type} (xs : List α) (i : Nat) (a : α) (h : xs[i]? = some a) :
    pyIndex xs (i : Int) = .ok a := by
  unfold pyIndex
  have h1 : ¬ ((i : Int) < 0) := by omega
  simp only [h1, if_false, Int.toNat_natCast, h]
  rfl

theorem tabPy_getElem? (t : Array (Array TCell)) (i : Nat) :
    (tabPy t)[i]? = t[i]?.map (fun row => row.toList.map cellPy) := by
  unfold tabPy
  rw [List.getElem?_map, Array.getElem?_toList]

theorem tabPy_length (t : Array (Array TCell)) : (tabPy t).length = t.size := by
  unfold tabPy; simp

theorem tab3Get_tabPy (t : Array (Array TCell)) (i j : Nat) (h : InB t i j) :
    tab3Get (tabPy t) (i : Int) (j : Int) = .ok (cellPy (tabGet t i j)) := by
  obtain ⟨row, hr, hj⟩ := h
  unfold tab3Get
  simp only [bind, Except.bind]
  have h1 : (tabPy t)[i]? = some (row.toList.map cellPy) := by rw [tabPy_getElem?, hr]; rfl
  rw [pyIndex_of_getElem? _ _ _ h1]
  have h2 : (row.toList.map cellPy)[j]? = some (cellPy (tabGet t i j)) := by
    rw [List.getElem?_map, Array.getElem?_toList, tabGet_eq, hr, Option.getD_some,
      Array.getElem?_eq_getElem hj]
    rfl
  exact pyIndex_of_getElem? _ _ _ h2

theorem tab3Set_tabPy (t : Array (Array TCell)) (i j : Nat) (c : TCell) (h : InB t i j) :
    tab3Set (tabPy t) (i : Int) (j : Int) (cellPy c) = .ok (tabPy (tabSet t i j c)) := by
  obtain ⟨row, hr, hj⟩ := h
  have hi : i < t.size := by
    by_contra hc
    rw [Array.getElem?_eq_none (by omega)] at hr
    cases hr
  unfold tab3Set
  simp only [bind, Except.bind, pure, Except.pure]
  have h1 : (tabPy t)[i]? = some (row.toList.map cellPy) := by rw [tabPy_getElem?, hr]; rfl
  have c1 : ¬ ((i : Int) < 0) := by omega
  have c2 : ¬ ((j : Int) < 0) := by omega
  rw [if_neg c1, tabPy_length, pyIndex_of_getElem? _ _ _ h1]
  have c3 : ¬ ((i : Int) < 0 ∨ (i : Int) ≥ (t.size : Int)) := by omega
  rw [if_neg c3]
  simp only [if_neg c2, List.length_map, Array.length_toList]
  have c4 : ¬ ((j : Int) < 0 ∨ (j : Int) ≥ (row.size : Int)) := by omega
  rw [if_neg c4]
  show Except.ok _ = Except.ok _
  congr 1
  apply List.ext_getElem?
  intro k
  rw [tabPy_getElem?, tabSet_row, Int.toNat_natCast, Int.toNat_natCast, List.getElem?_set]
  by_cases hik : i = k
  · subst hik
    rw [if_pos rfl, if_pos rfl, hr, tabPy_length, if_pos hi]
    simp only [Option.map_some, Array.toList_setIfInBounds, List.map_set]
  · rw [if_neg hik, if_neg hik, tabPy_getElem?]


theorem tabSet_tabSet (t : Array (Array TCell)) (a b : Nat) (c c' : TCell) :
    tabSet (tabSet t a b c) a b c' = tabSet t a b c' := by
  apply Array.ext_getElem?
  intro k
  simp only [tabSet_row]
  by_cases hak : a = k
  · simp only [if_pos hak, Option.map_map]
    congr 1
    funext row
    simp
  · simp only [if_neg hak]

theorem tabSet_self (t : Array (Array TCell)) (a b : Nat) (h : InB t a b) :
    tabSet t a b (tabGet t a b) = t := by
  obtain ⟨row, hr, hj⟩ := h
  apply Array.ext_getElem?
  intro k
  rw [tabSet_row]
  by_cases hak : a = k
  · subst hak
    rw [if_pos rfl, hr, Option.map_some, tabGet_eq, hr, Option.getD_some,
      Array.getElem?_eq_getElem hj, Option.getD_some]
    congr 1
    apply Array.ext_getElem?
    intro j
    rw [Array.getElem?_setIfInBounds]
    by_cases hbj : b = j
    · subst hbj; simp [hj]
    · simp [hbj]
  · rw [if_neg hak]

/-! ## the initial table -/

theorem cellPy_tNone : cellPy tNone = ((0 : Int), (0 : Int), (-1 : Int)) := rfl

theorem tab3_init (n s : Nat) :
    tab3Zeros ((n : Int) + 1) ((s : Int) + 1) =
      .ok (List.replicate (n + 1) (List.replicate (s + 1) ((0 : Int), (0 : Int), (0 : Int)))) := by
  unfold tab3Zeros
  have c : ¬ ((n : Int) + 1 < 0 ∨ (s : Int) + 1 < 0) := by omega
  rw [if_neg c]
  have e1 : ((n : Int) + 1).toNat = n + 1 := by omega
  have e2 : ((s : Int) + 1).toNat = s + 1 := by omega
  rw [e1, e2]; rfl

theorem tab3_fill (n s : Nat) :
    tab3Fill (tab3Fill (tab3Fill
      (List.replicate (n + 1) (List.replicate (s + 1) ((0 : Int), (0 : Int), (0 : Int))))
        0 StepType.none.toInt) 1 0) 2 (-1)
      = tabPy (Array.replicate (n + 1) (Array.replicate (s + 1) tNone)) := by
  unfold tab3Fill tabPy
  simp only [List.map_replicate, Array.toList_replicate, cellPy_tNone]
  rfl


/-! ## `for` loops over `range` with an invariant -/

/-- a `for` loop over (the casts of) `a, a+1, …, a+k-1` whose body, on states `R t` satisfying the
invariant `Q x t` (`x` = the loop variable), continues with `R (g t x)`, is a `foldl` -/
theorem forIn_range_sim {σ τ : Type} (R : τ → σ) (g : τ → Nat → τ) (Q : Nat → τ → Prop)
    (body : Int → σ → M (ForInStep σ)) :
    ∀ (k a : Nat) (t0 : τ), Q a t0 →
      (∀ x t, a ≤ x → x < a + k → Q x t →
        body (x : Int) (R t) = .ok (.yield (R (g t x))) ∧ Q (x + 1) (g t x)) →
      forIn ((List.range' a k).map (fun k : Nat => (k : Int))) (R t0) body
        = .ok (R ((List.range' a k).foldl g t0)) := by
  intro k
  induction k with
  | zero => intro a t0 _ _; rfl
  | succ k ih =>
    intro a t0 h0 h
    obtain ⟨e, q⟩ := h a t0 (Nat.le_refl _) (by omega) h0
    rw [List.range'_succ, List.map_cons, List.forIn_cons, e]
    show forIn (List.map (fun k : Nat => (k : Int)) (List.range' (a + 1) k)) (R (g t0 a)) body = _
    rw [List.foldl_cons]
    exact ih (a + 1) (g t0 a) q (fun x t h1 h2 hq => h x t (by omega) (by omega) hq)

theorem forIn_range_sim' {σ τ : Type} (R : τ → σ) (g : τ → Nat → τ) (Q : Nat → τ → Prop)
    (k a : Nat) (t0 : τ) (l : List Int) (init : σ) (body : Int → σ → M (ForInStep σ))
    (hl : l = (List.range' a k).map (fun k : Nat => (k : Int))) (hi : init = R t0) (h0 : Q a t0)
    (h : ∀ x t, a ≤ x → x < a + k → Q x t →
        body (x : Int) (R t) = .ok (.yield (R (g t x))) ∧ Q (x + 1) (g t x)) :
    forIn l init body = .ok (R ((List.range' a k).foldl g t0)) := by
  subst hl hi; exact forIn_range_sim R g Q body k a t0 h0 h

theorem foldl_range_inv {τ : Type} (g : τ → Nat → τ) (Q : Nat → τ → Prop) :
    ∀ (k a : Nat) (t0 : τ), Q a t0 →
      (∀ x t, a ≤ x → x < a + k → Q x t → Q (x + 1) (g t x)) →
      Q (a + k) ((List.range' a k).foldl g t0) := by
  intro k
  induction k with
  | zero => intro a t0 h _; exact h
  | succ k ih =>
    intro a t0 h0 h
    rw [List.range'_succ, List.foldl_cons]
    have := ih (a + 1) (g t0 a) (h a t0 (Nat.le_refl _) (by omega) h0)
      (fun x t h1 h2 hq => h x t (by omega) (by omega) hq)
    have e : a + (k + 1) = a + 1 + k := by omega
    rw [e]; exact this

/-- `range(lo, hi)` between two naturals -/
theorem pyRange_eq (a k : Nat) (lo hi : Int) (h1 : lo = (a : Int)) (h2 : hi = (a : Int) + (k : Int)) :
    pyRange lo hi = (List.range' a k).map (fun k : Nat => (k : Int)) := by
  subst h1 h2
  unfold pyRange
  have : ((a : Int) + (k : Int) - (a : Int)).toNat = k := by omega
  rw [this, List.range'_eq_map_range, List.map_map]
  apply List.map_congr_left
  intro k _
  simp

/-! ## model side -/

theorem memoCell_cost_pos (n : Nat) : ∀ s, validKey n s = true → 1 ≤ (memoCell n s).cost := by
  induction n using Nat.strongRecOn with
  | ind n ih =>
    intro s h
    by_cases h1 : n = 1
    · subst h1; rw [memoCell_one]
    · have hn : 2 ≤ n := by rw [validKey_iff] at h; omega
      obtain ⟨_, hc | hc⟩ := memoCell_cases n s h hn
      · rw [hc.2.2]; omega
      · rw [hc.2.2.2.2]; omega

theorem expect_cost_pos (ni si : Nat) (h1 : 1 ≤ ni) (h2 : ni = 1 ∨ 1 ≤ si) : 0 < (expect ni si).cost := by
  rw [expect_valid ni si h1 h2]
  have := memoCell_cost_pos ni (clampS ni si) ((validKey_clamp_iff ni si).2 ⟨h1, h2⟩)
  show (0 : Int) < ((memoCell ni (clampS ni si)).cost : Int)
  omega

/-- one cell of the nested loops, as a total function on tables -/
def cellG (b : Nat) (t : Array (Array TCell)) (a : Nat) : Array (Array TCell) :=
  (tabStepCell b (some t) a).getD t

theorem cellG_spec (n s a b : Nat) (t : Array (Array TCell))
    (inv : TabInv n s a b t) (ha : 2 ≤ a) (han : a ≤ n) (hb : 1 ≤ b) (hbs : b ≤ s) :
    tabStepCell b (some t) a = some (cellG b t a) ∧ TabInv n s (a + 1) b (cellG b t a) := by
  obtain ⟨t', h1, h2⟩ := tabStepCell_spec n s a b t inv ha han hb hbs
  unfold cellG
  rw [h1]
  exact ⟨rfl, h2⟩

def colG (n : Nat) (t : Array (Array TCell)) (b : Nat) : Array (Array TCell) :=
  (List.range' 2 (n - 1)).foldl (cellG b) t

theorem colG_spec (n s b : Nat) (hn : 1 ≤ n) (hb : 1 ≤ b) (hbs : b ≤ s) (t : Array (Array TCell))
    (inv : TabInv n s 2 b t) :
    (List.range' 2 (n - 1)).foldl (tabStepCell b) (some t) = some (colG n t b) ∧
      TabInv n s 2 (b + 1) (colG n t b) := by
  have key := foldl_range_inv (cellG b)
    (fun x t' => (List.range' 2 (x - 2)).foldl (tabStepCell b) (some t) = some t' ∧ TabInv n s x b t')
    (n - 1) 2 t ⟨rfl, inv⟩ (by
      intro x t' h1 h2 ⟨e, i⟩
      obtain ⟨e', i'⟩ := cellG_spec n s x b t' i h1 (by omega) hb hbs
      refine ⟨?_, i'⟩
      have : x + 1 - 2 = (x - 2) + 1 := by omega
      rw [this, List.range'_concat, List.foldl_append, e]
      have : 2 + 1 * (x - 2) = x := by omega
      rw [this]
      exact e')
  have e1 : 2 + (n - 1) = n + 1 := by omega
  have e2 : n + 1 - 2 = n - 1 := by omega
  rw [e1, e2] at key
  exact ⟨key.1, TabInv_next_col n s b _ key.2⟩

def tabInit (n s : Nat) : Array (Array TCell) :=
  (List.range (s + 1)).foldl (fun t si => tabSet t 1 si tFR)
    (Array.replicate (n + 1) (Array.replicate (s + 1) tNone))

def tabG (n s : Nat) : Array (Array TCell) := (List.range' 1 s).foldl (colG n) (tabInit n s)

theorem tabG_spec (n s : Nat) (hn : 1 ≤ n) : mixedTab n s = some (tabG n s) ∧ TabInv n s 2 (s + 1) (tabG n s) := by
  rw [mixedTab_def, if_neg (by omega)]
  have key := foldl_range_inv (colG n)
    (fun x t' => (List.range' 1 (x - 1)).foldl
        (fun ot si => (List.range' 2 (n - 1)).foldl (tabStepCell si) ot) (some (tabInit n s)) = some t' ∧
      TabInv n s 2 x t')
    s 1 (tabInit n s) ⟨rfl, tabInit_inv n s hn⟩ (by
      intro x t' h1 h2 ⟨e, i⟩
      obtain ⟨e', i'⟩ := colG_spec n s x hn h1 (by omega) t' i
      refine ⟨?_, i'⟩
      have : x + 1 - 1 = (x - 1) + 1 := by omega
      rw [this, List.range'_concat, List.foldl_append, e]
      have : 1 + 1 * (x - 1) = x := by omega
      rw [this]
      exact e')
  have e2 : 1 + s - 1 = s := by omega
  have e3 : 1 + s = s + 1 := by omega
  rw [e2, e3] at key
  exact key


/-! ## the generated function -/

theorem tab_ok (n s : Nat) (hn : 1 ≤ n) :
    mixed_steps_tabulation (n : Int) (s : Int) = .ok (tabPy (tabG n s)) := by
  unfold mixed_steps_tabulation
  simp only [bind, Except.bind, pure, Except.pure]
  rw [tab3_init]
  simp only []
  rw [tab3_fill]
  -- first loop
  rw [forIn_range_sim' tabPy (fun t si => tabSet t 1 si tFR)
    (fun _ t => ∀ ni si, ni ≤ n → si ≤ s → InB t ni si) (s + 1) 0
    (Array.replicate (n + 1) (Array.replicate (s + 1) tNone)) _ _ _
    (pyRange_eq 0 (s + 1) _ _ (by simp) (by push_cast; ring)) rfl
    (fun ni si h1 h2 => InB_replicate n s ni si h1 h2)]
  swap
  · intro x t _ hx hinb
    refine ⟨?_, fun ni si h1 h2 => InB_tabSet _ _ _ _ _ _ (hinb ni si h1 h2)⟩
    have e : (StepType.forward_reverse.toInt, (1 : Int), (1 : Int)) = cellPy tFR := rfl
    have e1 : (1 : Int) = ((1 : Nat) : Int) := rfl
    rw [e, e1, tab3Set_tabPy _ _ _ _ (hinb 1 x hn (by omega))]
  simp only []
  rw [← List.range_eq_range']
  have e0 : List.foldl (fun t si => tabSet t 1 si tFR)
      (Array.replicate (n + 1) (Array.replicate (s + 1) tNone)) (List.range (s + 1)) = tabInit n s := rfl
  rw [e0]
  -- outer loop (columns)
  rw [forIn_range_sim' tabPy (colG n) (fun x t => TabInv n s 2 x t) s 1 (tabInit n s) _ _ _
    (pyRange_eq 1 s _ _ (by simp) (by push_cast; ring)) rfl (tabInit_inv n s hn)]
  · rfl
  intro b t hb1 hb2 inv
  have hspec := colG_spec n s b hn hb1 (by omega) t inv
  refine ⟨?_, hspec.2⟩
  -- middle loop (rows)
  rw [forIn_range_sim' tabPy (cellG b) (fun x t => TabInv n s x b t) (n - 1) 2 t _ _ _
    (pyRange_eq 2 (n - 1) _ _ (by simp) (by push_cast [Nat.cast_sub hn]; ring)) rfl inv]
  · rfl
  clear hspec inv t
  intro a t ha1 ha2 inv
  have hspec := cellG_spec n s a b t inv ha1 (by omega) hb1 (by omega)
  refine ⟨?_, hspec.2⟩
  have hinb := inv.inb
  have han : a ≤ n := by omega
  have hbs : b ≤ s := by omega
  by_cases h1 : a ≤ b + 1
  · have c1 : (a : Int) ≤ (b : Int) + 1 := by omega
    rw [if_pos c1]
    have e : (StepType.write_adj_deps.toInt, (1 : Int), (a : Int))
        = cellPy ⟨stWriteAdjDeps, 1, (a : Int)⟩ := rfl
    rw [e, tab3Set_tabPy _ _ _ _ (hinb a b han hbs)]
    have eg : cellG b t a = tabSet t a b ⟨stWriteAdjDeps, 1, (a : Int)⟩ := by
      show (if a ≤ b + 1 then _ else _ : Option _).getD t = _
      rw [if_pos h1]; rfl
    rw [eg]
  have c1 : ¬ (a : Int) ≤ (b : Int) + 1 := by omega
  rw [if_neg c1]
  by_cases h2 : b = 1
  · have c2 : (b : Int) = 1 := by omega
    rw [if_pos c2]
    have hd := floordiv_nat (a * (a + 1)) 2 (by omega)
    push_cast at hd
    rw [hd]
    simp only []
    have : 1 ≤ a * (a + 1) / 2 := by
      have : 2 ≤ a * (a + 1) := by nlinarith
      omega
    have e1 : (a : Int) - 1 = ((a - 1 : Nat) : Int) := by omega
    have e2 : ((a : Int) * ((a : Int) + 1)) / 2 - 1 = ((a * (a + 1) / 2 - 1 : Nat) : Int) := by
      push_cast [Nat.cast_sub this]; rfl
    have e : (StepType.write_ics.toInt, (a : Int) - 1, ((a : Int) * ((a : Int) + 1)) / 2 - 1)
        = cellPy ⟨stWriteIcs, a - 1, ((a * (a + 1) / 2 - 1 : Nat) : Int)⟩ := by
      rw [e1, e2]; rfl
    rw [e, tab3Set_tabPy _ _ _ _ (hinb a b han hbs)]
    have eg : cellG b t a = tabSet t a b ⟨stWriteIcs, a - 1, ((a * (a + 1) / 2 - 1 : Nat) : Int)⟩ := by
      show (if a ≤ b + 1 then _ else if b = 1 then _ else _ : Option _).getD t = _
      rw [if_neg h1, if_pos h2]; rfl
    rw [eg]
  have c2 : ¬ (b : Int) = 1 := by omega
  rw [if_neg c2]
  have hb2' : 2 ≤ b := by omega
  have eb : (b : Int) - 1 = ((b - 1 : Nat) : Int) := by omega
  -- the cells read are final and have a positive cost
  have hposL : ∀ x, 2 ≤ x → x < a → 0 < (tabGet t x b).cost := by
    intro x hx1 hx2
    rw [inv.done x b (by omega) hbs (by omega)]
    exact expect_cost_pos x b (by omega) (by omega)
  have hposR : ∀ x, 1 ≤ x → x < a → 0 < (tabGet t (a - x) (b - 1)).cost := by
    intro x hx1 hx2
    rw [inv.done (a - x) (b - 1) (by omega) (by omega) (by omega)]
    exact expect_cost_pos (a - x) (b - 1) (by omega) (by omega)
  have hinbS : ∀ cur ni si, ni ≤ n → si ≤ s → InB (tabSet t a b cur) ni si :=
    fun cur ni si h1 h2 => InB_tabSet _ _ _ _ _ _ (hinb ni si h1 h2)
  have hgC : ∀ cur, tab3Get (tabPy (tabSet t a b cur)) (a : Int) (b : Int) = .ok (cellPy cur) := by
    intro cur
    rw [tab3Get_tabPy _ _ _ (hinbS cur a b han hbs), tabGet_tabSet_same _ _ _ _ (hinb a b han hbs)]
  have hgR : ∀ cur x, 1 ≤ x → x < a →
      tab3Get (tabPy (tabSet t a b cur)) ((a : Int) - (x : Int)) ((b : Int) - 1)
        = .ok (cellPy (tabGet t (a - x) (b - 1))) := by
    intro cur x hx1 hx2
    have ea : (a : Int) - (x : Int) = ((a - x : Nat) : Int) := by omega
    rw [ea, eb, tab3Get_tabPy _ _ _ (hinbS cur (a - x) (b - 1) (by omega) (by omega)),
      tabGet_tabSet_ne _ _ _ _ _ _ (by omega)]
  -- the innermost loop
  rw [forIn_range_sim' (fun cur => tabPy (tabSet t a b cur))
    (tabStep (fun (i : Nat) => (i : Int) + (tabGet t i b).cost + (tabGet t (a - i) (b - 1)).cost))
    (fun _ _ => True) (a - 2) 2 (tabGet t a b) _ _ _
    (pyRange_eq 2 (a - 2) _ _ (by simp) (by push_cast [Nat.cast_sub ha1]; ring))
    (by rw [tabSet_self _ _ _ (hinb a b han hbs)]) trivial]
  swap
  · intro x cur hx1 hx2 _
    refine ⟨?_, trivial⟩
    have hgL : tab3Get (tabPy (tabSet t a b cur)) (x : Int) (b : Int)
        = .ok (cellPy (tabGet t x b)) := by
      rw [tab3Get_tabPy _ _ _ (hinbS cur x b (by omega) hbs), tabGet_tabSet_ne _ _ _ _ _ _ (by omega)]
    rw [hgL, hgR cur x (by omega) (by omega), hgC cur]
    simp only []
    have p1 : ¬ ¬ (cellPy (tabGet t x b)).2.2 > 0 := not_not.2 (hposL x hx1 (by omega))
    have p2 : ¬ ¬ (cellPy (tabGet t (a - x) (b - 1))).2.2 > 0 := not_not.2 (hposR x (by omega) (by omega))
    rw [if_neg p1, if_neg p2]
    have e : (StepType.write_ics.toInt, (x : Int),
        (x : Int) + (cellPy (tabGet t x b)).2.2 + (cellPy (tabGet t (a - x) (b - 1))).2.2)
        = cellPy ⟨stWriteIcs, x, (x : Int) + (tabGet t x b).cost + (tabGet t (a - x) (b - 1)).cost⟩ := rfl
    rw [e, tab3Set_tabPy _ _ _ _ (hinbS cur a b han hbs), tabSet_tabSet]
    simp only []
    unfold tabStep
    by_cases hc : cur.cost < 0
    · have hc' : (cellPy cur).2.2 < 0 := hc
      rw [if_pos hc', if_pos (Or.inl hc)]
      rfl
    · have hc' : ¬ (cellPy cur).2.2 < 0 := hc
      rw [if_neg hc']
      by_cases hle : (x : Int) + (tabGet t x b).cost + (tabGet t (a - x) (b - 1)).cost ≤ cur.cost
      · have hle' : (x : Int) + (cellPy (tabGet t x b)).2.2 + (cellPy (tabGet t (a - x) (b - 1))).2.2
            ≤ (cellPy cur).2.2 := hle
        rw [decide_eq_true hle', if_pos (Or.inr hle)]
        rfl
      · have hle' : ¬ (x : Int) + (cellPy (tabGet t x b)).2.2 + (cellPy (tabGet t (a - x) (b - 1))).2.2
            ≤ (cellPy cur).2.2 := hle
        rw [decide_eq_false hle', if_neg (by rintro (h | h); exact hc h; exact hle h)]
        rfl
  simp only []
  -- what the model does with the result of the loop
  have hdef := tabCell_def t a b
  have hsc : tabStepCell b (some t) a = (tabCell t a b).map (tabSet t a b) := by
    show (if a ≤ b + 1 then _ else if b = 1 then _ else _) = _
    rw [if_neg h1, if_neg h2]
    cases tabCell t a b <;> rfl
  generalize List.foldl
    (tabStep fun (i : Nat) => (i : Int) + (tabGet t i b).cost + (tabGet t (a - i) (b - 1)).cost)
    (tabGet t a b) (List.range' 2 (a - 2)) = cur at hdef ⊢
  have hspec1 := hspec.1
  rw [hsc, hdef] at hspec1
  have eg : cellG b t a = ((tabCell t a b).map (tabSet t a b)).getD t := by
    unfold cellG; rw [hsc]
  rw [eg, hdef]
  unfold tabFinish at hspec1 ⊢
  have hc : ¬ cur.cost < 0 := by
    intro hc
    rw [if_pos hc] at hspec1
    cases hspec1
  have hc' : ¬ (cellPy cur).2.2 < 0 := hc
  have e1 : (a : Int) - 1 = (a : Int) - ((1 : Nat) : Int) := rfl
  rw [hgC cur, e1, hgR cur 1 (Nat.le_refl 1) (by omega)]
  simp only []
  have p2 : ¬ ¬ (cellPy (tabGet t (a - 1) (b - 1))).2.2 > 0 := not_not.2 (hposR 1 (Nat.le_refl 1) (by omega))
  rw [if_neg hc', if_neg p2, if_neg hc]
  by_cases hlt : 1 + (tabGet t (a - 1) (b - 1)).cost < cur.cost
  · have hlt' : 1 + (cellPy (tabGet t (a - 1) (b - 1))).2.2 < (cellPy cur).2.2 := hlt
    have e : (StepType.write_adj_deps.toInt, (1 : Int), 1 + (cellPy (tabGet t (a - 1) (b - 1))).2.2)
        = cellPy ⟨stWriteAdjDeps, 1, 1 + (tabGet t (a - 1) (b - 1)).cost⟩ := rfl
    rw [if_pos hlt', if_pos hlt, e, tab3Set_tabPy _ _ _ _ (hinbS cur a b han hbs), tabSet_tabSet]
    rfl
  · have hlt' : ¬ 1 + (cellPy (tabGet t (a - 1) (b - 1))).2.2 < (cellPy cur).2.2 := hlt
    rw [if_neg hlt', if_neg hlt]
    rfl


/-! ## failures -/

theorem tab3Set_oob (t : Tab3) (i : Nat) (j : Int) (c : Int × Int × Int) (h : t.length ≤ i) :
    tab3Set t (i : Int) j c = .error .indexError := by
  unfold tab3Set
  simp only [bind, Except.bind]
  have c1 : ¬ ((i : Int) < 0) := by omega
  have c2 : ((i : Int) < 0 ∨ (i : Int) ≥ (t.length : Int)) := by omega
  rw [if_neg c1, if_pos c2]
  rfl

/-- `n = 0`: the first loop writes row `1` of a table with the single row `0`: `IndexError` -/
theorem tab_zero (s : Nat) : mixed_steps_tabulation ((0 : Nat) : Int) (s : Int) = .error .indexError := by
  unfold mixed_steps_tabulation
  simp only [bind, Except.bind, pure, Except.pure]
  rw [tab3_init]
  simp only []
  rw [tab3_fill, pyRange_eq 0 (s + 1) _ _ (by simp) (by push_cast; ring), List.range'_succ,
    List.map_cons, List.forIn_cons]
  have e1 : (1 : Int) = ((1 : Nat) : Int) := rfl
  rw [e1, tab3Set_oob _ 1 _ _ (by rw [tabPy_length]; simp)]
  rfl

/-! ## the refinement theorems -/

/-- **`mixed_steps_tabulation` as generated from the Python source computes the model `mixedTab`**: the same
table (cell by cell: step type, length, cost) where the model succeeds, an exception where it fails -/
theorem mixed_steps_tabulation_refines (n s : Nat) :
    (∀ t, mixedTab n s = some t → mixed_steps_tabulation (n : Int) (s : Int) = .ok (tabPy t)) ∧
    (mixedTab n s = none → ∃ e, mixed_steps_tabulation (n : Int) (s : Int) = .error e) := by
  by_cases hn : 1 ≤ n
  · obtain ⟨h1, _⟩ := tabG_spec n s hn
    refine ⟨fun t ht => ?_, fun h => ?_⟩
    · rw [h1] at ht
      cases ht
      exact tab_ok n s hn
    · rw [h1] at h; cases h
  · have : n = 0 := by omega
    subst this
    refine ⟨fun t ht => ?_, fun _ => ⟨_, tab_zero s⟩⟩
    rw [mixedTab_zero] at ht; cases ht

/-- more precisely: the model fails only for `n = 0`, and the generated function then raises `IndexError` -/
theorem mixed_steps_tabulation_none (n s : Nat) (h : mixedTab n s = none) :
    n = 0 ∧ mixed_steps_tabulation (n : Int) (s : Int) = .error .indexError := by
  by_cases hn : 1 ≤ n
  · rw [(tabG_spec n s hn).1] at h; cases h
  · have : n = 0 := by omega
    subst this
    exact ⟨rfl, tab_zero s⟩

/-- non-vacuity: the model succeeds for `(4, 2)` (which reaches the general branch), fails for `(0, 2)` -/
example : (mixedTab 4 2).isSome = true := by decide
example : mixedTab 0 2 = none := by decide
/-- a concrete instance, by evaluation of both sides -/
example : mixed_steps_tabulation 4 2 =
    (match mixedTab 4 2 with | some t => .ok (tabPy t) | none => .error .indexError) := by decide

/-- numpy refuses negative dimensions -/
theorem mixed_steps_tabulation_negative (n s : Int) (h : n < -1 ∨ s < -1) :
    mixed_steps_tabulation n s = .error .valueError := by
  unfold mixed_steps_tabulation
  simp only [bind, Except.bind, pure, Except.pure]
  have c : n + 1 < 0 ∨ s + 1 < 0 := by omega
  unfold tab3Zeros
  rw [if_pos c]
  rfl

example : (-2 : Int) < -1 ∨ (3 : Int) < -1 := by decide

/-- every pair of integers is covered by `mixed_steps_tabulation_refines`, `mixed_steps_tabulation_negative`
or is one of the two border cases `n = -1`, `s = -1` (shape `(0, s+1)`, resp. `(n+1, 0)`) -/
theorem mixed_steps_tabulation_cases (n s : Int) :
    (n < -1 ∨ s < -1) ∨ (n = -1 ∨ s = -1) ∨ ∃ n' s' : Nat, n = (n' : Int) ∧ s = (s' : Int) := by
  by_cases h : n < -1 ∨ s < -1
  · exact Or.inl h
  by_cases h' : n = -1 ∨ s = -1
  · exact Or.inr (Or.inl h')
  · exact Or.inr (Or.inr ⟨n.toNat, s.toNat, by omega, by omega⟩)

/-! ## C16 at source level -/

/-- the Python tuple for a planner answer, with the step type as `int` -/
def cellInt (c : Cell) : Int × Int × Int := ((c.kind : Int), (c.len : Int), (c.cost : Int))

/-- **C16 for the generated text**: `mixed_steps_tabulation(n, s)` returns a table `T`, and every entry
`T[n_i, s_i]`, `n_i ≤ n`, `s_i ≤ s`, is the answer `(step type, length, cost)` of the memoised planner
`memoSpec n_i s_i` — or the unset cell `(NONE, 0, -1)` where that planner raises `ValueError` -/
theorem mixed_steps_tabulation_memoSpec (n s : Nat) (hn : 1 ≤ n) :
    ∃ T, mixed_steps_tabulation (n : Int) (s : Int) = .ok T ∧
      ∀ ni si : Nat, ni ≤ n → si ≤ s →
        tab3Get T (ni : Int) (si : Int) = .ok (match memoSpec ni si with
          | some c => cellInt c
          | none => (StepType.none.toInt, 0, -1)) := by
  obtain ⟨t, ht, hcell⟩ := C16_tables n s hn
  obtain ⟨h1, inv⟩ := tabG_spec n s hn
  rw [h1] at ht
  cases ht
  refine ⟨_, tab_ok n s hn, ?_⟩
  intro ni si hni hsi
  rw [tab3Get_tabPy _ _ _ (inv.inb ni si hni hsi), hcell ni si hni hsi]
  cases memoSpec ni si <;> rfl

example : (1 : Nat) ≤ 4 ∧ (3 : Nat) ≤ 4 ∧ (2 : Nat) ≤ 2 := by decide

/-- **C16 between the two generated texts**: every entry `T[n_i, s_i]` of the table returned by the generated
`mixed_steps_tabulation(n, s)` is what the generated `mixed_step_memoization(n_i, s_i)` (through `cache_step`)
returns — same step type (as `int`), same length, same cost — and is the unset cell `(NONE, 0, -1)` exactly when
that call raises -/
theorem mixed_steps_tabulation_eq_memoization (n s : Nat) (hn : 1 ≤ n) :
    ∃ T, mixed_steps_tabulation (n : Int) (s : Int) = .ok T ∧
      ∀ (ni si fuel : Nat), ni ≤ n → si ≤ s → fuelBound ni si ≤ fuel →
        tab3Get T (ni : Int) (si : Int) =
          (match mixed_step_memoization fuel (ni : Int) (si : Int) with
            | .ok (k, l, c) => .ok (k.toInt, l, c)
            | .error _ => .ok (StepType.none.toInt, 0, -1)) := by
  obtain ⟨T, hT, hcell⟩ := mixed_steps_tabulation_memoSpec n s hn
  refine ⟨T, hT, ?_⟩
  intro ni si fuel hni hsi hf
  rw [hcell ni si hni hsi, mixed_step_memoization_refines ni si fuel hf]
  by_cases hv : validKey ni (clampS ni si) = true
  · rw [memoSpec_valid ni si hv]
    show Except.ok (cellInt _) = Except.ok ((stepTypeOfNat _).toInt, _, _)
    have hk := (memoCell_kind_num ni (clampS ni si) hv).1
    rw [toInt_stepTypeOfNat _ (by omega)]
    rfl
  · rw [memoSpec_invalid ni si hv]
    rfl

example : (1 : Nat) ≤ 4 ∧ (3 : Nat) ≤ 4 ∧ (2 : Nat) ≤ 2 ∧ fuelBound 3 2 ≤ 4 := by decide

/-! ## the two border cases -/

/-- `s = -1`: an array of shape `(n+1, 0, 3)`; no loop runs -/
theorem mixed_steps_tabulation_s_minus_one (n : Int) (hn : -1 ≤ n) :
    mixed_steps_tabulation n (-1) = .ok (List.replicate (n + 1).toNat []) := by
  unfold mixed_steps_tabulation
  simp only [bind, Except.bind, pure, Except.pure]
  unfold tab3Zeros
  have c : ¬ (n + 1 < 0 ∨ (-1 : Int) + 1 < 0) := by omega
  rw [if_neg c]
  have e0 : ((-1 : Int) + 1).toNat = 0 := rfl
  have e1 : pyRange 0 ((-1 : Int) + 1) = [] := rfl
  have e2 : pyRange 1 ((-1 : Int) + 1) = [] := rfl
  simp only [pure, Except.pure, e0, e1, e2, List.replicate_zero]
  unfold tab3Fill
  simp only [List.map_replicate, List.map_nil]
  rfl

example : (-1 : Int) ≤ 3 := by decide

/-- `n = -1`, `s ≥ 0`: an array of shape `(0, s+1, 3)`; the first loop raises `IndexError` -/
theorem mixed_steps_tabulation_n_minus_one (s : Nat) :
    mixed_steps_tabulation (-1) (s : Int) = .error .indexError := by
  unfold mixed_steps_tabulation
  simp only [bind, Except.bind, pure, Except.pure]
  unfold tab3Zeros
  have c : ¬ ((-1 : Int) + 1 < 0 ∨ (s : Int) + 1 < 0) := by omega
  rw [if_neg c]
  have e0 : ((-1 : Int) + 1).toNat = 0 := rfl
  simp only [pure, Except.pure, e0, List.replicate_zero]
  rw [pyRange_eq 0 (s + 1) _ _ (by simp) (by push_cast; ring), List.range'_succ,
    List.map_cons, List.forIn_cons]
  have e1 : (1 : Int) = ((1 : Nat) : Int) := rfl
  rw [e1, tab3Set_oob _ 1 _ _ (by simp [tab3Fill])]
  rfl

end Ckpt.Py

#print axioms Ckpt.Py.mixed_steps_tabulation_refines
#print axioms Ckpt.Py.mixed_steps_tabulation_none
#print axioms Ckpt.Py.mixed_steps_tabulation_negative
#print axioms Ckpt.Py.mixed_steps_tabulation_memoSpec
#print axioms Ckpt.Py.mixed_steps_tabulation_eq_memoization
#print axioms Ckpt.Py.mixed_steps_tabulation_s_minus_one
#print axioms Ckpt.Py.mixed_steps_tabulation_n_minus_one
