import CkptGen.RefineHopt
import CkptGen.RefineArgmin
import CkptGen.RefineRevolveIter
import CkptGen.Capstone
import CkptVerif.Proofs.OpsHRevolveMain
import Mathlib.Tactic
/-!
# The Lean text generated from the H-Revolve builders computes the twin's operation sequence

`hrevolve`, `hrevolve_recurse`, `hrevolve_aux` (hrevolve_sequences/hrevolve.py; in `CkptGen/Src.lean` a `mutual` block by
structural recursion on the fuel, `**params` as the explicit `uf ub`, a `Sequence` as its flattened operation list)
against the twin `hrevolveRecOps` / `hrevolveAuxOps` / `hrevolveOpsTop` of `CkptVerif/Model/Ops.lean`.

1. `argmin_er_refines`: `argmin` on costs that may be `float("inf")` is the model's `argminO` (direct simulation of the
   loop, `argFold_sim`; `erOf_le`: `≤` on `ER` is `ole`).
2. `seqShift_opPy_sh`, `seqLast_opPy`: `Sequence.shift` and the last leaf commute with `opPy` (all operation kinds).
3. `hrevolve_sim` (same fuel on both sides, induction on the fuel; one lemma per branch: `rec_step`, `aux_small`,
   `aux_loop`, `aux_K0`, `aux_K1`): for a two-level context `c : HCtx` (natural costs), levels `K ≤ 1`, `cmem ≤ c_K`,
   `l ≤ lmax` and tables `optp opt` of the right shape (`Shape3`) holding the model's entries on the index box (`TabsOK`),
   the generated functions return the twin's list (`hrevolve_recurse_refines`, `hrevolve_aux_refines`), and where the twin
   answers `none` they raise `KeyError` or run out of fuel (`hrevolve_recurse_error`, `hrevolve_aux_error`; the twin
   answers `none` for both, at fuel `0` the generated text raises `PyErr.fuel`); with `fuel ≥ 4·l + 3·K + 4` (beyond the
   depth of the recursion) exactly `none ↦ .error .keyError` (`hrevolve_recurse_keyError`, `hrevolve_aux_keyError`,
   `hrevolve_recurse_total`).  The induction is done once, parametrised by `FuelPre` (`preAny`, `preExact`).
4. `hrevolve_refines`: `hrevolve fuel (N - 1) [c0, c1] [0, wd] [0, rd] uf ub = .ok (ops.map opPy)` for `N ≥ 1`, `c0 ≥ 1`,
   `fuel ≥ 4·N + 8` (the first call builds the tables: `hrevolve_recurse_none`, `hopt_run`; their shape:
   `tabsOK_hoptResult`; more fuel does not change the twin's result: `hrevolveOps_mono`).
5. `source_hrevolve_accepted_full`, `source_hrevolve_C01_C18_full`, `hrevolve_full_run_model`: generated builder followed
   by generated iterator (`hrevolve_full_run`) yields the stream model `hrevolveEvs`, accepted by the checking executor.

Fuel: builder `4·N + 8` (the twin's own fuel), iterator `ops.length + 1`.
-/

set_option linter.unusedSimpArgs false
set_option linter.unusedVariables false
namespace Ckpt.Py
open Ckpt Ckpt.Ops

/-! ## 1. `argmin` over extended reals -/

theorem erOf_le (a b : Option Nat) : (erOf a ≤ erOf b) ↔ ole a b = true := by
  cases a with
  | none =>
    cases b with
    | none => exact ⟨fun _ => rfl, fun _ => trivial⟩
    | some b => exact ⟨fun h => h.elim, fun h => by cases h⟩
  | some a =>
    cases b with
    | none => exact ⟨fun _ => rfl, fun _ => trivial⟩
    | some b =>
      show ((a : Rat) ≤ (b : Rat)) ↔ ole (some a) (some b) = true
      rw [ole_some_some, Nat.cast_le]

/-- the body of the loop of `argmin_er` -/
def argStepE (L : List ER) (s : Int × ER) (k : Nat) : Int × ER :=
  if L.getD k ER.inf ≤ s.2 then ((k : Int), L.getD k ER.inf) else s

theorem argFold_sim (L : List ER) : ∀ (xs : List (Option Nat)) (k i : Nat) (v : Option Nat),
    (∀ j (h : j < xs.length), L[k + j]? = some (erOf xs[j])) →
    (List.range' k xs.length).foldl (argStepE L) ((i : Int), erOf v) =
      (((((xs.zipIdx k).foldl argStep (i, v)).1 : Nat) : Int), erOf ((xs.zipIdx k).foldl argStep (i, v)).2) := by
  intro xs
  induction xs with
  | nil => intro k i v _; rfl
  | cons y ys ih =>
    intro k i v h
    have h0 : L.getD k ER.inf = erOf y := by
      have := h 0 (by simp)
      rw [Nat.add_zero] at this
      rw [List.getD_eq_getElem?_getD, this]
      rfl
    have hrest : ∀ j (hj : j < ys.length), L[k + 1 + j]? = some (erOf ys[j]) := by
      intro j hj
      have := h (j + 1) (by simp; omega)
      rw [show k + 1 + j = k + (j + 1) by omega, this]
      rfl
    rw [List.length_cons, List.range'_succ, List.foldl_cons, List.zipIdx_cons, List.foldl_cons]
    by_cases hc : ole y v = true
    · have e1 : argStepE L ((i : Int), erOf v) k = ((k : Int), erOf y) := by
        unfold argStepE
        rw [h0, if_pos ((erOf_le y v).2 hc)]
      have e2 : argStep (i, v) (y, k) = (k, y) := by
        unfold argStep
        rw [if_pos hc]
      rw [e1, e2]
      exact ih (k + 1) k y hrest
    · have e1 : argStepE L ((i : Int), erOf v) k = ((i : Int), erOf v) := by
        unfold argStepE
        rw [h0, if_neg (fun h' => hc ((erOf_le y v).1 h'))]
      have e2 : argStep (i, v) (y, k) = (i, v) := by
        unfold argStep
        rw [if_neg hc]
      rw [e1, e2]
      exact ih (k + 1) i v hrest

/-- **`argmin` on costs that may be infinite** (the Lean text generated from basic_functions.py:63-84 at element type
`ER`) computes the model `argminO`: 1 + the index of the LAST minimal element. -/
theorem argmin_er_refines (l : List (Option Nat)) (h : l ≠ []) :
    argmin_er (l.map erOf) = .ok ((argminO l : Nat) : Int) := by
  obtain ⟨x, xs, rfl⟩ := List.exists_cons_of_ne_nil h
  unfold argmin_er
  have h0 : pyIndex ((x :: xs).map erOf) (0 : Int) = .ok (erOf x) := rfl
  have hget : ∀ k : Nat, k < (x :: xs).length →
      pyIndex ((x :: xs).map erOf) (k : Int) = .ok (((x :: xs).map erOf).getD k ER.inf) := by
    intro k hk
    apply pyIndex_of_getElem?
    rw [List.getD_eq_getElem?_getD, List.getElem?_eq_getElem (by simpa using hk)]
    rfl
  simp only [bind, Except.bind, pure, Except.pure, h0]
  rw [pyRange_eq2 0 (x :: xs).length 0 _ rfl (by simp),
    forIn_yield (g := fun s (i : Int) => argStepE ((x :: xs).map erOf) s i.toNat), List.foldl_map]
  · simp only [Int.toNat_natCast, List.length_map]
    have := argFold_sim ((x :: xs).map erOf) (x :: xs) 0 0 x (by
      intro j hj
      rw [Nat.zero_add, List.getElem?_map, List.getElem?_eq_getElem hj]
      rfl)
    rw [Int.natCast_zero] at this
    rw [this]
    show Except.ok _ = Except.ok _
    congr 1
  · intro i hi s
    obtain ⟨k, hk, rfl⟩ := List.mem_map.1 hi
    rw [List.mem_range'_1] at hk
    have hk' : k < (x :: xs).length := by simpa using hk.2
    simp only [hget k hk', Int.toNat_natCast, argStepE]
    split_ifs <;> rfl

example : ([some 3, none, some 1, some 1] : List (Option Nat)) ≠ [] := by decide
example : argmin_er ([some 3, none, some 1, some 1].map erOf) = .ok 4 := by
  rw [argmin_er_refines _ (by decide)]; rfl

/-! ## 2. `Sequence.shift` and the last leaf on mapped operation lists -/

theorem opShift_opPy_sh (o : Ops.Op) (k : Nat) : opShift (opPy o) (k : Int) = opPy (shiftOp k o) := by
  obtain ⟨kind, l, a, b⟩ := o
  cases kind <;> simp [opShift, opPy, opKindStr, opIdxPy, shiftOp]

/-- `Sequence.shift(k)` commutes with the translation of operations (all fifteen operation kinds, the hierarchical
ones of H-Revolve included) -/
theorem seqShift_opPy_sh (ops : List Ops.Op) (k : Nat) :
    seqShift (ops.map opPy) (k : Int) = (shiftOps k ops).map opPy := by
  unfold seqShift shiftOps
  rw [List.map_map, List.map_map]
  apply List.map_congr_left
  intro o _
  exact opShift_opPy_sh o k

/-- the last leaf of a non-empty mapped sequence -/
theorem seqLast_opPy (ops : List Ops.Op) (h : ops ≠ []) :
    seqLast (ops.map opPy) = .ok (opPy (ops.getLast h)) := by
  unfold seqLast
  rw [List.getLast?_map, List.getLast?_eq_some_getLast h]
  rfl

theorem seqLast_nil : seqLast ([] : List PyOp) = .error .indexError := rfl

theorem opPy_type_discard (o : Ops.Op) : (opPy o).type ≠ "Discard" ↔ o.kind ≠ .discard := by
  obtain ⟨kind, l, a, b⟩ := o
  cases kind <;> simp [opPy, opKindStr]

example : seqShift ([Op.fwd 0 2, Op.w 1 0, Op.wf 0 3, Op.rm 4].map opPy) (5 : Nat) =
    ([Op.fwd 5 7, Op.w 1 5, Op.wf 0 8, Op.rm 9]).map opPy := by
  rw [seqShift_opPy_sh]; rfl
example : seqLast ([Op.fwd 0 2, Op.d 0 0].map opPy) = .ok (opPy (Op.d 0 0)) := by
  rw [seqLast_opPy _ (by decide)]; rfl

/-! ## 3. the mutual simulation -/

/-- `cvect`, `wvect`, `rvect` of a two-level context -/
def cvI (c : HCtx) : List Int := [(c.c0 : Int), (c.c1 : Int)]
def wvQ (c : HCtx) : List Rat := [(c.w 0 : Rat), (c.w 1 : Rat)]
def rvQ (c : HCtx) : List Rat := [(c.rr 0 : Rat), (c.rr 1 : Rat)]

/-- the shape of a table returned by `get_hopt_table`: two levels, `lmax + 1` rows each, `c_k + 1` entries per row -/
structure Shape3 (T : T3) (lmax c0 c1 : Nat) : Prop where
  len : T.length = 2
  rows : ∀ (k : Nat) (rows : List (List ER)), T[k]? = some rows → rows.length = lmax + 1
  cells : ∀ (k : Nat) (rows : List (List ER)) (l : Nat) (row : List ER), T[k]? = some rows → rows[l]? = some row →
    row.length = (if k = 0 then c0 else c1) + 1

/-- the tables handed down the recursion have the right shape and, on the index box, the model's entries -/
structure TabsOK (c : HCtx) (lmax : Nat) (optp opt : T3) : Prop where
  shp : Shape3 optp lmax c.c0 c.c1
  sh : Shape3 opt lmax c.c0 c.c1
  valp : ∀ k l m, k ≤ 1 → l ≤ lmax → m ≤ cv c k → tab3 optp k l m = erOf (c.tab.optp k l m)
  val : ∀ k l m, k ≤ 1 → l ≤ lmax → m ≤ cv c k → tab3 opt k l m = erOf (c.tab.opt k l m)

/-- the three list accesses behind `T[k][l][m]` inside the box -/
theorem idx3 (T : T3) (lmax c0 c1 : Nat) (hs : Shape3 T lmax c0 c1) (k l m : Nat) (ki li mi : Int)
    (hki : ki = (k : Int)) (hli : li = (l : Int)) (hmi : mi = (m : Int))
    (hk : k ≤ 1) (hl : l ≤ lmax) (hm : m ≤ if k = 0 then c0 else c1) :
    ∃ rows row, pyIndex T ki = .ok rows ∧ pyIndex rows li = .ok row ∧ pyIndex row mi = .ok (tab3 T k l m) := by
  subst hki hli hmi
  have h1 : k < T.length := by rw [hs.len]; omega
  have e1 : T[k]? = some T[k] := List.getElem?_eq_getElem h1
  have h2 : l < T[k].length := by rw [hs.rows k _ e1]; omega
  have e2 : T[k][l]? = some T[k][l] := List.getElem?_eq_getElem h2
  have h3 : m < T[k][l].length := by rw [hs.cells k _ l _ e1 e2]; omega
  have e3 : T[k][l][m]? = some T[k][l][m] := List.getElem?_eq_getElem h3
  refine ⟨T[k], T[k][l], pyIndex_of_getElem? _ _ _ e1, pyIndex_of_getElem? _ _ _ e2, ?_⟩
  have : tab3 T k l m = T[k][l][m] := by
    unfold tab3
    rw [List.getD_eq_getElem?_getD, List.getD_eq_getElem?_getD, List.getD_eq_getElem?_getD, e1, Option.getD_some, e2,
      Option.getD_some, e3, Option.getD_some]
  rw [this]
  exact pyIndex_of_getElem? _ _ _ e3

/-- the result of the generated builder against the twin's: the same operations, or (`none`) an exception among the
allowed ones `E` (the twin answers `none` both for `KeyError` and for the exhaustion of its fuel) -/
def ResOK (E : PyErr → Prop) (o : Option (List Ops.Op)) (r : M (List PyOp)) : Prop :=
  match o with
  | some ops => r = .ok (ops.map opPy)
  | none => ∃ e, r = .error e ∧ E e

theorem ResOK_err (E : PyErr → Prop) (e : PyErr) (he : E e) : ResOK E none (.error e) := ⟨e, rfl, he⟩

/-- The simulation is proved once for two readings of "enough fuel": a set `E` of exceptions that may stand for the
twin's `none`, and preconditions `R fuel l K cmem` / `A fuel l K cmem` on the calls of `hrevolve_recurse` / `hrevolve_aux`
that are handed down the recursion (`preAny`: no precondition, `E = {KeyError, fuel}`; `preExact`: the fuel exceeds the
depth of the recursion, `E = {KeyError}`). -/
structure FuelPre (c : HCtx) where
  E : PyErr → Prop
  R : Nat → Nat → Nat → Nat → Prop
  A : Nat → Nat → Nat → Nat → Prop
  key : E .keyError
  baseR : ∀ l K cm, R 0 l K cm → E .fuel
  baseA : ∀ l K cm, A 0 l K cm → E .fuel
  RA : ∀ f l K cm, R (f + 1) l K cm → 2 ≤ l → A f l K cm
  RR : ∀ f l cm, R (f + 1) l 1 cm → R f l 0 c.c0
  AR : ∀ f l K cm j, A (f + 1) l K cm → 1 ≤ j → j ≤ l - 1 → (K = 0 → 2 ≤ cm) → R f (l - j) K (cm - 1)
  AA : ∀ f l K cm j, A (f + 1) l K cm → 1 ≤ j → j ≤ l - 1 → (K = 0 → 2 ≤ cm) → A f (j - 1) K cm
  AA1 : ∀ f l cm, A (f + 1) l 0 cm → 2 ≤ cm → A f l 0 1
  AR0 : ∀ f l cm, A (f + 1) l 1 cm → R f l 0 c.c0

/-- no precondition; the twin's `none` is `KeyError` or the exhaustion of the fuel -/
def preAny (c : HCtx) : FuelPre c where
  E := fun e => e = .keyError ∨ e = .fuel
  R := fun _ _ _ _ => True
  A := fun _ _ _ _ => True
  key := Or.inl rfl
  baseR := fun _ _ _ _ => Or.inr rfl
  baseA := fun _ _ _ _ => Or.inr rfl
  RA := fun _ _ _ _ _ _ => trivial
  RR := fun _ _ _ _ => trivial
  AR := fun _ _ _ _ _ _ _ _ _ => trivial
  AA := fun _ _ _ _ _ _ _ _ _ => trivial
  AA1 := fun _ _ _ _ _ => trivial
  AR0 := fun _ _ _ _ => trivial

/-- the fuel exceeds the depth of the recursion (`4·l + 3·K + 4` for `hrevolve_recurse`); the twin's `none` is `KeyError` -/
def preExact (c : HCtx) : FuelPre c where
  E := fun e => e = .keyError
  R := fun f l K _ => 4 * l + 3 * K + 4 ≤ f
  A := fun f l K cm => 4 * l + 3 * K + 2 + (if 2 ≤ cm then 1 else 0) ≤ f
  key := rfl
  baseR := fun l K cm h => absurd h (by omega)
  baseA := fun l K cm h => absurd h (by split <;> omega)
  RA := fun f l K cm h _ => by split <;> omega
  RR := fun f l cm h => by omega
  AR := fun f l K cm j h h1 h2 _ => by split at h <;> omega
  AA := fun f l K cm j h h1 h2 _ => by split at h <;> split <;> omega
  AA1 := fun f l cm h h2 => by rw [if_pos h2] at h; rw [if_neg (by omega)]; omega
  AR0 := fun f l cm h => by split at h <;> omega

/-- the statement about `hrevolve_recurse` at one fuel value -/
def RecP (c : HCtx) (P : FuelPre c) (lmax : Nat) (optp opt : T3) (uf ub : Rat) (fuel : Nat) : Prop :=
  ∀ l K cmem : Nat, l ≤ lmax → K ≤ 1 → cmem ≤ cv c K → P.R fuel l K cmem →
    ResOK P.E (hrevolveRecOps c fuel l K cmem)
      (hrevolve_recurse fuel (l : Int) (K : Int) (cmem : Int) (cvI c) (wvQ c) (rvQ c) (some optp) (some opt) uf ub)

/-- the statement about `hrevolve_aux` at one fuel value -/
def AuxP (c : HCtx) (P : FuelPre c) (lmax : Nat) (optp opt : T3) (uf ub : Rat) (fuel : Nat) : Prop :=
  ∀ l K cmem : Nat, l ≤ lmax → K ≤ 1 → cmem ≤ cv c K → P.A fuel l K cmem →
    ResOK P.E (hrevolveAuxOps c fuel l K cmem)
      (hrevolve_aux fuel (l : Int) (K : Int) (cmem : Int) (cvI c) (wvQ c) (rvQ c) (some optp) (some opt) uf ub)

theorem fin_erOf (v : Nat) : ER.fin (v : Rat) = erOf (some v) := rfl

theorem rec_step (c : HCtx) (P : FuelPre c) (lmax : Nat) (optp opt : T3) (uf ub : Rat) (ht : TabsOK c lmax optp opt) (fuel : Nat)
    (ihR : RecP c P lmax optp opt uf ub fuel) (ihA : AuxP c P lmax optp opt uf ub fuel) :
    RecP c P lmax optp opt uf ub (fuel + 1) := by
  intro l K cmem hl hK hcm hp
  have hkey := P.key
  rw [hrevolveRecOps, hrevolve_recurse]
  simp only [bind, Except.bind, pure, Except.pure, reduceCtorEq, if_false, decide_false, Bool.false_eq_true, unwrap]
  by_cases h0 : l = 0
  · have h0' : (l : Int) = 0 := by omega
    rw [if_pos h0, if_pos h0']
    rfl
  have h0' : ¬ (l : Int) = 0 := by omega
  rw [if_neg h0, if_neg h0']
  by_cases hk : K = 0 ∧ cmem = 0
  · have hk' : (K : Int) = 0 ∧ (cmem : Int) = 0 := by omega
    rw [if_pos hk, if_pos hk']
    exact ResOK_err _ _ hkey
  have hk' : ¬ ((K : Int) = 0 ∧ (cmem : Int) = 0) := by omega
  rw [if_neg hk, if_neg hk']
  by_cases h1 : l = 1
  · have h1' : (l : Int) = 1 := by omega
    rw [if_pos h1, if_pos h1']
    rfl
  have h1' : ¬ (l : Int) = 1 := by omega
  rw [if_neg h1, if_neg h1']
  by_cases hK0 : K = 0
  · subst hK0
    rw [if_pos rfl, if_pos (by rfl)]
    have := ihA l 0 cmem hl hK hcm (P.RA _ _ _ _ hp (by omega))
    rw [Nat.cast_zero] at this
    cases hm : hrevolveAuxOps c fuel l 0 cmem with
    | none =>
      rw [hm] at this
      obtain ⟨e, he, hor⟩ := this
      rw [he]
      exact ResOK_err _ e hor
    | some aux =>
      rw [hm] at this
      rw [show hrevolve_aux fuel (l : Int) 0 (cmem : Int) (cvI c) (wvQ c) (rvQ c) (some optp) (some opt) uf ub = _ from this]
      rfl
  have hK1 : K = 1 := by omega
  subst hK1
  rw [if_neg hK0, if_neg (show ¬ (((1 : Nat) : Int) = 0) by simp)]
  have hcm' : cmem ≤ c.c1 := hcm
  obtain ⟨rows1, row1, a1, a2, a3⟩ := idx3 optp lmax c.c0 c.c1 ht.shp 1 l cmem ((1 : Nat) : Int) l cmem rfl rfl rfl
    (le_refl _) hl hcm'
  obtain ⟨rows2, row2, b1, b2, b3⟩ := idx3 opt lmax c.c0 c.c1 ht.sh 0 l c.c0 (((1 : Nat) : Int) - 1) l c.c0 (by simp)
    rfl rfl (by omega) hl (le_refl _)
  have hw : pyIndex (wvQ c) ((1 : Nat) : Int) = .ok (c.w 1 : Rat) := rfl
  have hc : pyIndex (cvI c) (((1 : Nat) : Int) - 1) = .ok (c.c0 : Int) := rfl
  simp only [hw, hc, a1, a2, a3, b1, b2, b3]
  rw [ht.valp 1 l cmem (le_refl _) hl hcm, ht.val 0 l c.c0 (by omega) hl (le_refl _), fin_erOf, ← erOf_oadd]
  have e10 : (1 : Nat) - 1 = 0 := rfl
  have ecv : cv c 0 = c.c0 := rfl
  rw [e10, ecv]
  by_cases hc : olt (oadd (some (c.w 1)) (c.tab.optp 1 l cmem)) (c.tab.opt 0 l c.c0) = true
  · rw [if_pos hc, if_pos ((erOf_lt _ _).2 hc)]
    have := ihA l 1 cmem hl hK hcm (P.RA _ _ _ _ hp (by omega))
    cases hm : hrevolveAuxOps c fuel l 1 cmem with
    | none =>
      rw [hm] at this
      obtain ⟨e, he, hor⟩ := this
      rw [he]
      exact ResOK_err _ e hor
    | some aux =>
      rw [hm] at this
      rw [show hrevolve_aux fuel (l : Int) ((1 : Nat) : Int) (cmem : Int) (cvI c) (wvQ c) (rvQ c) (some optp) (some opt) uf ub = _
        from this]
      rfl
  · rw [if_neg hc, if_neg (fun h => hc ((erOf_lt _ _).1 h))]
    have := ihR l 0 c.c0 hl (by omega) (le_refl _) (P.RR _ _ _ hp)
    rw [show (((1 : Nat) : Int) - 1) = ((0 : Nat) : Int) by simp]
    cases hm : hrevolveRecOps c fuel l 0 c.c0 with
    | none =>
      rw [hm] at this
      obtain ⟨e, he, hor⟩ := this
      rw [he]
      exact ResOK_err _ e hor
    | some ops =>
      rw [hm] at this
      rw [show hrevolve_recurse fuel (l : Int) ((0 : Nat) : Int) (c.c0 : Int) (cvI c) (wvQ c) (rvQ c) (some optp) (some opt) uf ub = _
        from this]
      rfl

theorem aux_small (c : HCtx) (E : PyErr → Prop) (hkey : E .keyError) (optp opt : T3) (uf ub : Rat) (fuel : Nat)
    (l K cmem : Nat) (hK : K ≤ 1) (hs : cmem = 0 ∨ l = 0 ∨ l = 1) :
    ResOK E (hrevolveAuxOps c (fuel + 1) l K cmem)
      (hrevolve_aux (fuel + 1) (l : Int) (K : Int) (cmem : Int) (cvI c) (wvQ c) (rvQ c) (some optp) (some opt) uf ub) := by
  rw [hrevolveAuxOps, hrevolve_aux]
  simp only [bind, Except.bind, pure, Except.pure, reduceCtorEq, if_false, decide_false, Bool.false_eq_true, unwrap]
  by_cases hc0 : cmem = 0
  · have hc0' : (cmem : Int) = 0 := by omega
    rw [if_pos hc0, if_pos hc0']
    exact ResOK_err _ _ hkey
  have hc0' : ¬ (cmem : Int) = 0 := by omega
  rw [if_neg hc0, if_neg hc0']
  by_cases h0 : l = 0
  · have h0' : (l : Int) = 0 := by omega
    rw [if_pos h0, if_pos h0']
    rfl
  have h0' : ¬ (l : Int) = 0 := by omega
  rw [if_neg h0, if_neg h0']
  have h1 : l = 1 := by omega
  have h1' : (l : Int) = 1 := by omega
  rw [if_pos h1, if_pos h1']
  have hw : pyIndex (wvQ c) (0 : Int) = .ok (c.w 0 : Rat) := rfl
  have hr : pyIndex (rvQ c) (0 : Int) = .ok (c.rr 0 : Rat) := rfl
  have hrK : pyIndex (rvQ c) (K : Int) = .ok (c.rr K : Rat) := by
    have : K = 0 ∨ K = 1 := by omega
    rcases this with rfl | rfl <;> rfl
  simp only [hw, hr, hrK]
  have hiff : ((c.w 0 : Rat) + (c.rr 0 : Rat) < (c.rr K : Rat)) ↔ c.w 0 + c.rr 0 < c.rr K := by
    rw [← Nat.cast_add, Nat.cast_lt]
  by_cases ht : c.w 0 + c.rr 0 < c.rr K
  · simp only [if_pos (hiff.2 ht), decide_eq_true ht, if_true]
    rfl
  · simp only [if_neg (fun h => ht (hiff.1 h)), decide_eq_false ht, Bool.false_eq_true, if_false]
    have : K = 0 ∨ K = 1 := by omega
    rcases this with rfl | rfl <;> rfl

theorem foldl_append_flatMap {α β : Type} (B : α → List β) (xs : List α) : ∀ (init : List β),
    xs.foldl (fun s i => s ++ B i) init = init ++ xs.flatMap B := by
  induction xs with
  | nil => intro init; simp
  | cons x xs ih => intro init; rw [List.foldl_cons, ih, List.flatMap_cons, List.append_assoc]

theorem pyRangeDown_eq (l : Nat) :
    pyRangeDown ((l : Int) - 1) (-1) = (List.range l).reverse.map (fun k : Nat => (k : Int)) := by
  unfold pyRangeDown
  have : ((l : Int) - 1 - (-1)).toNat = l := by omega
  rw [this, List.range_eq_range', List.reverse_range', List.map_map, ← List.range_eq_range']
  apply List.map_congr_left
  intro k hk
  rw [List.mem_range] at hk
  simp only [Function.comp]
  omega

theorem loopBody_opPy (l k : Nat) (hk : k < l) (s : List PyOp) :
    (if (k : Int) ≠ (l : Int) - 1 then
      if (k : Int) + 1 ≠ 0 then
        (Except.ok (ForInStep.yield
          (s ++ [{ type := "Read", index := PyIdx.pair 0 0 }] ++
                    [{ type := "Forward", index := PyIdx.pair 0 ((k : Int) + 1) }] ++
                  [{ type := "Write_Forward", index := PyIdx.pair 0 ((k : Int) + 2) }] ++
                [{ type := "Forward", index := PyIdx.pair ((k : Int) + 1) ((k : Int) + 2) }] ++
              [{ type := "Backward", index := PyIdx.pair ((k : Int) + 2) ((k : Int) + 1) }] ++
            [{ type := "Discard_Forward", index := PyIdx.pair 0 ((k : Int) + 2) }])) : M (ForInStep (List PyOp)))
      else
        Except.ok (ForInStep.yield
          (s ++ [{ type := "Read", index := PyIdx.pair 0 0 }] ++
                  [{ type := "Write_Forward", index := PyIdx.pair 0 ((k : Int) + 2) }] ++
                [{ type := "Forward", index := PyIdx.pair ((k : Int) + 1) ((k : Int) + 2) }] ++
              [{ type := "Backward", index := PyIdx.pair ((k : Int) + 2) ((k : Int) + 1) }] ++
            [{ type := "Discard_Forward", index := PyIdx.pair 0 ((k : Int) + 2) }]))
    else
      if (k : Int) + 1 ≠ 0 then
        Except.ok (ForInStep.yield
          (s ++ [{ type := "Forward", index := PyIdx.pair 0 ((k : Int) + 1) }] ++
                  [{ type := "Write_Forward", index := PyIdx.pair 0 ((k : Int) + 2) }] ++
                [{ type := "Forward", index := PyIdx.pair ((k : Int) + 1) ((k : Int) + 2) }] ++
              [{ type := "Backward", index := PyIdx.pair ((k : Int) + 2) ((k : Int) + 1) }] ++
            [{ type := "Discard_Forward", index := PyIdx.pair 0 ((k : Int) + 2) }]))
      else
        Except.ok (ForInStep.yield
          (s ++ [{ type := "Write_Forward", index := PyIdx.pair 0 ((k : Int) + 2) }] ++
                [{ type := "Forward", index := PyIdx.pair ((k : Int) + 1) ((k : Int) + 2) }] ++
              [{ type := "Backward", index := PyIdx.pair ((k : Int) + 2) ((k : Int) + 1) }] ++
            [{ type := "Discard_Forward", index := PyIdx.pair 0 ((k : Int) + 2) }])))
    = .ok (.yield (s ++ (hrevolveLoopBody l k).map opPy)) := by
  have h2 : (k : Int) + 1 ≠ 0 := by omega
  rw [if_pos h2, if_pos h2]
  by_cases h1 : k = l - 1
  · have h1' : ¬ ((k : Int) ≠ (l : Int) - 1) := by omega
    rw [if_neg h1']
    simp [hrevolveLoopBody, h1, opPy, opKindStr, opIdxPy, Op.fwd, Op.wf, Op.bwd, Op.df]
  · have h1' : (k : Int) ≠ (l : Int) - 1 := by omega
    rw [if_pos h1']
    simp [hrevolveLoopBody, h1, opPy, opKindStr, opIdxPy, Op.fwd, Op.wf, Op.bwd, Op.df, Op.r]

theorem aux_loop (c : HCtx) (E : PyErr → Prop) (optp opt : T3) (uf ub : Rat) (fuel : Nat) (l K cmem : Nat) (hl2 : 2 ≤ l)
    (hK0 : K = 0) (hc1 : cmem = 1) :
    ResOK E (hrevolveAuxOps c (fuel + 1) l K cmem)
      (hrevolve_aux (fuel + 1) (l : Int) (K : Int) (cmem : Int) (cvI c) (wvQ c) (rvQ c) (some optp) (some opt) uf ub) := by
  rw [hrevolveAuxOps, hrevolve_aux]
  simp only [bind, Except.bind, pure, Except.pure, reduceCtorEq, if_false, decide_false, Bool.false_eq_true, unwrap]
  rw [if_neg (show ¬ cmem = 0 by omega), if_neg (show ¬ (cmem : Int) = 0 by omega),
    if_neg (show ¬ l = 0 by omega), if_neg (show ¬ (l : Int) = 0 by omega),
    if_neg (show ¬ l = 1 by omega), if_neg (show ¬ (l : Int) = 1 by omega),
    if_pos (show K = 0 ∧ cmem = 1 from ⟨hK0, hc1⟩),
    if_pos (show (K : Int) = 0 ∧ (cmem : Int) = 1 by omega)]
  rw [pyRangeDown_eq, forIn_yield (g := fun s (i : Int) => s ++ (hrevolveLoopBody l i.toNat).map opPy), List.foldl_map]
  · simp only [Int.toNat_natCast]
    rw [foldl_append_flatMap]
    show Except.ok _ = Except.ok _
    congr 1
    simp only [List.map_append, List.map_flatMap, List.nil_append, List.append_assoc]
    rfl
  · intro x hx s
    obtain ⟨k, hk, rfl⟩ := List.mem_map.1 hx
    rw [List.mem_reverse, List.mem_range] at hk
    rw [Int.toNat_natCast]
    exact loopBody_opPy l k hk s

theorem aux_K1 (c : HCtx) (P : FuelPre c) (lmax : Nat) (optp opt : T3) (uf ub : Rat) (huf : uf = (c.uf : Rat))
    (ht : TabsOK c lmax optp opt) (fuel : Nat)
    (ihR : RecP c P lmax optp opt uf ub fuel) (ihA : AuxP c P lmax optp opt uf ub fuel)
    (l K cmem : Nat) (hl : l ≤ lmax) (hl2 : 2 ≤ l) (hK1 : K = 1) (hc0 : cmem ≠ 0) (hcm : cmem ≤ c.c1)
    (hp : P.A (fuel + 1) l K cmem) :
    ResOK P.E (hrevolveAuxOps c (fuel + 1) l K cmem)
      (hrevolve_aux (fuel + 1) (l : Int) (K : Int) (cmem : Int) (cvI c) (wvQ c) (rvQ c) (some optp) (some opt) uf ub) := by
  rw [hrevolveAuxOps, hrevolve_aux]
  simp only [bind, Except.bind, pure, Except.pure, reduceCtorEq, if_false, decide_false, Bool.false_eq_true, unwrap]
  rw [if_neg hc0, if_neg (show ¬ (cmem : Int) = 0 by omega),
    if_neg (show ¬ l = 0 by omega), if_neg (show ¬ (l : Int) = 0 by omega),
    if_neg (show ¬ l = 1 by omega), if_neg (show ¬ (l : Int) = 1 by omega),
    if_neg (show ¬ (K = 0 ∧ cmem = 1) by omega),
    if_neg (show ¬ ((K : Int) = 0 ∧ (cmem : Int) = 1) by omega),
    if_neg (show ¬ (K : Int) = 0 by omega)]
  simp only [if_neg (show ¬ K = 0 by omega)]
  subst hK1
  subst huf
  have e10 : (1 : Nat) - 1 = 0 := rfl
  have ecv : cv c 0 = c.c0 := rfl
  rw [e10, ecv]
  rw [pyRange_eq2 1 (l - 1) 1 (l : Int) rfl (by omega),
    mapM_range_ok _ (fun j => erOf (oadd (oadd (oadd (some (j * c.uf)) (c.tab.opt 1 (l - j) (cmem - 1))) (some (c.rr 1)))
      (c.tab.optp 1 (j - 1) cmem))) 1 (l - 1)]
  swap
  · intro j hj1 hj2
    obtain ⟨ra, rb, a1, a2, a3⟩ := idx3 opt lmax c.c0 c.c1 ht.sh 1 (l - j) (cmem - 1) ((1 : Nat) : Int)
      ((l : Int) - (j : Int)) ((cmem : Int) - 1) rfl (by omega) (by omega) (le_refl _) (by omega)
      (show cmem - 1 ≤ c.c1 by omega)
    obtain ⟨rc, rd, b1, b2, b3⟩ := idx3 optp lmax c.c0 c.c1 ht.shp 1 (j - 1) cmem ((1 : Nat) : Int)
      ((j : Int) - 1) (cmem : Int) rfl (by omega) rfl (le_refl _) (by omega) (show cmem ≤ c.c1 from hcm)
    have hr : pyIndex (rvQ c) ((1 : Nat) : Int) = .ok (c.rr 1 : Rat) := rfl
    simp only [a1, a2, a3, b1, b2, b3, hr]
    rw [ht.val 1 (l - j) (cmem - 1) (le_refl _) (by omega) (show cmem - 1 ≤ c.c1 by omega),
      ht.valp 1 (j - 1) cmem (le_refl _) (by omega) hcm, fin_mul_cast, fin_erOf, ← erOf_oadd, ← erOf_oadd,
      ← erOf_oadd]
  have hmm : ∀ cand : Nat → Option Nat, List.map (fun j => erOf (cand j)) (List.range' 1 (l - 1)) =
      ((List.range' 1 (l - 1)).map cand).map erOf := by
    intro cand
    rw [List.map_map]
    rfl
  have hne : ∀ cand : Nat → Option Nat, (List.range' 1 (l - 1)).map cand ≠ [] := by
    intro cand h
    have := congrArg List.length h
    simp at this
    omega
  simp only [hmm, pyMin_erOf _ (hne _), argmin_er_refines _ (hne _)]
  obtain ⟨rows2, row2, b1, b2, b3⟩ := idx3 opt lmax c.c0 c.c1 ht.sh 0 l c.c0 (((1 : Nat) : Int) - 1) l c.c0 (by simp)
    rfl rfl (by omega) hl (le_refl _)
  have hc : pyIndex (cvI c) (((1 : Nat) : Int) - 1) = .ok (c.c0 : Int) := rfl
  simp only [hc, b1, b2, b3]
  rw [ht.val 0 l c.c0 (by omega) hl (le_refl _)]
  obtain ⟨hj1, hj2⟩ := argminO_range _ (hne (fun j =>
    oadd (oadd (oadd (some (j * c.uf)) (c.tab.opt 1 (l - j) (cmem - 1))) (some (c.rr 1))) (c.tab.optp 1 (j - 1) cmem)))
  rw [List.length_map, List.length_range'] at hj2
  generalize argminO ((List.range' 1 (l - 1)).map (fun j =>
    oadd (oadd (oadd (some (j * c.uf)) (c.tab.opt 1 (l - j) (cmem - 1))) (some (c.rr 1))) (c.tab.optp 1 (j - 1) cmem)))
    = jmin at hj1 hj2
  generalize ominList ((List.range' 1 (l - 1)).map (fun j =>
    oadd (oadd (oadd (some (j * c.uf)) (c.tab.opt 1 (l - j) (cmem - 1))) (some (c.rr 1))) (c.tab.optp 1 (j - 1) cmem)))
    = mn
  by_cases hcnd : olt mn (c.tab.opt 0 l c.c0) = true
  · rw [if_pos hcnd, if_pos ((erOf_lt _ _).2 hcnd)]
    have e1 : (l : Int) - (jmin : Int) = ((l - jmin : Nat) : Int) := by omega
    have e2 : (cmem : Int) - 1 = ((cmem - 1 : Nat) : Int) := by omega
    have e3 : (jmin : Int) - 1 = ((jmin - 1 : Nat) : Int) := by omega
    rw [e1, e2, e3]
    have hR := ihR (l - jmin) 1 (cmem - 1) (by omega) (le_refl _) (show cmem - 1 ≤ c.c1 by omega)
      (P.AR _ _ _ _ jmin hp hj1 hj2 (by intro h; omega))
    have hA := ihA (jmin - 1) 1 cmem (by omega) (le_refl _) hcm (P.AA _ _ _ _ jmin hp hj1 hj2 (by intro h; omega))
    cases hm1 : hrevolveRecOps c fuel (l - jmin) 1 (cmem - 1) with
    | none =>
      rw [hm1] at hR
      obtain ⟨e, he, hor⟩ := hR
      rw [he]
      exact ResOK_err _ e hor
    | some right =>
      rw [hm1] at hR
      rw [show hrevolve_recurse fuel ((l - jmin : Nat) : Int) ((1 : Nat) : Int) ((cmem - 1 : Nat) : Int) (cvI c) (wvQ c)
        (rvQ c) (some optp) (some opt) (c.uf : Rat) ub = _ from hR]
      cases hm2 : hrevolveAuxOps c fuel (jmin - 1) 1 cmem with
      | none =>
        rw [hm2] at hA
        obtain ⟨e, he, hor⟩ := hA
        rw [he]
        exact ResOK_err _ e hor
      | some left =>
        rw [hm2] at hA
        rw [show hrevolve_aux fuel ((jmin - 1 : Nat) : Int) ((1 : Nat) : Int) (cmem : Int) (cvI c) (wvQ c)
          (rvQ c) (some optp) (some opt) (c.uf : Rat) ub = _ from hA]
        show Except.ok _ = Except.ok _
        rw [seqShift_opPy_sh]
        simp only [List.map_append, List.nil_append]
        rfl
  · rw [if_neg hcnd, if_neg (fun h => hcnd ((erOf_lt _ _).1 h))]
    have := ihR l 0 c.c0 hl (by omega) (le_refl _) (P.AR0 _ _ _ hp)
    rw [show (((1 : Nat) : Int) - 1) = ((0 : Nat) : Int) by simp]
    cases hm : hrevolveRecOps c fuel l 0 c.c0 with
    | none =>
      rw [hm] at this
      obtain ⟨e, he, hor⟩ := this
      rw [he]
      exact ResOK_err _ e hor
    | some ops =>
      rw [hm] at this
      rw [show hrevolve_recurse fuel (l : Int) ((0 : Nat) : Int) (c.c0 : Int) (cvI c) (wvQ c) (rvQ c) (some optp) (some opt)
        (c.uf : Rat) ub = _ from this]
      rfl

theorem aux_K0 (c : HCtx) (P : FuelPre c) (lmax : Nat) (optp opt : T3) (uf ub : Rat) (huf : uf = (c.uf : Rat))
    (ht : TabsOK c lmax optp opt) (fuel : Nat)
    (ihR : RecP c P lmax optp opt uf ub fuel) (ihA : AuxP c P lmax optp opt uf ub fuel)
    (l K cmem : Nat) (hl : l ≤ lmax) (hl2 : 2 ≤ l) (hK0 : K = 0) (hc2 : 2 ≤ cmem) (hcm : cmem ≤ c.c0)
    (hp : P.A (fuel + 1) l K cmem) :
    ResOK P.E (hrevolveAuxOps c (fuel + 1) l K cmem)
      (hrevolve_aux (fuel + 1) (l : Int) (K : Int) (cmem : Int) (cvI c) (wvQ c) (rvQ c) (some optp) (some opt) uf ub) := by
  rw [hrevolveAuxOps, hrevolve_aux]
  simp only [bind, Except.bind, pure, Except.pure, reduceCtorEq, if_false, decide_false, Bool.false_eq_true, unwrap]
  rw [if_neg (show ¬ cmem = 0 by omega), if_neg (show ¬ (cmem : Int) = 0 by omega),
    if_neg (show ¬ l = 0 by omega), if_neg (show ¬ (l : Int) = 0 by omega),
    if_neg (show ¬ l = 1 by omega), if_neg (show ¬ (l : Int) = 1 by omega),
    if_neg (show ¬ (K = 0 ∧ cmem = 1) by omega),
    if_neg (show ¬ ((K : Int) = 0 ∧ (cmem : Int) = 1) by omega),
    if_pos (show (K : Int) = 0 by omega)]
  simp only [if_pos hK0]
  subst hK0
  subst huf
  rw [pyRange_eq2 1 (l - 1) 1 (l : Int) rfl (by omega),
    mapM_range_ok _ (fun j => erOf (oadd (oadd (oadd (some (j * c.uf)) (c.tab.opt 0 (l - j) (cmem - 1))) (some (c.rr 0)))
      (c.tab.optp 0 (j - 1) cmem))) 1 (l - 1)]
  swap
  · intro j hj1 hj2
    obtain ⟨ra, rb, a1, a2, a3⟩ := idx3 opt lmax c.c0 c.c1 ht.sh 0 (l - j) (cmem - 1) (0 : Int)
      ((l : Int) - (j : Int)) ((cmem : Int) - 1) rfl (by omega) (by omega) (by omega) (by omega)
      (show cmem - 1 ≤ c.c0 by omega)
    obtain ⟨rc, rd, b1, b2, b3⟩ := idx3 optp lmax c.c0 c.c1 ht.shp 0 (j - 1) cmem (0 : Int)
      ((j : Int) - 1) (cmem : Int) rfl (by omega) rfl (by omega) (by omega) (show cmem ≤ c.c0 from hcm)
    have hr : pyIndex (rvQ c) (0 : Int) = .ok (c.rr 0 : Rat) := rfl
    simp only [a1, a2, a3, b1, b2, b3, hr]
    rw [ht.val 0 (l - j) (cmem - 1) (by omega) (by omega) (show cmem - 1 ≤ c.c0 by omega),
      ht.valp 0 (j - 1) cmem (by omega) (by omega) hcm, fin_mul_cast, fin_erOf, ← erOf_oadd, ← erOf_oadd,
      ← erOf_oadd]
  have hmm : ∀ cand : Nat → Option Nat, List.map (fun j => erOf (cand j)) (List.range' 1 (l - 1)) =
      ((List.range' 1 (l - 1)).map cand).map erOf := by
    intro cand
    rw [List.map_map]
    rfl
  have hne : ∀ cand : Nat → Option Nat, (List.range' 1 (l - 1)).map cand ≠ [] := by
    intro cand h
    have := congrArg List.length h
    simp at this
    omega
  simp only [hmm, pyMin_erOf _ (hne _), argmin_er_refines _ (hne _)]
  obtain ⟨rows2, row2, b1, b2, b3⟩ := idx3 optp lmax c.c0 c.c1 ht.shp 0 l 1 (0 : Int) l (1 : Int) rfl
    rfl rfl (by omega) hl (show 1 ≤ c.c0 by omega)
  simp only [b1, b2, b3]
  rw [ht.valp 0 l 1 (by omega) hl (show 1 ≤ c.c0 by omega)]
  obtain ⟨hj1, hj2⟩ := argminO_range _ (hne (fun j =>
    oadd (oadd (oadd (some (j * c.uf)) (c.tab.opt 0 (l - j) (cmem - 1))) (some (c.rr 0))) (c.tab.optp 0 (j - 1) cmem)))
  rw [List.length_map, List.length_range'] at hj2
  generalize argminO ((List.range' 1 (l - 1)).map (fun j =>
    oadd (oadd (oadd (some (j * c.uf)) (c.tab.opt 0 (l - j) (cmem - 1))) (some (c.rr 0))) (c.tab.optp 0 (j - 1) cmem)))
    = jmin at hj1 hj2
  generalize ominList ((List.range' 1 (l - 1)).map (fun j =>
    oadd (oadd (oadd (some (j * c.uf)) (c.tab.opt 0 (l - j) (cmem - 1))) (some (c.rr 0))) (c.tab.optp 0 (j - 1) cmem)))
    = mn
  by_cases hcnd : olt mn (c.tab.optp 0 l 1) = true
  · rw [if_pos hcnd, if_pos ((erOf_lt _ _).2 hcnd)]
    have e1 : (l : Int) - (jmin : Int) = ((l - jmin : Nat) : Int) := by omega
    have e2 : (cmem : Int) - 1 = ((cmem - 1 : Nat) : Int) := by omega
    have e3 : (jmin : Int) - 1 = ((jmin - 1 : Nat) : Int) := by omega
    rw [e1, e2, e3]
    have hR := ihR (l - jmin) 0 (cmem - 1) (by omega) (by omega) (show cmem - 1 ≤ c.c0 by omega)
      (P.AR _ _ _ _ jmin hp hj1 hj2 (fun _ => hc2))
    have hA := ihA (jmin - 1) 0 cmem (by omega) (by omega) hcm (P.AA _ _ _ _ jmin hp hj1 hj2 (fun _ => hc2))
    rw [Nat.cast_zero] at hR hA
    cases hm1 : hrevolveRecOps c fuel (l - jmin) 0 (cmem - 1) with
    | none =>
      rw [hm1] at hR
      obtain ⟨e, he, hor⟩ := hR
      rw [he]
      exact ResOK_err _ e hor
    | some right =>
      rw [hm1] at hR
      rw [show hrevolve_recurse fuel ((l - jmin : Nat) : Int) (0 : Int) ((cmem - 1 : Nat) : Int) (cvI c) (wvQ c)
        (rvQ c) (some optp) (some opt) (c.uf : Rat) ub = _ from hR]
      cases hm2 : hrevolveAuxOps c fuel (jmin - 1) 0 cmem with
      | none =>
        rw [hm2] at hA
        obtain ⟨e, he, hor⟩ := hA
        rw [he]
        exact ResOK_err _ e hor
      | some left =>
        rw [hm2] at hA
        rw [show hrevolve_aux fuel ((jmin - 1 : Nat) : Int) (0 : Int) (cmem : Int) (cvI c) (wvQ c)
          (rvQ c) (some optp) (some opt) (c.uf : Rat) ub = _ from hA]
        dsimp only
        rw [seqShift_opPy_sh]
        have hS : ([] ++ [({ type := "Forward", index := PyIdx.pair 0 (jmin : Int) } : PyOp)] ++
            (shiftOps jmin right).map opPy ++ [({ type := "Read", index := PyIdx.pair 0 0 } : PyOp)] ++ left.map opPy) =
            ([Op.fwd 0 jmin] ++ shiftOps jmin right ++ [Op.r 0 0] ++ left).map opPy := by
          simp only [List.map_append, List.nil_append]
          rfl
        rw [hS]
        generalize hs : [Op.fwd 0 jmin] ++ shiftOps jmin right ++ [Op.r 0 0] ++ left = sq
        have hsne : sq ≠ [] := by
          rw [← hs]; simp
        rw [seqLast_opPy sq hsne]
        simp only []
        rw [List.getLast?_eq_some_getLast hsne, Option.map_some]
        by_cases hd : (sq.getLast hsne).kind = .discard
        · rw [if_neg (fun h => (opPy_type_discard _).1 h hd), if_neg (fun h => h (congrArg some hd))]
          rfl
        · rw [if_pos ((opPy_type_discard _).2 hd), if_pos (fun h => hd (Option.some.inj h))]
          show Except.ok _ = Except.ok _
          rw [List.map_append]
          rfl
  · rw [if_neg hcnd, if_neg (fun h => hcnd ((erOf_lt _ _).1 h))]
    have := ihA l 0 1 hl (by omega) (show 1 ≤ c.c0 by omega) (P.AA1 _ _ _ hp hc2)
    rw [Nat.cast_zero, Nat.cast_one] at this
    cases hm : hrevolveAuxOps c fuel l 0 1 with
    | none =>
      rw [hm] at this
      obtain ⟨e, he, hor⟩ := this
      rw [he]
      exact ResOK_err _ e hor
    | some ops =>
      rw [hm] at this
      rw [show hrevolve_aux fuel (l : Int) (0 : Int) (1 : Int) (cvI c) (wvQ c) (rvQ c) (some optp) (some opt)
        (c.uf : Rat) ub = _ from this]
      rfl

theorem aux_step (c : HCtx) (P : FuelPre c) (lmax : Nat) (optp opt : T3) (uf ub : Rat) (huf : uf = (c.uf : Rat))
    (ht : TabsOK c lmax optp opt) (fuel : Nat)
    (ihR : RecP c P lmax optp opt uf ub fuel) (ihA : AuxP c P lmax optp opt uf ub fuel) :
    AuxP c P lmax optp opt uf ub (fuel + 1) := by
  intro l K cmem hl hK hcm hp
  by_cases hs : cmem = 0 ∨ l = 0 ∨ l = 1
  · exact aux_small c P.E P.key optp opt uf ub fuel l K cmem hK hs
  have hK' : K = 0 ∨ K = 1 := by omega
  rcases hK' with hK0 | hK1
  · by_cases hc1 : cmem = 1
    · exact aux_loop c P.E optp opt uf ub fuel l K cmem (by omega) hK0 hc1
    · have hcm' : cmem ≤ c.c0 := by
        subst hK0; exact hcm
      exact aux_K0 c P lmax optp opt uf ub huf ht fuel ihR ihA l K cmem hl (by omega) hK0 (by omega) hcm' hp
  · have hcm' : cmem ≤ c.c1 := by
      subst hK1; exact hcm
    exact aux_K1 c P lmax optp opt uf ub huf ht fuel ihR ihA l K cmem hl (by omega) hK1 (by omega) hcm' hp

/-- **the mutual simulation** (same fuel on both sides): on a two-level context with natural costs, handed tables of the
right shape holding the model's entries on the index box, the generated `hrevolve_recurse` / `hrevolve_aux` return the
twin's operation list; where the twin answers `none`, the generated function raises `KeyError` or has run out of fuel. -/
theorem hrevolve_sim (c : HCtx) (P : FuelPre c) (lmax : Nat) (optp opt : T3) (uf ub : Rat) (huf : uf = (c.uf : Rat))
    (ht : TabsOK c lmax optp opt) : ∀ fuel,
    RecP c P lmax optp opt uf ub fuel ∧ AuxP c P lmax optp opt uf ub fuel := by
  intro fuel
  induction fuel with
  | zero =>
    constructor
    · intro l K cmem _ _ _ hp
      rw [hrevolveRecOps, hrevolve_recurse]
      exact ResOK_err _ _ (P.baseR _ _ _ hp)
    · intro l K cmem _ _ _ hp
      rw [hrevolveAuxOps, hrevolve_aux]
      exact ResOK_err _ _ (P.baseA _ _ _ hp)
  | succ fuel ih =>
    exact ⟨rec_step c P lmax optp opt uf ub ht fuel ih.1 ih.2, aux_step c P lmax optp opt uf ub huf ht fuel ih.1 ih.2⟩

/-- item 3, the success side for `hrevolve_recurse` -/
theorem hrevolve_recurse_refines (c : HCtx) (lmax : Nat) (optp opt : T3) (ub : Rat) (ht : TabsOK c lmax optp opt)
    (fuel l K cmem : Nat) (hl : l ≤ lmax) (hK : K ≤ 1) (hcm : cmem ≤ cv c K) (ops : List Ops.Op)
    (h : hrevolveRecOps c fuel l K cmem = some ops) :
    hrevolve_recurse fuel (l : Int) (K : Int) (cmem : Int) [(c.c0 : Int), (c.c1 : Int)] [(c.w 0 : Rat), (c.w 1 : Rat)]
      [(c.rr 0 : Rat), (c.rr 1 : Rat)] (some optp) (some opt) (c.uf : Rat) ub = .ok (ops.map opPy) := by
  have := (hrevolve_sim c (preAny c) lmax optp opt (c.uf : Rat) ub rfl ht fuel).1 l K cmem hl hK hcm trivial
  rw [h] at this
  exact this

/-- item 3, the success side for `hrevolve_aux` -/
theorem hrevolve_aux_refines (c : HCtx) (lmax : Nat) (optp opt : T3) (ub : Rat) (ht : TabsOK c lmax optp opt)
    (fuel l K cmem : Nat) (hl : l ≤ lmax) (hK : K ≤ 1) (hcm : cmem ≤ cv c K) (ops : List Ops.Op)
    (h : hrevolveAuxOps c fuel l K cmem = some ops) :
    hrevolve_aux fuel (l : Int) (K : Int) (cmem : Int) [(c.c0 : Int), (c.c1 : Int)] [(c.w 0 : Rat), (c.w 1 : Rat)]
      [(c.rr 0 : Rat), (c.rr 1 : Rat)] (some optp) (some opt) (c.uf : Rat) ub = .ok (ops.map opPy) := by
  have := (hrevolve_sim c (preAny c) lmax optp opt (c.uf : Rat) ub rfl ht fuel).2 l K cmem hl hK hcm trivial
  rw [h] at this
  exact this

/-- non-vacuity of the hypotheses of item 3: a context, tables and arguments for which they hold -/
example : ∃ ops, hrevolveRecOps (hrevolveCtx 3 2 1 ⟨1, 1, 1, 1⟩) 20 2 1 1 = some ops ∧ (2 : Nat) ≤ 2 ∧ (1 : Nat) ≤ 1 ∧
    1 ≤ cv (hrevolveCtx 3 2 1 ⟨1, 1, 1, 1⟩) 1 := by
  obtain ⟨ops, _, hops, _⟩ := revolve_iterator_hrevolve 3 2 1 ⟨1, 1, 1, 1⟩ (by decide) (by decide)
  exact ⟨ops, hops, by decide, by decide, by decide⟩

/-- item 3, the error side: where the twin answers `none` the generated function raises, and the exception is `KeyError`
or the exhaustion of the fuel -/
theorem hrevolve_recurse_error (c : HCtx) (lmax : Nat) (optp opt : T3) (ub : Rat) (ht : TabsOK c lmax optp opt)
    (fuel l K cmem : Nat) (hl : l ≤ lmax) (hK : K ≤ 1) (hcm : cmem ≤ cv c K)
    (h : hrevolveRecOps c fuel l K cmem = none) :
    ∃ e, hrevolve_recurse fuel (l : Int) (K : Int) (cmem : Int) [(c.c0 : Int), (c.c1 : Int)] [(c.w 0 : Rat), (c.w 1 : Rat)]
      [(c.rr 0 : Rat), (c.rr 1 : Rat)] (some optp) (some opt) (c.uf : Rat) ub = .error e ∧
      (e = .keyError ∨ e = .fuel) := by
  have := (hrevolve_sim c (preAny c) lmax optp opt (c.uf : Rat) ub rfl ht fuel).1 l K cmem hl hK hcm trivial
  rw [h] at this
  exact this

theorem hrevolve_aux_error (c : HCtx) (lmax : Nat) (optp opt : T3) (ub : Rat) (ht : TabsOK c lmax optp opt)
    (fuel l K cmem : Nat) (hl : l ≤ lmax) (hK : K ≤ 1) (hcm : cmem ≤ cv c K)
    (h : hrevolveAuxOps c fuel l K cmem = none) :
    ∃ e, hrevolve_aux fuel (l : Int) (K : Int) (cmem : Int) [(c.c0 : Int), (c.c1 : Int)] [(c.w 0 : Rat), (c.w 1 : Rat)]
      [(c.rr 0 : Rat), (c.rr 1 : Rat)] (some optp) (some opt) (c.uf : Rat) ub = .error e ∧
      (e = .keyError ∨ e = .fuel) := by
  have := (hrevolve_sim c (preAny c) lmax optp opt (c.uf : Rat) ub rfl ht fuel).2 l K cmem hl hK hcm trivial
  rw [h] at this
  exact this

/-- **item 3, the error side, exact**: with fuel beyond the depth of the recursion (`4·l + 3·K + 4`), where the twin answers
`none` the generated `hrevolve_recurse` raises `KeyError` (`none ↦ .error .keyError`) -/
theorem hrevolve_recurse_keyError (c : HCtx) (lmax : Nat) (optp opt : T3) (ub : Rat) (ht : TabsOK c lmax optp opt)
    (fuel l K cmem : Nat) (hl : l ≤ lmax) (hK : K ≤ 1) (hcm : cmem ≤ cv c K) (hf : 4 * l + 3 * K + 4 ≤ fuel)
    (h : hrevolveRecOps c fuel l K cmem = none) :
    hrevolve_recurse fuel (l : Int) (K : Int) (cmem : Int) [(c.c0 : Int), (c.c1 : Int)] [(c.w 0 : Rat), (c.w 1 : Rat)]
      [(c.rr 0 : Rat), (c.rr 1 : Rat)] (some optp) (some opt) (c.uf : Rat) ub = .error .keyError := by
  have := (hrevolve_sim c (preExact c) lmax optp opt (c.uf : Rat) ub rfl ht fuel).1 l K cmem hl hK hcm hf
  rw [h] at this
  obtain ⟨e, he, rfl⟩ := this
  exact he

/-- the same for `hrevolve_aux` (fuel `≥ 4·l + 3·K + 3`) -/
theorem hrevolve_aux_keyError (c : HCtx) (lmax : Nat) (optp opt : T3) (ub : Rat) (ht : TabsOK c lmax optp opt)
    (fuel l K cmem : Nat) (hl : l ≤ lmax) (hK : K ≤ 1) (hcm : cmem ≤ cv c K) (hf : 4 * l + 3 * K + 3 ≤ fuel)
    (h : hrevolveAuxOps c fuel l K cmem = none) :
    hrevolve_aux fuel (l : Int) (K : Int) (cmem : Int) [(c.c0 : Int), (c.c1 : Int)] [(c.w 0 : Rat), (c.w 1 : Rat)]
      [(c.rr 0 : Rat), (c.rr 1 : Rat)] (some optp) (some opt) (c.uf : Rat) ub = .error .keyError := by
  have hp : (preExact c).A fuel l K cmem := by
    show 4 * l + 3 * K + 2 + (if 2 ≤ cmem then 1 else 0) ≤ fuel
    split <;> omega
  have := (hrevolve_sim c (preExact c) lmax optp opt (c.uf : Rat) ub rfl ht fuel).2 l K cmem hl hK hcm hp
  rw [h] at this
  obtain ⟨e, he, rfl⟩ := this
  exact he

/-- hence, with that much fuel, the generated function never runs out of fuel: it returns the twin's list or raises
`KeyError` -/
theorem hrevolve_recurse_total (c : HCtx) (lmax : Nat) (optp opt : T3) (ub : Rat) (ht : TabsOK c lmax optp opt)
    (fuel l K cmem : Nat) (hl : l ≤ lmax) (hK : K ≤ 1) (hcm : cmem ≤ cv c K) (hf : 4 * l + 3 * K + 4 ≤ fuel) :
    hrevolve_recurse fuel (l : Int) (K : Int) (cmem : Int) [(c.c0 : Int), (c.c1 : Int)] [(c.w 0 : Rat), (c.w 1 : Rat)]
      [(c.rr 0 : Rat), (c.rr 1 : Rat)] (some optp) (some opt) (c.uf : Rat) ub =
      match hrevolveRecOps c fuel l K cmem with
      | some ops => .ok (ops.map opPy)
      | none => .error .keyError := by
  cases h : hrevolveRecOps c fuel l K cmem with
  | none => exact hrevolve_recurse_keyError c lmax optp opt ub ht fuel l K cmem hl hK hcm hf h
  | some ops => exact hrevolve_recurse_refines c lmax optp opt ub ht fuel l K cmem hl hK hcm ops h

/-- non-vacuity of the error side: `hrevolve_recurse(2, 0, 0)` is a `KeyError` in the twin, and in the generated text -/
example : hrevolveRecOps (hrevolveCtx 3 2 1 ⟨1, 1, 1, 1⟩) 12 2 0 0 = none ∧ 4 * 2 + 3 * 0 + 4 ≤ 12 := by
  constructor
  · rw [hrevolveRecOps]; rfl
  · decide
example : hrevolveRecOps (hrevolveCtx 3 2 1 ⟨1, 1, 1, 1⟩) 1 2 0 0 = none := by
  rw [hrevolveRecOps]; rfl
example (optp opt : T3) : hrevolve_recurse 1 2 0 0 [2, 1] [0, 1] [0, 1] (some optp) (some opt) 1 1 = .error .keyError := by
  rw [hrevolve_recurse]; rfl

/-! ## 4. the top level `hrevolve` -/

/-- more fuel does not change a result of the twin -/
theorem hrevolveOps_mono (c : HCtx) : ∀ fuel,
    (∀ l K cm ops, hrevolveRecOps c fuel l K cm = some ops → hrevolveRecOps c (fuel + 1) l K cm = some ops) ∧
    (∀ l K cm ops, hrevolveAuxOps c fuel l K cm = some ops → hrevolveAuxOps c (fuel + 1) l K cm = some ops) := by
  intro fuel
  induction fuel with
  | zero =>
    constructor
    · intro l K cm ops h; rw [hrevolveRecOps] at h; cases h
    · intro l K cm ops h; rw [hrevolveAuxOps] at h; cases h
  | succ fuel ih =>
    obtain ⟨ihR, ihA⟩ := ih
    constructor
    · intro l K cm ops h
      rw [hrevolveRecOps] at h ⊢
      by_cases h0 : l = 0
      · rw [if_pos h0] at h ⊢; exact h
      rw [if_neg h0] at h ⊢
      by_cases hk : K = 0 ∧ cm = 0
      · rw [if_pos hk] at h; cases h
      rw [if_neg hk] at h ⊢
      by_cases h1 : l = 1
      · rw [if_pos h1] at h ⊢; exact h
      rw [if_neg h1] at h ⊢
      by_cases hK : K = 0
      · rw [if_pos hK] at h ⊢
        cases hm : hrevolveAuxOps c fuel l 0 cm with
        | none => rw [hm] at h; cases h
        | some aux => rw [hm] at h; rw [ihA _ _ _ _ hm]; exact h
      rw [if_neg hK] at h ⊢
      by_cases ht : olt (oadd (some (c.w K)) (c.tab.optp K l cm)) (c.tab.opt (K - 1) l (cv c (K - 1))) = true
      · rw [if_pos ht] at h ⊢
        cases hm : hrevolveAuxOps c fuel l K cm with
        | none => rw [hm] at h; cases h
        | some aux => rw [hm] at h; rw [ihA _ _ _ _ hm]; exact h
      · rw [if_neg ht] at h ⊢
        exact ihR _ _ _ _ h
    · intro l K cm ops h
      rw [hrevolveAuxOps] at h ⊢
      by_cases hc : cm = 0
      · rw [if_pos hc] at h; cases h
      rw [if_neg hc] at h ⊢
      by_cases h0 : l = 0
      · rw [if_pos h0] at h ⊢; exact h
      rw [if_neg h0] at h ⊢
      by_cases h1 : l = 1
      · rw [if_pos h1] at h ⊢; exact h
      rw [if_neg h1] at h ⊢
      by_cases hk : K = 0 ∧ cm = 1
      · rw [if_pos hk] at h ⊢; exact h
      rw [if_neg hk] at h ⊢
      dsimp only at h ⊢
      by_cases hK : K = 0
      · rw [if_pos hK] at h ⊢
        split at h
        · rename_i hs
          rw [if_pos hs]
          generalize argminO _ = j at h ⊢
          cases hm1 : hrevolveRecOps c fuel (l - j) 0 (cm - 1) with
          | none => rw [hm1] at h; cases h
          | some right =>
            rw [hm1] at h
            rw [ihR _ _ _ _ hm1]
            cases hm2 : hrevolveAuxOps c fuel (j - 1) 0 cm with
            | none => rw [hm2] at h; cases h
            | some left =>
              rw [hm2] at h
              rw [ihA _ _ _ _ hm2]
              exact h
        · rename_i hs
          rw [if_neg hs]
          exact ihA _ _ _ _ h
      · rw [if_neg hK] at h ⊢
        split at h
        · rename_i hs
          rw [if_pos hs]
          generalize argminO _ = j at h ⊢
          cases hm1 : hrevolveRecOps c fuel (l - j) K (cm - 1) with
          | none => rw [hm1] at h; cases h
          | some right =>
            rw [hm1] at h
            rw [ihR _ _ _ _ hm1]
            cases hm2 : hrevolveAuxOps c fuel (j - 1) K cm with
            | none => rw [hm2] at h; cases h
            | some left =>
              rw [hm2] at h
              rw [ihA _ _ _ _ hm2]
              exact h
        · rename_i hs
          rw [if_neg hs]
          exact ihR _ _ _ _ h

theorem hrevolveRecOps_mono (c : HCtx) (f f' l K cm : Nat) (ops : List Ops.Op) (hf : f ≤ f')
    (h : hrevolveRecOps c f l K cm = some ops) : hrevolveRecOps c f' l K cm = some ops := by
  induction f', hf using Nat.le_induction with
  | base => exact h
  | succ n _ ih => exact (hrevolveOps_mono c n).1 _ _ _ _ ih

/-- both tables of a pair have `lmax + 1` rows of `c + 1` entries -/
def Shape2 (lmax c : Nat) (p : Tab2 × Tab2) : Prop := RC.Shape lmax c p.1 ∧ RC.Shape lmax c p.2

theorem Shape2.s2 {lmax c : Nat} {p : Tab2 × Tab2} (h : Shape2 lmax c p) (a b a' b' : Nat) (v v' : Option Nat) :
    Shape2 lmax c (Ckpt.s2 p.1 a b v, Ckpt.s2 p.2 a' b' v') := ⟨h.1.s2 _ _ _, h.2.s2 _ _ _⟩

theorem hBorder_shape2 (lmax w0 r0 ub uf k c : Nat) (tp t : Tab2) (h : Shape2 lmax c (tp, t)) :
    Shape2 lmax c (hBorder lmax w0 r0 ub uf k c tp t) := by
  unfold hBorder
  apply foldl_inv (Shape2 lmax c)
  · intro s m _ hs
    show Shape2 lmax c (if (m = 0 ∧ k = 0) ∨ lmax < 1 then s else _)
    split
    · exact hs
    · exact hs.s2 _ _ _ _ _ _
  · apply foldl_inv (Shape2 lmax c)
    · intro s m _ hs
      exact hs.s2 _ _ _ _ _ _
    · exact h

theorem hBlank_shape2 (lmax c : Nat) : Shape2 lmax c (hBlank lmax c, hBlank lmax c) :=
  ⟨RC.hBlank_shape lmax c, RC.hBlank_shape lmax c⟩

theorem hLevel0_shape2 (lmax c0 w0 r0 ub uf : Nat) : Shape2 lmax c0 (hLevel0 lmax c0 w0 r0 ub uf) := by
  unfold hLevel0
  apply foldl_inv (Shape2 lmax c0)
  · intro s m _ hs
    apply foldl_inv (Shape2 lmax c0)
    · intro s l _ hs
      exact hs.s2 _ _ _ _ _ _
    · exact hs
  · apply foldl_inv (Shape2 lmax c0)
    · intro s l _ hs
      exact hs.s2 _ _ _ _ _ _
    · exact hBorder_shape2 _ _ _ _ _ _ _ _ _ (hBlank_shape2 lmax c0)

theorem hLevel1_shape2 (lmax c0 c1 w1 r1 uf : Nat) (o0 : Tab2) (init : Tab2 × Tab2) (h : Shape2 lmax c1 init) :
    Shape2 lmax c1 (hLevel1 lmax c0 c1 w1 r1 uf o0 init) := by
  unfold hLevel1
  apply foldl_inv (Shape2 lmax c1)
  · intro s m _ hs
    apply foldl_inv (Shape2 lmax c1)
    · intro s l _ hs
      exact hs.s2 _ _ _ _ _ _
    · exact hs
  · refine ⟨h.1, ?_⟩
    apply foldl_inv (RC.Shape lmax c1)
    · intro s l _ hs
      exact hs.s2 _ _ _
    · exact h.2

theorem shape3_enc (a b : Tab2) (lmax c0 c1 : Nat) (ha : RC.Shape lmax c0 a) (hb : RC.Shape lmax c1 b) :
    Shape3 [enc a, enc b] lmax c0 c1 := by
  have hrow : ∀ (t : Tab2) (c l : Nat) (row : List ER), RC.Shape lmax c t → (enc t)[l]? = some row →
      row.length = c + 1 := by
    intro t c l row hs h
    unfold enc at h
    rw [List.getElem?_map, Array.getElem?_toList] at h
    cases hr : t[l]? with
    | none => rw [hr] at h; cases h
    | some r =>
      rw [hr] at h
      injection h with h
      rw [← h]
      unfold encRow
      rw [List.length_map, Array.length_toList]
      exact hs.2 l r hr
  have hlen : ∀ (t : Tab2) (c : Nat), RC.Shape lmax c t → (enc t).length = lmax + 1 := by
    intro t c hs
    unfold enc
    rw [List.length_map, Array.length_toList]
    exact hs.1
  refine ⟨rfl, ?_, ?_⟩
  · intro k rows h
    rcases k with _ | _ | k
    · injection h with h; rw [← h]; exact hlen a c0 ha
    · injection h with h; rw [← h]; exact hlen b c1 hb
    · cases h
  · intro k rows l row h h2
    rcases k with _ | _ | k
    · injection h with h; rw [← h] at h2; exact hrow a c0 l row ha h2
    · injection h with h; rw [← h] at h2; exact hrow b c1 l row hb h2
    · cases h

/-- the tables returned by `get_hopt_table` are what the recursion needs -/
theorem tabsOK_hoptResult (N c0 c1 : Nat) (c : Costs) :
    TabsOK (hrevolveCtx N c0 c1 c) (N - 1) (hoptResult (N - 1) c0 c1 0 c.wd 0 c.rd c.ub c.uf).1
      (hoptResult (N - 1) c0 c1 0 c.wd 0 c.rd c.ub c.uf).2 := by
  have h0 := hLevel0_shape2 (N - 1) c0 0 0 c.ub c.uf
  have h1 := hLevel1_shape2 (N - 1) c0 c1 c.wd c.rd c.uf (hLevel0 (N - 1) c0 0 0 c.ub c.uf).2
    (hBorder (N - 1) 0 0 c.ub c.uf 1 c1 (hBlank (N - 1) c1) (hBlank (N - 1) c1))
    (hBorder_shape2 _ _ _ _ _ _ _ _ _ (hBlank_shape2 (N - 1) c1))
  refine ⟨shape3_enc _ _ _ _ _ h0.1 h1.1, shape3_enc _ _ _ _ _ h0.2 h1.2, ?_, ?_⟩
  · intro k l m hk _ _
    exact (hoptResult_spec (N - 1) c0 c1 0 c.wd 0 c.rd c.ub c.uf k l m hk).2
  · intro k l m hk _ _
    exact (hoptResult_spec (N - 1) c0 c1 0 c.wd 0 c.rd c.ub c.uf k l m hk).1

/-- non-vacuity of `TabsOK` (the table hypothesis of item 3): the tables the generated `get_hopt_table` returns -/
example := tabsOK_hoptResult 3 2 1 ⟨1, 1, 1, 1⟩

/-- the first call (`hoptp = hopt = None`) builds the tables and continues as a call that was handed them -/
theorem hrevolve_recurse_none (f : Nat) (l K cmem : Int) (cvect : List Int) (wvect rvect : List Rat) (uf ub : Rat) :
    hrevolve_recurse (f + 1) l K cmem cvect wvect rvect none none uf ub =
      match get_hopt_table l cvect wvect rvect ub uf with
      | .error e => .error e
      | .ok t => hrevolve_recurse (f + 1) l K cmem cvect wvect rvect (some t.1) (some t.2) uf ub := by
  cases hg : get_hopt_table l cvect wvect rvect ub uf with
  | error e =>
    rw [hrevolve_recurse]
    simp only [bind, Except.bind, pure, Except.pure, if_true, hg]
  | ok t =>
    simp only [hrevolve_recurse]
    simp only [bind, Except.bind, pure, Except.pure, if_true, hg, reduceCtorEq, if_false, decide_false,
      Bool.false_eq_true]

/-- **the top level**: for `N ≥ 1`, `c0 ≥ 1` and at least `4·N + 8` units of fuel, the generated
`hrevolve(max_n - 1, (c0, c1), [0, wd], [0, rd], uf, ub)` returns the twin's operation list -/
theorem hrevolve_refines (N c0 c1 : Nat) (c : Costs) (hN : 1 ≤ N) (hc0 : 1 ≤ c0) (ops : List Ops.Op)
    (h : hrevolveOpsTop N c0 c1 c = some ops) (fuel : Nat) (hf : 4 * N + 8 ≤ fuel) :
    hrevolve fuel ((N : Int) - 1) [(c0 : Int), (c1 : Int)] [0, (c.wd : Rat)] [0, (c.rd : Rat)] (c.uf : Rat) (c.ub : Rat)
      = .ok (ops.map opPy) := by
  obtain ⟨f, rfl⟩ : ∃ f, fuel = f + 1 := ⟨fuel - 1, by omega⟩
  unfold hrevolveOpsTop at h
  have h' := hrevolveRecOps_mono _ _ (f + 1) _ _ _ _ hf h
  have hsim := hrevolve_recurse_refines (hrevolveCtx N c0 c1 c) (N - 1) _ _ (c.ub : Rat) (tabsOK_hoptResult N c0 c1 c)
    (f + 1) (N - 1) 1 c1 (le_refl _) (le_refl _) (le_refl _) ops h'
  unfold hrevolve
  have hidx : pyIndex [(c0 : Int), (c1 : Int)] (-(1 : Int)) = .ok (c1 : Int) := rfl
  simp only [bind, Except.bind, pure, Except.pure, hidx]
  rw [hrevolve_recurse_none]
  have hl : (N : Int) - 1 = ((N - 1 : Nat) : Int) := by omega
  have hg := hopt_run (N - 1) c0 c1 0 c.wd 0 c.rd c.ub c.uf
  rw [if_pos (Or.inl hc0), Nat.cast_zero] at hg
  rw [hl, hg]
  simp only []
  have hw : [(((hrevolveCtx N c0 c1 c).w 0 : Nat) : Rat), (((hrevolveCtx N c0 c1 c).w 1 : Nat) : Rat)] = [0, (c.wd : Rat)] := by
    show [((0 : Nat) : Rat), (c.wd : Rat)] = _
    rw [Nat.cast_zero]
  have hr : [(((hrevolveCtx N c0 c1 c).rr 0 : Nat) : Rat), (((hrevolveCtx N c0 c1 c).rr 1 : Nat) : Rat)] = [0, (c.rd : Rat)] := by
    show [((0 : Nat) : Rat), (c.rd : Rat)] = _
    rw [Nat.cast_zero]
  rw [hw, hr] at hsim
  have hK : (([(c0 : Int), (c1 : Int)].length : Nat) : Int) - 1 = ((1 : Nat) : Int) := by
    simp
  have hsim' : hrevolve_recurse (f + 1) ((N - 1 : Nat) : Int) ((1 : Nat) : Int) (c1 : Int) [(c0 : Int), (c1 : Int)]
      [0, (c.wd : Rat)] [0, (c.rd : Rat)] (some (hoptResult (N - 1) c0 c1 0 c.wd 0 c.rd c.ub c.uf).1)
      (some (hoptResult (N - 1) c0 c1 0 c.wd 0 c.rd c.ub c.uf).2) (c.uf : Rat) (c.ub : Rat) = .ok (ops.map opPy) := hsim
  rw [hK, hsim']

/-- the hypotheses of `hrevolve_refines` hold for all valid parameters: the twin's sequence exists -/
theorem hrevolve_refines_total (N c0 c1 : Nat) (c : Costs) (hN : 1 ≤ N) (hc0 : 1 ≤ c0) :
    ∃ ops, hrevolveOpsTop N c0 c1 c = some ops ∧ ∀ fuel, 4 * N + 8 ≤ fuel →
      hrevolve fuel ((N : Int) - 1) [(c0 : Int), (c1 : Int)] [0, (c.wd : Rat)] [0, (c.rd : Rat)] (c.uf : Rat) (c.ub : Rat)
        = .ok (ops.map opPy) := by
  obtain ⟨ops, _, hops, _⟩ := revolve_iterator_hrevolve N c0 c1 c hN hc0
  exact ⟨ops, hops, fun fuel hf => hrevolve_refines N c0 c1 c hN hc0 ops hops fuel hf⟩

example : (1 : Nat) ≤ 3 ∧ (1 : Nat) ≤ 2 ∧ 4 * 3 + 8 ≤ 20 := by decide
example := hrevolve_refines_total 3 2 1 ⟨1, 1, 1, 1⟩ (by decide) (by decide)

/-! ## 5. builder + iterator, both as generated from the source -/

/-- `HRevolve(max_n, c0, c1, uf, ub, wd, rd)` (hrevolve.py:230-236) and its iteration: the GENERATED builder
(`schedule = list(hrevolve(max_n - 1, (c0, c1), [0, wd], [0, rd], uf, ub))`, fuel `fuelB`), then the generated
`CheckpointSchedule.__init__` and `RevolveCheckpointSchedule._iterator` on that schedule (`revolve_run`, fuel `fuelI`) -/
def hrevolve_full_run (fuelB fuelI : Nat) (max_n c0 c1 : Int) (uf ub wd rd : Rat) : M (List PyEv) := do
  let schedule ← hrevolve fuelB (max_n - 1) [c0, c1] [0, wd] [0, rd] uf ub
  revolve_run fuelI max_n schedule

/-- the composition is the iterator run on the twin's sequence -/
theorem hrevolve_full_run_eq (N c0 c1 : Nat) (c : Costs) (hN : 1 ≤ N) (hc0 : 1 ≤ c0) (ops : List Ops.Op)
    (hops : hrevolveOpsTop N c0 c1 c = some ops) (fuelB fuelI : Nat) (hB : 4 * N + 8 ≤ fuelB) :
    hrevolve_full_run fuelB fuelI (N : Int) (c0 : Int) (c1 : Int) (c.uf : Rat) (c.ub : Rat) (c.wd : Rat) (c.rd : Rat) =
      revolve_run fuelI (N : Int) (ops.map opPy) := by
  unfold hrevolve_full_run
  rw [hrevolve_refines N c0 c1 c hN hc0 ops hops fuelB hB]
  rfl

/-- **HRevolve, builder and iterator both as translated from the source**: for all valid parameters
(`max_n = N ≥ 1`, `snapshots_in_ram = c0 ≥ 1`, `uf, ub > 0`) the generated `hrevolve` (fuel `≥ 4·N + 8`) followed by the
generated `_iterator` (fuel: one more than the number of operations built) returns an event list whose observations the
checking executor accepts (no violation of any tag, complete) with `c0` RAM units, `c1` DISK units and one adjoint
calculation.  The stream is the stream model `hrevolveEvs` the property theorems are about (`hrevolve_full_run_model`). -/
theorem source_hrevolve_accepted_full (N c0 c1 : Nat) (c : Costs) (hv : validRevolve N c0 c.uf c.ub = true) (k : Nat) :
    ∃ ops, hrevolveOpsTop N c0 c1 c = some ops ∧ ∀ fuelB fuelI, 4 * N + 8 ≤ fuelB → ops.length + 1 ≤ fuelI →
      ∃ pevs, hrevolve_full_run fuelB fuelI (N : Int) (c0 : Int) (c1 : Int) (c.uf : Rat) (c.ub : Rat) (c.wd : Rat)
          (c.rd : Rat) = .ok pevs ∧
        Accepted (cfgHRevolve c0 c1 N) k (obsOfPy false N pevs) := by
  obtain ⟨hN, hc0, _, _⟩ := (validRevolve_iff _ _ _ _).1 hv
  obtain ⟨ops, hops, h⟩ := source_hrevolve_accepted N c0 c1 c hv k
  refine ⟨ops, hops, fun fuelB fuelI hB hI => ?_⟩
  obtain ⟨pevs, hp, ha⟩ := h fuelI hI
  exact ⟨pevs, (hrevolve_full_run_eq N c0 c1 c hN hc0 ops hops fuelB fuelI hB).trans hp, ha⟩

/-- with one fuel bound for both stages -/
theorem source_hrevolve_accepted_full' (N c0 c1 : Nat) (c : Costs) (hv : validRevolve N c0 c.uf c.ub = true) (k : Nat) :
    ∃ F, ∀ fuel, F ≤ fuel →
      ∃ pevs, hrevolve_full_run fuel fuel (N : Int) (c0 : Int) (c1 : Int) (c.uf : Rat) (c.ub : Rat) (c.wd : Rat)
          (c.rd : Rat) = .ok pevs ∧
        Accepted (cfgHRevolve c0 c1 N) k (obsOfPy false N pevs) := by
  obtain ⟨ops, _, h⟩ := source_hrevolve_accepted_full N c0 c1 c hv k
  exact ⟨max (4 * N + 8) (ops.length + 1), fun fuel hf => h fuel fuel (le_trans (le_max_left _ _) hf)
    (le_trans (le_max_right _ _) hf)⟩

/-- the properties discharged for builder + iterator: no violation of any of the tags the executor checks, and the
stream is complete -/
theorem source_hrevolve_C01_C18_full (N c0 c1 : Nat) (c : Costs) (hv : validRevolve N c0 c.uf c.ub = true) :
    ∃ ops, hrevolveOpsTop N c0 c1 c = some ops ∧ ∀ fuelB fuelI, 4 * N + 8 ≤ fuelB → ops.length + 1 ≤ fuelI →
      ∃ pevs, hrevolve_full_run fuelB fuelI (N : Int) (c0 : Int) (c1 : Int) (c.uf : Rat) (c.ub : Rat) (c.wd : Rat)
          (c.rd : Rat) = .ok pevs ∧
        NoViolation (cfgHRevolve c0 c1 N) (obsOfPy false N pevs) ∧
        finished (cfgHRevolve c0 c1 N) (run (cfgHRevolve c0 c1 N) (obsOfPy false N pevs)).1 = true := by
  obtain ⟨ops, hops, h⟩ := source_hrevolve_accepted_full N c0 c1 c hv 1
  refine ⟨ops, hops, fun fuelB fuelI hB hI => ?_⟩
  obtain ⟨pevs, hp, ha⟩ := h fuelB fuelI hB hI
  exact ⟨pevs, hp, ha.noViolation, ha.finished rfl⟩

/-- the stream of builder + iterator is the stream model `hrevolveEvs` (the model of the property theorems) -/
theorem hrevolve_full_run_model (N c0 c1 : Nat) (c : Costs) (hN : 1 ≤ N) (hc0 : 1 ≤ c0) :
    ∃ ops evs, hrevolveOpsTop N c0 c1 c = some ops ∧ hrevolveEvs N c0 c1 c = .ok evs ∧
      ∀ fuelB fuelI, 4 * N + 8 ≤ fuelB → ops.length + 1 ≤ fuelI →
        hrevolve_full_run fuelB fuelI (N : Int) (c0 : Int) (c1 : Int) (c.uf : Rat) (c.ub : Rat) (c.wd : Rat) (c.rd : Rat) =
          .ok (markLast (evs.map (evPy · false))) := by
  obtain ⟨ops, evs, hops, hev, hrun⟩ := revolve_iterator_hrevolve N c0 c1 c hN hc0
  refine ⟨ops, evs, hops, hev, fun fuelB fuelI hB hI => ?_⟩
  rw [hrevolve_full_run_eq N c0 c1 c hN hc0 ops hops fuelB fuelI hB, revolve_run_eq fuelI N _ hN]
  exact hrun fuelI hI

example : validRevolve 3 2 (⟨1, 1, 1, 1⟩ : Costs).uf (⟨1, 1, 1, 1⟩ : Costs).ub = true := by decide
example := source_hrevolve_accepted_full 3 2 1 ⟨1, 1, 1, 1⟩ (by decide) 1
example := source_hrevolve_C01_C18_full 3 2 1 ⟨1, 1, 1, 1⟩ (by decide)
example := hrevolve_full_run_model 3 2 1 ⟨1, 1, 1, 1⟩ (by decide) (by decide)

end Ckpt.Py

#print axioms Ckpt.Py.argmin_er_refines
#print axioms Ckpt.Py.seqShift_opPy_sh
#print axioms Ckpt.Py.seqLast_opPy
#print axioms Ckpt.Py.hrevolve_sim
#print axioms Ckpt.Py.hrevolve_recurse_refines
#print axioms Ckpt.Py.hrevolve_aux_refines
#print axioms Ckpt.Py.hrevolve_recurse_error
#print axioms Ckpt.Py.hrevolve_aux_error
#print axioms Ckpt.Py.hrevolve_refines
#print axioms Ckpt.Py.hrevolve_refines_total
#print axioms Ckpt.Py.source_hrevolve_accepted_full
#print axioms Ckpt.Py.source_hrevolve_accepted_full'
#print axioms Ckpt.Py.source_hrevolve_C01_C18_full
#print axioms Ckpt.Py.hrevolve_full_run_model
#print axioms Ckpt.Py.hrevolve_recurse_keyError
#print axioms Ckpt.Py.hrevolve_aux_keyError
#print axioms Ckpt.Py.hrevolve_recurse_total
