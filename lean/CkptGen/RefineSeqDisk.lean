import CkptGen.RefineTables
import CkptGen.RefinePeriod
import CkptGen.RefineRevolveIter
import CkptGen.RefineArgmin
import CkptGen.Capstone
import Mathlib.Tactic

/-!
# The builders `disk_revolve` and `periodic_disk_revolve` as generated from the Python source compute the twins
`diskRevolveOps` / `periodicOps` of `CkptVerif/Model/Ops.lean`

`Ckpt.Py.disk_revolve`, `Ckpt.Py.periodic_disk_revolve` (+ `.while1`, `.while2`) are produced by `harness/py2lean.py` from
`hrevolve_sequences/disk_revolve.py`, `hrevolve_sequences/periodic_disk_revolve.py` (`one_read_disk = True`); a `Sequence`
is the flattened list of its operations.  Costs are natural numbers cast to `Rat`.

Both builders call the generated `revolve`, whose refinement is proved in another file; what is needed from it is the
explicit hypothesis `RevolveRefines` (a statement about `revolve` alone: whenever the twin `revolveOps` with model fuel
`l + 2` returns `ops` for a table `opt0Table lmax mmax uf ub` with `l ≤ lmax`, `1 ≤ cm ≤ mmax`, the generated `revolve`
with any fuel `≥ l + 2` and `opt_0 = ` that table returns `ops.map opPy`, whatever `rd`, `wd`).

* `argmin_rat_refines_sd` : the generated `argmin` on floats is the model `argminO` on casts of naturals;
  `seqShift_map_opPy`, `seqRemoveUselessWm_map_opPy` : `Sequence.shift`, `Sequence.remove_useless_wm` commute with `opPy`;
  `revolveOps_mono_sd` : the twin `revolveOps` is monotone in its fuel.
* `disk_revolve_refines` (tables passed), `disk_revolve_refines_none` (both computed), `disk_revolve_refines_some_none`,
  `disk_revolve_refines_none_some` : `diskRevolveOps … = some ops → disk_revolve fuel … = .ok (ops.map opPy)`, fuel `l + 3`.
* `periodic_disk_revolve_refines` (`opt_0 = None`, `mmax = None`), `periodic_disk_revolve_refines_some` (`opt_0` passed),
  `periodic_disk_revolve_refines_mmax` (`mmax` passed) : `periodicOps … = some ops → periodic_disk_revolve fuel … =
  .ok (ops.map opPy)`, fuel `max (wd + rd + 2) (l + mx + 2)`, `mx` the period `mxrr cm uf (wd + rd)`.
* `source_diskRevolve_accepted_full`, `source_periodic_accepted_full` : the GENERATED builder followed by the GENERATED
  iterator (`revolve_run`) is accepted by the checking executor (composition with `source_diskRevolve_accepted`,
  `source_periodic_accepted` of `Capstone.lean`).
-/

set_option linter.unusedSimpArgs false
set_option linter.unusedVariables false

namespace Ckpt.Py
open Ckpt Ckpt.Ops


/-! ## `argmin_rat` -/

theorem pyIndex_natQ_sd (l : List Rat) (k : Nat) (h : k < l.length) : pyIndex l (k : Int) = .ok l[k]! := by
  apply pyIndex_of_getElem?
  rw [List.getElem?_eq_getElem h, getElem!_pos l k h]

/-- the body of the loop of `argmin_rat` -/
def argStepQ_sd (l : List Rat) (s : Int × Rat) (k : Nat) : Int × Rat :=
  if l[k]! ≤ s.2 then ((k : Int), l[k]!) else s

theorem argLoopQ_inv_sd (l : List Rat) (n : Nat) : ∃ i : Nat,
    (List.range n).foldl (argStepQ_sd l) ((0 : Int), l[0]!) = ((i : Int), l[i]!) ∧ (i < n ∨ i = 0) ∧
    (∀ j, j < n → l[i]! ≤ l[j]!) ∧ (∀ j, i < j → j < n → l[i]! < l[j]!) := by
  induction n with
  | zero => exact ⟨0, rfl, Or.inr rfl, by intro j hj; omega, by intro j _ hj; omega⟩
  | succ n ih =>
    obtain ⟨i, e, hi, hle, hlt⟩ := ih
    rw [List.range_succ, List.foldl_append, e]
    simp only [List.foldl_cons, List.foldl_nil, argStepQ_sd]
    by_cases hc : l[n]! ≤ l[i]!
    · rw [if_pos hc]
      refine ⟨n, rfl, Or.inl (by omega), ?_, ?_⟩
      · intro j hj
        rcases Nat.lt_succ_iff_lt_or_eq.1 hj with h | h
        · exact le_trans hc (hle j h)
        · rw [h]
      · intro j h1 h2; omega
    · rw [if_neg hc]
      refine ⟨i, rfl, ?_, ?_, ?_⟩
      · rcases hi with h | h
        · left; omega
        · right; exact h
      · intro j hj
        rcases Nat.lt_succ_iff_lt_or_eq.1 hj with h | h
        · exact hle j h
        · rw [h]; exact le_of_lt (lt_of_not_ge hc)
      · intro j h1 h2
        rcases Nat.lt_succ_iff_lt_or_eq.1 h2 with h | h
        · exact hlt j h1 h
        · rw [h]; exact lt_of_not_ge hc

theorem argmin_rat_eq_fold_sd (l : List Rat) (h : l ≠ []) :
    argmin_rat l = .ok ((1 : Int) + ((List.range l.length).foldl (argStepQ_sd l) ((0 : Int), l[0]!)).1) := by
  have hpos : 0 < l.length := List.length_pos_iff.2 h
  unfold argmin_rat
  simp only [bind, Except.bind, pure, Except.pure]
  have h0 := pyIndex_natQ_sd l 0 hpos
  simp only [Nat.cast_zero] at h0
  rw [h0]
  simp only []
  rw [pyRange_zero, forIn_yield (g := fun s (i : Int) => argStepQ_sd l s i.toNat), List.foldl_map]
  · simp only [Int.toNat_natCast]
  · intro x hx s
    obtain ⟨k, hk, rfl⟩ := List.mem_map.1 hx
    have hk' : k < l.length := List.mem_range.1 hk
    simp only [pyIndex_natQ_sd l k hk', Int.toNat_natCast, argStepQ_sd]
    split_ifs <;> rfl

/-- the result of `argmin_rat` is the 1-based index of the LAST minimum -/
theorem argmin_rat_spec_sd (l : List Rat) (h : l ≠ []) :
    ∃ k : Nat, argmin_rat l = .ok ((k : Int) + 1) ∧ k < l.length ∧
      (∀ j, j < l.length → l[k]! ≤ l[j]!) ∧ (∀ j, k < j → j < l.length → l[k]! < l[j]!) := by
  have hpos : 0 < l.length := List.length_pos_iff.2 h
  obtain ⟨i, e, hi, hle, hlt⟩ := argLoopQ_inv_sd l l.length
  refine ⟨i, ?_, by omega, hle, hlt⟩
  rw [argmin_rat_eq_fold_sd l h, e, Int.add_comm]

/-- **`argmin` on floats (generated as `argmin_rat`) computes the model `argminO`** on casts of naturals -/
theorem argmin_rat_refines_sd (l : List Nat) (h : l ≠ []) :
    argmin_rat (l.map (fun a : Nat => (a : Rat))) = .ok ((argminO (l.map some) : Nat) : Int) := by
  obtain ⟨k, e, hk, hle, hlt⟩ := argmin_rat_spec_sd (l.map (fun a : Nat => (a : Rat))) (by simpa using h)
  obtain ⟨⟨p1, p2⟩, pget, pmin, plast⟩ := argminO_map_some_spec l h
  simp only [List.length_map] at hk hle hlt
  have cast : ∀ j (hj : j < l.length), (l.map (fun a : Nat => (a : Rat)))[j]! = ((l[j] : Nat) : Rat) := by
    intro j hj
    rw [getElem!_pos _ j (by simpa using hj), List.getElem_map]
  have hp : argminO (l.map some) - 1 < l.length := by omega
  have pget' : l[argminO (l.map some) - 1] = l.foldl min (l.headD 0) := by
    have := List.getElem?_eq_getElem hp
    rw [this] at pget
    exact Option.some.inj pget
  have key : argminO (l.map some) = k + 1 := by
    rcases Nat.lt_trichotomy (argminO (l.map some) - 1) k with c | c | c
    · have a1 := plast k hk c
      have a2 := hle _ hp
      rw [cast _ hk, cast _ hp, pget'] at a2
      have a2' : l[k] ≤ l.foldl min (l.headD 0) := by exact_mod_cast a2
      omega
    · omega
    · have a1 := hlt _ c hp
      rw [cast _ hk, cast _ hp, pget'] at a1
      have a1' : l[k] < l.foldl min (l.headD 0) := by exact_mod_cast a1
      have a2 := pmin l[k] (List.getElem_mem hk)
      omega
  rw [e, key]
  push_cast
  rfl

example : argmin_rat ([3, 1, 2, 1].map (fun a : Nat => (a : Rat))) = .ok 4 := argmin_rat_refines_sd [3, 1, 2, 1] (by simp)


/-! ## shift / remove_useless_wm commute with `opPy`; fuel monotonicity of the twin `revolveOps` -/

theorem opShift_opPy_sd (o : Ops.Op) (k : Nat) : opShift (opPy o) (k : Int) = opPy (shiftOp k o) := by
  obtain ⟨kind, lvl, a, b⟩ := o
  cases kind <;>
    simp [opShift, opPy, opIdxPy, opKindStr, shiftOp]

theorem seqShift_map_opPy (ops : List Ops.Op) (k : Nat) :
    seqShift (ops.map opPy) (k : Int) = (shiftOps k ops).map opPy := by
  unfold seqShift shiftOps
  rw [List.map_map, List.map_map]
  apply List.map_congr_left
  intro o _
  exact opShift_opPy_sd o k

theorem seqRemoveUselessWm_map_opPy (ops : List Ops.Op) :
    seqRemoveUselessWm (ops.map opPy) (-1 : Int) = (removeUselessWm ops).map opPy := by
  cases ops with
  | nil => rfl
  | cons o rest =>
    obtain ⟨kind, lvl, a, b⟩ := o
    cases kind <;>
      simp [seqRemoveUselessWm, removeUselessWm, opPy, opKindStr, opIdxPy]

theorem revolveOps_mono_sd (t0 : Array (Array Nat)) (uf : Nat) : ∀ (f f' l cm : Nat) (ops : List Ops.Op),
    f ≤ f' → revolveOps t0 uf f l cm = some ops → revolveOps t0 uf f' l cm = some ops := by
  intro f
  induction f with
  | zero => intro f' l cm ops _ h; simp [revolveOps] at h
  | succ f ih =>
    intro f' l cm ops hle h
    obtain ⟨g, rfl⟩ : ∃ g, f' = g + 1 := ⟨f' - 1, by omega⟩
    have hfg : f ≤ g := by omega
    unfold revolveOps at h ⊢
    split_ifs at h ⊢ with h1 h2 h3 h4
    · exact h
    · exact h
    · exact h
    · simp only at h ⊢
      cases hr : revolveOps t0 uf f (l - argminO (List.map (fun j => some (j * uf + opt0Get t0 (cm - 1) (l - j) + opt0Get t0 cm (j - 1))) (List.range' 1 (l - 1)))) (cm - 1) with
      | none => rw [hr] at h; cases h
      | some right =>
        rw [hr] at h
        simp only at h
        cases hl : revolveOps t0 uf f (argminO (List.map (fun j => some (j * uf + opt0Get t0 (cm - 1) (l - j) + opt0Get t0 cm (j - 1))) (List.range' 1 (l - 1))) - 1) cm with
        | none => rw [hl] at h; cases h
        | some left =>
          rw [hl] at h
          rw [ih _ _ _ _ hfg hr, ih _ _ _ _ hfg hl]
          exact h


/-! ## `disk_revolve` -/

def RevolveRefines : Prop := ∀ (l cm uf ub lmax mmax fuel : Nat) (rd wd : Rat) (ops : List Ops.Op),
  1 ≤ cm → cm ≤ mmax → l ≤ lmax → l + 2 ≤ fuel →
  revolveOps (opt0Table lmax mmax uf ub) uf (l + 2) l cm = some ops →
  revolve fuel l cm rd wd uf ub (some (tabQ (opt0Table lmax mmax uf ub))) = .ok (ops.map opPy)

/-- the candidate list of the disk split, as the model writes it -/
def dCands (t0 : Array (Array Nat)) (tinf : Array Nat) (cm uf wr l : Nat) : List Nat :=
  (List.range' 1 (l - 1)).map (fun j => wr + j * uf + tinf.getD (l - j) 0 + opt0Get t0 cm (j - 1))

theorem dCands_ne (t0 : Array (Array Nat)) (tinf : Array Nat) (cm uf wr l : Nat) (hl : 2 ≤ l) :
    dCands t0 tinf cm uf wr l ≠ [] := by
  intro h
  have := congrArg List.length h
  simp [dCands] at this
  omega

/-- the list comprehension `list_mem` of `disk_revolve` -/
theorem disk_list_mem (lmax mmax cm uf ub rd wd l : Nat) (tinf : Array Nat) (hcm1 : 1 ≤ cm) (hcm : cm ≤ mmax)
    (hl : l ≤ lmax) (hti : l < tinf.size) {f : Int → M Rat}
    (hf : ∀ j : Int, f j = (pyIndex (rowQ tinf) ((l : Int) - j) >>= fun v =>
        pyIndex (tabQ (opt0Table lmax mmax uf ub)) (cm : Int) >>= fun v_1 =>
        pyIndex v_1 (j - 1) >>= fun v_2 =>
        (Except.ok ((wd : Rat) + (j : Rat) * (uf : Rat) + v + (rd : Rat) + v_2) : M Rat))) :
    (pyRange 1 (l : Int)).mapM f
      = .ok ((dCands (opt0Table lmax mmax uf ub) tinf cm uf (wd + rd) l).map (fun x : Nat => (x : Rat))) := by
  obtain ⟨rowc, hTc, hrow⟩ := tabQ_row_ok lmax mmax uf ub cm lmax hcm1 hcm (by omega)
  rw [pyRange_one l, mapM_ok_map _ _
    ((fun x : Nat => (x : Rat)) ∘ (fun j => wd + rd + j * uf + tinf.getD (l - j) 0 + opt0Get (opt0Table lmax mmax uf ub) cm (j - 1)))]
  · rw [← List.map_map]; rfl
  · intro j hj
    have hj' := List.mem_range'_1.1 hj
    have el : (l : Int) - (j : Int) = ((l - j : Nat) : Int) := by omega
    have ej : (j : Int) - 1 = ((j - 1 : Nat) : Int) := by omega
    rw [hf]
    simp only [Function.comp_apply, bind, Except.bind]
    rw [el, pyIndex_rowQ tinf (l - j) (by omega)]
    simp only []
    rw [pyIndex_of_getElem? _ _ _ hTc]
    simp only []
    rw [ej, pyIndex_of_getElem? _ _ _ (hrow (j - 1) (by omega))]
    simp only []
    push_cast
    congr 1
    ring

theorem disk_revolve_core (hR : RevolveRefines) (lmax mmax cm uf ub rd wd : Nat) (tinf : Array Nat)
    (hcm1 : 1 ≤ cm) (hcm : cm ≤ mmax) :
    ∀ (mfuel l : Nat) (ops : List Ops.Op) (fuel : Nat), l ≤ lmax → l < tinf.size → l + 3 ≤ fuel →
      diskRevolveOps (opt0Table lmax mmax uf ub) tinf cm uf (wd + rd) mfuel l = some ops →
      disk_revolve fuel (l : Int) (cm : Int) (rd : Rat) (wd : Rat) (uf : Rat) (ub : Rat)
        (some (tabQ (opt0Table lmax mmax uf ub))) (some (rowQ tinf)) = .ok (ops.map opPy) := by
  intro mfuel
  induction mfuel with
  | zero => intro l ops fuel _ _ _ h; simp [diskRevolveOps] at h
  | succ mfuel ih =>
    intro l ops fuel hl hti hf h
    obtain ⟨fuel, rfl⟩ : ∃ g, fuel = g + 1 := ⟨fuel - 1, by omega⟩
    rw [disk_revolve]
    unfold diskRevolveOps at h
    by_cases hl0 : l = 0
    · subst hl0
      rw [if_pos rfl] at h
      injection h with h; subst h
      simp only [bind, Except.bind, pure, Except.pure, reduceCtorEq, if_false, Nat.cast_zero, if_true]
      rfl
    rw [if_neg hl0] at h
    have hl0' : ¬ ((l : Int) = 0) := by omega
    by_cases hl1 : l = 1
    · subst hl1
      rw [if_pos rfl, if_neg (by omega)] at h
      injection h with h; subst h
      have hc : ¬ ((cm : Int) = 0) := by omega
      simp only [bind, Except.bind, pure, Except.pure, reduceCtorEq, if_false, Nat.cast_one, if_true, hc]
      rfl
    rw [if_neg hl1] at h
    have hl1' : ¬ ((l : Int) = 1) := by omega
    have hl2 : 2 ≤ l := by omega
    simp only at h
    obtain ⟨rowc, hTc, hrow⟩ := tabQ_row_ok lmax mmax uf ub cm lmax hcm1 hcm (by omega)
    simp only [bind, Except.bind, pure, Except.pure, reduceCtorEq, if_false, if_neg hl0', if_neg hl1', unwrap]
    rw [disk_list_mem lmax mmax cm uf ub rd wd l tinf hcm1 hcm hl hti]
    swap
    · intro j; rfl
    simp only []
    rw [pyMin_cast _ (dCands_ne _ _ _ _ _ _ hl2)]
    simp only []
    rw [pyIndex_of_getElem? _ _ _ hTc]
    simp only []
    rw [pyIndex_of_getElem? _ _ _ (hrow l hl)]
    simp only []
    have hC : List.map (fun j => wd + rd + j * uf + tinf.getD (l - j) 0 + opt0Get (opt0Table lmax mmax uf ub) cm (j - 1))
        (List.range' 1 (l - 1)) = dCands (opt0Table lmax mmax uf ub) tinf cm uf (wd + rd) l := rfl
    rw [hC] at h
    have hCne := dCands_ne (opt0Table lmax mmax uf ub) tinf cm uf (wd + rd) l hl2
    have hlen : (dCands (opt0Table lmax mmax uf ub) tinf cm uf (wd + rd) l).length = l - 1 := by simp [dCands]
    generalize dCands (opt0Table lmax mmax uf ub) tinf cm uf (wd + rd) l = C at h hCne hlen ⊢
    by_cases hlt : C.foldl min (C.headD 0) < opt0Get (opt0Table lmax mmax uf ub) cm l
    · rw [if_pos hlt] at h
      rw [if_pos (by exact_mod_cast hlt), argmin_rat_refines_sd C hCne]
      simp only []
      obtain ⟨hj1, hj2⟩ := argminO_map_some_range C hCne
      generalize argminO (C.map some) = jmin at h hj1 hj2 ⊢
      cases hr : diskRevolveOps (opt0Table lmax mmax uf ub) tinf cm uf (wd + rd) mfuel (l - jmin) with
      | none => rw [hr] at h; cases h
      | some right =>
        rw [hr] at h
        simp only at h
        cases hlft : revolveOps (opt0Table lmax mmax uf ub) uf jmin (jmin - 1) cm with
        | none => rw [hlft] at h; cases h
        | some left =>
          rw [hlft] at h
          injection h with h; subst h
          have e1 : (l : Int) - (jmin : Int) = ((l - jmin : Nat) : Int) := by omega
          have e2 : (jmin : Int) - 1 = ((jmin - 1 : Nat) : Int) := by omega
          rw [e1, ih (l - jmin) right fuel (by omega) (by omega) (by omega) hr]
          simp only []
          rw [e2, hR (jmin - 1) cm uf ub lmax mmax fuel _ _ left hcm1 hcm (by omega) (by omega)
            (revolveOps_mono_sd _ _ _ _ _ _ _ (by omega) hlft)]
          simp only []
          rw [seqShift_map_opPy]
          simp only [List.map_append, List.map_cons, List.map_nil, List.nil_append]
          rfl
    · rw [if_neg hlt] at h
      rw [if_neg (by exact_mod_cast hlt), hR l cm uf ub lmax mmax fuel _ _ ops hcm1 hcm hl (by omega)
        (revolveOps_mono_sd _ _ _ _ _ _ _ (by omega) h)]
      rfl




/-- `opt_0 = None`, `opt_inf = None`: both tables are computed first -/
theorem disk_revolve_none_none (fuel : Nat) (l cm : Int) (rd wd uf ub : Rat) (T0 : List (List Rat)) (Tinf : List Rat)
    (h0 : get_opt_0_table l cm uf ub = .ok T0) (hinf : get_opt_inf_table l cm uf ub rd wd (some T0) = .ok Tinf) :
    disk_revolve fuel l cm rd wd uf ub none none = disk_revolve fuel l cm rd wd uf ub (some T0) (some Tinf) := by
  cases fuel with
  | zero => rfl
  | succ fuel =>
    conv_lhs => rw [disk_revolve]
    conv_rhs => rw [disk_revolve]
    simp only [bind, Except.bind, pure, Except.pure, h0, hinf, reduceCtorEq, if_false, if_true]

/-- `opt_0` given, `opt_inf = None` -/
theorem disk_revolve_some_none (fuel : Nat) (l cm : Int) (rd wd uf ub : Rat) (T0 : List (List Rat)) (Tinf : List Rat)
    (hinf : get_opt_inf_table l cm uf ub rd wd (some T0) = .ok Tinf) :
    disk_revolve fuel l cm rd wd uf ub (some T0) none = disk_revolve fuel l cm rd wd uf ub (some T0) (some Tinf) := by
  cases fuel with
  | zero => rfl
  | succ fuel =>
    conv_lhs => rw [disk_revolve]
    conv_rhs => rw [disk_revolve]
    simp only [bind, Except.bind, pure, Except.pure, hinf, reduceCtorEq, if_false, if_true]

/-- `opt_0 = None`, `opt_inf` given -/
theorem disk_revolve_none_some (fuel : Nat) (l cm : Int) (rd wd uf ub : Rat) (T0 : List (List Rat)) (Tinf : List Rat)
    (h0 : get_opt_0_table l cm uf ub = .ok T0) :
    disk_revolve fuel l cm rd wd uf ub none (some Tinf) = disk_revolve fuel l cm rd wd uf ub (some T0) (some Tinf) := by
  cases fuel with
  | zero => rfl
  | succ fuel =>
    conv_lhs => rw [disk_revolve]
    conv_rhs => rw [disk_revolve]
    simp only [bind, Except.bind, pure, Except.pure, h0, reduceCtorEq, if_false, if_true]



/-- **`disk_revolve`, tables passed explicitly.**  `opt_0` is the memory-only table for `lmax ≥ l` steps and `mmax ≥ cm`
slots, `opt_inf` any table with more than `l` entries (e.g. `optInfTable lmax' cm …` with `l ≤ lmax'`).  Whenever the twin
`diskRevolveOps` (any model fuel) returns `ops`, the generated `disk_revolve` returns the same operations.
Fuel: `l + 3`. -/
theorem disk_revolve_refines (hR : RevolveRefines) (lmax mmax l cm uf ub rd wd : Nat) (tinf : Array Nat)
    (hcm1 : 1 ≤ cm) (hcm : cm ≤ mmax) (hl : l ≤ lmax) (hti : l < tinf.size) (mfuel : Nat) (ops : List Ops.Op)
    (fuel : Nat) (hf : l + 3 ≤ fuel)
    (h : diskRevolveOps (opt0Table lmax mmax uf ub) tinf cm uf (wd + rd) mfuel l = some ops) :
    disk_revolve fuel (l : Int) (cm : Int) (rd : Rat) (wd : Rat) (uf : Rat) (ub : Rat)
      (some (tabQ (opt0Table lmax mmax uf ub))) (some (rowQ tinf)) = .ok (ops.map opPy) :=
  disk_revolve_core hR lmax mmax cm uf ub rd wd tinf hcm1 hcm mfuel l ops fuel hl hti hf h

/-- **`disk_revolve`, both tables computed** (`opt_0 = None`, `opt_inf = None`: the call of `DiskRevolve.__init__`) -/
theorem disk_revolve_refines_none (hR : RevolveRefines) (l cm uf ub rd wd : Nat) (hcm1 : 1 ≤ cm) (mfuel : Nat)
    (ops : List Ops.Op) (fuel : Nat) (hf : l + 3 ≤ fuel)
    (h : diskRevolveOps (opt0Table l cm uf ub) (optInfTable l cm uf ub (wd + rd) (opt0Table l cm uf ub)) cm uf
      (wd + rd) mfuel l = some ops) :
    disk_revolve fuel (l : Int) (cm : Int) (rd : Rat) (wd : Rat) (uf : Rat) (ub : Rat) none none
      = .ok (ops.map opPy) := by
  have h0 := get_opt_0_table_refines l cm uf ub (Or.inl hcm1)
  rw [disk_revolve_none_none fuel _ _ _ _ _ _ _ _ h0 ((get_opt_inf_table_refines l cm uf ub rd wd hcm1).2 _ h0)]
  exact disk_revolve_core hR l cm cm uf ub rd wd _ hcm1 (Nat.le_refl _) mfuel l ops fuel (Nat.le_refl _)
    (by rw [optInfTable_size]; omega) hf h

/-- **`disk_revolve`, `opt_0` passed, `opt_inf` computed** -/
theorem disk_revolve_refines_some_none (hR : RevolveRefines) (lmax mmax l cm uf ub rd wd : Nat) (hcm1 : 1 ≤ cm)
    (hcm : cm ≤ mmax) (hl : l ≤ lmax) (mfuel : Nat) (ops : List Ops.Op) (fuel : Nat) (hf : l + 3 ≤ fuel)
    (h : diskRevolveOps (opt0Table lmax mmax uf ub)
      (optInfTable l cm uf ub (wd + rd) (opt0Table lmax mmax uf ub)) cm uf (wd + rd) mfuel l = some ops) :
    disk_revolve fuel (l : Int) (cm : Int) (rd : Rat) (wd : Rat) (uf : Rat) (ub : Rat)
      (some (tabQ (opt0Table lmax mmax uf ub))) none = .ok (ops.map opPy) := by
  rw [disk_revolve_some_none fuel _ _ _ _ _ _ _ _ (get_opt_inf_table_larger l lmax cm mmax uf ub rd wd hcm1 hcm hl)]
  exact disk_revolve_core hR lmax mmax cm uf ub rd wd _ hcm1 hcm mfuel l ops fuel hl
    (by rw [optInfTable_size]; omega) hf h

/-- **`disk_revolve`, `opt_0` computed, `opt_inf` passed** -/
theorem disk_revolve_refines_none_some (hR : RevolveRefines) (l cm uf ub rd wd : Nat) (tinf : Array Nat)
    (hcm1 : 1 ≤ cm) (hti : l < tinf.size) (mfuel : Nat) (ops : List Ops.Op) (fuel : Nat) (hf : l + 3 ≤ fuel)
    (h : diskRevolveOps (opt0Table l cm uf ub) tinf cm uf (wd + rd) mfuel l = some ops) :
    disk_revolve fuel (l : Int) (cm : Int) (rd : Rat) (wd : Rat) (uf : Rat) (ub : Rat) none (some (rowQ tinf))
      = .ok (ops.map opPy) := by
  rw [disk_revolve_none_some fuel _ _ _ _ _ _ _ _ (get_opt_0_table_refines l cm uf ub (Or.inl hcm1))]
  exact disk_revolve_core hR l cm cm uf ub rd wd _ hcm1 (Nat.le_refl _) mfuel l ops fuel (Nat.le_refl _) hti hf h

/-- non-vacuity: `l = 5`, `cm = 2`, unit costs `uf = ub = 1`, `wd = rd = 1`: the hypotheses hold and the twin returns a
sequence (with a disk checkpoint) -/
example : (1 : Nat) ≤ 2 ∧ 5 + 3 ≤ 8 ∧
    (diskRevolveOps (opt0Table 5 2 1 1) (optInfTable 5 2 1 1 (1 + 1) (opt0Table 5 2 1 1)) 2 1 (1 + 1) 6 5).isSome = true := by
  decide

/-- **DiskRevolve, builder and iterator both GENERATED**: `DiskRevolve(N, cm, uf, ub, wd, rd).__init__` calls
`disk_revolve(N - 1, cm, wd, rd, uf, ub)` (sic: `wd` in the position of `rd`; only `wd + rd` matters, so the statement
covers both orders), then iterates.  Builder fuel: `N + 2`; iterator fuel: one more than the number of operations. -/
theorem source_diskRevolve_accepted_full (hR : RevolveRefines) (N cm : Nat) (c : Costs)
    (hv : validRevolve N cm c.uf c.ub = true) (k : Nat) (rd wd : Nat) (hwr : wd + rd = c.wd + c.rd)
    (bfuel : Nat) (hb : N + 2 ≤ bfuel) :
    ∃ pops, disk_revolve bfuel ((N : Int) - 1) (cm : Int) (rd : Rat) (wd : Rat) (c.uf : Rat) (c.ub : Rat) none none
        = .ok pops ∧
      ∀ fuel, pops.length + 1 ≤ fuel →
        ∃ pevs, revolve_run fuel (N : Int) pops = .ok pevs ∧
          Accepted (cfgDiskRevolve cm N) k (obsOfPy false N pevs) := by
  obtain ⟨hN, hcm, _, _⟩ := (validRevolve_iff _ _ _ _).1 hv
  obtain ⟨ops, hops, hacc⟩ := source_diskRevolve_accepted N cm c hv k
  unfold diskRevolveOpsTop at hops
  simp only at hops
  rw [← hwr] at hops
  have e : (N : Int) - 1 = ((N - 1 : Nat) : Int) := by omega
  refine ⟨ops.map opPy, ?_, ?_⟩
  · rw [e]
    exact disk_revolve_refines_none hR (N - 1) cm c.uf c.ub rd wd hcm N ops bfuel (by omega) hops
  · intro fuel hf
    rw [List.length_map] at hf
    exact hacc fuel hf

example (hR : RevolveRefines) := source_diskRevolve_accepted_full hR 3 2 ⟨1, 1, 1, 1⟩ (by decide) 1 1 1 rfl 5 (by decide)


/-! ## `periodic_disk_revolve` -/

theorem periodic_while1_sim (l mx : Nat) (hmx : 1 ≤ mx) :
    ∀ (mfuel q0 : Nat) (seq : List PyOp) (fuel : Nat), l - q0 * mx + 1 ≤ mfuel → l - q0 * mx + 1 ≤ fuel → q0 * mx ≤ l →
      ∃ q, q0 ≤ q ∧ (periodicSweepOps l mx mfuel (q0 * mx)).2 = q * mx ∧ q * mx ≤ l ∧ l - q * mx ≤ mx ∧
        periodic_disk_revolve.while1 (some (mx : Int)) (l : Int) fuel (((q0 * mx : Nat) : Int), seq)
          = .ok (((q * mx : Nat) : Int), seq ++ (periodicSweepOps l mx mfuel (q0 * mx)).1.map opPy) := by
  intro mfuel
  induction mfuel with
  | zero => intro q0 seq fuel h; omega
  | succ mfuel ih =>
    intro q0 seq fuel hm hf hq
    obtain ⟨fuel, rfl⟩ : ∃ g, fuel = g + 1 := ⟨fuel - 1, by omega⟩
    rw [periodic_disk_revolve.while1]
    unfold periodicSweepOps
    simp only [bind, Except.bind, pure, Except.pure, unwrap]
    by_cases hc : l - q0 * mx > mx
    · have hc' : (l : Int) - ((q0 * mx : Nat) : Int) > (mx : Int) := by omega
      rw [if_pos hc, if_pos hc']
      obtain ⟨q, h1, h2, h3, h4, h5⟩ := ih (q0 + 1) (seq ++ [opPy (Op.wd (q0 * mx))] ++ [opPy (Op.fwd (q0 * mx) (q0 * mx + mx))]) fuel
        (by rw [Nat.succ_mul]; omega) (by rw [Nat.succ_mul]; omega) (by rw [Nat.succ_mul]; omega)
      rw [Nat.succ_mul] at h2 h5
      refine ⟨q, by omega, ?_, h3, h4, ?_⟩
      · rw [← h2]
      · have e : ((q0 * mx : Nat) : Int) + (mx : Int) = ((q0 * mx + mx : Nat) : Int) := by push_cast; rfl
        rw [e]
        exact h5.trans (by simp only [List.map_cons, List.append_assoc, List.cons_append, List.nil_append])
    · have hc' : ¬ ((l : Int) - ((q0 * mx : Nat) : Int) > (mx : Int)) := by omega
      rw [if_neg hc, if_neg hc']
      exact ⟨q0, Nat.le_refl _, rfl, hq, by omega, by simp⟩


theorem periodic_while2_sim (hR : RevolveRefines) (lmax mmax cm uf ub mx : Nat) (rd wd : Rat) (hmx : 1 ≤ mx)
    (hcm1 : 1 ≤ cm) (hcm : cm ≤ mmax) (hlm : mx - 1 ≤ lmax) :
    ∀ (b : Nat) (blocks : List Ops.Op) (seq : List PyOp) (fuel : Nat), b + mx + 1 ≤ fuel →
      periodicBlockOps (opt0Table lmax mmax uf ub) uf cm mx b = some blocks →
      periodic_disk_revolve.while2 (some (mx : Int)) (cm : Int) rd wd (uf : Rat) (ub : Rat)
          (some (tabQ (opt0Table lmax mmax uf ub))) fuel (((b * mx : Nat) : Int), seq)
        = .ok ((0 : Int), seq ++ blocks.map opPy) := by
  intro b
  induction b with
  | zero =>
    intro blocks seq fuel hf h
    obtain ⟨fuel, rfl⟩ : ∃ g, fuel = g + 1 := ⟨fuel - 1, by omega⟩
    simp only [periodicBlockOps, Option.some.injEq] at h
    subst h
    rw [periodic_disk_revolve.while2]
    simp only [bind, Except.bind, pure, Except.pure, unwrap, Nat.zero_mul, Nat.cast_zero, gt_iff_lt, lt_self_iff_false,
      if_false, List.map_nil, List.append_nil]
  | succ b ih =>
    intro blocks seq fuel hf h
    obtain ⟨fuel, rfl⟩ : ∃ g, fuel = g + 1 := ⟨fuel - 1, by omega⟩
    unfold periodicBlockOps at h
    cases hblk : revolveOps (opt0Table lmax mmax uf ub) uf mx (mx - 1) cm with
    | none => rw [hblk] at h; cases h
    | some blk =>
      rw [hblk] at h
      simp only at h
      cases hrest : periodicBlockOps (opt0Table lmax mmax uf ub) uf cm mx b with
      | none => rw [hrest] at h; cases h
      | some rest =>
        rw [hrest] at h
        injection h with h; subst h
        rw [periodic_disk_revolve.while2]
        have hpos : (((b + 1) * mx : Nat) : Int) > 0 := by
          have : 0 < (b + 1) * mx := Nat.mul_pos (by omega) (by omega)
          omega
        have e1 : (((b + 1) * mx : Nat) : Int) - (mx : Int) = ((b * mx : Nat) : Int) := by
          rw [Nat.succ_mul]; push_cast; ring
        have e2 : (mx : Int) - 1 = ((mx - 1 : Nat) : Int) := by omega
        simp only [bind, Except.bind, pure, Except.pure, unwrap, if_pos hpos, e1, e2]
        rw [hR (mx - 1) cm uf ub lmax mmax fuel _ _ blk hcm1 hcm hlm (by omega)
          (revolveOps_mono_sd _ _ _ _ _ _ _ (by omega) hblk)]
        simp only []
        rw [seqShift_map_opPy, ih rest _ fuel (by omega) hrest]
        simp only [List.map_append, List.map_cons, List.map_nil, List.append_assoc]
        rfl


/-- the part of `periodic_disk_revolve` after the period `mx` and the table `opt_0` have been determined -/
def periodicTail (fuel : Nat) (l cm : Int) (rd wd uf ub : Rat) (T0 : List (List Rat)) (mx : Int) : M (List PyOp) := do
  let (ct, seq) ← periodic_disk_revolve.while1 (some mx) l fuel ((0 : Int), [])
  let mid ← revolve fuel (l - ct) cm rd wd uf ub (some T0)
  let (_, seq) ← periodic_disk_revolve.while2 (some mx) cm rd wd uf ub (some T0) fuel (ct, seq ++ seqShift mid ct)
  pure seq

/-- `opt_0 = None`, `mmax = None` (the call of `PeriodicDiskRevolve.__init__`) -/
theorem periodic_none_none (fuel : Nat) (l cm : Int) (rd wd uf ub : Rat) (mx : Int) (T0 : List (List Rat))
    (hmx : mxrr_close_formula fuel cm uf rd wd = .ok mx)
    (h0 : get_opt_0_table (max mx mx + 1) cm uf ub = .ok T0) :
    periodic_disk_revolve fuel l cm rd wd uf ub none none = periodicTail fuel l cm rd wd uf ub T0 mx := by
  unfold periodic_disk_revolve periodicTail
  simp only [bind, Except.bind, pure, Except.pure, unwrap, hmx, h0, reduceCtorEq, if_false, if_true, ne_eq, not_false_eq_true,
    not_true_eq_false]


theorem periodicTail_refines (hR : RevolveRefines) (lmax mmax l cm uf ub mx : Nat) (rd wd : Rat) (hmx : 1 ≤ mx)
    (hcm1 : 1 ≤ cm) (hcm : cm ≤ mmax) (hlm : mx ≤ lmax) (ops : List Ops.Op) (fuel : Nat) (hf : l + mx + 2 ≤ fuel)
    (h : periodicOps (opt0Table lmax mmax uf ub) uf cm mx l = some ops) :
    periodicTail fuel (l : Int) (cm : Int) rd wd (uf : Rat) (ub : Rat) (tabQ (opt0Table lmax mmax uf ub)) (mx : Int)
      = .ok (ops.map opPy) := by
  obtain ⟨q, _, h2, h3, h4, h5⟩ := periodic_while1_sim l mx hmx (l + 1) 0 [] fuel (by omega) (by omega) (by omega)
  simp only [Nat.zero_mul, Nat.cast_zero, List.nil_append] at h2 h5
  unfold periodicOps at h
  rcases hps : periodicSweepOps l mx (l + 1) 0 with ⟨sweep, ct⟩
  rw [hps] at h h2 h5
  simp only at h h2 h5
  subst h2
  have hdiv : q * mx / mx = q := Nat.mul_div_cancel _ (by omega)
  rw [hdiv] at h
  have hq : q ≤ l := le_trans (Nat.le_mul_of_pos_right q (by omega)) h3
  cases hmid : revolveOps (opt0Table lmax mmax uf ub) uf (l - q * mx + 1) (l - q * mx) cm with
  | none => rw [hmid] at h; cases h
  | some mid =>
    rw [hmid] at h
    simp only at h
    cases hblocks : periodicBlockOps (opt0Table lmax mmax uf ub) uf cm mx q with
    | none => rw [hblocks] at h; cases h
    | some blocks =>
      rw [hblocks] at h
      injection h with h; subst h
      unfold periodicTail
      have e1 : (l : Int) - ((q * mx : Nat) : Int) = ((l - q * mx : Nat) : Int) := by omega
      simp only [bind, Except.bind, pure, Except.pure, h5, e1]
      rw [hR (l - q * mx) cm uf ub lmax mmax fuel _ _ mid hcm1 hcm (by omega) (by omega)
        (revolveOps_mono_sd _ _ _ _ _ _ _ (by omega) hmid)]
      simp only []
      rw [seqShift_map_opPy, periodic_while2_sim hR lmax mmax cm uf ub mx rd wd hmx hcm1 hcm (by omega) q blocks _ fuel
        (by omega) hblocks]
      simp only [List.map_append, List.append_assoc]



/-- `opt_0` passed, `mmax = None` -/
theorem periodic_some_none (fuel : Nat) (l cm : Int) (rd wd uf ub : Rat) (mx : Int) (T0 : List (List Rat))
    (hmx : mxrr_close_formula fuel cm uf rd wd = .ok mx) :
    periodic_disk_revolve fuel l cm rd wd uf ub (some T0) none = periodicTail fuel l cm rd wd uf ub T0 mx := by
  unfold periodic_disk_revolve periodicTail
  simp only [bind, Except.bind, pure, Except.pure, unwrap, hmx, reduceCtorEq, if_false, if_true, ne_eq, not_false_eq_true,
    not_true_eq_false]

/-- `opt_0 = None`, `mmax` passed (the table is computed for `mmax` steps) -/
theorem periodic_none_some (fuel : Nat) (l cm : Int) (rd wd uf ub : Rat) (mx m : Int) (T0 : List (List Rat))
    (hmx : mxrr_close_formula fuel cm uf rd wd = .ok mx) (h0 : get_opt_0_table m cm uf ub = .ok T0) :
    periodic_disk_revolve fuel l cm rd wd uf ub none (some m) = periodicTail fuel l cm rd wd uf ub T0 mx := by
  unfold periodic_disk_revolve periodicTail
  simp only [bind, Except.bind, pure, Except.pure, unwrap, hmx, h0, reduceCtorEq, if_false, if_true, ne_eq, not_false_eq_true,
    not_true_eq_false]

/-- `opt_0` and `mmax` passed -/
theorem periodic_some_some (fuel : Nat) (l cm : Int) (rd wd uf ub : Rat) (mx m : Int) (T0 : List (List Rat))
    (hmx : mxrr_close_formula fuel cm uf rd wd = .ok mx) :
    periodic_disk_revolve fuel l cm rd wd uf ub (some T0) (some m) = periodicTail fuel l cm rd wd uf ub T0 mx := by
  unfold periodic_disk_revolve periodicTail
  simp only [bind, Except.bind, pure, Except.pure, unwrap, hmx, reduceCtorEq, if_false, if_true, ne_eq, not_false_eq_true,
    not_true_eq_false]

theorem mxrr_close_formula_some (cm uf wd rd mx fuel : Nat) (hf : wd + rd + 2 ≤ fuel) (hmx : mxrr cm uf (wd + rd) = some mx) :
    mxrr_close_formula fuel (cm : Int) (uf : Rat) (rd : Rat) (wd : Rat) = .ok (mx : Int) := by
  rw [mxrr_close_formula_refines cm uf wd rd fuel hf, hmx]

/-- **`periodic_disk_revolve`, table computed** (`opt_0 = None`, `mmax = None`: the call of
`PeriodicDiskRevolve.__init__`).  `mx` is the period `mxrr_close_formula(cm, uf, rd, wd)`; the table is computed for
`max(mx, mx) + 1 = mx + 1` steps.  Fuel: `max (wd + rd + 2) (l + mx + 2)`. -/
theorem periodic_disk_revolve_refines (hR : RevolveRefines) (l cm uf ub rd wd mx : Nat) (hcm1 : 1 ≤ cm)
    (hmx : mxrr cm uf (wd + rd) = some mx) (ops : List Ops.Op) (fuel : Nat) (hf1 : wd + rd + 2 ≤ fuel)
    (hf2 : l + mx + 2 ≤ fuel)
    (h : periodicOps (opt0Table (mx + 1) cm uf ub) uf cm mx l = some ops) :
    periodic_disk_revolve fuel (l : Int) (cm : Int) (rd : Rat) (wd : Rat) (uf : Rat) (ub : Rat) none none
      = .ok (ops.map opPy) := by
  have e : max (mx : Int) (mx : Int) + 1 = ((mx + 1 : Nat) : Int) := by rw [max_self]; push_cast; rfl
  rw [periodic_none_none fuel _ _ _ _ _ _ _ _ (mxrr_close_formula_some cm uf wd rd mx fuel hf1 hmx)
    (by rw [e]; exact get_opt_0_table_refines (mx + 1) cm uf ub (Or.inl hcm1))]
  exact periodicTail_refines hR (mx + 1) cm l cm uf ub mx _ _ (mxrr_pos _ _ _ _ hmx) hcm1 (Nat.le_refl _) (by omega)
    ops fuel hf2 h

/-- **`periodic_disk_revolve`, `opt_0` passed** (a memory-only table for `lmax ≥ mx` steps and `mmax ≥ cm` slots; the
argument `mmax` of the Python function, the number of steps of the table to compute, is then not used: any `om`) -/
theorem periodic_disk_revolve_refines_some (hR : RevolveRefines) (lmax mmax l cm uf ub rd wd mx : Nat) (om : Option Int)
    (hcm1 : 1 ≤ cm) (hcm : cm ≤ mmax) (hmx : mxrr cm uf (wd + rd) = some mx) (hlm : mx ≤ lmax) (ops : List Ops.Op)
    (fuel : Nat) (hf1 : wd + rd + 2 ≤ fuel) (hf2 : l + mx + 2 ≤ fuel)
    (h : periodicOps (opt0Table lmax mmax uf ub) uf cm mx l = some ops) :
    periodic_disk_revolve fuel (l : Int) (cm : Int) (rd : Rat) (wd : Rat) (uf : Rat) (ub : Rat)
      (some (tabQ (opt0Table lmax mmax uf ub))) om = .ok (ops.map opPy) := by
  have hm := mxrr_close_formula_some cm uf wd rd mx fuel hf1 hmx
  have ht := periodicTail_refines hR lmax mmax l cm uf ub mx (rd : Rat) (wd : Rat) (mxrr_pos _ _ _ _ hmx) hcm1 hcm hlm
    ops fuel hf2 h
  cases om with
  | none => rw [periodic_some_none fuel _ _ _ _ _ _ _ _ hm]; exact ht
  | some m => rw [periodic_some_some fuel _ _ _ _ _ _ _ m _ hm]; exact ht

/-- **`periodic_disk_revolve`, `mmax = m ≥ mx` passed, table computed** (for `m` steps) -/
theorem periodic_disk_revolve_refines_mmax (hR : RevolveRefines) (l cm uf ub rd wd mx m : Nat) (hcm1 : 1 ≤ cm)
    (hmx : mxrr cm uf (wd + rd) = some mx) (hm : mx ≤ m) (ops : List Ops.Op) (fuel : Nat) (hf1 : wd + rd + 2 ≤ fuel)
    (hf2 : l + mx + 2 ≤ fuel)
    (h : periodicOps (opt0Table m cm uf ub) uf cm mx l = some ops) :
    periodic_disk_revolve fuel (l : Int) (cm : Int) (rd : Rat) (wd : Rat) (uf : Rat) (ub : Rat) none (some (m : Int))
      = .ok (ops.map opPy) := by
  rw [periodic_none_some fuel _ _ _ _ _ _ _ _ _ (mxrr_close_formula_some cm uf wd rd mx fuel hf1 hmx)
    (get_opt_0_table_refines m cm uf ub (Or.inl hcm1))]
  exact periodicTail_refines hR m cm l cm uf ub mx _ _ (mxrr_pos _ _ _ _ hmx) hcm1 (Nat.le_refl _) hm ops fuel hf2 h

/-- non-vacuity: `l = 9`, `cm = 2`, `uf = ub = 1`, `wd = rd = 1`: period `mx = 3`; the hypotheses hold and the twin returns
a sequence -/
example : (1 : Nat) ≤ 2 ∧ mxrr 2 1 (1 + 1) = some 3 ∧ 1 + 1 + 2 ≤ 14 ∧ 9 + 3 + 2 ≤ 14 ∧
    (periodicOps (opt0Table (3 + 1) 2 1 1) 1 2 3 9).isSome = true := by decide

/-- **PeriodicDiskRevolve, builder and iterator both GENERATED**: `PeriodicDiskRevolve(N, cm, uf, ub, wd, rd).__init__`
calls `periodic_disk_revolve(N - 1, cm, wd, rd, uf, ub)` (`wd` in the position of `rd`; only `wd + rd` matters, the
statement covers both orders), then iterates.  Builder fuel: `max (wd + rd + 2) (N + mx + 1)` with `mx` the period. -/
theorem source_periodic_accepted_full (hR : RevolveRefines) (N cm : Nat) (c : Costs)
    (hv : validRevolve N cm c.uf c.ub = true) (k : Nat) (rd wd : Nat) (hwr : wd + rd = c.wd + c.rd) :
    ∃ mx, mxrr cm c.uf (c.wd + c.rd) = some mx ∧ ∀ bfuel, c.wd + c.rd + 2 ≤ bfuel → N + mx + 1 ≤ bfuel →
      ∃ pops, periodic_disk_revolve bfuel ((N : Int) - 1) (cm : Int) (rd : Rat) (wd : Rat) (c.uf : Rat) (c.ub : Rat)
          none none = .ok pops ∧
        ∀ fuel, pops.length + 1 ≤ fuel →
          ∃ pevs, revolve_run fuel (N : Int) pops = .ok pevs ∧
            Accepted (cfgDiskRevolve cm N) k (obsOfPy false N pevs) := by
  obtain ⟨hN, hcm, huf, _⟩ := (validRevolve_iff _ _ _ _).1 hv
  obtain ⟨ops, hops, hacc⟩ := source_periodic_accepted N cm c hv k
  unfold periodicOpsTop at hops
  cases hmx : mxrr cm c.uf (c.wd + c.rd) with
  | none => rw [hmx] at hops; cases hops
  | some mx =>
    rw [hmx] at hops
    simp only at hops
    refine ⟨mx, rfl, fun bfuel hb1 hb2 => ⟨ops.map opPy, ?_, ?_⟩⟩
    · have e : (N : Int) - 1 = ((N - 1 : Nat) : Int) := by omega
      rw [e]
      exact periodic_disk_revolve_refines hR (N - 1) cm c.uf c.ub rd wd mx hcm (by rw [hwr]; exact hmx) ops bfuel
        (by omega) (by omega) hops
    · intro fuel hf
      rw [List.length_map] at hf
      exact hacc fuel hf

example (hR : RevolveRefines) := source_periodic_accepted_full hR 3 2 ⟨1, 1, 1, 1⟩ (by decide) 1 1 1 rfl



/-! ## instances checked by evaluation, and the property corollaries -/

/-- an instance of the conclusion of `RevolveRefines` (`l = 3`, `cm = 2`, unit costs), checked by evaluation -/
example : ∃ ops, revolveOps (opt0Table 3 2 1 1) 1 (3 + 2) 3 2 = some ops ∧
    revolve 5 (3 : Nat) (2 : Nat) 1 1 ((1 : Nat) : Rat) ((1 : Nat) : Rat) (some (tabQ (opt0Table 3 2 1 1)))
      = .ok (ops.map opPy) :=
  ⟨_, rfl, by decide +kernel⟩

/-- the conclusions of `disk_revolve_refines_none` and `periodic_disk_revolve_refines` on instances, checked by evaluation
(independently of `RevolveRefines`): `l = 5`, `cm = 2`, `uf = ub = 1`, `wd = rd = 1` -/
example : ∃ ops, diskRevolveOps (opt0Table 5 2 1 1) (optInfTable 5 2 1 1 (1 + 1) (opt0Table 5 2 1 1)) 2 1 (1 + 1) 6 5 = some ops ∧
    disk_revolve 8 (5 : Nat) (2 : Nat) ((1 : Nat) : Rat) ((1 : Nat) : Rat) ((1 : Nat) : Rat) ((1 : Nat) : Rat) none none
      = .ok (ops.map opPy) :=
  ⟨_, rfl, by decide +kernel⟩

example : ∃ ops, periodicOps (opt0Table (3 + 1) 2 1 1) 1 2 3 9 = some ops ∧
    periodic_disk_revolve 14 (9 : Nat) (2 : Nat) ((1 : Nat) : Rat) ((1 : Nat) : Rat) ((1 : Nat) : Rat) ((1 : Nat) : Rat) none none
      = .ok (ops.map opPy) :=
  ⟨_, rfl, by decide +kernel⟩

/-- non-vacuity of `disk_revolve_refines` (tables passed: a table for `lmax = 6 ≥ 5` steps and `mmax = 3 ≥ 2` slots) -/
example : (1 : Nat) ≤ 2 ∧ 2 ≤ 3 ∧ 5 ≤ 6 ∧ 5 < (optInfTable 6 2 1 1 (1 + 1) (opt0Table 6 3 1 1)).size ∧ 5 + 3 ≤ 8 ∧
    (diskRevolveOps (opt0Table 6 3 1 1) (optInfTable 6 2 1 1 (1 + 1) (opt0Table 6 3 1 1)) 2 1 (1 + 1) 6 5).isSome = true := by
  decide

/-- the properties discharged for the translated builder + iterator of `DiskRevolve` (under `RevolveRefines`) -/
theorem source_diskRevolve_C01_C18_full (hR : RevolveRefines) (N cm : Nat) (c : Costs)
    (hv : validRevolve N cm c.uf c.ub = true) (rd wd : Nat) (hwr : wd + rd = c.wd + c.rd)
    (bfuel : Nat) (hb : N + 2 ≤ bfuel) :
    ∃ pops, disk_revolve bfuel ((N : Int) - 1) (cm : Int) (rd : Rat) (wd : Rat) (c.uf : Rat) (c.ub : Rat) none none
        = .ok pops ∧
      ∀ fuel, pops.length + 1 ≤ fuel →
        ∃ pevs, revolve_run fuel (N : Int) pops = .ok pevs ∧
          NoViolation (cfgDiskRevolve cm N) (obsOfPy false N pevs) ∧
          finished (cfgDiskRevolve cm N) (run (cfgDiskRevolve cm N) (obsOfPy false N pevs)).1 = true := by
  obtain ⟨pops, hp, h⟩ := source_diskRevolve_accepted_full hR N cm c hv 1 rd wd hwr bfuel hb
  refine ⟨pops, hp, fun fuel hf => ?_⟩
  obtain ⟨pevs, hpe, ha⟩ := h fuel hf
  exact ⟨pevs, hpe, ha.noViolation, ha.finished rfl⟩

/-- the same for `PeriodicDiskRevolve` -/
theorem source_periodic_C01_C18_full (hR : RevolveRefines) (N cm : Nat) (c : Costs)
    (hv : validRevolve N cm c.uf c.ub = true) (rd wd : Nat) (hwr : wd + rd = c.wd + c.rd) :
    ∃ mx, mxrr cm c.uf (c.wd + c.rd) = some mx ∧ ∀ bfuel, c.wd + c.rd + 2 ≤ bfuel → N + mx + 1 ≤ bfuel →
      ∃ pops, periodic_disk_revolve bfuel ((N : Int) - 1) (cm : Int) (rd : Rat) (wd : Rat) (c.uf : Rat) (c.ub : Rat)
          none none = .ok pops ∧
        ∀ fuel, pops.length + 1 ≤ fuel →
          ∃ pevs, revolve_run fuel (N : Int) pops = .ok pevs ∧
            NoViolation (cfgDiskRevolve cm N) (obsOfPy false N pevs) ∧
            finished (cfgDiskRevolve cm N) (run (cfgDiskRevolve cm N) (obsOfPy false N pevs)).1 = true := by
  obtain ⟨mx, hmx, h⟩ := source_periodic_accepted_full hR N cm c hv 1 rd wd hwr
  refine ⟨mx, hmx, fun bfuel hb1 hb2 => ?_⟩
  obtain ⟨pops, hp, h'⟩ := h bfuel hb1 hb2
  refine ⟨pops, hp, fun fuel hf => ?_⟩
  obtain ⟨pevs, hpe, ha⟩ := h' fuel hf
  exact ⟨pevs, hpe, ha.noViolation, ha.finished rfl⟩

#print axioms argmin_rat_refines_sd
#print axioms seqShift_map_opPy
#print axioms seqRemoveUselessWm_map_opPy
#print axioms revolveOps_mono_sd
#print axioms disk_revolve_refines
#print axioms disk_revolve_refines_none
#print axioms disk_revolve_refines_some_none
#print axioms disk_revolve_refines_none_some
#print axioms periodic_disk_revolve_refines
#print axioms periodic_disk_revolve_refines_some
#print axioms periodic_disk_revolve_refines_mmax
#print axioms source_diskRevolve_accepted_full
#print axioms source_periodic_accepted_full
#print axioms source_diskRevolve_C01_C18_full
#print axioms source_periodic_C01_C18_full

end Ckpt.Py
