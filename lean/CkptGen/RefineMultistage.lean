import CkptGen.RefineNAdv
import CkptVerif.Properties.Twins
import CkptVerif.Proofs.MultistageE2E
import Mathlib.Tactic
import CkptGen.RefineCommon
/-!
# The Lean text generated from `MultistageCheckpointSchedule._iterator` yields the model's events

`Ckpt.Py.multistage_iterator` (with its loops `while1/while2/while3`) is produced by `harness/py2lean.py` from the
current Python source.  It is related here to the literal twin `msFwd/msRev/msInner` (`Model/MultistageIter.lean`)
by a simulation: the generated text is cut into three continuations (`genFwd`, `genRev`, `genInner`: "the rest of
the run from the head of this loop on"), one equation per loop iteration / loop exit is proved
(`genFwd_step`, …, from `while1_step`, … and `n_advance_refines`), and an induction on the twin's fuel shows that
whenever the twin returns `.ok evs` the continuation returns `out ++ markLast (evs as PyEv)` (`sim_all`).
The twin's `snapshots` stack is most-recent-first, the generated list is oldest-first (`snapsPy`).
`twin_multistage` then gives the statement for the stream model `multistageEvs`.

Fuel: `multistageFuel N = N + 2` (the same number is handed to every loop and to `n_advance`).
-/

namespace Ckpt.Py
open Ckpt

/-! ## the model's values as values of the generated text -/

theorem stPy_work : stPy .work = .work := rfl

/-- the last event carries `exhausted = true` -/
def markLast : List PyEv → List PyEv
  | [] => []
  | [e] => [{ e with exhausted := true }]
  | e :: e' :: es => e :: markLast (e' :: es)

theorem markLast_cons_ne (e : PyEv) (l : List PyEv) (h : l ≠ []) : markLast (e :: l) = e :: markLast l := by
  cases l with
  | nil => exact absurd rfl h
  | cons a l => rfl

theorem markLast_append_ne (a b : List PyEv) (h : b ≠ []) : markLast (a ++ b) = a ++ markLast b := by
  induction a with
  | nil => rfl
  | cons x a ih =>
    rw [List.cons_append, markLast_cons_ne _ _ (by simp [h]), ih, List.cons_append]

/-! ## list support -/

theorem pyIndex_nat_ms {α : Type} (xs : List α) (i : Nat) (h : i < xs.length) :
    pyIndex xs (i : Int) = .ok xs[i] := by
  unfold pyIndex
  have h1 : ¬ ((i : Int) < 0) := by omega
  simp only [h1, if_false, Int.toNat_natCast, List.getElem?_eq_getElem h]
  rfl

theorem pyIndex_last {α : Type} (xs : List α) (x : α) : pyIndex (xs ++ [x]) (-1) = .ok x := by
  unfold pyIndex
  have e : (-1 : Int) + ((xs ++ [x]).length : Int) = (xs.length : Nat) := by simp
  have h0 : ((-1 : Int) < 0) := by omega
  have h1 : ¬ (((xs.length : Nat) : Int) < 0) := by omega
  simp only [h0, if_true, e, h1, if_false, Int.toNat_natCast]
  simp
  rfl

theorem pyPop_snoc {α : Type} (xs : List α) (x : α) : pyPop (xs ++ [x]) = .ok xs := by
  unfold pyPop
  simp
  rfl

/-! ## one iteration of each generated loop -/

section gen
variable (N S : Nat) (storage : List Storage) (ram disk : Int) (traj : Traj)

theorem while1_step (hlen : storage.length = S) (hrd : ram + disk = (S : Int)) (r : Int) (ex : Bool)
    (fuel n a : Nat) (out : List PyEv) (snaps : List Int) (h : n < N - 1)
    (ha : nAdvance (N - n) (S - snaps.length) traj = some a) (ha1 : 1 ≤ a) (hS : snaps.length < S)
    (hf : N - n + 1 ≤ fuel) :
    multistage_iterator.while1 (some (N : Int)) ram disk (trajStr traj) (storage.map stPy) r ex (fuel + 1)
        ((n : Int), out, snaps) =
      multistage_iterator.while1 (some (N : Int)) ram disk (trajStr traj) (storage.map stPy) r ex fuel
        (((n + a : Nat) : Int),
          out ++ [PyEv.mk (.forward (n : Int) ((n + a : Nat) : Int) true false
            (stPy (storage.getD snaps.length .none))) ((n + a : Nat) : Int) r ex],
          snaps ++ [(n : Int)]) := by
  rw [multistage_iterator.while1]
  simp only [bind, Except.bind, pure, Except.pure, unwrap]
  have hc : (n : Int) < (N : Int) - 1 := by omega
  have e1 : (N : Int) - (n : Int) = ((N - n : Nat) : Int) := by omega
  have e2 : ram + disk - (snaps.length : Int) = ((S - snaps.length : Nat) : Int) := by rw [hrd]; omega
  rw [if_pos hc, e1, e2, n_advance_refines _ _ _ _ hf, ha]
  simp only [ofOpt]
  have h3 : ¬ ¬ ((n : Int) + (a : Int) > (n : Int)) := by omega
  have h4 : ¬ ((snaps.length : Int) ≥ ram + disk) := by rw [hrd]; omega
  have e3 : (((snaps ++ [(n : Int)]).length : Int) - 1) = ((snaps.length : Nat) : Int) := by simp
  rw [if_neg h3, if_neg h4, e3, pyIndex_nat_ms _ _ (by simp; omega)]
  simp only [List.getElem_map]
  have e4 : storage.getD snaps.length Storage.none = storage[snaps.length]'(by omega) := by
    simp [List.getD_eq_getElem?_getD, List.getElem?_eq_getElem (show snaps.length < storage.length by omega)]
  rw [e4]
  push_cast
  rfl

theorem while1_exit (r : Int) (ex : Bool) (fuel n : Nat) (out : List PyEv) (snaps : List Int)
    (h : ¬ n < N - 1) (hN : 1 ≤ N) :
    multistage_iterator.while1 (some (N : Int)) ram disk (trajStr traj) (storage.map stPy) r ex (fuel + 1)
        ((n : Int), out, snaps) = .ok ((n : Int), out, snaps) := by
  rw [multistage_iterator.while1]
  simp only [bind, Except.bind, pure, Except.pure, unwrap]
  have hc : ¬ (n : Int) < (N : Int) - 1 := by omega
  rw [if_neg hc]

theorem while3_step (hlen : storage.length = S) (hrd : ram + disk = (S : Int)) (r : Nat) (ex : Bool)
    (fuel n a : Nat) (ns n0 n1 : Int) (cs : StorageType) (out : List PyEv) (snaps : List Int)
    (h : n < N - r - 1)
    (ha : nAdvance (N - r - n) (S - snaps.length) traj = some a) (ha1 : 1 ≤ a) (hS : snaps.length < S)
    (hf : N - r - n + 1 ≤ fuel) :
    multistage_iterator.while3 (some (N : Int)) (r : Int) ram disk (trajStr traj) (storage.map stPy) ex (fuel + 1)
        (ns, n0, n1, (n : Int), cs, out, snaps) =
      multistage_iterator.while3 (some (N : Int)) (r : Int) ram disk (trajStr traj) (storage.map stPy) ex fuel
        (((S - snaps.length : Nat) : Int), (n : Int), ((n + a : Nat) : Int), ((n + a : Nat) : Int),
          stPy (storage.getD snaps.length .none),
          out ++ [evPy ⟨.forward n (n + a) true false (storage.getD snaps.length .none), n + a, r⟩ ex],
          snaps ++ [(n : Int)]) := by
  rw [multistage_iterator.while3]
  simp only [bind, Except.bind, pure, Except.pure, unwrap]
  have hc : (n : Int) < (N : Int) - (r : Int) - 1 := by omega
  have e1 : (N : Int) - (r : Int) - (n : Int) = ((N - r - n : Nat) : Int) := by omega
  have e2 : ram + disk - (snaps.length : Int) = ((S - snaps.length : Nat) : Int) := by rw [hrd]; omega
  rw [if_pos hc, e1, e2, n_advance_refines _ _ _ _ hf, ha]
  simp only [ofOpt]
  have h3 : ¬ ¬ ((n : Int) + (a : Int) > (n : Int)) := by omega
  have h4 : ¬ ((snaps.length : Int) ≥ ram + disk) := by rw [hrd]; omega
  have e3 : (((snaps ++ [(n : Int)]).length : Int) - 1) = ((snaps.length : Nat) : Int) := by simp
  rw [if_neg h3, if_neg h4, e3, pyIndex_nat_ms _ _ (by simp; omega)]
  simp only [List.getElem_map]
  have e4 : storage.getD snaps.length Storage.none = storage[snaps.length]'(by omega) := by
    simp [List.getD_eq_getElem?_getD, List.getElem?_eq_getElem (show snaps.length < storage.length by omega)]
  rw [e4]
  simp only [evPy, actPy]
  push_cast
  rfl

theorem while3_exit (r : Nat) (ex : Bool)
    (fuel n : Nat) (ns n0 n1 : Int) (cs : StorageType) (out : List PyEv) (snaps : List Int)
    (h : ¬ n < N - r - 1) (hr : r < N) :
    multistage_iterator.while3 (some (N : Int)) (r : Int) ram disk (trajStr traj) (storage.map stPy) ex (fuel + 1)
        (ns, n0, n1, (n : Int), cs, out, snaps) = .ok (ns, n0, n1, (n : Int), cs, out, snaps) := by
  rw [multistage_iterator.while3]
  simp only [bind, Except.bind, pure, Except.pure, unwrap]
  have hc : ¬ (n : Int) < (N : Int) - (r : Int) - 1 := by omega
  rw [if_neg hc]

theorem while2_exit (ex : Bool) (fuel : Nat) (n : Int) (r : Nat) (out : List PyEv) (snaps : List Int)
    (h : ¬ r < N) :
    multistage_iterator.while2 (some (N : Int)) (storage.map stPy) ram disk (trajStr traj) ex (fuel + 1)
        (n, (r : Int), out, snaps) = .ok (n, (r : Int), out, snaps) := by
  rw [multistage_iterator.while2]
  simp only [bind, Except.bind, pure, Except.pure, unwrap]
  have hc : ¬ (r : Int) < (N : Int) := by omega
  rw [if_neg hc]

theorem while2_move (hlen : storage.length = S) (ex : Bool) (fuel : Nat) (n : Int) (r cp : Nat)
    (out : List PyEv) (snaps : List Int) (hr : r < N) (h : cp + 1 = N - r) (hS : snaps.length < S) :
    multistage_iterator.while2 (some (N : Int)) (storage.map stPy) ram disk (trajStr traj) ex (fuel + 1)
        (n, (r : Int), out, snaps ++ [(cp : Int)]) =
      multistage_iterator.while2 (some (N : Int)) (storage.map stPy) ram disk (trajStr traj) ex fuel
        (((cp + 1 : Nat) : Int), ((r + 1 : Nat) : Int),
          out ++ [evPy ⟨.move cp (storage.getD snaps.length .none) .work, cp, r⟩ ex,
            evPy ⟨.forward cp (cp + 1) false true .work, cp + 1, r⟩ ex,
            evPy ⟨.reverse (cp + 1) cp true, cp + 1, r + 1⟩ ex], snaps) := by
  rw [multistage_iterator.while2]
  simp only [bind, Except.bind, pure, Except.pure, unwrap]
  have hc : (r : Int) < (N : Int) := by omega
  have h0 : ¬ (((snaps ++ [(cp : Int)]).length : Int) = 0) := by simp; omega
  have e3 : (((snaps ++ [(cp : Int)]).length : Int) - 1) = ((snaps.length : Nat) : Int) := by simp
  rw [if_pos hc, if_neg h0, pyIndex_last, e3, pyIndex_nat_ms _ _ (by simp; omega)]
  simp only [List.getElem_map]
  have hm : (cp : Int) = (N : Int) - (r : Int) - 1 := by omega
  rw [if_pos hm, pyPop_snoc]
  simp only []
  have e4 : storage.getD snaps.length Storage.none = storage[snaps.length]'(by omega) := by
    simp [List.getD_eq_getElem?_getD, List.getElem?_eq_getElem (show snaps.length < storage.length by omega)]
  rw [e4]
  simp only [evPy, actPy, stPy, List.append_assoc, List.cons_append, List.nil_append]
  push_cast
  simp only [add_sub_cancel_right]

/-- the rest of the body of the reverse loop after the inner loop (lines 277-283) and the next iterations -/
def revTail (F : Nat) (r : Int) (ex : Bool)
    (v : Int × Int × Int × Int × StorageType × List PyEv × List Int) : M (Int × Int × List PyEv × List Int) :=
  if v.2.2.2.1 ≠ (N : Int) - r - 1 then throw .runtimeError else
    multistage_iterator.while2 (some (N : Int)) (storage.map stPy) ram disk (trajStr traj) ex F
      (v.2.2.2.1 + 1, r + 1,
        v.2.2.2.2.2.1 ++ [PyEv.mk (.forward (v.2.2.2.1 + 1 - 1) (v.2.2.2.1 + 1) false true .work) (v.2.2.2.1 + 1) r ex]
          ++ [PyEv.mk (.reverse (v.2.2.2.1 + 1) (v.2.2.2.1 + 1 - 1) true) (v.2.2.2.1 + 1) (r + 1) ex],
        v.2.2.2.2.2.2)

theorem while2_copy (hlen : storage.length = S) (hrd : ram + disk = (S : Int)) (ex : Bool) (fuel : Nat) (n : Int)
    (r cp a : Nat) (out : List PyEv) (snaps : List Int) (hr : r < N) (h : cp + 1 ≠ N - r)
    (ha : nAdvance (N - r - cp) (S - (snaps.length + 1) + 1) traj = some a) (ha1 : 1 ≤ a)
    (hS : snaps.length < S) (hf : N - r - cp + 1 ≤ fuel) :
    multistage_iterator.while2 (some (N : Int)) (storage.map stPy) ram disk (trajStr traj) ex (fuel + 1)
        (n, (r : Int), out, snaps ++ [(cp : Int)]) =
      multistage_iterator.while3 (some (N : Int)) (r : Int) ram disk (trajStr traj) (storage.map stPy) ex fuel
        (((S - (snaps.length + 1) + 1 : Nat) : Int), (cp : Int), ((cp + a : Nat) : Int), ((cp + a : Nat) : Int),
          stPy (storage.getD snaps.length .none),
          out ++ [evPy ⟨.copy cp (storage.getD snaps.length .none) .work, cp, r⟩ ex,
            evPy ⟨.forward cp (cp + a) false false .work, cp + a, r⟩ ex],
          snaps ++ [(cp : Int)]) >>= revTail N storage ram disk traj fuel (r : Int) ex := by
  rw [multistage_iterator.while2]
  simp only [bind, Except.bind, pure, Except.pure, unwrap]
  have hc : (r : Int) < (N : Int) := by omega
  have h0 : ¬ (((snaps ++ [(cp : Int)]).length : Int) = 0) := by simp; omega
  have e3 : (((snaps ++ [(cp : Int)]).length : Int) - 1) = ((snaps.length : Nat) : Int) := by simp
  rw [if_pos hc, if_neg h0, pyIndex_last, e3, pyIndex_nat_ms _ _ (by simp; omega)]
  simp only [List.getElem_map]
  have hm : ¬ (cp : Int) = (N : Int) - (r : Int) - 1 := by omega
  have hpos : 1 ≤ N - r - cp := by
    by_contra hc
    have : N - r - cp = 0 := by omega
    rw [this] at ha
    simp [nAdvance] at ha
  have e1 : (N : Int) - (r : Int) - (cp : Int) = ((N - r - cp : Nat) : Int) := by omega
  have e2 : ram + disk - (((snaps ++ [(cp : Int)]).length : Nat) : Int) + 1 = ((S - (snaps.length + 1) + 1 : Nat) : Int) := by
    rw [hrd]; simp; omega
  rw [if_neg hm, e1, e2, n_advance_refines _ _ _ _ hf, ha]
  simp only [ofOpt]
  have h3 : ¬ ¬ ((cp : Int) + (a : Int) > (cp : Int)) := by omega
  rw [if_neg h3]
  have e4 : storage.getD snaps.length Storage.none = storage[snaps.length]'(by omega) := by
    simp [List.getD_eq_getElem?_getD, List.getElem?_eq_getElem (show snaps.length < storage.length by omega)]
  rw [e4]
  simp only [evPy, actPy, stPy_work, List.append_assoc, List.cons_append, List.nil_append]
  push_cast
  generalize multistage_iterator.while3 _ _ _ _ _ _ _ _ _ = w
  cases w with
  | error e => rfl
  | ok v =>
    simp only [revTail]
    split_ifs
    · rfl
    · simp only [List.append_assoc, List.cons_append, List.nil_append]

/-! ## the generated function as three continuations (`forward loop`, `reverse loop`, `inner loop`) -/

/-- lines 284-290: the final checks and `EndReverse` -/
def fin2 (v : Int × Int × List PyEv × List Int) : M (List PyEv) :=
  if v.2.1 ≠ (N : Int) then throw .runtimeError else
  if ((v.2.2.2.length : Nat) : Int) ≠ 0 then throw .runtimeError else
  .ok (v.2.2.1 ++ [PyEv.mk .endReverse v.1 v.2.1 true])

/-- the generated text from the head of the reverse loop on -/
def genRev (F : Nat) (s : Int × Int × List PyEv × List Int) : M (List PyEv) :=
  multistage_iterator.while2 (some (N : Int)) (storage.map stPy) ram disk (trajStr traj) false F s >>= fin2 N

/-- the generated text from the head of the inner loop on -/
def genInner (Fw F : Nat) (r : Int) (s : Int × Int × Int × Int × StorageType × List PyEv × List Int) :
    M (List PyEv) :=
  multistage_iterator.while3 (some (N : Int)) r ram disk (trajStr traj) (storage.map stPy) false Fw s >>=
    fun v => revTail N storage ram disk traj F r false v >>= fin2 N

/-- lines 230-241 and the rest -/
def fwdTail (F : Nat) (r : Int) (v : Int × List PyEv × List Int) : M (List PyEv) :=
  if v.1 ≠ (N : Int) - 1 then throw .runtimeError else
    genRev N storage ram disk traj F
      (v.1 + 1, r + 1,
        v.2.1 ++ [PyEv.mk (.forward (v.1 + 1 - 1) (v.1 + 1) false true .work) (v.1 + 1) r false]
          ++ [PyEv.mk .endForward (v.1 + 1) r false]
          ++ [PyEv.mk (.reverse (v.1 + 1) (v.1 + 1 - 1) true) (v.1 + 1) (r + 1) false],
        v.2.2)

/-- the generated text from the head of the forward loop on -/
def genFwd (Fw F : Nat) (r : Int) (s : Int × List PyEv × List Int) : M (List PyEv) :=
  multistage_iterator.while1 (some (N : Int)) ram disk (trajStr traj) (storage.map stPy) r false Fw s >>=
    fwdTail N storage ram disk traj F r

theorem multistage_iterator_eq (fuel : Nat) :
    multistage_iterator fuel 0 0 (some (N : Int)) ram disk (storage.map stPy) (trajStr traj) false =
      genFwd N storage ram disk traj fuel fuel 0 (0, [], []) := by
  unfold multistage_iterator genFwd
  simp only [bind, Except.bind, pure, Except.pure, unwrap]
  rw [if_neg (by simp)]
  generalize multistage_iterator.while1 _ _ _ _ _ _ _ _ _ = w
  cases w with
  | error e => rfl
  | ok v =>
    simp only [fwdTail]
    split_ifs
    · rfl
    · simp only [genRev, bind, Except.bind]
      generalize multistage_iterator.while2 _ _ _ _ _ _ _ _ = w2
      cases w2 with
      | error e => rfl
      | ok v2 => rfl

theorem genFwd_step (hlen : storage.length = S) (hrd : ram + disk = (S : Int)) (r : Nat)
    (Fw F n a : Nat) (out : List PyEv) (snaps : List Int) (h : n < N - 1)
    (ha : nAdvance (N - n) (S - snaps.length) traj = some a) (ha1 : 1 ≤ a) (hS : snaps.length < S)
    (hf : N - n + 1 ≤ Fw) :
    genFwd N storage ram disk traj (Fw + 1) F (r : Int) ((n : Int), out, snaps) =
      genFwd N storage ram disk traj Fw F (r : Int) (((n + a : Nat) : Int),
        out ++ [evPy ⟨.forward n (n + a) true false (storage.getD snaps.length .none), n + a, r⟩ false],
        snaps ++ [(n : Int)]) := by
  unfold genFwd
  rw [while1_step N S storage ram disk traj hlen hrd (r : Int) false Fw n a out snaps h ha ha1 hS hf]
  rfl

theorem genFwd_exit (r : Nat) (Fw F n : Nat) (out : List PyEv) (snaps : List Int) (h : n + 1 = N) :
    genFwd N storage ram disk traj (Fw + 1) F (r : Int) ((n : Int), out, snaps) =
      genRev N storage ram disk traj F (((n + 1 : Nat) : Int), ((r + 1 : Nat) : Int),
        out ++ [evPy ⟨.forward n (n + 1) false true .work, n + 1, r⟩ false,
          evPy ⟨.endForward, n + 1, r⟩ false, evPy ⟨.reverse (n + 1) n true, n + 1, r + 1⟩ false], snaps) := by
  unfold genFwd
  rw [while1_exit N storage ram disk traj (r : Int) false Fw n out snaps (by omega) (by omega)]
  show fwdTail N storage ram disk traj F r _ = _
  simp only [fwdTail]
  rw [if_neg (by omega)]
  simp only [evPy, actPy, stPy_work, List.append_assoc, List.cons_append, List.nil_append]
  push_cast
  simp only [add_sub_cancel_right]

theorem genRev_move (hlen : storage.length = S) (F : Nat) (n : Int) (r cp : Nat)
    (out : List PyEv) (snaps : List Int) (hr : r < N) (h : cp + 1 = N - r) (hS : snaps.length < S) :
    genRev N storage ram disk traj (F + 1) (n, (r : Int), out, snaps ++ [(cp : Int)]) =
      genRev N storage ram disk traj F (((cp + 1 : Nat) : Int), ((r + 1 : Nat) : Int),
          out ++ [evPy ⟨.move cp (storage.getD snaps.length .none) .work, cp, r⟩ false,
            evPy ⟨.forward cp (cp + 1) false true .work, cp + 1, r⟩ false,
            evPy ⟨.reverse (cp + 1) cp true, cp + 1, r + 1⟩ false], snaps) := by
  unfold genRev
  rw [while2_move N S storage ram disk traj hlen false F n r cp out snaps hr h hS]

theorem genRev_copy (hlen : storage.length = S) (hrd : ram + disk = (S : Int)) (F : Nat) (n : Int)
    (r cp a : Nat) (out : List PyEv) (snaps : List Int) (hr : r < N) (h : cp + 1 ≠ N - r)
    (ha : nAdvance (N - r - cp) (S - (snaps.length + 1) + 1) traj = some a) (ha1 : 1 ≤ a)
    (hS : snaps.length < S) (hf : N - r - cp + 1 ≤ F) :
    genRev N storage ram disk traj (F + 1) (n, (r : Int), out, snaps ++ [(cp : Int)]) =
      genInner N storage ram disk traj F F (r : Int)
        (((S - (snaps.length + 1) + 1 : Nat) : Int), (cp : Int), ((cp + a : Nat) : Int), ((cp + a : Nat) : Int),
          stPy (storage.getD snaps.length .none),
          out ++ [evPy ⟨.copy cp (storage.getD snaps.length .none) .work, cp, r⟩ false,
            evPy ⟨.forward cp (cp + a) false false .work, cp + a, r⟩ false],
          snaps ++ [(cp : Int)]) := by
  unfold genRev genInner
  rw [while2_copy N S storage ram disk traj hlen hrd false F n r cp a out snaps hr h ha ha1 hS hf, bind_assoc]

theorem genRev_exit (F n : Nat) (out : List PyEv) :
    genRev N storage ram disk traj (F + 1) ((n : Int), (N : Int), out, []) =
      .ok (out ++ [evPy ⟨.endReverse, n, N⟩ true]) := by
  unfold genRev
  rw [while2_exit N storage ram disk traj false F n N out [] (by omega)]
  show fin2 N _ = _
  simp only [fin2]
  rw [if_neg (by simp), if_neg (by simp)]
  rfl

theorem genInner_step (hlen : storage.length = S) (hrd : ram + disk = (S : Int)) (r : Nat)
    (Fw F n a : Nat) (ns n0 n1 : Int) (cs : StorageType) (out : List PyEv) (snaps : List Int)
    (h : n < N - r - 1)
    (ha : nAdvance (N - r - n) (S - snaps.length) traj = some a) (ha1 : 1 ≤ a) (hS : snaps.length < S)
    (hf : N - r - n + 1 ≤ Fw) :
    genInner N storage ram disk traj (Fw + 1) F (r : Int) (ns, n0, n1, (n : Int), cs, out, snaps) =
      genInner N storage ram disk traj Fw F (r : Int)
        (((S - snaps.length : Nat) : Int), (n : Int), ((n + a : Nat) : Int), ((n + a : Nat) : Int),
          stPy (storage.getD snaps.length .none),
          out ++ [evPy ⟨.forward n (n + a) true false (storage.getD snaps.length .none), n + a, r⟩ false],
          snaps ++ [(n : Int)]) := by
  unfold genInner
  rw [while3_step N S storage ram disk traj hlen hrd r false Fw n a ns n0 n1 cs out snaps h ha ha1 hS hf]

theorem genInner_exit (r : Nat) (Fw F n : Nat) (ns n0 n1 : Int) (cs : StorageType) (out : List PyEv)
    (snaps : List Int) (h : n + 1 = N - r) (hr : r < N) :
    genInner N storage ram disk traj (Fw + 1) F (r : Int) (ns, n0, n1, (n : Int), cs, out, snaps) =
      genRev N storage ram disk traj F (((n + 1 : Nat) : Int), ((r + 1 : Nat) : Int),
        out ++ [evPy ⟨.forward n (n + 1) false true .work, n + 1, r⟩ false,
          evPy ⟨.reverse (n + 1) n true, n + 1, r + 1⟩ false], snaps) := by
  unfold genInner
  rw [while3_exit N storage ram disk traj r false Fw n ns n0 n1 cs out snaps (by omega) hr]
  show revTail N storage ram disk traj F r false _ >>= fin2 N = _
  simp only [revTail]
  rw [if_neg (by omega)]
  simp only [genRev, evPy, actPy, stPy_work, List.append_assoc, List.cons_append, List.nil_append]
  push_cast
  simp only [add_sub_cancel_right]

end gen

/-! ## simulation: twin (continuation style) against the generated text -/

theorem yieldEv_inv (e : Ev) (k : Except Err (List Ev)) (l : List Ev) (h : yieldEv e k = .ok l) :
    ∃ l', k = .ok l' ∧ l = e :: l' := by
  cases k with
  | error x => simp [yieldEv] at h
  | ok l' =>
    simp only [yieldEv, Except.ok.injEq] at h
    exact ⟨l', rfl, h.symm⟩

theorem emits_inv (es : List Ev) (k : Except Err (List Ev)) (l : List Ev) (h : RC.emits es k = .ok l) :
    ∃ l', k = .ok l' ∧ l = es ++ l' := by
  induction es generalizing l with
  | nil => exact ⟨l, h, rfl⟩
  | cons e es ih =>
    rw [RC.emits_cons] at h
    obtain ⟨l1, h1, h2⟩ := yieldEv_inv _ _ _ h
    obtain ⟨l', h3, h4⟩ := ih l1 h1
    exact ⟨l', h3, by rw [h2, h4]; rfl⟩

/-- the generated `snapshots` list: oldest first -/
def snapsPy (l : List Nat) : List Int := l.reverse.map (fun k : Nat => (k : Int))

theorem snapsPy_cons (a : Nat) (l : List Nat) : snapsPy (a :: l) = snapsPy l ++ [(a : Int)] := by
  simp [snapsPy]

theorem snapsPy_length (l : List Nat) : (snapsPy l).length = l.length := by simp [snapsPy]

theorem nAdvance_zero (k : Nat) (traj : Traj) : nAdvance 0 k traj = none := by simp [nAdvance]

section sim
variable (N S : Nat) (storage : List Storage) (ram disk : Int) (traj : Traj)

def PFwd (f : Nat) : Prop :=
  ∀ (σ : MsSt) (evs : List Ev), msFwd N S (fun d => storage.getD d .none) traj f σ = .ok evs →
    σ.snapshots.length ≤ S → ∀ (Fw F : Nat) (out : List PyEv), N + 2 ≤ Fw + σ.n → N + 2 ≤ F + σ.r →
    evs ≠ [] ∧ genFwd N storage ram disk traj Fw F (σ.r : Int) ((σ.n : Int), out, snapsPy σ.snapshots) =
      .ok (out ++ markLast (evs.map (evPy · false)))

def PRev (f : Nat) : Prop :=
  ∀ (σ : MsSt) (evs : List Ev), msRev N S (fun d => storage.getD d .none) traj f σ = .ok evs →
    σ.snapshots.length ≤ S → ∀ (F : Nat) (out : List PyEv), N + 3 ≤ F + σ.r →
    evs ≠ [] ∧ genRev N storage ram disk traj F ((σ.n : Int), (σ.r : Int), out, snapsPy σ.snapshots) =
      .ok (out ++ markLast (evs.map (evPy · false)))

def PInner (f : Nat) : Prop :=
  ∀ (σ : MsSt) (evs : List Ev), msInner N S (fun d => storage.getD d .none) traj f σ = .ok evs →
    σ.snapshots.length ≤ S → σ.r < N → ∀ (Fw F : Nat) (ns n0 n1 : Int) (cs : StorageType) (out : List PyEv),
    N + 2 ≤ Fw + σ.r + σ.n → N + 2 ≤ F + σ.r →
    evs ≠ [] ∧ genInner N storage ram disk traj Fw F (σ.r : Int)
        (ns, n0, n1, (σ.n : Int), cs, out, snapsPy σ.snapshots) =
      .ok (out ++ markLast (evs.map (evPy · false)))

/-- glue: a block of events, then the continuation -/
theorem glue (es l' : List Ev) (out : List PyEv) (g : M (List PyEv)) (hl : l' ≠ [])
    (hg : g = .ok ((out ++ es.map (evPy · false)) ++ markLast (l'.map (evPy · false)))) :
    es ++ l' ≠ [] ∧ g = .ok (out ++ markLast ((es ++ l').map (evPy · false))) := by
  refine ⟨by simp [hl], ?_⟩
  rw [hg, List.map_append, markLast_append_ne _ _ (by simp [hl]), List.append_assoc]

theorem stepFwd (hN : 1 ≤ N) (hlen : storage.length = S) (hrd : ram + disk = (S : Int)) (f : Nat)
    (ihF : PFwd N S storage ram disk traj f) (ihR : PRev N S storage ram disk traj f) :
    PFwd N S storage ram disk traj (f + 1) := by
  intro σ evs h hS Fw F out hFw hF
  obtain ⟨n, r, stack⟩ := σ
  simp only at hS hFw hF ⊢
  by_cases hc : n < N - 1
  · cases ha : nAdvance (N - n) (S - stack.length) traj with
    | none => rw [msFwd] at h; simp [hc, ha] at h
    | some a =>
      by_cases ha1 : 1 ≤ a
      · have hu := RC.nAdvance_units _ _ _ _ ha
        have hS' : stack.length < S := by omega
        rw [RC.fwd_iter N S _ traj f n r a stack hc ha ha1 hS'] at h
        obtain ⟨l', h1, h2⟩ := yieldEv_inv _ _ _ h
        obtain ⟨Fw', rfl⟩ : ∃ k, Fw = k + 1 := ⟨Fw - 1, by omega⟩
        have := ihF ⟨n + a, r, n :: stack⟩ l' h1 (by simp; omega) Fw' F
          (out ++ [evPy ⟨.forward n (n + a) true false (storage.getD stack.length .none), n + a, r⟩ false])
          (by simp only; omega) hF
        rw [genFwd_step N S storage ram disk traj hlen hrd r Fw' F n a out (snapsPy stack) hc
          (by rw [snapsPy_length]; exact ha) ha1 (by rw [snapsPy_length]; exact hS') (by omega)]
        rw [h2]
        rw [snapsPy_length]
        simp only [snapsPy_cons] at this
        exact glue [_] l' out _ this.1 this.2
      · have ha0 : a = 0 := by omega
        rw [msFwd] at h; simp [hc, ha, ha0] at h
  · by_cases hn : n + 1 = N
    · rw [RC.fwd_exit N S _ traj f n r stack hn] at h
      obtain ⟨l', h1, h2⟩ := emits_inv _ _ _ h
      obtain ⟨Fw', rfl⟩ : ∃ k, Fw = k + 1 := ⟨Fw - 1, by omega⟩
      have := ihR ⟨n + 1, r + 1, stack⟩ l' h1 hS F
        (out ++ [evPy ⟨.forward n (n + 1) false true .work, n + 1, r⟩ false,
          evPy ⟨.endForward, n + 1, r⟩ false, evPy ⟨.reverse (n + 1) n true, n + 1, r + 1⟩ false])
        (by simp only; omega)
      rw [genFwd_exit N storage ram disk traj r Fw' F n out (snapsPy stack) hn, h2]
      exact glue [_, _, _] l' out _ this.1 this.2
    · rw [msFwd] at h
      have : n ≠ N - 1 := by omega
      simp [hc, this, msErr] at h

theorem stepInner (hlen : storage.length = S) (hrd : ram + disk = (S : Int)) (f : Nat)
    (ihI : PInner N S storage ram disk traj f) (ihR : PRev N S storage ram disk traj f) :
    PInner N S storage ram disk traj (f + 1) := by
  intro σ evs h hS hr Fw F ns n0 n1 cs out hFw hF
  obtain ⟨n, r, stack⟩ := σ
  simp only at hS hFw hF hr ⊢
  by_cases hc : n < N - r - 1
  · cases ha : nAdvance (N - r - n) (S - stack.length) traj with
    | none => rw [msInner] at h; simp [hc, ha] at h
    | some a =>
      by_cases ha1 : 1 ≤ a
      · have hu := RC.nAdvance_units _ _ _ _ ha
        have hS' : stack.length < S := by omega
        rw [RC.inner_iter N S _ traj f n r a stack hc ha ha1 hS'] at h
        obtain ⟨l', h1, h2⟩ := yieldEv_inv _ _ _ h
        obtain ⟨Fw', rfl⟩ : ∃ k, Fw = k + 1 := ⟨Fw - 1, by omega⟩
        have := ihI ⟨n + a, r, n :: stack⟩ l' h1 (by simp; omega) hr Fw' F
          (((S - (snapsPy stack).length : Nat) : Int)) (n : Int) ((n + a : Nat) : Int)
          (stPy (storage.getD (snapsPy stack).length .none))
          (out ++ [evPy ⟨.forward n (n + a) true false (storage.getD stack.length .none), n + a, r⟩ false])
          (by simp only; omega) hF
        rw [genInner_step N S storage ram disk traj hlen hrd r Fw' F n a ns n0 n1 cs out (snapsPy stack) hc
          (by rw [snapsPy_length]; exact ha) ha1 (by rw [snapsPy_length]; exact hS') (by omega)]
        rw [h2]
        simp only [snapsPy_cons] at this
        rw [snapsPy_length] at this ⊢
        exact glue [_] l' out _ this.1 this.2
      · have ha0 : a = 0 := by omega
        rw [msInner] at h; simp [hc, ha, ha0] at h
  · by_cases hn : n + 1 = N - r
    · rw [RC.inner_exit' N S _ traj f n r stack hn] at h
      obtain ⟨l', h1, h2⟩ := emits_inv _ _ _ h
      obtain ⟨Fw', rfl⟩ : ∃ k, Fw = k + 1 := ⟨Fw - 1, by omega⟩
      have := ihR ⟨n + 1, r + 1, stack⟩ l' h1 hS F
        (out ++ [evPy ⟨.forward n (n + 1) false true .work, n + 1, r⟩ false,
          evPy ⟨.reverse (n + 1) n true, n + 1, r + 1⟩ false])
        (by simp only; omega)
      rw [genInner_exit N storage ram disk traj r Fw' F n ns n0 n1 cs out (snapsPy stack) hn hr, h2]
      exact glue [_, _] l' out _ this.1 this.2
    · rw [msInner] at h
      have : n ≠ N - r - 1 := by omega
      simp [hc, this, msErr] at h

theorem stepRev (hlen : storage.length = S) (hrd : ram + disk = (S : Int)) (f : Nat)
    (ihI : PInner N S storage ram disk traj f) (ihR : PRev N S storage ram disk traj f) :
    PRev N S storage ram disk traj (f + 1) := by
  intro σ evs h hS F out hF
  obtain ⟨n, r, stack⟩ := σ
  simp only at hS hF ⊢
  by_cases hr : r < N
  · obtain ⟨F', rfl⟩ : ∃ k, F = k + 1 := ⟨F - 1, by omega⟩
    cases stack with
    | nil => rw [msRev] at h; simp [hr, msErr] at h
    | cons cp rest =>
      simp only [List.length_cons] at hS
      by_cases hm : cp + 1 = N - r
      · rw [RC.rev_move N S _ traj f n r cp rest hr hm] at h
        obtain ⟨l', h1, h2⟩ := emits_inv _ _ _ h
        have := ihR ⟨cp + 1, r + 1, rest⟩ l' h1 (by simp only; omega) F'
          (out ++ [evPy ⟨.move cp (storage.getD rest.length .none) .work, cp, r⟩ false,
            evPy ⟨.forward cp (cp + 1) false true .work, cp + 1, r⟩ false,
            evPy ⟨.reverse (cp + 1) cp true, cp + 1, r + 1⟩ false])
          (by simp only; omega)
        rw [snapsPy_cons, genRev_move N S storage ram disk traj hlen F' n r cp out (snapsPy rest) hr hm
          (by rw [snapsPy_length]; omega), h2, snapsPy_length]
        exact glue [_, _, _] l' out _ this.1 this.2
      · cases ha : nAdvance (N - r - cp) (S - (rest.length + 1) + 1) traj with
        | none =>
          have : ¬ cp = N - r - 1 := by omega
          rw [msRev] at h; simp [hr, ha, this, yieldEv] at h
        | some a =>
          have hpos : 1 ≤ N - r - cp := by
            by_contra hc
            have : N - r - cp = 0 := by omega
            rw [this, nAdvance_zero] at ha
            cases ha
          by_cases ha1 : 1 ≤ a
          · rw [RC.rev_copy N S _ traj f n r cp a rest hr (by omega) ha ha1] at h
            obtain ⟨l', h1, h2⟩ := emits_inv _ _ _ h
            have := ihI ⟨cp + a, r, cp :: rest⟩ l' h1 (by simp only [List.length_cons]; omega) hr F' F'
              (((S - ((snapsPy rest).length + 1) + 1 : Nat) : Int)) (cp : Int) ((cp + a : Nat) : Int)
              (stPy (storage.getD (snapsPy rest).length .none))
              (out ++ [evPy ⟨.copy cp (storage.getD rest.length .none) .work, cp, r⟩ false,
                evPy ⟨.forward cp (cp + a) false false .work, cp + a, r⟩ false])
              (by simp only; omega) (by simp only; omega)
            rw [snapsPy_cons, genRev_copy N S storage ram disk traj hlen hrd F' n r cp a out (snapsPy rest) hr hm
              (by rw [snapsPy_length]; exact ha) ha1 (by rw [snapsPy_length]; omega) (by omega), h2]
            simp only [snapsPy_cons] at this
            rw [snapsPy_length] at this ⊢
            exact glue [_, _] l' out _ this.1 this.2
          · have ha0 : a = 0 := by omega
            have : ¬ cp = N - r - 1 := by omega
            rw [msRev] at h; simp [hr, ha, this, ha0, yieldEv] at h
  · by_cases hrN : r = N
    · subst hrN
      obtain ⟨F', rfl⟩ : ∃ k, F = k + 1 := ⟨F - 1, by omega⟩
      cases stack with
      | nil =>
        rw [RC.rev_exit] at h
        cases h
        refine ⟨by simp, ?_⟩
        rw [show snapsPy [] = [] from rfl, genRev_exit]
        rfl
      | cons cp rest => rw [msRev] at h; simp [msErr] at h
    · rw [msRev] at h; simp [hr, hrN, msErr] at h

theorem sim_all (hN : 1 ≤ N) (hlen : storage.length = S) (hrd : ram + disk = (S : Int)) : ∀ f : Nat,
    PFwd N S storage ram disk traj f ∧ PRev N S storage ram disk traj f ∧ PInner N S storage ram disk traj f := by
  intro f
  induction f with
  | zero =>
    refine ⟨?_, ?_, ?_⟩
    · intro σ evs h; rw [msFwd] at h; cases h
    · intro σ evs h; rw [msRev] at h; cases h
    · intro σ evs h; rw [msInner] at h; cases h
  | succ f ih =>
    exact ⟨stepFwd N S storage ram disk traj hN hlen hrd f ih.1 ih.2.1,
      stepRev N S storage ram disk traj hlen hrd f ih.2.2 ih.2.1,
      stepInner N S storage ram disk traj hlen hrd f ih.2.2 ih.2.1⟩

end sim

/-- RAM and DISK labels only: the two counts add up to the length -/
theorem count_ram_disk (l : List Storage) (h : ∀ x ∈ l, x.isStore = true) :
    l.count .ram + l.count .disk = l.length := by
  induction l with
  | nil => rfl
  | cons a l ih =>
    have ih' := ih (fun x hx => h x (List.mem_cons_of_mem _ hx))
    have ha := h a (by simp)
    cases a <;> simp [Storage.isStore] at ha <;> simp <;> omega

/-- sufficient fuel for `multistage_iterator` -/
def multistageFuel (N : Nat) : Nat := N + 2

/-- **`MultistageCheckpointSchedule._iterator` as generated from the Python source yields the events of the
literal twin `multistageIterEvs`** (the last one, `EndReverse`, with `exhausted = True`) -/
theorem multistage_iterator_refines_twin (N ram disk : Nat) (traj : Traj) (storage : List Storage)
    (evs : List Ev) (fuel : Nat)
    (hst : multistageStorage N ram disk traj = some storage)
    (hev : multistageIterEvs N ram disk traj = .ok evs)
    (hf : multistageFuel N ≤ fuel) :
    multistage_iterator fuel 0 0 (some (N : Int))
        ((storage.count .ram : Nat) : Int) ((storage.count .disk : Nat) : Int) (storage.map stPy)
        (trajStr traj) false
      = .ok (markLast (evs.map (evPy · false))) := by
  unfold multistageFuel at hf
  unfold multistageIterEvs at hev
  by_cases hN : N < 1
  · rw [if_pos hN] at hev; cases hev
  rw [if_neg hN, hst] at hev
  simp only at hev
  split_ifs at hev with hz
  obtain ⟨storage', hst', hstore, _, _, _⟩ := multistageStorage_spec N ram disk traj (by omega)
  rw [hst] at hst'
  cases hst'
  have hcnt := count_ram_disk storage hstore
  have hrd : ((storage.count .ram : Nat) : Int) + ((storage.count .disk : Nat) : Int) = ((storage.length : Nat) : Int) := by
    exact_mod_cast hcnt
  unfold multistageIter at hev
  have := (sim_all N storage.length storage _ _ traj (by omega) rfl hrd (multistageIterFuel N)).1
    MsSt.init evs hev (by simp [MsSt.init]) fuel fuel [] (by simp only [MsSt.init]; omega)
    (by simp only [MsSt.init]; omega)
  rw [multistage_iterator_eq]
  have h2 := this.2
  simp only [MsSt.init, List.nil_append] at h2
  exact h2

/-- **`MultistageCheckpointSchedule._iterator` as generated from the Python source yields the events of the stream
model `multistageEvs`** the property theorems are about, for all parameters for which the model is defined (all
valid ones: `multistage_ok`), with fuel `N + 2` -/
theorem multistage_iterator_refines (N ram disk : Nat) (traj : Traj) (storage : List Storage)
    (evs : List Ev) (fuel : Nat)
    (hst : multistageStorage N ram disk traj = some storage)
    (hev : multistageEvs N ram disk traj = .ok evs)
    (hf : multistageFuel N ≤ fuel) :
    multistage_iterator fuel 0 0 (some (N : Int))
        ((storage.count .ram : Nat) : Int) ((storage.count .disk : Nat) : Int) (storage.map stPy)
        (trajStr traj) false
      = .ok (markLast (evs.map (evPy · false))) :=
  multistage_iterator_refines_twin N ram disk traj storage evs fuel hst
    (by rw [twin_multistage]; exact hev) hf


/-! non-vacuity: concrete parameter tuples satisfying the hypotheses (RAM only; RAM and disk via `allocate`) -/
example : multistageStorage 4 2 0 .maximum = some [.ram, .ram] := by decide
example : (multistageEvs 4 2 0 .maximum).toBool = true := by decide
example : (multistageIterEvs 4 2 0 .maximum).toBool = true := by decide
example : multistageFuel 4 ≤ 6 := by decide
example : multistageStorage 6 2 1 .revolve = some [.disk, .ram, .ram] := by decide
example : (multistageEvs 6 2 1 .revolve).toBool = true := by decide +kernel

/-- the theorem instantiated: the generated function run on `max_n = 4`, two RAM snapshots -/
example : ∃ evs, multistageEvs 4 2 0 .maximum = .ok evs ∧
    multistage_iterator 6 0 0 (some 4) 2 0 [.ram, .ram] "maximum" false = .ok (markLast (evs.map (evPy · false))) := by
  cases h : multistageEvs 4 2 0 .maximum with
  | error e =>
    have : (multistageEvs 4 2 0 .maximum).toBool = true := by decide
    rw [h] at this; cases this
  | ok evs =>
    exact ⟨evs, rfl, multistage_iterator_refines 4 2 0 .maximum [.ram, .ram] evs 6 (by decide) h (by decide)⟩

end Ckpt.Py

#print axioms Ckpt.Py.multistage_iterator_refines_twin
#print axioms Ckpt.Py.multistage_iterator_refines
