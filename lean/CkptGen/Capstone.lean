import CkptGen.RefineInit
import CkptGen.RefineBasic
import CkptGen.RefineRevolveIter
import CkptVerif.Properties.Streams
import CkptVerif.Properties.StreamsMore
import Mathlib.Tactic
/-!
# Capstone: the property theorems stated about the TRANSLATED SOURCE

Every theorem of this file speaks about the functions of `CkptGen/Src.lean` (the Lean text generated from the Python
source by `harness/py2lean.py`) only: for all valid parameters the generated constructor/generator returns an event
list `pevs`, and the observations a client makes of these events (`obsOfPy`: action, `n`, `r`, `max_n`,
`exhausted`, `is_running`; for online classes before/after the client's `finalize`) are accepted by the checking
executor of `CkptVerif/Spec/Exec.lean` with NO violation of any tag (C01 executability, C02 order, C03 budgets,
C04 clean storage, C08 counters, C09 exhaustion flags, C12 working storage, C18 well-formedness), and the stream
is complete (`endViols … = []`: the permitted / requested adjoint calculations have been carried out).

Proof of each: rewrite the generated list with the refinement theorem (`CkptGen/Refine*.lean`), show that
`obsOfPy` of the mapped model events is the model's observation list, apply the model's clean-theorem
(`CkptVerif/Proofs/*Ok.lean`).

| class | theorem | corollary (tags) |
|---|---|---|
| Multistage | `source_multistage_accepted` | `source_multistage_C01_C18` |
| Mixed | `source_mixed_accepted` | `source_mixed_C01_C18` |
| TwoLevel | `source_twoLevel_accepted` | `source_twoLevel_C01_C18` |
| SingleMemory | `source_singleMemory_accepted` | `source_singleMemory_C01_C18` |
| SingleDisk (both `move_data`) | `source_singleDisk_accepted` | `source_singleDisk_C01_C18` |
| None | `source_none_accepted` | `source_none_C01_C18` |
| Revolve | `source_revolve_accepted` | `source_revolve_C01_C18` |
| DiskRevolve | `source_diskRevolve_accepted` | `source_diskRevolve_C01_C18` |
| PeriodicDiskRevolve | `source_periodic_accepted` | `source_periodic_C01_C18` |
| HRevolve | `source_hrevolve_accepted` | `source_hrevolve_C01_C18` |

The subjects are `multistage_run`, `mixed_run`, `twoLevel_run` (`RefineInit.lean`: generated `__init__`, then the
generated `_iterator`), and, defined here in the same way from the generated base-class constructor
`checkpointSchedule_init`: `singleMemory_run`, `singleDisk_run`, `none_run`, `revolve_run` (the Revolve family: the
generated `RevolveCheckpointSchedule._iterator` on the operation sequence of the twin of the untranslated sequence
generators, as in `revolve_iterator_revolve`).  `obsGo_head_clientHook` ties `obsOfPy` to the generated `clientHook`;
`NoViolation.budgets` / `source_multistage_budgets` spell one tag out declaratively (through `Mean.M1_C03_prefix`).
Each theorem is followed by non-vacuity examples: the hypotheses on a concrete tuple, the theorem instantiated, and
the generated text EVALUATED on that tuple with the executor's verdict decided by `decide`.
-/
namespace Ckpt.Py
open Ckpt Ckpt.Ops

/-! ## from the generated values back to the model's: the client's observations -/

/-- inverse of `stPy` -/
def stOfPy : StorageType → Storage
  | .ram => .ram
  | .disk => .disk
  | .work => .work
  | .none => .none

/-- inverse of `actPy` on its range (step numbers of a schedule are never negative) -/
def actOfPy : PyAction → Action
  | .forward n0 n1 wi wa st => .forward n0.toNat n1.toNat wi wa (stOfPy st)
  | .reverse n1 n0 c => .reverse n1.toNat n0.toNat c
  | .copy n a b => .copy n.toNat (stOfPy a) (stOfPy b)
  | .move n a b => .move n.toNat (stOfPy a) (stOfPy b)
  | .endForward => .endForward
  | .endReverse => .endReverse

theorem stOfPy_stPy (s : Storage) : stOfPy (stPy s) = s := by cases s <;> rfl

theorem actOfPy_actPy (a : Action) : actOfPy (actPy a) = a := by
  cases a <;> simp [actPy, actOfPy, stOfPy_stPy]

/-- What the client observes after each `next()`, given whether it already knows `max_n` (`fin`).  The client of an
online schedule calls `finalize(N)` as soon as the reported `_n` reaches `N` (`clientHook` of the generated text):
from then on `max_n = N`, and at that moment `n` is set to `N`.  `is_running` is true after every action. -/
def obsGo (N : Nat) : Bool → List PyEv → List Obs
  | _, [] => []
  | fin, e :: es =>
    (⟨actOfPy e.act, if fin then e.n.toNat else min e.n.toNat N, e.r.toNat,
      if fin || decide ((N : Int) ≤ e.n) then some N else none, e.exhausted, true⟩ : Obs) ::
    obsGo N (fin || decide ((N : Int) ≤ e.n)) es

/-- **the client's observations of the events of a generated generator**; `online = false`: `max_n = N` was passed
to the constructor; `online = true`: `max_n` is unknown until the client finalises at `N` -/
def obsOfPy (online : Bool) (N : Nat) (pevs : List PyEv) : List Obs := obsGo N (!online) pevs

/-- `obsGo` reports what the generated client hook computes: `(n, max_n)` of the observation are the values
`clientHook` assigns to `(self._n, self._max_n)` after the yield (step counts are non-negative) -/
theorem obsGo_head_clientHook (N : Nat) (fin : Bool) (e : PyEv) (es : List PyEv) (h0 : 0 ≤ e.n) :
    ∃ o rest, obsGo N fin (e :: es) = o :: rest ∧
      ((o.n : Int), optInt o.maxN) = clientHook (N : Int) e.n (if fin then some (N : Int) else none) := by
  refine ⟨_, _, rfl, ?_⟩
  cases fin
  · by_cases h : (N : Int) ≤ e.n
    · simp [clientHook, optInt, h]
    · simp [clientHook, optInt, h]
      omega
  · simp [clientHook, optInt]
    omega

/-- accepted by the checking executor: no violation of any tag, and the stream is complete (`k` = the number of
adjoint calculations the client asked for; for single-adjoint classes `endViols` says `finished`) -/
def Accepted (cfg : Cfg) (k : Nat) (obs : List Obs) : Prop :=
  (run cfg obs).2 = [] ∧ endViols cfg k (run cfg obs).1 = []

/-- no violation of any of the eight tags the executor checks -/
def NoViolation (cfg : Cfg) (obs : List Obs) : Prop :=
  Mean.NoTag .C01 (run cfg obs).2 ∧ Mean.NoTag .C02 (run cfg obs).2 ∧ Mean.NoTag .C03 (run cfg obs).2 ∧
  Mean.NoTag .C04 (run cfg obs).2 ∧ Mean.NoTag .C08 (run cfg obs).2 ∧ Mean.NoTag .C09 (run cfg obs).2 ∧
  Mean.NoTag .C12 (run cfg obs).2 ∧ Mean.NoTag .C18 (run cfg obs).2

theorem Accepted.noViolation {cfg : Cfg} {k : Nat} {obs : List Obs} (h : Accepted cfg k obs) :
    NoViolation cfg obs := by
  unfold NoViolation
  rw [h.1]
  simp [Mean.NoTag]

/-- what "no C03 violation" means (`meaning_C03_budgets`): after every prefix of the stream the stored checkpoints
are within the RAM and DISK budgets of the configuration -/
theorem NoViolation.budgets {cfg : Cfg} {obs : List Obs} (h : NoViolation cfg obs) {p : List Obs} (hp : p <+: obs) :
    (∀ m, cfg.ram = some m → countSt (run cfg p).1.cps .ram ≤ m) ∧
    (∀ m, cfg.disk = some m → countSt (run cfg p).1.cps .disk ≤ m) :=
  ⟨(Mean.M1_C03_prefix h.2.2.1 hp).1, (Mean.M1_C03_prefix h.2.2.1 hp).2.1⟩

/-- for a class with a bounded number of adjoint calculations, "complete" is `finished` -/
theorem Accepted.finished {cfg : Cfg} {k m : Nat} {obs : List Obs} (h : Accepted cfg k obs)
    (hp : cfg.passes = some m) : finished cfg (run cfg obs).1 = true := by
  have h2 := h.2
  unfold endViols at h2
  rw [hp] at h2
  simp only [chk] at h2
  by_contra hc
  rw [if_neg hc] at h2
  cases h2

theorem Accepted.of_clean {cfg : Cfg} {k : Nat} {obs : List Obs} {xf : XS}
    (h : Clean cfg (XS.init cfg) obs xf) (he : endViols cfg k xf = []) : Accepted cfg k obs :=
  ⟨h.run_viols, by rw [h.run_state]; exact he⟩

/-! ## `obsGo` on mapped model events -/

theorem obsGo_cons_evPy (N : Nat) (fin : Bool) (e : Ev) (b : Bool) (rest : List PyEv) :
    obsGo N fin (evPy e b :: rest) =
      (⟨e.act, if fin then e.n else min e.n N, e.r, if fin || decide (N ≤ e.n) then some N else none, b, true⟩ : Obs)
        :: obsGo N (fin || decide (N ≤ e.n)) rest := by
  simp only [obsGo, evPy, actOfPy_actPy, Int.toNat_natCast, Nat.cast_le]

theorem obsGo_append (N : Nat) : ∀ (fin : Bool) (a b : List PyEv),
    obsGo N true (a ++ b) = obsGo N true a ++ obsGo N true b ∧
    (fin = true → obsGo N fin (a ++ b) = obsGo N fin a ++ obsGo N fin b) := by
  intro fin a b
  have h : obsGo N true (a ++ b) = obsGo N true a ++ obsGo N true b := by
    induction a with
    | nil => rfl
    | cons x a ih => simp only [List.cons_append, obsGo, Bool.true_or, ih]
  exact ⟨h, fun hf => by subst hf; exact h⟩

/-- after finalisation (or for an offline schedule): every event is decorated with `max_n = N` -/
theorem obsGo_true_map (N : Nat) (l : List Ev) :
    obsGo N true (l.map (evPy · false)) = l.map (Ev.obs · N) := by
  induction l with
  | nil => rfl
  | cons e l ih =>
    rw [List.map_cons, obsGo_cons_evPy, List.map_cons, Bool.true_or, ih]
    simp [Ev.obs]

/-- a list whose last event carries `exhausted = b` -/
theorem obsGo_true_snoc (N : Nat) (l : List Ev) (e : Ev) (b : Bool) :
    obsGo N true (l.map (evPy · false) ++ [evPy e b]) =
      l.map (Ev.obs · N) ++ [(⟨e.act, e.n, e.r, some N, b, true⟩ : Obs)] := by
  rw [(obsGo_append N true _ _).1, obsGo_true_map, obsGo_cons_evPy]
  simp [obsGo]

/-- the online forward phase: all Forwards but the last report `_n < N`, the last one reaches `N` and the client
finalises -/
theorem obsGo_fwd (N : Nat) (e : Ev) (rest : List PyEv) (he : N ≤ e.n) : ∀ (l : List Ev), (∀ x ∈ l, x.n < N) →
    obsGo N false ((l ++ [e]).map (evPy · false) ++ rest) =
      (l ++ [e]).map (On.fwdObs N) ++ obsGo N true rest := by
  intro l
  induction l with
  | nil =>
    intro _
    simp only [List.nil_append, List.map_cons, List.map_nil, List.cons_append, obsGo_cons_evPy, On.fwdObs]
    simp [he]
  | cons x l ih =>
    intro hl
    have hx : ¬ N ≤ x.n := by have := hl x (by simp); omega
    have ih' := ih (fun y hy => hl y (by simp [hy]))
    simp only [List.cons_append, List.map_cons, obsGo_cons_evPy, On.fwdObs]
    simp only [hx, decide_false, Bool.or_false, Bool.false_eq_true, if_false]
    rw [ih']

theorem markLast_mx_eq : ∀ l : List PyEv, markLast_mx l = markLast l
  | [] => rfl
  | [_] => rfl
  | e :: e' :: es => by
    rw [markLast_mx, markLast, markLast_mx_eq (e' :: es)]

/-- the observations of an offline generator: the model's events decorated with `max_n = N`, the last with
`exhausted = True` -/
theorem obsOfPy_offline (N : Nat) (evs : List Ev) (e : Ev) :
    obsOfPy false N (markLast ((evs ++ [e]).map (evPy · false))) =
      evs.map (Ev.obs · N) ++ [(⟨e.act, e.n, e.r, some N, true, true⟩ : Obs)] := by
  rw [List.map_append, markLast_append_ne _ _ (by simp)]
  simp only [List.map_cons, List.map_nil, markLast, obsOfPy, Bool.not_false]
  exact obsGo_true_snoc N evs e true

/-- the generic step for the offline single-adjoint classes: model acceptance ⇒ acceptance of the generated list -/
theorem accepted_offline (cfg : Cfg) (N k nE : Nat) (evs0 : List Ev) (xf : XS) (hp : cfg.passes = some 1)
    (hd : xf.done = 1)
    (hclean : Clean cfg (XS.init cfg) (evs0.map (Ev.obs · N) ++ [⟨.endReverse, nE, N, some N, true, true⟩]) xf) :
    Accepted cfg k (obsOfPy false N (markLast ((evs0 ++ [(⟨.endReverse, nE, N⟩ : Ev)]).map (evPy · false)))) := by
  rw [obsOfPy_offline]
  refine Accepted.of_clean hclean ?_
  simp [endViols, hp, finished, hd, chk]

/-! ## 1. Multistage -/

/-- the executor accepts the model stream under the budgets `(ram, disk)` (the first half of the proof of
`multistage_monitor_clean`) -/
theorem multistage_exec_clean (N ram disk : Nat) (traj : Traj) (hv : validMultistage N ram disk = true) :
    ∃ evs0 xf, multistageEvs N ram disk traj = .ok (evs0 ++ [⟨.endReverse, 1, N⟩]) ∧ xf.done = 1 ∧
      Clean (cfgMultistage ram disk N) (XS.init (cfgMultistage ram disk N))
        (evs0.map (Ev.obs · N) ++ [⟨.endReverse, 1, N, some N, true, true⟩]) xf := by
  simp only [validMultistage, Bool.and_eq_true, Bool.or_eq_true, decide_eq_true_eq] at hv
  obtain ⟨h1, hunit⟩ := hv
  obtain ⟨storage, hsto, hstore, hcr, hcd, hlen⟩ := multistageStorage_spec N ram disk traj h1
  have hunits : 2 ≤ N → 1 ≤ storage.length := by
    intro h; rw [hlen]; rcases hunit with h' | h' <;> omega
  obtain ⟨evs, sn, hseg, hclean⟩ := Ckpt.multistage_clean (cfgMultistage ram disk N) N storage traj
    rfl rfl rfl h1 hunits hstore (by simpa [withinOpt, cfgMultistage] using hcr)
    (by simpa [withinOpt, cfgMultistage] using hcd)
  refine ⟨evs, _, ?_, rfl, hclean⟩
  unfold multistageEvs
  rw [if_neg (by omega), hsto]
  simp only
  rw [if_neg (by intro h; have := hunits (by omega); omega), hseg]

/-- **Multistage, the translated source**: for all valid parameters, every trajectory, every oracle for
`allocate_snapshots` that agrees with the model's, and fuel `N + 2`: the generated `__init__` followed by the
generated `_iterator` returns an event list whose observations the executor accepts under the budgets
`(snapshots_in_ram, snapshots_on_disk)` with one permitted adjoint calculation, and the stream is complete. -/
theorem source_multistage_accepted (N ram disk : Nat) (traj : Traj) (oracle : AllocOracle)
    (hor : OracleAgrees oracle N ram disk traj) (hv : validMultistage N ram disk = true)
    (fuel : Nat) (hf : multistageFuel N ≤ fuel) (k : Nat) :
    ∃ pevs, multistage_run fuel (N : Int) (ram : Int) (disk : Int) (trajStr traj) oracle = .ok pevs ∧
      Accepted (cfgMultistage ram disk N) k (obsOfPy false N pevs) := by
  obtain ⟨evs, hev, hrun⟩ := multistage_construct_then_iterate N ram disk traj oracle fuel hor hv hf
  obtain ⟨evs0, xf, hev0, hd, hclean⟩ := multistage_exec_clean N ram disk traj hv
  rw [hev0] at hev
  injection hev with hev
  subst hev
  exact ⟨_, hrun, accepted_offline _ N k 1 evs0 xf rfl hd hclean⟩

/-- the properties discharged for the translated source of `MultistageCheckpointSchedule` -/
theorem source_multistage_C01_C18 (N ram disk : Nat) (traj : Traj) (oracle : AllocOracle)
    (hor : OracleAgrees oracle N ram disk traj) (hv : validMultistage N ram disk = true)
    (fuel : Nat) (hf : multistageFuel N ≤ fuel) :
    ∃ pevs, multistage_run fuel (N : Int) (ram : Int) (disk : Int) (trajStr traj) oracle = .ok pevs ∧
      NoViolation (cfgMultistage ram disk N) (obsOfPy false N pevs) ∧
      finished (cfgMultistage ram disk N) (run (cfgMultistage ram disk N) (obsOfPy false N pevs)).1 = true := by
  obtain ⟨pevs, h, ha⟩ := source_multistage_accepted N ram disk traj oracle hor hv fuel hf 1
  exact ⟨pevs, h, ha.noViolation, ha.finished rfl⟩

/-- C03 spelt out for the translated Multistage source: at no moment more than `snapshots_in_ram` checkpoints in
RAM or `snapshots_on_disk` on DISK -/
theorem source_multistage_budgets (N ram disk : Nat) (traj : Traj) (oracle : AllocOracle)
    (hor : OracleAgrees oracle N ram disk traj) (hv : validMultistage N ram disk = true)
    (fuel : Nat) (hf : multistageFuel N ≤ fuel) :
    ∃ pevs, multistage_run fuel (N : Int) (ram : Int) (disk : Int) (trajStr traj) oracle = .ok pevs ∧
      ∀ p, p <+: obsOfPy false N pevs →
        countSt (run (cfgMultistage ram disk N) p).1.cps .ram ≤ ram ∧
        countSt (run (cfgMultistage ram disk N) p).1.cps .disk ≤ disk := by
  obtain ⟨pevs, h, hn, _⟩ := source_multistage_C01_C18 N ram disk traj oracle hor hv fuel hf
  exact ⟨pevs, h, fun p hp => ⟨(hn.budgets hp).1 ram rfl, (hn.budgets hp).2 disk rfl⟩⟩

/-! non-vacuity: the hypotheses hold for a concrete tuple; the theorem instantiated; the generated text evaluated -/
example : validMultistage 6 2 1 = true ∧ multistageFuel 6 ≤ 8 ∧
    OracleAgrees (modelOracle 6 2 1 .revolve) 6 2 1 .revolve :=
  ⟨by decide, by decide, modelOracle_agrees 6 2 1 .revolve⟩
example := source_multistage_accepted 6 2 1 .revolve _ (modelOracle_agrees 6 2 1 .revolve) (by decide) 8 (by decide) 1
example : ∃ pevs, multistage_run 8 6 2 1 "revolve" (modelOracle 6 2 1 .revolve) = .ok pevs ∧
    (run (cfgMultistage 2 1 6) (obsOfPy false 6 pevs)).2 = [] :=
  ⟨_, rfl, by decide⟩

/-! ## 2. Mixed -/

/-- **Mixed, the translated source**: for all valid parameters (both storages) and fuel `2 N + 3`: the generated
`__init__` followed by the generated `_iterator` returns an event list whose observations the executor accepts
under the budget of `snapshots` units in the chosen storage (none in the other), one adjoint calculation. -/
theorem source_mixed_accepted (N s : Nat) (st : Storage) (hv : validMixed N s st = true)
    (fuel : Nat) (hf : mixedIterFuelBound N ≤ fuel) (k : Nat) :
    ∃ pevs, mixed_run fuel (N : Int) (s : Int) (stPy st) = .ok pevs ∧
      Accepted (cfgMixed s st N) k (obsOfPy false N pevs) := by
  obtain ⟨evs, hev, _, hrun⟩ := mixed_construct_then_iterate N s st fuel hv hf
  simp only [validMixed, Bool.and_eq_true, Bool.or_eq_true, decide_eq_true_eq] at hv
  obtain ⟨⟨h1, h2⟩, h3⟩ := hv
  have hst : st = .ram ∨ st = .disk := by simpa using h3
  obtain ⟨evs0, sn, f, hev0, _, hclean⟩ := mixed_clean N s st hst h1 h2
  rw [hev0] at hev
  injection hev with hev
  subst hev
  rw [markLast_mx_eq] at hrun
  exact ⟨_, hrun, accepted_offline _ N k 1 evs0 _ rfl rfl hclean⟩

/-- the properties discharged for the translated source of `MixedCheckpointSchedule` -/
theorem source_mixed_C01_C18 (N s : Nat) (st : Storage) (hv : validMixed N s st = true)
    (fuel : Nat) (hf : mixedIterFuelBound N ≤ fuel) :
    ∃ pevs, mixed_run fuel (N : Int) (s : Int) (stPy st) = .ok pevs ∧
      NoViolation (cfgMixed s st N) (obsOfPy false N pevs) ∧
      finished (cfgMixed s st N) (run (cfgMixed s st N) (obsOfPy false N pevs)).1 = true := by
  obtain ⟨pevs, h, ha⟩ := source_mixed_accepted N s st hv fuel hf 1
  exact ⟨pevs, h, ha.noViolation, ha.finished rfl⟩

example : validMixed 5 2 .disk = true ∧ mixedIterFuelBound 5 ≤ 13 := by decide
example := source_mixed_accepted 5 2 .disk (by decide) 13 (by decide) 1
example : ∃ pevs, mixed_run 13 5 2 .disk = .ok pevs ∧ (run (cfgMixed 2 .disk 5) (obsOfPy false 5 pevs)).2 = [] :=
  ⟨_, rfl, by decide⟩

/-! ## 3. the Revolve family: the generated `RevolveCheckpointSchedule._iterator`, fed the operation sequence of the
twin of the (untranslated) sequence generator -/

/-- the base-class constructor with `max_n = None` sets `_n = 0, _r = 0, _max_n = None` -/
theorem init_none_cap : checkpointSchedule_init none = .ok (0, 0, none) := by rw [init_spec]

/-- … and with `max_n = N ≥ 1`: `_n = 0, _r = 0, _max_n = N` -/
theorem init_some_cap (N : Nat) (hN : 1 ≤ N) : checkpointSchedule_init (some (N : Int)) = .ok (0, 0, some (N : Int)) := by
  rw [init_spec]
  simp only
  rw [if_neg (by omega)]

/-- construct (the generated `CheckpointSchedule.__init__` with `max_n`; `_schedule = schedule`,
`_exhausted = False`), then iterate the generated `RevolveCheckpointSchedule._iterator` -/
def revolve_run (fuel : Nat) (max_n : Int) (schedule : List PyOp) : M (List PyEv) := do
  let (n, r, mx) ← checkpointSchedule_init (some max_n)
  revolve_iterator fuel n r mx schedule false

theorem revolve_run_eq (fuel : Nat) (N : Nat) (schedule : List PyOp) (hN : 1 ≤ N) :
    revolve_run fuel (N : Int) schedule = revolve_iterator fuel 0 0 (some (N : Int)) schedule false := by
  unfold revolve_run
  rw [init_some_cap N hN]
  rfl

/-- `max_n < 1`: `ValueError` before any action -/
theorem revolve_run_invalid (fuel : Nat) (max_n : Int) (schedule : List PyOp) (h : max_n < 1) :
    revolve_run fuel max_n schedule = .error .valueError := by
  unfold revolve_run
  rw [init_spec]
  simp only
  rw [if_pos h]
  rfl

theorem validRevolve_iff (N cm uf ub : Nat) :
    validRevolve N cm uf ub = true ↔ 1 ≤ N ∧ 1 ≤ cm ∧ 0 < uf ∧ 0 < ub := by
  simp only [validRevolve, Bool.and_eq_true, decide_eq_true_eq]
  tauto

/-- **Revolve, the translated source**: for all valid parameters the operation sequence `ops` of the twin of
`revolve(max_n - 1, snapshots_in_ram, …)` exists, and the generated `_iterator` run on it (fuel: one more than the
number of operations) returns an event list whose observations the executor accepts with `snapshots_in_ram` RAM
units, no DISK, one adjoint calculation. -/
theorem source_revolve_accepted (N cm : Nat) (c : Costs) (hv : validRevolve N cm c.uf c.ub = true) (k : Nat) :
    ∃ ops, revolveOpsTop N cm c = some ops ∧ ∀ fuel, ops.length + 1 ≤ fuel →
      ∃ pevs, revolve_run fuel (N : Int) (ops.map opPy) = .ok pevs ∧
        Accepted (cfgRevolve cm N) k (obsOfPy false N pevs) := by
  obtain ⟨hN, hcm, _, _⟩ := (validRevolve_iff _ _ _ _).1 hv
  obtain ⟨ops, evs, hops, hev, hrun⟩ := revolve_iterator_revolve N cm c hN hcm
  obtain ⟨evs0, sn, hev0, hclean⟩ := revolve_clean N cm c hN hcm
  rw [hev0] at hev
  injection hev with hev
  subst hev
  exact ⟨ops, hops, fun fuel hf => ⟨_, (revolve_run_eq fuel N _ hN).trans (hrun fuel hf), accepted_offline _ N k 1 evs0 _ rfl rfl hclean⟩⟩

/-- **DiskRevolve, the translated source** (RAM bounded by `snapshots_in_ram`, DISK unbounded) -/
theorem source_diskRevolve_accepted (N cm : Nat) (c : Costs) (hv : validRevolve N cm c.uf c.ub = true) (k : Nat) :
    ∃ ops, diskRevolveOpsTop N cm c = some ops ∧ ∀ fuel, ops.length + 1 ≤ fuel →
      ∃ pevs, revolve_run fuel (N : Int) (ops.map opPy) = .ok pevs ∧
        Accepted (cfgDiskRevolve cm N) k (obsOfPy false N pevs) := by
  obtain ⟨hN, hcm, _, _⟩ := (validRevolve_iff _ _ _ _).1 hv
  obtain ⟨ops, evs, hops, hev, hrun⟩ := revolve_iterator_diskRevolve N cm c hN hcm
  obtain ⟨evs0, sn, hev0, hclean⟩ := diskRevolve_clean N cm c hN hcm
  rw [hev0] at hev
  injection hev with hev
  subst hev
  exact ⟨ops, hops, fun fuel hf => ⟨_, (revolve_run_eq fuel N _ hN).trans (hrun fuel hf), accepted_offline _ N k 1 evs0 _ rfl rfl hclean⟩⟩

/-- **PeriodicDiskRevolve, the translated source** -/
theorem source_periodic_accepted (N cm : Nat) (c : Costs) (hv : validRevolve N cm c.uf c.ub = true) (k : Nat) :
    ∃ ops, periodicOpsTop N cm c = some ops ∧ ∀ fuel, ops.length + 1 ≤ fuel →
      ∃ pevs, revolve_run fuel (N : Int) (ops.map opPy) = .ok pevs ∧
        Accepted (cfgDiskRevolve cm N) k (obsOfPy false N pevs) := by
  obtain ⟨hN, hcm, huf, _⟩ := (validRevolve_iff _ _ _ _).1 hv
  obtain ⟨ops, evs, hops, hev, hrun⟩ := revolve_iterator_periodic N cm c hN hcm huf
  obtain ⟨evs0, sn, hev0, hclean⟩ := periodic_clean N cm c hN hcm huf
  rw [hev0] at hev
  injection hev with hev
  subst hev
  exact ⟨ops, hops, fun fuel hf => ⟨_, (revolve_run_eq fuel N _ hN).trans (hrun fuel hf), accepted_offline _ N k 1 evs0 _ rfl rfl hclean⟩⟩

/-- **HRevolve, the translated source** (`snapshots_in_ram = c0 ≥ 1` RAM units, `snapshots_on_disk = c1` DISK units) -/
theorem source_hrevolve_accepted (N c0 c1 : Nat) (c : Costs) (hv : validRevolve N c0 c.uf c.ub = true) (k : Nat) :
    ∃ ops, hrevolveOpsTop N c0 c1 c = some ops ∧ ∀ fuel, ops.length + 1 ≤ fuel →
      ∃ pevs, revolve_run fuel (N : Int) (ops.map opPy) = .ok pevs ∧
        Accepted (cfgHRevolve c0 c1 N) k (obsOfPy false N pevs) := by
  obtain ⟨hN, hc0, _, _⟩ := (validRevolve_iff _ _ _ _).1 hv
  obtain ⟨ops, evs, hops, hev, hrun⟩ := revolve_iterator_hrevolve N c0 c1 c hN hc0
  obtain ⟨evs0, sn, hev0, hclean⟩ := hrevolve_clean N c0 c1 c hN hc0
  rw [hev0] at hev
  injection hev with hev
  subst hev
  exact ⟨ops, hops, fun fuel hf => ⟨_, (revolve_run_eq fuel N _ hN).trans (hrun fuel hf), accepted_offline _ N k 1 evs0 _ rfl rfl hclean⟩⟩

/-- the properties discharged for the translated `_iterator` of `RevolveCheckpointSchedule` -/
theorem source_revolve_C01_C18 (N cm : Nat) (c : Costs) (hv : validRevolve N cm c.uf c.ub = true) :
    ∃ ops, revolveOpsTop N cm c = some ops ∧ ∀ fuel, ops.length + 1 ≤ fuel →
      ∃ pevs, revolve_run fuel (N : Int) (ops.map opPy) = .ok pevs ∧
        NoViolation (cfgRevolve cm N) (obsOfPy false N pevs) ∧
        finished (cfgRevolve cm N) (run (cfgRevolve cm N) (obsOfPy false N pevs)).1 = true := by
  obtain ⟨ops, hops, h⟩ := source_revolve_accepted N cm c hv 1
  refine ⟨ops, hops, fun fuel hf => ?_⟩
  obtain ⟨pevs, hp, ha⟩ := h fuel hf
  exact ⟨pevs, hp, ha.noViolation, ha.finished rfl⟩

theorem source_diskRevolve_C01_C18 (N cm : Nat) (c : Costs) (hv : validRevolve N cm c.uf c.ub = true) :
    ∃ ops, diskRevolveOpsTop N cm c = some ops ∧ ∀ fuel, ops.length + 1 ≤ fuel →
      ∃ pevs, revolve_run fuel (N : Int) (ops.map opPy) = .ok pevs ∧
        NoViolation (cfgDiskRevolve cm N) (obsOfPy false N pevs) ∧
        finished (cfgDiskRevolve cm N) (run (cfgDiskRevolve cm N) (obsOfPy false N pevs)).1 = true := by
  obtain ⟨ops, hops, h⟩ := source_diskRevolve_accepted N cm c hv 1
  refine ⟨ops, hops, fun fuel hf => ?_⟩
  obtain ⟨pevs, hp, ha⟩ := h fuel hf
  exact ⟨pevs, hp, ha.noViolation, ha.finished rfl⟩

theorem source_periodic_C01_C18 (N cm : Nat) (c : Costs) (hv : validRevolve N cm c.uf c.ub = true) :
    ∃ ops, periodicOpsTop N cm c = some ops ∧ ∀ fuel, ops.length + 1 ≤ fuel →
      ∃ pevs, revolve_run fuel (N : Int) (ops.map opPy) = .ok pevs ∧
        NoViolation (cfgDiskRevolve cm N) (obsOfPy false N pevs) ∧
        finished (cfgDiskRevolve cm N) (run (cfgDiskRevolve cm N) (obsOfPy false N pevs)).1 = true := by
  obtain ⟨ops, hops, h⟩ := source_periodic_accepted N cm c hv 1
  refine ⟨ops, hops, fun fuel hf => ?_⟩
  obtain ⟨pevs, hp, ha⟩ := h fuel hf
  exact ⟨pevs, hp, ha.noViolation, ha.finished rfl⟩

theorem source_hrevolve_C01_C18 (N c0 c1 : Nat) (c : Costs) (hv : validRevolve N c0 c.uf c.ub = true) :
    ∃ ops, hrevolveOpsTop N c0 c1 c = some ops ∧ ∀ fuel, ops.length + 1 ≤ fuel →
      ∃ pevs, revolve_run fuel (N : Int) (ops.map opPy) = .ok pevs ∧
        NoViolation (cfgHRevolve c0 c1 N) (obsOfPy false N pevs) ∧
        finished (cfgHRevolve c0 c1 N) (run (cfgHRevolve c0 c1 N) (obsOfPy false N pevs)).1 = true := by
  obtain ⟨ops, hops, h⟩ := source_hrevolve_accepted N c0 c1 c hv 1
  refine ⟨ops, hops, fun fuel hf => ?_⟩
  obtain ⟨pevs, hp, ha⟩ := h fuel hf
  exact ⟨pevs, hp, ha.noViolation, ha.finished rfl⟩

example : validRevolve 3 2 (⟨1, 1, 1, 1⟩ : Costs).uf (⟨1, 1, 1, 1⟩ : Costs).ub = true := by decide
example : validRevolve 9 2 1 1 = true := by decide
example := source_revolve_accepted 3 2 ⟨1, 1, 1, 1⟩ (by decide) 1
example := source_diskRevolve_accepted 3 2 ⟨1, 1, 1, 1⟩ (by decide) 1
example := source_periodic_accepted 3 2 ⟨1, 1, 1, 1⟩ (by decide) 1
example := source_hrevolve_accepted 3 2 1 ⟨1, 1, 1, 1⟩ (by decide) 1
example : ∃ ops pevs, revolveOpsTop 3 2 ⟨1, 1, 1, 1⟩ = some ops ∧
    revolve_run (ops.length + 1) 3 (ops.map opPy) = .ok pevs ∧
    (run (cfgRevolve 2 3) (obsOfPy false 3 pevs)).2 = [] :=
  ⟨_, _, rfl, rfl, by decide⟩

/-! ## 4. the online classes -/

/-- the observations of an online generator whose events all carry `exhausted = False`: the forward phase
(`l ++ [e]`, the client finalises at `e`) decorated by `On.fwdObs`, the rest with `max_n = N` -/
theorem obsOfPy_online (N : Nat) (l : List Ev) (e : Ev) (rest : List Ev) (he : N ≤ e.n)
    (hl : ∀ x ∈ l, x.n < N) :
    obsOfPy true N (((l ++ [e]) ++ rest).map (evPy · false)) =
      (l ++ [e]).map (On.fwdObs N) ++ rest.map (Ev.obs · N) := by
  unfold obsOfPy
  rw [List.map_append, Bool.not_true, obsGo_fwd N e _ he l hl, obsGo_true_map]

/-- the same when the last event carries `exhausted = b` -/
theorem obsOfPy_online_snoc (N : Nat) (l : List Ev) (e : Ev) (rest : List Ev) (e' : Ev) (b : Bool) (he : N ≤ e.n)
    (hl : ∀ x ∈ l, x.n < N) :
    obsOfPy true N (((l ++ [e]) ++ rest).map (evPy · false) ++ [evPy e' b]) =
      (l ++ [e]).map (On.fwdObs N) ++ rest.map (Ev.obs · N) ++ [(⟨e'.act, e'.n, e'.r, some N, b, true⟩ : Obs)] := by
  unfold obsOfPy
  rw [List.map_append, Bool.not_true, List.append_assoc, obsGo_fwd N e _ he l hl, obsGo_true_snoc, List.append_assoc]

/-! ### SingleMemory -/

/-- construct (the generated `CheckpointSchedule.__init__`, called without `max_n`), then iterate with the canonical
client (`clientN` steps, `passes` adjoint calculations) -/
def singleMemory_run (fuel : Nat) (passes clientN : Int) : M (List PyEv) := do
  let (n, r, mx) ← checkpointSchedule_init none
  singleMemory_iterator fuel n r mx passes clientN

theorem singleMemory_run_eq (fuel : Nat) (passes clientN : Int) :
    singleMemory_run fuel passes clientN = singleMemory_iterator fuel 0 0 none passes clientN := by
  unfold singleMemory_run
  rw [init_none_cap]
  rfl

/-- **SingleMemory, the translated source**: for `1 ≤ N ≤ sys.maxsize` steps and `k ≥ 1` adjoint calculations the
generated generator, run by the canonical client, returns an event list whose observations the executor accepts
(nothing in RAM/DISK, all adjoint data in WORK, any number of adjoint calculations), and all `k` calculations are
complete.  Fuel `2 k + 1`. -/
theorem source_singleMemory_accepted (N k fuel : Nat) (hN : 1 ≤ N) (hmax : N ≤ maxsize) (hk : 1 ≤ k)
    (hf : 2 * k + 1 ≤ fuel) :
    ∃ pevs, singleMemory_run fuel (k : Int) (N : Int) = .ok pevs ∧
      Accepted (cfgSingleMemory N) k (obsOfPy true N pevs) := by
  refine ⟨_, (singleMemory_run_eq _ _ _).trans (singleMemory_iterator_eq N k fuel hN hmax hk hf), ?_⟩
  rw [singleMemory_fwdPhase N hN hmax, pyEvs_false]
  have h := obsOfPy_online N [] ⟨.forward 0 maxsize false true .work, maxsize, 0⟩
    (⟨.endForward, N, 0⟩ :: (List.replicate k (singleMemorySched.again N)).flatten) hmax (by simp)
  rw [List.nil_append] at h
  rw [h]
  have hobs : [(⟨.forward 0 maxsize false true .work, maxsize, 0⟩ : Ev)].map (On.fwdObs N) ++
      ((⟨.endForward, N, 0⟩ : Ev) :: (List.replicate k (singleMemorySched.again N)).flatten).map (Ev.obs · N)
      = On.singleMemoryObs N k := by
    simp [On.singleMemoryObs, On.singleMemoryPass, On.fwdObs, Ev.obs, singleMemorySched, hmax,
      List.map_flatten, List.map_replicate]
  rw [hobs]
  exact Accepted.of_clean (On.singleMemory_clean N k hN hmax hk) (endViols_none _ _ _ rfl rfl rfl rfl)

theorem source_singleMemory_C01_C18 (N k fuel : Nat) (hN : 1 ≤ N) (hmax : N ≤ maxsize) (hk : 1 ≤ k)
    (hf : 2 * k + 1 ≤ fuel) :
    ∃ pevs, singleMemory_run fuel (k : Int) (N : Int) = .ok pevs ∧
      NoViolation (cfgSingleMemory N) (obsOfPy true N pevs) := by
  obtain ⟨pevs, h, ha⟩ := source_singleMemory_accepted N k fuel hN hmax hk hf
  exact ⟨pevs, h, ha.noViolation⟩

example : (1 : Nat) ≤ 5 ∧ 5 ≤ maxsize ∧ (1 : Nat) ≤ 3 ∧ 2 * 3 + 1 ≤ 7 := by decide
example := source_singleMemory_accepted 5 3 7 (by decide) (by decide) (by decide) (by decide)
example : ∃ pevs, singleMemory_run 5 2 7 = .ok pevs ∧ (run (cfgSingleMemory 7) (obsOfPy true 7 pevs)).2 = [] :=
  ⟨_, rfl, by decide⟩

/-! ### None -/

def none_run (fuel : Nat) (clientN : Int) : M (List PyEv) := do
  let (n, r, mx) ← checkpointSchedule_init none
  none_iterator fuel n r mx false clientN

theorem none_run_eq (fuel : Nat) (clientN : Int) :
    none_run fuel clientN = none_iterator fuel 0 0 none false clientN := by
  unfold none_run
  rw [init_none_cap]
  rfl

/-- **None, the translated source**: for `1 ≤ N ≤ sys.maxsize` the generated generator, run by the canonical client,
returns `Forward`, `EndForward` (exhausted), accepted by the executor with no storage and no adjoint calculation
permitted; the stream has ended (`finished`), whatever number `k` of calculations the client wanted.  Fuel `2`. -/
theorem source_none_accepted (N k fuel : Nat) (hN : 1 ≤ N) (hmax : N ≤ maxsize) (hf : 2 ≤ fuel) :
    ∃ pevs, none_run fuel (N : Int) = .ok pevs ∧ Accepted (cfgNone N) k (obsOfPy true N pevs) := by
  refine ⟨_, (none_run_eq _ _).trans (none_iterator_eq N fuel hN hmax hf), ?_⟩
  rw [none_fwdPhase N hN hmax, pyEvs_snoc]
  have h := obsOfPy_online_snoc N [] ⟨.forward 0 maxsize false false .none, maxsize, 0⟩ [] ⟨.endForward, N, 0⟩ true
    hmax (by simp)
  rw [List.nil_append, List.append_nil] at h
  rw [h]
  have hobs : [(⟨.forward 0 maxsize false false .none, maxsize, 0⟩ : Ev)].map (On.fwdObs N) ++
      ([] : List Ev).map (Ev.obs · N) ++ [(⟨.endForward, N, 0, some N, true, true⟩ : Obs)] = On.noneObs N := by
    simp [On.noneObs, On.fwdObs, hmax]
  rw [hobs]
  exact Accepted.of_clean (On.none_clean N hN hmax) (by simp [endViols, cfgNone, finished, X, chk])

theorem source_none_C01_C18 (N fuel : Nat) (hN : 1 ≤ N) (hmax : N ≤ maxsize) (hf : 2 ≤ fuel) :
    ∃ pevs, none_run fuel (N : Int) = .ok pevs ∧ NoViolation (cfgNone N) (obsOfPy true N pevs) ∧
      finished (cfgNone N) (run (cfgNone N) (obsOfPy true N pevs)).1 = true := by
  obtain ⟨pevs, h, ha⟩ := source_none_accepted N 0 fuel hN hmax hf
  exact ⟨pevs, h, ha.noViolation, ha.finished rfl⟩

example : (1 : Nat) ≤ 5 ∧ 5 ≤ maxsize ∧ 2 ≤ 2 := by decide
example := source_none_accepted 5 1 2 (by decide) (by decide) (by decide)
example : ∃ pevs, none_run 2 7 = .ok pevs ∧ (run (cfgNone 7) (obsOfPy true 7 pevs)).2 = [] :=
  ⟨_, rfl, by decide⟩

/-! ### SingleDisk -/

/-- construct (base-class constructor; `_move_data = move_data`, `_exhausted = False`), then iterate -/
def singleDisk_run (fuel : Nat) (move_data : Bool) (passes clientN : Int) : M (List PyEv) := do
  let (n, r, mx) ← checkpointSchedule_init none
  singleDisk_iterator fuel n r mx move_data false passes clientN

theorem singleDisk_run_eq (fuel : Nat) (mv : Bool) (passes clientN : Int) :
    singleDisk_run fuel mv passes clientN = singleDisk_iterator fuel 0 0 none mv false passes clientN := by
  unfold singleDisk_run
  rw [init_none_cap]
  rfl

/-- the forward phase of SingleDisk: one `Forward` per step -/
theorem sd_fwdEvs_range (mv : Bool) (N : Nat) : ∀ (f n : Nat), n + f = N →
    fwdEvs (singleDiskSched mv) N f n = (List.range' n f).map (fun j => (singleDiskSched mv).fwdEv j) := by
  intro f
  induction f with
  | zero => intro n _; rfl
  | succ f ih =>
    intro n h
    unfold fwdEvs
    have hn : ((singleDiskSched mv).fwdEv n).n = n + 1 := rfl
    rw [hn]
    by_cases hle : N ≤ n + 1
    · have : f = 0 := by omega
      subst this
      simp [hle]
    · rw [if_neg hle, ih (n + 1) (by omega)]
      simp [List.range'_succ]

theorem sd_fwdPhase (mv : Bool) (N : Nat) (hN : 1 ≤ N) :
    (singleDiskSched mv).fwdPhase N =
      (List.range (N - 1)).map (fun j => (singleDiskSched mv).fwdEv j) ++ [(singleDiskSched mv).fwdEv (N - 1)] := by
  unfold Sched.fwdPhase
  rw [sd_fwdEvs_range mv N N 0 (by omega), ← List.range_eq_range']
  obtain ⟨m, rfl⟩ : ∃ m, N = m + 1 := ⟨N - 1, by omega⟩
  rw [List.range_succ, List.map_append]
  rfl

theorem sdObs_false (N : Nat) : On.sdObs false N = (Ev.obs · N) := by
  funext e
  simp [On.sdObs, Ev.obs]

theorem sdObs_true_body (N : Nat) (l : List Ev) (h : ∀ e ∈ l, e.act ≠ .endReverse) :
    l.map (On.sdObs true N) = l.map (Ev.obs · N) := by
  apply List.map_congr_left
  intro e he
  simp [On.sdObs, Ev.obs, h e he]

/-- the observation list of the SingleDisk model (`On.singleDiskObs`) in the shape `obsOfPy_online` produces -/
theorem singleDiskObs_shape (mv : Bool) (N : Nat) (hN : 1 ≤ N) :
    ((List.range (N - 1)).map (fun j => (singleDiskSched mv).fwdEv j) ++ [(singleDiskSched mv).fwdEv (N - 1)]).map
        (On.fwdObs N) = On.singleDiskFwdObs N := by
  rw [← On.singleDiskFwdObs_eq mv N]
  obtain ⟨m, rfl⟩ : ∃ m, N = m + 1 := ⟨N - 1, by omega⟩
  rw [List.range_succ]
  simp

/-- **SingleDisk, the translated source**, both values of `move_data`: for `N ≥ 1` steps and `k ≥ 1` requested
adjoint calculations the generated generator, run by the canonical client, returns an event list whose observations
the executor accepts (no RAM, at most `N` DISK checkpoints; `move_data = True`: exactly one adjoint calculation is
permitted, `False`: any number), and the stream is complete.  Fuel `N + k + 1`. -/
theorem source_singleDisk_accepted (mv : Bool) (N k fuel : Nat) (hN : 1 ≤ N) (hk : 1 ≤ k)
    (hf : N + k + 1 ≤ fuel) :
    ∃ pevs, singleDisk_run fuel mv (k : Int) (N : Int) = .ok pevs ∧
      Accepted (cfgSingleDisk mv N) k (obsOfPy true N pevs) := by
  refine ⟨_, (singleDisk_run_eq _ _ _ _).trans (singleDisk_iterator_eq mv N k fuel hN hk hf), ?_⟩
  have he : N ≤ ((singleDiskSched mv).fwdEv (N - 1)).n := by
    show N ≤ N - 1 + 1
    omega
  have hl : ∀ x ∈ (List.range (N - 1)).map (fun j => (singleDiskSched mv).fwdEv j), x.n < N := by
    intro x hx
    obtain ⟨j, hj, rfl⟩ := List.mem_map.mp hx
    have := List.mem_range.mp hj
    show j + 1 < N
    omega
  rw [sd_fwdPhase mv N hN]
  cases mv
  · simp only [Bool.false_eq_true, if_false]
    rw [pyEvs_false, obsOfPy_online N _ _ _ he hl, singleDiskObs_shape false N hN]
    have hobs : On.singleDiskFwdObs N ++
        ((⟨.endForward, N, 0⟩ : Ev) :: (List.replicate k (singleDiskPass false N N)).flatten).map (Ev.obs · N)
        = On.singleDiskObs false N k := by
      simp [On.singleDiskObs, On.singleDiskPassObs, sdObs_false, List.map_flatten, List.map_replicate]
    rw [hobs]
    exact Accepted.of_clean (On.singleDisk_copy_clean N k hN hk) (endViols_none _ _ _ rfl rfl rfl rfl)
  · simp only [if_true, List.replicate_one, List.flatten_cons, List.flatten_nil, List.append_nil]
    rw [_root_.Ckpt.singleDiskPass_eq true N N]
    have e : ((List.range (N - 1)).map (fun j => (singleDiskSched true).fwdEv j) ++
          [(singleDiskSched true).fwdEv (N - 1)]) ++
        (⟨.endForward, N, 0⟩ : Ev) :: (singleDiskBody true N N ++ [⟨.endReverse, 0, if true then N else 0⟩]) =
        (((List.range (N - 1)).map (fun j => (singleDiskSched true).fwdEv j) ++
          [(singleDiskSched true).fwdEv (N - 1)]) ++
        (⟨.endForward, N, 0⟩ : Ev) :: singleDiskBody true N N) ++ [⟨.endReverse, 0, N⟩] := by
      simp
    rw [e, pyEvs_snoc, obsOfPy_online_snoc N _ _ _ _ _ he hl, singleDiskObs_shape true N hN]
    have hobs : On.singleDiskFwdObs N ++
        ((⟨.endForward, N, 0⟩ : Ev) :: singleDiskBody true N N).map (Ev.obs · N) ++
        [(⟨.endReverse, 0, N, some N, true, true⟩ : Obs)] = On.singleDiskObs true N k := by
      have hb := sdObs_true_body N (singleDiskBody true N N) (fun e he => (singleDiskBody_noER true N N e he).1)
      simp only [On.singleDiskObs, On.singleDiskPassObs, _root_.Ckpt.singleDiskPass_eq true N N, if_true,
        List.replicate_one, List.flatten_cons, List.flatten_nil, List.append_nil, List.map_append, hb,
        List.map_cons, List.map_nil]
      simp [On.sdObs, Ev.obs]
    rw [hobs]
    exact Accepted.of_clean (On.singleDisk_move_clean N k hN hk)
      (by simp [endViols, cfgSingleDisk, finished, X, chk])

theorem source_singleDisk_C01_C18 (mv : Bool) (N k fuel : Nat) (hN : 1 ≤ N) (hk : 1 ≤ k)
    (hf : N + k + 1 ≤ fuel) :
    ∃ pevs, singleDisk_run fuel mv (k : Int) (N : Int) = .ok pevs ∧
      NoViolation (cfgSingleDisk mv N) (obsOfPy true N pevs) := by
  obtain ⟨pevs, h, ha⟩ := source_singleDisk_accepted mv N k fuel hN hk hf
  exact ⟨pevs, h, ha.noViolation⟩

example : (1 : Nat) ≤ 2 ∧ (1 : Nat) ≤ 3 ∧ 2 + 3 + 1 ≤ 6 := by decide
example := source_singleDisk_accepted true 2 3 6 (by decide) (by decide) (by decide)
example := source_singleDisk_accepted false 2 3 6 (by decide) (by decide) (by decide)
example : ∃ pevs, singleDisk_run 6 true 2 2 = .ok pevs ∧ (run (cfgSingleDisk true 2) (obsOfPy true 2 pevs)).2 = [] :=
  ⟨_, rfl, by decide⟩

/-! ### TwoLevel -/

/-- **TwoLevel, the translated source**: for all valid parameters (`period ≥ 1`, RAM or DISK binomial storage, every
`binomial_snapshots` and trajectory), `N ≥ 1` steps and `k ≥ 1` adjoint calculations: the generated `__init__`
followed by the generated `_iterator`, run by the canonical client, returns an event list whose observations the
executor accepts (one DISK checkpoint per started period plus `binomial_snapshots` units in the binomial storage,
any number of adjoint calculations), and all `k` calculations are complete.  Fuel `2 N + k + 4`. -/
theorem source_twoLevel_accepted (p b N k : Nat) (st : Storage) (traj : Traj) (hv : validTwoLevel p st = true)
    (hN : 1 ≤ N) (hk : 1 ≤ k) (fuel : Nat) (hf : twoLevelFuel N k ≤ fuel) :
    ∃ pevs, twoLevel_run fuel (p : Int) (b : Int) (stPy st) (trajStr traj) (k : Int) (N : Int) = .ok pevs ∧
      Accepted (cfgTwoLevel p b st N) k (obsOfPy true N pevs) := by
  obtain ⟨s, first, hs, hfirst, hrun⟩ := twoLevel_construct_then_iterate p b N k st traj fuel hv hN hk hf
  simp only [validTwoLevel, Bool.and_eq_true, Bool.or_eq_true, decide_eq_true_eq] at hv
  obtain ⟨hp, h2⟩ := hv
  have hst : st = .ram ∨ st = .disk := by simpa using h2
  have hs' := On.twoLevelSched_ok p b st traj hp hst
  rw [hs'] at hs
  injection hs with hs
  subst hs
  obtain ⟨obs, hobs, hclean⟩ := On.twoLevel_clean p b N k st traj hp hst hN hk
  simp only [On.twoLevelObs, hs', hfirst] at hobs
  injection hobs with hobs
  subst hobs
  refine ⟨_, hrun, ?_⟩
  obtain ⟨m, hm⟩ : ∃ m, ceilDiv N p = m + 1 := ⟨ceilDiv N p - 1, by have := On.ceilDiv_pos N p hp hN; omega⟩
  have he : N ≤ ((On.twoLevelS p b st traj).fwdEv (m * p)).n := by
    show N ≤ m * p + p
    have := On.ceilDiv_ge N p hp
    rw [hm, Nat.succ_mul] at this
    exact this
  have hl : ∀ x ∈ (List.range m).map (fun j => (On.twoLevelS p b st traj).fwdEv (j * p)), x.n < N := by
    intro x hx
    obtain ⟨j, hj, rfl⟩ := List.mem_map.mp hx
    have hj' := List.mem_range.mp hj
    show j * p + p < N
    have := On.ceilDiv_lt N p (j + 1) hN (by omega)
    rw [Nat.succ_mul] at this
    exact this
  have hshape : (List.range (ceilDiv N p)).map (fun j => (On.twoLevelS p b st traj).fwdEv (j * p)) ++ first ++
        agains (On.twoLevelS p b st traj) N (k - 1) =
      ((List.range m).map (fun j => (On.twoLevelS p b st traj).fwdEv (j * p)) ++
        [(On.twoLevelS p b st traj).fwdEv (m * p)]) ++ (first ++ agains (On.twoLevelS p b st traj) N (k - 1)) := by
    rw [hm, List.range_succ, List.map_append, List.append_assoc]
    rfl
  rw [hshape, obsOfPy_online N _ _ _ he hl]
  have hobs : ((List.range m).map (fun j => (On.twoLevelS p b st traj).fwdEv (j * p)) ++
        [(On.twoLevelS p b st traj).fwdEv (m * p)]).map (On.fwdObs N) ++
      (first ++ agains (On.twoLevelS p b st traj) N (k - 1)).map (Ev.obs · N) =
      On.twoLevelFwdObs (On.twoLevelS p b st traj) p N ++ first.map (Ev.obs · N) ++
        (List.replicate (k - 1) (((On.twoLevelS p b st traj).again N).map (Ev.obs · N))).flatten := by
    unfold On.twoLevelFwdObs
    rw [hm, List.range_succ]
    simp [agains, List.map_flatten, List.map_replicate]
  rw [hobs]
  exact Accepted.of_clean hclean (endViols_none _ _ _ rfl rfl rfl rfl)

theorem source_twoLevel_C01_C18 (p b N k : Nat) (st : Storage) (traj : Traj) (hv : validTwoLevel p st = true)
    (hN : 1 ≤ N) (hk : 1 ≤ k) (fuel : Nat) (hf : twoLevelFuel N k ≤ fuel) :
    ∃ pevs, twoLevel_run fuel (p : Int) (b : Int) (stPy st) (trajStr traj) (k : Int) (N : Int) = .ok pevs ∧
      NoViolation (cfgTwoLevel p b st N) (obsOfPy true N pevs) := by
  obtain ⟨pevs, h, ha⟩ := source_twoLevel_accepted p b N k st traj hv hN hk fuel hf
  exact ⟨pevs, h, ha.noViolation⟩

example : validTwoLevel 3 .ram = true ∧ (1 : Nat) ≤ 10 ∧ (1 : Nat) ≤ 2 ∧ twoLevelFuel 10 2 ≤ 26 := by decide
example := source_twoLevel_accepted 3 2 10 2 .ram .maximum (by decide) (by decide) (by decide) 26 (by decide)
example : ∃ pevs, twoLevel_run 26 3 2 .ram "maximum" 2 10 = .ok pevs ∧
    (run (cfgTwoLevel 3 2 .ram 10) (obsOfPy true 10 pevs)).2 = [] :=
  ⟨_, rfl, by decide⟩

end Ckpt.Py

#print axioms Ckpt.Py.source_multistage_accepted
#print axioms Ckpt.Py.source_multistage_C01_C18
#print axioms Ckpt.Py.source_mixed_accepted
#print axioms Ckpt.Py.source_mixed_C01_C18
#print axioms Ckpt.Py.source_revolve_accepted
#print axioms Ckpt.Py.source_diskRevolve_accepted
#print axioms Ckpt.Py.source_periodic_accepted
#print axioms Ckpt.Py.source_hrevolve_accepted
#print axioms Ckpt.Py.source_revolve_C01_C18
#print axioms Ckpt.Py.source_diskRevolve_C01_C18
#print axioms Ckpt.Py.source_periodic_C01_C18
#print axioms Ckpt.Py.source_hrevolve_C01_C18
#print axioms Ckpt.Py.source_singleMemory_accepted
#print axioms Ckpt.Py.source_singleMemory_C01_C18
#print axioms Ckpt.Py.source_none_accepted
#print axioms Ckpt.Py.source_none_C01_C18
#print axioms Ckpt.Py.source_singleDisk_accepted
#print axioms Ckpt.Py.source_singleDisk_C01_C18
#print axioms Ckpt.Py.source_twoLevel_accepted
#print axioms Ckpt.Py.source_twoLevel_C01_C18
#print axioms Ckpt.Py.source_multistage_budgets
#print axioms Ckpt.Py.obsGo_head_clientHook
