import CkptGen.Src
import CkptGen.RefineNAdv
import CkptVerif.Properties.Twins
import CkptVerif.Proofs.OnlineE2E
import Mathlib.Tactic
/-!
# The Lean text generated from `TwoLevelCheckpointSchedule._iterator` (twolevel_binomial.py) computes the model

`Ckpt.Py.twoLevel_iterator` (with its five loops `while1 … while5`) is produced by `harness/py2lean.py` from the
current Python source, with the canonical client built in (`clientN`, `passes`).  This file proves that, started as
Python starts it and for all valid parameters, it returns exactly the events of the hand-written model:

* one simulation lemma per generated loop, by induction on the fuel, against the literal twin
  `Model/TwoLevelIter.lean`: `while5_sim` (↔ `tlWriteLoop`), `body_sim`/`while4_sim` (↔ `tlBody`/`tlInnerLoop`),
  `while3_sim` (↔ `tlOuterLoop`), `pass_sim`/`passes_sim` (↔ `twoLevelIterFrom`, `k` times), `fwd_sim` (the online
  forward phase ↔ `Sched.fwdEv` of `twoLevelSched`);
* `twoLevel_iterator_refines_twin` (right-hand side: the twin `twoLevelIterPass`),
  `twoLevel_iterator_refines` (right-hand side: `fwdEv`/`first`/`again` of the `Sched` returned by `twoLevelSched`),
  `twoLevel_iterator_obs` (bridge to `On.twoLevelObs`, the object of `On.twoLevel_clean`/`On.twoLevel_canon`).

Fuel: `twoLevelFuel N k = 2N + k + 4` suffices (loops and all `n_advance` calls).
-/
namespace Ckpt.Py.TwoLevel
open Ckpt Ckpt.Py

/-! (helpers live in `Ckpt.Py.TwoLevel` so that their names cannot clash with those of the other generator proofs) -/

def stPy_tl : Storage → StorageType
  | .ram => .ram | .disk => .disk | .work => .work | .none => .none

def actPy_tl : Action → PyAction
  | .forward n0 n1 wi wa st => .forward (n0 : Int) (n1 : Int) wi wa (stPy_tl st)
  | .reverse n1 n0 c => .reverse (n1 : Int) (n0 : Int) c
  | .copy n s d => .copy (n : Int) (stPy_tl s) (stPy_tl d)
  | .move n s d => .move (n : Int) (stPy_tl s) (stPy_tl d)
  | .endForward => .endForward
  | .endReverse => .endReverse

def evPy_tl (e : Ev) (exh : Bool) : PyEv := ⟨actPy_tl e.act, (e.n : Int), (e.r : Int), exh⟩

theorem clientHook_some_tl (N n m : Int) : clientHook N n (some m) = (n, some m) := by
  simp [clientHook]

/-- one iteration of the generated write loop -/
theorem while5_step (r bs : Int) (tr : String) (sto : StorageType) (cN : Int) (fuel : Nat)
    (ns n0 n1 n : Int) (out : List PyEv) (pl N : Int) (sn : List Int) (a : Int)
    (hn : n < N - r - 1)
    (hadv : n_advance fuel (N - r - n) (bs + 1 - (sn.length : Int)) tr = .ok a) (ha : 0 < a)
    (hlen : ¬ ((sn.length : Int) ≥ bs + 1)) :
    twoLevel_iterator.while5 r bs tr sto cN (fuel + 1) (ns, n0, n1, n, out, pl, some N, sn)
      = twoLevel_iterator.while5 r bs tr sto cN fuel
          (bs + 1 - (sn.length : Int), n, n + a, n + a,
            out ++ [⟨.forward n (n + a) true false sto, n + a, r, false⟩], pl, some N, sn ++ [n]) := by
  conv => lhs; unfold twoLevel_iterator.while5
  simp only [bind, Except.bind, pure, Except.pure, unwrap, hn, if_true, hadv, clientHook_some_tl]
  have h1 : ¬ ¬ (n + a > n) := by omega
  rw [if_neg h1, if_neg hlen]

theorem while5_exit (r bs : Int) (tr : String) (sto : StorageType) (cN : Int) (fuel : Nat)
    (ns n0 n1 n : Int) (out : List PyEv) (pl N : Int) (sn : List Int)
    (hn : ¬ n < N - r - 1) :
    twoLevel_iterator.while5 r bs tr sto cN (fuel + 1) (ns, n0, n1, n, out, pl, some N, sn)
      = .ok (ns, n0, n1, n, out, pl, some N, sn) := by
  conv => lhs; unfold twoLevel_iterator.while5
  simp only [bind, Except.bind, pure, Except.pure, unwrap, hn, if_false]

theorem pyIndex_last_tl {α : Type} (l : List α) (x : α) : pyIndex (l ++ [x]) (-1) = .ok x := by
  unfold pyIndex
  simp only [List.length_append, List.length_singleton]
  have h1 : ((-1 : Int) < 0) := by omega
  rw [if_pos h1]
  have h2 : ¬ ((-1 : Int) + ((l.length + 1 : Nat) : Int) < 0) := by omega
  rw [if_neg h2]
  have h3 : ((-1 : Int) + ((l.length + 1 : Nat) : Int)).toNat = l.length := by omega
  rw [h3]
  simp
  rfl

theorem pyPop_last {α : Type} (l : List α) (x : α) : pyPop (l ++ [x]) = .ok l := by
  unfold pyPop
  simp
  rfl

/-- an iteration of the generated inner loop that takes the `if` branch (lines 94-100) -/
theorem while4_pop (n0s : Int) (sto : StorageType) (bs : Int) (tr : String) (cN : Int) (fuel : Nat)
    (n r : Int) (out : List PyEv) (pl N : Int) (bot : List Int) (cp : Int)
    (hr : r < N - n0s) (hcp : cp = N - r - 1) :
    twoLevel_iterator.while4 n0s sto bs tr cN (fuel + 1) (n, r, out, pl, some N, bot ++ [cp])
      = twoLevel_iterator.while4 n0s sto bs tr cN fuel
          (cp + 1, r + 1,
            out ++ [⟨if cp = n0s then .copy cp .disk .work else .move cp sto .work, cp, r, false⟩]
              ++ [⟨.forward cp (cp + 1) false true .work, cp + 1, r, false⟩]
              ++ [⟨.reverse (cp + 1) cp true, cp + 1, r + 1, false⟩], pl, some N, bot) := by
  conv => lhs; unfold twoLevel_iterator.while4
  have hl : ¬ (((bot ++ [cp]).length : Int) = 0) := by simp; omega
  simp only [bind, Except.bind, pure, Except.pure, unwrap, hr, if_true, hl, if_false, pyIndex_last_tl, ← hcp,
    pyPop_last, clientHook_some_tl]
  by_cases h : cp = n0s
  · simp only [h, if_true, add_sub_cancel_right]
  · simp only [h, if_false, add_sub_cancel_right]

/-- an iteration of the generated inner loop that takes the `else` branch (lines 101-135) -/
theorem while4_copy (n0s : Int) (sto : StorageType) (bs : Int) (tr : String) (cN : Int) (fuel : Nat)
    (n r : Int) (out : List PyEv) (pl N : Int) (bot : List Int) (cp a : Int)
    (ns' n0' n1' n' : Int) (out' : List PyEv) (sn' : List Int)
    (hr : r < N - n0s) (hcp : ¬ cp = N - r - 1)
    (hadv : n_advance fuel (N - r - cp) (bs + 1 - ((bot ++ [cp]).length : Int) + 1) tr = .ok a) (ha : 0 < a)
    (hw : twoLevel_iterator.while5 r bs tr sto cN fuel
        (bs + 1 - ((bot ++ [cp]).length : Int) + 1, cp, cp + a, cp + a,
          out ++ [⟨if cp = n0s then .copy cp .disk .work else .copy cp sto .work, cp, r, false⟩]
            ++ [⟨.forward cp (cp + a) false false .work, cp + a, r, false⟩], pl, some N, bot ++ [cp])
        = .ok (ns', n0', n1', n', out', pl, some N, sn'))
    (hn' : n' = N - r - 1) :
    twoLevel_iterator.while4 n0s sto bs tr cN (fuel + 1) (n, r, out, pl, some N, bot ++ [cp])
      = twoLevel_iterator.while4 n0s sto bs tr cN fuel
          (n' + 1, r + 1,
            out' ++ [⟨.forward n' (n' + 1) false true .work, n' + 1, r, false⟩]
              ++ [⟨.reverse (n' + 1) n' true, n' + 1, r + 1, false⟩], pl, some N, sn') := by
  conv => lhs; unfold twoLevel_iterator.while4
  have hl : ¬ (((bot ++ [cp]).length : Int) = 0) := by simp; omega
  have h1 : ¬ ¬ (cp + a > cp) := by omega
  simp only [bind, Except.bind, pure, Except.pure, unwrap, hr, if_true, hl, if_false, pyIndex_last_tl, hcp,
    clientHook_some_tl]
  have hn2 : ¬ (n' ≠ N - r - 1) := not_not.mpr hn'
  by_cases h : cp = n0s
  · subst h
    simp only [if_true] at hw ⊢
    simp only [hadv, h1, if_false, hw, clientHook_some_tl, add_sub_cancel_right]
    rw [if_neg hn2]
  · simp only [h, if_false] at hw ⊢
    simp only [hadv, h1, if_false, hw, clientHook_some_tl, add_sub_cancel_right]
    rw [if_neg hn2]

theorem while4_exit (n0s : Int) (sto : StorageType) (bs : Int) (tr : String) (cN : Int) (fuel : Nat)
    (n r : Int) (out : List PyEv) (pl N : Int) (sn : List Int) (hr : ¬ r < N - n0s) :
    twoLevel_iterator.while4 n0s sto bs tr cN (fuel + 1) (n, r, out, pl, some N, sn)
      = .ok (n, r, out, pl, some N, sn) := by
  conv => lhs; unfold twoLevel_iterator.while4
  simp only [bind, Except.bind, pure, Except.pure, unwrap, hr, if_false]

/-- one iteration of the generated outer loop (lines 81-146) -/
theorem while3_step_tl (p : Int) (sto : StorageType) (bs : Int) (tr : String) (cN : Int) (fuel : Nat)
    (n r : Int) (out : List PyEv) (pl N q n0s : Int) (n' r' : Int) (out' : List PyEv)
    (hr : r < N) (hdiv : floordiv (N - r - 1) p = .ok q) (hn0s : n0s = q * p)
    (hr2 : r = N - min (n0s + p) N)
    (hw : twoLevel_iterator.while4 n0s sto bs tr cN fuel (n, r, out, pl, some N, [n0s])
      = .ok (n', r', out', pl, some N, []))
    (hr' : r' = N - n0s) :
    twoLevel_iterator.while3 p sto bs tr cN (fuel + 1) (n, r, out, pl, some N)
      = twoLevel_iterator.while3 p sto bs tr cN fuel (n', r', out', pl, some N) := by
  conv => lhs; unfold twoLevel_iterator.while3
  subst hn0s
  have h2 : ¬ (r ≠ N - min (q * p + p) N) := not_not.mpr hr2
  have h3 : ¬ (r' ≠ N - q * p) := not_not.mpr hr'
  simp only [bind, Except.bind, pure, Except.pure, unwrap, hr, if_true, hdiv, h2, if_false, hw, h3,
    List.length_nil, Nat.cast_zero, ne_eq, not_true_eq_false]

theorem while3_exit_tl (p : Int) (sto : StorageType) (bs : Int) (tr : String) (cN : Int) (fuel : Nat)
    (n r : Int) (out : List PyEv) (pl N : Int) (hr : ¬ r < N) :
    twoLevel_iterator.while3 p sto bs tr cN (fuel + 1) (n, r, out, pl, some N)
      = .ok (n, r, out, pl, some N) := by
  conv => lhs; unfold twoLevel_iterator.while3
  simp only [bind, Except.bind, pure, Except.pure, unwrap, hr, if_false]

/-- one adjoint calculation of the generated `while True` loop (lines 79-153) -/
theorem while2_step (p : Int) (sto : StorageType) (bs : Int) (tr : String) (cN : Int) (fuel : Nat)
    (n : Int) (out : List PyEv) (pl N n' : Int) (out' : List PyEv) (hpl : pl > 0)
    (hw : twoLevel_iterator.while3 p sto bs tr cN fuel (n, 0, out, pl, some N) = .ok (n', N, out', pl, some N)) :
    twoLevel_iterator.while2 p sto bs tr cN (fuel + 1) (n, 0, out, pl, some N)
      = twoLevel_iterator.while2 p sto bs tr cN fuel
          (n', 0, out' ++ [⟨.endReverse, n', 0, false⟩], pl - 1, some N) := by
  conv => lhs; unfold twoLevel_iterator.while2
  simp only [bind, Except.bind, pure, Except.pure, unwrap, hpl, if_true, hw, ne_eq, not_true_eq_false, if_false,
    clientHook_some_tl]

theorem while2_exit_tl (p : Int) (sto : StorageType) (bs : Int) (tr : String) (cN : Int) (fuel : Nat)
    (n r : Int) (out : List PyEv) (pl : Int) (mx : Option Int) (hpl : ¬ pl > 0) :
    twoLevel_iterator.while2 p sto bs tr cN (fuel + 1) (n, r, out, pl, mx) = .ok (n, r, out, pl, mx) := by
  conv => lhs; unfold twoLevel_iterator.while2
  simp only [bind, Except.bind, pure, Except.pure, hpl, if_false]

/-- an iteration of the generated forward loop (lines 68-77) that does not reach the client's `N` -/
theorem while1_more (p r cN : Int) (fuel : Nat) (n : Int) (out : List PyEv) (pl : Int) (h : ¬ n + p ≥ cN) :
    twoLevel_iterator.while1 p r cN (fuel + 1) (n, out, pl, none)
      = twoLevel_iterator.while1 p r cN fuel
          (n + p, out ++ [⟨.forward n (n + p) true false .disk, n + p, r, false⟩], pl, none) := by
  conv => lhs; unfold twoLevel_iterator.while1
  simp [clientHook, h]

/-- the iteration of the generated forward loop after which the client finalises -/
theorem while1_last (p r cN : Int) (fuel : Nat) (n : Int) (out : List PyEv) (pl : Int) (h : n + p ≥ cN) :
    twoLevel_iterator.while1 p r cN (fuel + 2) (n, out, pl, none)
      = .ok (cN, out ++ [⟨.forward n (n + p) true false .disk, n + p, r, false⟩], pl, some cN) := by
  conv => lhs; unfold twoLevel_iterator.while1
  simp only [clientHook, h, and_self, if_true, ne_eq, not_true_eq_false, if_false]
  conv => lhs; unfold twoLevel_iterator.while1
  simp
  rfl

/-- `Nat` lists as Python `int` lists -/
def zl (l : List Nat) : List Int := l.map (fun x : Nat => (x : Int))
/-- event lists (never exhausted: TwoLevel permits any number of adjoint calculations) -/
def evsPy (l : List Ev) : List PyEv := l.map (fun e => evPy_tl e false)

theorem zl_length (l : List Nat) : (zl l).length = l.length := by simp [zl]
theorem zl_append (l : List Nat) (x : Nat) : zl (l ++ [x]) = zl l ++ [(x : Int)] := by simp [zl]
theorem evsPy_append (l : List Ev) (e : Ev) : evsPy (l ++ [e]) = evsPy l ++ [evPy_tl e false] := by simp [evsPy]

theorem nAdvance_zero_right (m : Nat) (traj : Traj) : nAdvance m 0 traj = none := by
  unfold nAdvance; split_ifs <;> simp_all

/-- the generated `n_advance` on the arguments the generator passes, when the model call succeeds -/
theorem nadv_ok (fuel m : Nat) (s : Int) (traj : Traj) (a : Nat) (h : nAdvance m s.toNat traj = some a)
    (hf : m + 1 ≤ fuel) : n_advance fuel (m : Int) s (trajStr traj) = .ok (a : Int) := by
  by_cases hs : s ≤ 0
  · have : s.toNat = 0 := by omega
    rw [this, nAdvance_zero_right] at h; cases h
  · have e : s = ((s.toNat : Nat) : Int) := by omega
    rw [e, n_advance_refines m s.toNat traj fuel hf, h]; rfl

section
variable (N b : Nat) (st : Storage) (traj : Traj) (cN : Int)

theorem while5_sim : ∀ (fuel : Nat) (s s' : TLIter),
    tlWriteLoop N b st traj fuel s = .ok s' → N + 2 ≤ fuel + s.n →
    ∀ (ns n0 n1 : Int) (O : List PyEv) (pl : Int), ∃ ns' n0' n1',
      twoLevel_iterator.while5 (s.r : Int) (b : Int) (trajStr traj) (stPy_tl st) cN fuel
        (ns, n0, n1, (s.n : Int), O ++ evsPy s.out, pl, some (N : Int), zl s.snapshots)
        = .ok (ns', n0', n1', (s'.n : Int), O ++ evsPy s'.out, pl, some (N : Int), zl s'.snapshots)
      ∧ s'.r = s.r := by
  intro fuel
  induction fuel with
  | zero => intro s s' h; simp [tlWriteLoop] at h
  | succ fuel ih =>
    rintro ⟨n, r, sn, out⟩ s' h hf ns n0 n1 O pl
    rw [tlWriteLoop] at h
    simp only at h hf ⊢
    by_cases hc : n < N - r - 1
    · rw [if_pos hc] at h
      cases hadv : nAdvance (N - r - n) ((b : Int) + 1 - (sn.length : Int)).toNat traj with
      | none => rw [hadv] at h; cases h
      | some adv =>
        rw [hadv] at h
        simp only [TLIter.yield] at h
        by_cases ha : n + adv > n
        · rw [if_neg (not_not.mpr ha)] at h
          by_cases hl : sn.length ≥ b + 1
          · simp only [hl, if_true] at h; cases h
          · simp only [hl, if_false] at h
            obtain ⟨ns', n0', n1', hrun, hr⟩ := ih _ s' h (by simp only; omega)
              ((b : Int) + 1 - (sn.length : Int)) n (n + adv) O pl
            refine ⟨ns', n0', n1', ?_, hr⟩
            have hadv' := nadv_ok fuel (N - r - n) _ traj adv hadv (by omega)
            have e : ((N - r - n : Nat) : Int) = (N : Int) - (r : Int) - (n : Int) := by omega
            rw [e, ← zl_length] at hadv'
            rw [while5_step (r : Int) (b : Int) (trajStr traj) (stPy_tl st) cN fuel ns n0 n1 (n : Int) _ pl (N : Int)
              (zl sn) (adv : Int) (by omega) hadv' (by omega) (by rw [zl_length]; omega)]
            simp only [evsPy_append, zl_append] at hrun
            rw [← hrun]
            simp only [evPy_tl, actPy_tl, Nat.cast_add, zl_length, List.append_assoc]
        · rw [if_pos ha] at h; cases h
    · rw [if_neg hc] at h
      cases h
      refine ⟨ns, n0, n1, ?_, rfl⟩
      apply while5_exit
      omega

theorem nAdvance_zero_left (k : Nat) : nAdvance 0 k traj = none := by
  unfold nAdvance; simp

theorem tlBody_pop (n0s fuel n r cp : Nat) (bot : List Nat) (out : List Ev) (hcp : cp = N - r - 1) :
    tlBody N b st traj n0s fuel ⟨n, r, bot ++ [cp], out⟩
      = .ok ⟨cp, r, bot, out ++ [⟨if cp = n0s then .copy cp .disk .work else .move cp st .work, cp, r⟩]⟩ := by
  by_cases h : cp = n0s <;>
    simp [tlBody, ← hcp, h, TLIter.yield]

theorem tlBody_copy (n0s fuel n r cp : Nat) (bot : List Nat) (out : List Ev) (hcp : ¬ cp = N - r - 1) :
    tlBody N b st traj n0s fuel ⟨n, r, bot ++ [cp], out⟩
      = match nAdvance (N - r - cp) ((b : Int) + 1 - ((bot ++ [cp]).length : Int) + 1).toNat traj with
        | none => .error tlValueError
        | some adv =>
          if ¬ (cp + adv > cp) then .error tlAssert else
          match tlWriteLoop N b st traj fuel ⟨cp + adv, r, bot ++ [cp],
              out ++ [⟨if cp = n0s then .copy cp .disk .work else .copy cp st .work, cp, r⟩]
                ++ [⟨.forward cp (cp + adv) false false .work, cp + adv, r⟩]⟩ with
          | .error e => .error e
          | .ok s => if s.n ≠ N - s.r - 1 then .error tlInvalid else .ok s := by
  by_cases h : cp = n0s
  · subst h
    simp only [tlBody, List.getLastD_concat, hcp, if_false, if_true, TLIter.yield]
    rfl
  · simp only [tlBody, List.getLastD_concat, hcp, if_false, h, TLIter.yield]
    rfl

/-- one iteration of the inner loop: `tlBody` followed by `tlTail` -/
theorem body_sim (n0s fuel n r cp : Nat) (bot : List Nat) (out : List Ev) (s1 : TLIter)
    (hb : tlBody N b st traj n0s fuel ⟨n, r, bot ++ [cp], out⟩ = .ok s1)
    (hr : r < N - n0s) (hf : N + 2 ≤ fuel) (O : List PyEv) (pl : Int) :
    twoLevel_iterator.while4 (n0s : Int) (stPy_tl st) (b : Int) (trajStr traj) cN (fuel + 1)
        ((n : Int), (r : Int), O ++ evsPy out, pl, some (N : Int), zl (bot ++ [cp]))
      = twoLevel_iterator.while4 (n0s : Int) (stPy_tl st) (b : Int) (trajStr traj) cN fuel
        (((tlTail s1).n : Int), ((tlTail s1).r : Int), O ++ evsPy (tlTail s1).out, pl, some (N : Int),
          zl (tlTail s1).snapshots) ∧ s1.r = r := by
  by_cases hcp : cp = N - r - 1
  · rw [tlBody_pop N b st traj n0s fuel n r cp bot out hcp] at hb
    cases hb
    refine ⟨?_, rfl⟩
    rw [On.tlTail_eq, zl_append,
      while4_pop (n0s : Int) (stPy_tl st) (b : Int) (trajStr traj) cN fuel n r _ pl N (zl bot) cp (by omega) (by omega)]
    by_cases h : cp = n0s
    · subst h
      simp [evsPy, evPy_tl, actPy_tl, stPy_tl]
    · have h' : ¬ (cp : Int) = (n0s : Int) := by omega
      simp [evsPy, evPy_tl, actPy_tl, stPy_tl, h, h']
  · rw [tlBody_copy N b st traj n0s fuel n r cp bot out hcp] at hb
    cases hadv : nAdvance (N - r - cp) ((b : Int) + 1 - ((bot ++ [cp]).length : Int) + 1).toNat traj with
    | none => rw [hadv] at hb; cases hb
    | some adv =>
      rw [hadv] at hb
      simp only at hb
      by_cases ha : cp + adv > cp
      · rw [if_neg (not_not.mpr ha)] at hb
        cases hw : tlWriteLoop N b st traj fuel ⟨cp + adv, r, bot ++ [cp],
              out ++ [⟨if cp = n0s then .copy cp .disk .work else .copy cp st .work, cp, r⟩]
                ++ [⟨.forward cp (cp + adv) false false .work, cp + adv, r⟩]⟩ with
        | error e => rw [hw] at hb; cases hb
        | ok s5 =>
          rw [hw] at hb
          simp only at hb
          by_cases hn5 : s5.n = N - s5.r - 1
          · rw [if_neg (not_not.mpr hn5)] at hb
            cases hb
            obtain ⟨ns', n0', n1', hrun, hr5⟩ := while5_sim N b st traj cN fuel _ s1 hw (by simp only; omega)
              ((b : Int) + 1 - ((zl (bot ++ [cp])).length : Int) + 1) cp (cp + adv) O pl
            simp only at hr5 hrun
            refine ⟨?_, hr5⟩
            have hm : N - r - cp ≠ 0 := by
              intro h0; rw [h0, nAdvance_zero_left] at hadv; cases hadv
            have hadv' := nadv_ok fuel (N - r - cp) _ traj adv hadv (by omega)
            have e : ((N - r - cp : Nat) : Int) = (N : Int) - (r : Int) - (cp : Int) := by omega
            rw [e, ← zl_length] at hadv'
            simp only [zl_append] at hadv' hrun ⊢
            have hout : O ++ evsPy (out ++
                [⟨if cp = n0s then Action.copy cp Storage.disk Storage.work else Action.copy cp st Storage.work, cp, r⟩]
                ++ [⟨Action.forward cp (cp + adv) false false Storage.work, cp + adv, r⟩])
              = O ++ evsPy out
                ++ [⟨if (cp : Int) = (n0s : Int) then PyAction.copy cp .disk .work else .copy cp (stPy_tl st) .work,
                      (cp : Int), (r : Int), false⟩]
                ++ [⟨PyAction.forward cp ((cp : Int) + (adv : Int)) false false .work, (cp : Int) + (adv : Int),
                      (r : Int), false⟩] := by
              by_cases h : cp = n0s
              · subst h
                simp [evsPy, evPy_tl, actPy_tl, stPy_tl]
              · have h' : ¬ (cp : Int) = (n0s : Int) := by omega
                simp [evsPy, evPy_tl, actPy_tl, stPy_tl, h, h']
            rw [hout, Nat.cast_add] at hrun
            rw [while4_copy (n0s : Int) (stPy_tl st) (b : Int) (trajStr traj) cN fuel n r (O ++ evsPy out) pl N (zl bot)
              cp adv ns' n0' n1' s1.n (O ++ evsPy s1.out) (zl s1.snapshots) (by omega) (by omega) hadv' (by omega)
              hrun (by omega)]
            obtain ⟨n1, r1, sn1, out1⟩ := s1
            simp only at hr5
            subst hr5
            rw [On.tlTail_eq]
            simp [evsPy, evPy_tl, actPy_tl, stPy_tl]
          · rw [if_pos hn5] at hb; cases hb
      · rw [if_pos ha] at hb; cases hb

/-- the generated inner loop (`while4`) simulates `tlInnerLoop` -/
theorem while4_sim (n0s : Nat) : ∀ (fuel : Nat) (s s' : TLIter),
    tlInnerLoop N b st traj n0s fuel s = .ok s' → 2 * N + 3 ≤ fuel + s.r →
    ∀ (O : List PyEv) (pl : Int),
      twoLevel_iterator.while4 (n0s : Int) (stPy_tl st) (b : Int) (trajStr traj) cN fuel
        ((s.n : Int), (s.r : Int), O ++ evsPy s.out, pl, some (N : Int), zl s.snapshots)
        = .ok ((s'.n : Int), (s'.r : Int), O ++ evsPy s'.out, pl, some (N : Int), zl s'.snapshots) := by
  intro fuel
  induction fuel with
  | zero => intro s s' h; simp [tlInnerLoop] at h
  | succ fuel ih =>
    rintro ⟨n, r, sn, out⟩ s' h hf O pl
    rw [tlInnerLoop] at h
    simp only at h hf ⊢
    by_cases hr : r < N - n0s
    · rw [if_pos hr] at h
      rcases List.eq_nil_or_concat sn with rfl | ⟨bot, cp, rfl⟩
      · simp at h
      · simp only [List.concat_eq_append] at h ⊢
        have hl : ¬ (bot ++ [cp]).length = 0 := by simp
        rw [if_neg hl] at h
        cases hb : tlBody N b st traj n0s fuel ⟨n, r, bot ++ [cp], out⟩ with
        | error e => rw [hb] at h; cases h
        | ok s1 =>
          rw [hb] at h
          simp only at h
          obtain ⟨hstep, hr1⟩ := body_sim N b st traj cN n0s fuel n r cp bot out s1 hb hr (by omega) O pl
          rw [hstep]
          apply ih _ _ h
          obtain ⟨n1, r1, sn1, out1⟩ := s1
          simp only at hr1
          subst hr1
          rw [On.tlTail_eq]
          simp only
          omega
    · rw [if_neg hr] at h
      cases h
      apply while4_exit
      omega

/-- the generated outer loop (`while3`) simulates `tlOuterLoop` -/
theorem while3_sim (p : Nat) (hp : 1 ≤ p) : ∀ (fuel : Nat) (s s' : TLIter),
    tlOuterLoop N p b st traj fuel s = .ok s' → 2 * N + 4 ≤ fuel + s.r →
    ∀ (O : List PyEv) (pl : Int),
      twoLevel_iterator.while3 (p : Int) (stPy_tl st) (b : Int) (trajStr traj) cN fuel
        ((s.n : Int), (s.r : Int), O ++ evsPy s.out, pl, some (N : Int))
        = .ok ((s'.n : Int), (s'.r : Int), O ++ evsPy s'.out, pl, some (N : Int)) := by
  intro fuel
  induction fuel with
  | zero => intro s s' h; simp [tlOuterLoop] at h
  | succ fuel ih =>
    rintro ⟨n, r, sn, out⟩ s' h hf O pl
    rw [tlOuterLoop] at h
    simp only at h hf ⊢
    by_cases hr : r < N
    · rw [if_pos hr] at h
      have hle : (N - r - 1) / p * p ≤ N - r - 1 := Nat.div_mul_le_self _ _
      generalize hn0s : (N - r - 1) / p * p = n0s at h hle
      by_cases h2 : r = N - min (n0s + p) N
      · rw [if_neg (not_not.mpr h2)] at h
        cases hi : tlInnerLoop N b st traj n0s fuel ⟨n, r, [n0s], out⟩ with
        | error e => rw [hi] at h; cases h
        | ok s2 =>
          rw [hi] at h
          simp only at h
          by_cases h3 : s2.r = N - n0s
          · rw [if_neg (not_not.mpr h3)] at h
            by_cases h4 : s2.snapshots.length = 0
            · rw [if_neg (not_not.mpr h4)] at h
              have hw := while4_sim N b st traj cN n0s fuel _ s2 hi (by simp only; omega) O pl
              have hnil : s2.snapshots = [] := List.eq_nil_of_length_eq_zero h4
              simp only [hnil] at hw
              have hdiv : floordiv ((N : Int) - (r : Int) - 1) (p : Int) = .ok (((N - r - 1) / p : Nat) : Int) := by
                have := floordiv_nat (N - r - 1) p (by omega)
                rw [← this]; congr 1; omega
              rw [while3_step_tl (p : Int) (stPy_tl st) (b : Int) (trajStr traj) cN fuel n r _ pl N _ (n0s : Int)
                s2.n s2.r (O ++ evsPy s2.out) (by omega) hdiv (by rw [← hn0s]; push_cast; rfl)
                (by rw [← Nat.cast_add, ← Nat.cast_min]; omega) hw (by omega)]
              exact ih s2 s' h (by omega) O pl
            · rw [if_pos h4] at h; cases h
          · rw [if_pos h3] at h; cases h
      · rw [if_pos h2] at h; cases h
    · rw [if_neg hr] at h
      cases h
      apply while3_exit_tl
      omega

/-- one adjoint calculation: the generated `while True` body simulates `twoLevelIterFrom` -/
theorem pass_sim (p : Nat) (hp : 1 ≤ p) (n fuel : Nat) (sF : TLIter)
    (h : twoLevelIterFrom N p b st traj n fuel = .ok sF) (hf : 2 * N + 4 ≤ fuel)
    (O : List PyEv) (pl : Int) (hpl : pl > 0) :
    twoLevel_iterator.while2 (p : Int) (stPy_tl st) (b : Int) (trajStr traj) cN (fuel + 1)
        ((n : Int), 0, O, pl, some (N : Int))
      = twoLevel_iterator.while2 (p : Int) (stPy_tl st) (b : Int) (trajStr traj) cN fuel
        ((sF.n : Int), 0, O ++ evsPy sF.out, pl - 1, some (N : Int)) := by
  unfold twoLevelIterFrom at h
  cases ho : tlOuterLoop N p b st traj fuel ⟨n, 0, [], []⟩ with
  | error e => rw [ho] at h; cases h
  | ok s =>
    rw [ho] at h
    simp only at h
    by_cases hr : s.r = N
    · rw [if_neg (not_not.mpr hr)] at h
      cases h
      have hw := while3_sim N b st traj cN p hp fuel _ s ho (by simp only; omega) O pl
      simp only [evsPy, List.map_nil, List.append_nil, Nat.cast_zero, hr] at hw
      rw [while2_step (p : Int) (stPy_tl st) (b : Int) (trajStr traj) cN fuel n O pl N s.n _ hpl hw]
      simp [TLIter.yield, evsPy, evPy_tl, actPy_tl]
    · rw [if_pos hr] at h; cases h

theorem ceilDiv_le_self (p : Nat) (hp : 1 ≤ p) (hN : 1 ≤ N) : ceilDiv N p ≤ N := by
  by_contra hc
  have := On.ceilDiv_lt N p N hN (by omega)
  have : N * 1 ≤ N * p := Nat.mul_le_mul_left N hp
  omega

/-- all `k` adjoint calculations of the canonical client: the generated `while True` loop (`while2`) yields `k`
copies of the stream `twoLevelPass` -/
theorem passes_sim (p : Nat) (hp : 1 ≤ p) (hN : 1 ≤ N) : ∀ (k fuel n : Nat) (O : List PyEv),
    2 * N + 4 + k ≤ fuel →
    ∃ n' : Int, twoLevel_iterator.while2 (p : Int) (stPy_tl st) (b : Int) (trajStr traj) cN fuel
        ((n : Int), 0, O, (k : Int), some (N : Int))
      = .ok (n', 0, O ++ evsPy (List.replicate k (twoLevelPass N p b st traj)).flatten, 0, some (N : Int)) := by
  intro k
  induction k with
  | zero =>
    intro fuel n O hf
    obtain ⟨f, rfl⟩ : ∃ f, fuel = f + 1 := ⟨fuel - 1, by omega⟩
    refine ⟨n, ?_⟩
    rw [while2_exit_tl _ _ _ _ _ _ _ _ _ _ _ (by simp)]
    simp [evsPy]
  | succ k ih =>
    intro fuel n O hf
    obtain ⟨f, rfl⟩ : ∃ f, fuel = f + 1 := ⟨fuel - 1, by omega⟩
    have hc := ceilDiv_le_self N p hp hN
    obtain ⟨sF, hsF, hout, hn, _, _⟩ := On.twoLevelIterFrom_eq N p b st traj n f hp hN (by omega)
    obtain ⟨n', hrun⟩ := ih f 1 (O ++ evsPy (twoLevelPass N p b st traj)) (by omega)
    refine ⟨n', ?_⟩
    rw [pass_sim N b st traj cN p hp n f sF hsF (by omega) O _ (by push_cast; omega), hout, hn]
    have e : ((k + 1 : Nat) : Int) - 1 = (k : Int) := by push_cast; ring
    rw [e, hrun, List.replicate_succ, List.flatten_cons]
    simp [evsPy]

/-- the forward phase: the generated loop `while1`, started at `_n = j·p`, yields the Forwards of the periods
`j, j+1, …` until the client's `N` is reached, and the client finalises -/
theorem fwd_sim (p : Nat) (hp : 1 ≤ p) (hN : 1 ≤ N) : ∀ (m j fuel : Nat) (O : List PyEv) (pl : Int),
    j + m + 1 = ceilDiv N p → m + 2 ≤ fuel →
    twoLevel_iterator.while1 (p : Int) 0 (N : Int) fuel (((j * p : Nat) : Int), O, pl, none)
      = .ok ((N : Int),
          O ++ evsPy ((List.range' j (m + 1)).map
            (fun i => (⟨.forward (i * p) (i * p + p) true false .disk, i * p + p, 0⟩ : Ev))),
          pl, some (N : Int)) := by
  intro m
  induction m with
  | zero =>
    intro j fuel O pl hj hf
    obtain ⟨f, rfl⟩ : ∃ f, fuel = f + 2 := ⟨fuel - 2, by omega⟩
    have hge := On.ceilDiv_ge N p hp
    rw [← hj, Nat.add_zero, Nat.succ_mul] at hge
    rw [while1_last _ _ _ _ _ _ _ (by push_cast at hge ⊢; omega)]
    simp [evsPy, evPy_tl, actPy_tl, stPy_tl]
  | succ m ih =>
    intro j fuel O pl hj hf
    obtain ⟨f, rfl⟩ : ∃ f, fuel = f + 1 := ⟨fuel - 1, by omega⟩
    have hlt := On.ceilDiv_lt N p (j + 1) hN (by omega)
    rw [Nat.succ_mul] at hlt
    rw [while1_more _ _ _ _ _ _ _ (by push_cast at hlt ⊢; omega)]
    have e : ((j * p : Nat) : Int) + (p : Int) = (((j + 1) * p : Nat) : Int) := by push_cast; ring
    have hx : (⟨.forward ((j * p : Nat) : Int) (((j * p : Nat) : Int) + (p : Int)) true false .disk,
          ((j * p : Nat) : Int) + (p : Int), 0, false⟩ : PyEv)
        = evPy_tl ⟨.forward (j * p) (j * p + p) true false .disk, j * p + p, 0⟩ false := by
      simp [evPy_tl, actPy_tl, stPy_tl]
    rw [hx, e, ih (j + 1) f _ pl (by omega) (by omega)]
    rw [List.range'_succ, List.map_cons, List.append_assoc]
    rfl

end

end Ckpt.Py.TwoLevel

namespace Ckpt.Py
open Ckpt Ckpt.Py.TwoLevel

/-! ## the theorems -/

/-- The model's event list for the canonical client (finalise at `N`, `k` adjoint calculations): the Forwards of
the online phase (`fwdEv (j·p)`, `j < ⌈N/p⌉` — `Sched.fwdEv` of `twoLevelSched`), `EndForward`, and `k` copies
of one adjoint pass. -/
def twoLevelClientEvs (fwdEv : Nat → Ev) (p N k : Nat) (pass : List Ev) : List Ev :=
  (List.range (ceilDiv N p)).map (fun j => fwdEv (j * p)) ++ [⟨.endForward, N, 0⟩]
    ++ (List.replicate k pass).flatten

/-- fuel that suffices for `twoLevel_iterator` (every loop and every `n_advance` call) -/
def twoLevelFuel (N k : Nat) : Nat := 2 * N + k + 4

/-- core statement: right-hand side built from the recursive stream `twoLevelPass` -/
theorem twoLevel_iterator_refines_stream (p b N k : Nat) (st : Storage) (traj : Traj) (hp : 1 ≤ p) (hN : 1 ≤ N)
    (fuel : Nat) (hf : twoLevelFuel N k ≤ fuel) :
    twoLevel_iterator fuel 0 0 none (p : Int) (b : Int) (stPy_tl st) (trajStr traj) (k : Int) (N : Int)
      = .ok (evsPy (twoLevelClientEvs (fun n => ⟨.forward n (n + p) true false .disk, n + p, 0⟩) p N k
          (twoLevelPass N p b st traj))) := by
  unfold twoLevelFuel at hf
  have hc := ceilDiv_le_self N p hp hN
  have hpos := On.ceilDiv_pos N p hp hN
  have hfw := fwd_sim N p hp hN (ceilDiv N p - 1) 0 fuel [] (k : Int) (by omega) (by omega)
  simp only [Nat.zero_mul, Nat.cast_zero, List.nil_append, show ceilDiv N p - 1 + 1 = ceilDiv N p by omega,
    ← List.range_eq_range'] at hfw
  obtain ⟨n', hrun⟩ := passes_sim N b st traj (N : Int) p hp hN k fuel N
    (evsPy ((List.range (ceilDiv N p)).map
      (fun i => (⟨.forward (i * p) (i * p + p) true false .disk, i * p + p, 0⟩ : Ev)))
      ++ [⟨.endForward, (N : Int), 0, false⟩]) (by omega)
  unfold twoLevel_iterator
  simp only [bind, Except.bind, pure, Except.pure, hfw, clientHook_some_tl, hrun]
  simp [twoLevelClientEvs, evsPy, evPy_tl, actPy_tl]

example : twoLevel_iterator 25 0 0 none 4 0 .disk "revolve" 3 9
    = .ok (evsPy (twoLevelClientEvs (fun n => ⟨.forward n (n + 4) true false .disk, n + 4, 0⟩) 4 9 3
        (twoLevelPass 9 4 0 .disk .revolve))) :=
  twoLevel_iterator_refines_stream 4 0 9 3 .disk .revolve (by decide) (by decide) 25 (by decide)

/-- **Refinement to the literal twin.**  For every period `p ≥ 1`, every number `b` of binomial snapshots, every
storage, both trajectories, every `N ≥ 1` and every `k`: `TwoLevelCheckpointSchedule._iterator` as generated from
the Python source, started as Python starts it (`_n = 0`, `_r = 0`, `_max_n = None`) and driven by the canonical
client (`finalize(N)` as soon as the forward reaches `N`, `k` adjoint calculations), yields the online Forwards,
`EndForward`, and `k` copies of the event list `pass` of one adjoint pass of the literal twin
`twoLevelIterPass` (`Model/TwoLevelIter.lean`). -/
theorem twoLevel_iterator_refines_twin (p b N k : Nat) (st : Storage) (traj : Traj) (hp : 1 ≤ p) (hN : 1 ≤ N)
    (fuel : Nat) (hf : twoLevelFuel N k ≤ fuel) :
    ∃ pass, twoLevelIterPass N p b st traj (twoLevelIterFuel N) = .ok pass ∧
      twoLevel_iterator fuel 0 0 none (p : Int) (b : Int) (stPy_tl st) (trajStr traj) (k : Int) (N : Int)
        = .ok (evsPy (twoLevelClientEvs (fun n => ⟨.forward n (n + p) true false .disk, n + p, 0⟩) p N k pass)) :=
  ⟨twoLevelPass N p b st traj, twin_twoLevel N p b st traj hp hN,
    twoLevel_iterator_refines_stream p b N k st traj hp hN fuel hf⟩

example : ∃ pass, twoLevelIterPass 10 3 2 .ram .maximum (twoLevelIterFuel 10) = .ok pass ∧
    twoLevel_iterator 26 0 0 none 3 2 .ram "maximum" 2 10
      = .ok (evsPy (twoLevelClientEvs (fun n => ⟨.forward n (n + 3) true false .disk, n + 3, 0⟩) 3 10 2 pass)) :=
  twoLevel_iterator_refines_twin 3 2 10 2 .ram .maximum (by decide) (by decide) 26 (by decide)

/-- **`TwoLevelCheckpointSchedule._iterator` as generated from the Python source computes the stream model.**
For all valid parameters (`p ≥ 1`, storage RAM or DISK, any `b`, both trajectories), every `N ≥ 1` and `k ≥ 1`,
with `s` the `Sched` that the model constructor `twoLevelSched p b st traj` returns (`Model/Online.lean`) and
`first` its `s.first N`: the generated generator, started as Python starts it (`_n = 0`, `_r = 0`,
`_max_n = None`) and driven by the canonical client (`clientN = N`, `passes = k`), returns exactly
`s.fwdEv (j·p)` for `j < ⌈N/p⌉` (the forward phase of the machine of `Model/Machine.lean`), then `first`
(`EndForward` and the first adjoint pass), then `k - 1` times `s.again N` — each event with its `_n`, `_r`, and
`_exhausted = False` — i.e. the event list underlying `onlineObs s N k first` / `On.twoLevelObs p b st traj N k`,
the objects of `twoLevel_monitor_clean`, `On.twoLevel_clean`, `On.twoLevel_canon`.  Fuel `2N + k + 4` suffices. -/
theorem twoLevel_iterator_refines (p b N k : Nat) (st : Storage) (traj : Traj) (hp : 1 ≤ p)
    (hst : st = .ram ∨ st = .disk) (hN : 1 ≤ N) (hk : 1 ≤ k) (fuel : Nat) (hf : twoLevelFuel N k ≤ fuel) :
    ∃ s first, twoLevelSched p b st traj = .ok s ∧ s.first N = .ok first ∧
      twoLevel_iterator fuel 0 0 none (p : Int) (b : Int) (stPy_tl st) (trajStr traj) (k : Int) (N : Int)
        = .ok (evsPy ((List.range (ceilDiv N p)).map (fun j => s.fwdEv (j * p)) ++ first ++ agains s N (k - 1))) := by
  obtain ⟨⟨blocks, hblocks⟩, _⟩ := On.twoLevel_pass p b N st traj hp hst hN 0 none
  have hfirst : (On.twoLevelS p b st traj).first N = .ok (⟨.endForward, N, 0⟩ :: twoLevelPass N p b st traj) := by
    simp only [On.twoLevelS, hblocks]
  refine ⟨On.twoLevelS p b st traj, _, On.twoLevelSched_ok p b st traj hp hst, hfirst, ?_⟩
  rw [twoLevel_iterator_refines_stream p b N k st traj hp hN fuel hf]
  obtain ⟨k', rfl⟩ : ∃ k', k = k' + 1 := ⟨k - 1, by omega⟩
  simp only [twoLevelClientEvs, agains, Nat.add_sub_cancel, List.replicate_succ, List.flatten_cons]
  simp [On.twoLevelS]

example : ∃ s first, twoLevelSched 3 2 .ram .maximum = .ok s ∧ s.first 10 = .ok first ∧
    twoLevel_iterator 26 0 0 none 3 2 .ram "maximum" 2 10
      = .ok (evsPy ((List.range (ceilDiv 10 3)).map (fun j => s.fwdEv (j * 3)) ++ first ++ agains s 10 (2 - 1))) :=
  twoLevel_iterator_refines 3 2 10 2 .ram .maximum (by decide) (Or.inl rfl) (by decide) (by decide) 26 (by decide)

example : ∃ s first, twoLevelSched 4 0 .disk .revolve = .ok s ∧ s.first 9 = .ok first ∧
    twoLevel_iterator 25 0 0 none 4 0 .disk "revolve" 3 9
      = .ok (evsPy ((List.range (ceilDiv 9 4)).map (fun j => s.fwdEv (j * 4)) ++ first ++ agains s 9 (3 - 1))) :=
  twoLevel_iterator_refines 4 0 9 3 .disk .revolve (by decide) (Or.inr rfl) (by decide) (by decide) 25 (by decide)

/-- **Bridge to the observation list of the property theorems.**  The events the generated generator yields,
split into the forward phase `evsF` and the rest `evsR`, are the events whose observations (`On.fwdObs N`: `_n`
clipped to `N` and `max_n` set by the client's `finalize`; `Ev.obs · N` once `max_n = N`) form
`On.twoLevelObs p b st traj N k` — the list `On.twoLevel_clean` proves accepted by the executor and
`On.twoLevel_canon` proves to be the `act` lines of the canonical trace. -/
theorem twoLevel_iterator_obs (p b N k : Nat) (st : Storage) (traj : Traj) (hp : 1 ≤ p)
    (hst : st = .ram ∨ st = .disk) (hN : 1 ≤ N) (hk : 1 ≤ k) (fuel : Nat) (hf : twoLevelFuel N k ≤ fuel) :
    ∃ evsF evsR : List Ev,
      twoLevel_iterator fuel 0 0 none (p : Int) (b : Int) (stPy_tl st) (trajStr traj) (k : Int) (N : Int)
        = .ok (evsPy (evsF ++ evsR)) ∧
      On.twoLevelObs p b st traj N k = some (evsF.map (On.fwdObs N) ++ evsR.map (Ev.obs · N)) := by
  obtain ⟨s, first, hs, hfirst, hrun⟩ := twoLevel_iterator_refines p b N k st traj hp hst hN hk fuel hf
  refine ⟨(List.range (ceilDiv N p)).map (fun j => s.fwdEv (j * p)), first ++ agains s N (k - 1), ?_, ?_⟩
  · rw [hrun, List.append_assoc]
  · simp only [On.twoLevelObs, hs, hfirst, On.twoLevelFwdObs, agains, List.map_append, List.map_map,
      List.map_flatten, List.map_replicate, List.append_assoc]
    rfl

example : ∃ evsF evsR : List Ev,
    twoLevel_iterator 26 0 0 none 3 2 .ram "maximum" 2 10 = .ok (evsPy (evsF ++ evsR)) ∧
    On.twoLevelObs 3 2 .ram .maximum 10 2 = some (evsF.map (On.fwdObs 10) ++ evsR.map (Ev.obs · 10)) :=
  twoLevel_iterator_obs 3 2 10 2 .ram .maximum (by decide) (Or.inl rfl) (by decide) (by decide) 26 (by decide)

end Ckpt.Py

#print axioms Ckpt.Py.twoLevel_iterator_refines_twin
#print axioms Ckpt.Py.twoLevel_iterator_refines
#print axioms Ckpt.Py.twoLevel_iterator_obs
