/-
  The constructors of the Revolve family (`RevolveCheckpointSchedule.__init__`, `HRevolve.__init__`,
  `DiskRevolve.__init__`, `PeriodicDiskRevolve.__init__`, `Revolve.__init__`, hrevolve.py) as GENERATED from the source
  (`Src.lean`: `revolveBase_init`, `hrevolve_init`, `diskRevolve_init`, `periodicDiskRevolve_init`, `revolve_init`),
  and the object-level capstones: construct the object with the generated constructor (which runs the generated
  sequence builder), then iterate the generated `_iterator` over the object's fields (`objRun`).

  1. `revolveBase_init_spec` / `revolveBase_init_ok` / `revolveBase_init_valueError` / `revolveBase_init_assertionError`
  2. `X_init_unfold` (constructor = builder, then base constructor) and `X_init_fields` (the fields on valid parameters:
     `(0, 0, some N, false, sd_X, cm, ops.map opPy)` with `ops` the twin's `…OpsTop`)
  3. `object_X_accepted` (the stream of `objRun (X_init …)` is accepted by the checking executor) and `object_X_model`
     (that stream is the stream model's: `revolveEvs`, `diskRevolveEvs`, `periodicEvs`, `hrevolveEvs`).

  Fuel: builder `fuelB ≥ N` (Revolve), `N + 2` (DiskRevolve), `max (wd + rd + 2) (N + mx + 1)` with `mx` the period
  (PeriodicDiskRevolve), `4 N + 8` (HRevolve); iterator `fuelI ≥ ops.length + 1` (`8 N + 1` suffices for Revolve).
-/
import CkptGen.RefineSeqAll
import CkptGen.RefineSeqHRevolve
import Mathlib.Tactic

namespace Ckpt.Py
open Ckpt Ckpt.Ops

/-- the object fields of the Revolve family: `(n, r, max_n, exhausted, snapshots_on_disk, snapshots_in_ram, schedule)` -/
abbrev RevObj := Int × Int × Option Int × Bool × Option Int × Int × List PyOp

/-- construct the object with the generated constructor, then iterate the generated `_iterator` over its fields -/
def objRun (init : M (Int × Int × Option Int × Bool × Option Int × Int × List PyOp)) (fuelI : Nat) : M (List PyEv) := do
  let (n, r, mx, ex, _sd, _sr, sch) ← init
  revolve_iterator fuelI n r mx sch ex

theorem objRun_ok (n r : Int) (mx : Option Int) (ex : Bool) (sd : Option Int) (sr : Int) (sch : List PyOp) (fuelI : Nat) :
    objRun (.ok (n, r, mx, ex, sd, sr, sch)) fuelI = revolve_iterator fuelI n r mx sch ex := rfl

theorem objRun_error (e : PyErr) (fuelI : Nat) : objRun (.error e) fuelI = .error e := rfl

/-! ## 1. `RevolveCheckpointSchedule.__init__` -/

/-- the generated base constructor, in closed form: `ValueError` from `CheckpointSchedule.__init__` when `max_n < 1`
(before the asserts), `AssertionError` when `snapshots_in_ram ≤ 0`, the fields otherwise -/
theorem revolveBase_init_spec (mx cm : Int) (sd : Option Int) (s : List PyOp) :
    revolveBase_init mx cm sd s =
      if mx < 1 then .error .valueError
      else if cm ≤ 0 then .error .assertionError
      else .ok (0, 0, some mx, false, sd, cm, s) := by
  unfold revolveBase_init
  rw [init_spec]
  simp only
  by_cases h1 : mx < 1
  · rw [if_pos h1, if_pos h1]; rfl
  · rw [if_neg h1, if_neg h1]
    by_cases h2 : cm ≤ 0
    · rw [if_pos h2]
      simp only [bind, Except.bind, pure, Except.pure]
      rw [if_pos (by omega)]
      rfl
    · rw [if_neg h2]
      simp only [bind, Except.bind, pure, Except.pure]
      rw [if_neg (by omega), if_neg (by omega)]

theorem revolveBase_init_ok (N cm : Nat) (sd : Option Int) (s : List PyOp) (hN : 1 ≤ N) (hcm : 1 ≤ cm) :
    revolveBase_init N cm sd s = .ok (0, 0, some N, false, sd, cm, s) := by
  rw [revolveBase_init_spec, if_neg (by omega), if_neg (by omega)]

/-- `max_n < 1`: `ValueError` (raised by `CheckpointSchedule.__init__`, before the asserts) -/
theorem revolveBase_init_valueError (mx cm : Int) (sd : Option Int) (s : List PyOp) (h : mx < 1) :
    revolveBase_init mx cm sd s = .error .valueError := by
  rw [revolveBase_init_spec, if_pos h]

/-- `max_n ≥ 1`, `snapshots_in_ram ≤ 0`: `AssertionError` -/
theorem revolveBase_init_assertionError (mx cm : Int) (sd : Option Int) (s : List PyOp) (h : 1 ≤ mx) (hcm : cm ≤ 0) :
    revolveBase_init mx cm sd s = .error .assertionError := by
  rw [revolveBase_init_spec, if_neg (by omega), if_pos hcm]

example : (1 : Nat) ≤ 3 ∧ (1 : Nat) ≤ 2 := by decide
example := revolveBase_init_ok 3 2 (some 0) [] (by decide) (by decide)
example : ((0 : Int) < 1) := by decide
example : revolveBase_init 0 2 none [] = .error .valueError := revolveBase_init_valueError 0 2 none [] (by decide)
example : ((1 : Int) ≤ 3 ∧ (0 : Int) ≤ 0) := by decide
example : revolveBase_init 3 0 none [] = .error .assertionError :=
  revolveBase_init_assertionError 3 0 none [] (by decide) (by decide)

/-! ## 2. the constructors of the four classes -/

/-- re-assembling the fields of the base object (`self._n = base._n`, …) is the identity -/
theorem eta_fields (x : M RevObj) :
    (x >>= fun b => pure (b.1, b.2.1, b.2.2.1, b.2.2.2.1, b.2.2.2.2.1, b.2.2.2.2.2.1, b.2.2.2.2.2.2)) = x := by
  cases x <;> rfl

/-- `Revolve.__init__`: `schedule = list(revolve(max_n - 1, snapshots_in_ram, wd, rd, uf, ub))`, then the base constructor
with `snapshots_on_disk = 0` -/
theorem revolve_init_unfold (fuel : Nat) (mx cm : Int) (uf ub wd rd : Rat) :
    revolve_init fuel mx cm uf ub wd rd = (do
      let s ← revolve fuel (mx - 1) cm wd rd uf ub none
      revolveBase_init mx cm (some 0) s) := by
  unfold revolve_init
  cases revolve fuel (mx - 1) cm wd rd uf ub none with
  | error e => rfl
  | ok s => exact eta_fields (revolveBase_init mx cm (some 0) s)

/-- `DiskRevolve.__init__`: `schedule = list(disk_revolve(max_n - 1, snapshots_in_ram, wd, rd, uf, ub))`, then the base
constructor with `snapshots_on_disk = None` -/
theorem diskRevolve_init_unfold (fuel : Nat) (mx cm : Int) (uf ub wd rd : Rat) :
    diskRevolve_init fuel mx cm uf ub wd rd = (do
      let s ← disk_revolve fuel (mx - 1) cm wd rd uf ub none none
      revolveBase_init mx cm none s) := by
  unfold diskRevolve_init
  cases disk_revolve fuel (mx - 1) cm wd rd uf ub none none with
  | error e => rfl
  | ok s => exact eta_fields (revolveBase_init mx cm none s)

/-- `PeriodicDiskRevolve.__init__` -/
theorem periodicDiskRevolve_init_unfold (fuel : Nat) (mx cm : Int) (uf ub wd rd : Rat) :
    periodicDiskRevolve_init fuel mx cm uf ub wd rd = (do
      let s ← periodic_disk_revolve fuel (mx - 1) cm wd rd uf ub none none
      revolveBase_init mx cm none s) := by
  unfold periodicDiskRevolve_init
  cases periodic_disk_revolve fuel (mx - 1) cm wd rd uf ub none none with
  | error e => rfl
  | ok s => exact eta_fields (revolveBase_init mx cm none s)

/-- `HRevolve.__init__`: `schedule = list(hrevolve(max_n - 1, (c0, c1), [0, wd], [0, rd], uf, ub))`, then the base
constructor with `snapshots_on_disk = c1` -/
theorem hrevolve_init_unfold (fuel : Nat) (mx c0 c1 : Int) (uf ub wd rd : Rat) :
    hrevolve_init fuel mx c0 c1 uf ub wd rd = (do
      let s ← hrevolve fuel (mx - 1) [c0, c1] [0, wd] [0, rd] uf ub
      revolveBase_init mx c0 (some c1) s) := by
  unfold hrevolve_init
  have e : (((0 : Int) : Int) : Rat) = 0 := Int.cast_zero
  simp only [e]
  cases hrevolve fuel (mx - 1) [c0, c1] [0, wd] [0, rd] uf ub with
  | error e => rfl
  | ok s => exact eta_fields (revolveBase_init mx c0 (some c1) s)

/-- an error of the builder is the constructor's error; an invalid `max_n`/`snapshots_in_ram` surfaces only after the
builder has returned (the order of `__init__`) -/
theorem revolve_init_builder_error (fuel : Nat) (mx cm : Int) (uf ub wd rd : Rat) (e : PyErr)
    (h : revolve fuel (mx - 1) cm wd rd uf ub none = .error e) :
    revolve_init fuel mx cm uf ub wd rd = .error e := by
  rw [revolve_init_unfold, h]; rfl

/-- **Revolve, the fields**: for `N ≥ 1`, `cm ≥ 1` the generated constructor returns
`_n = _r = 0`, `_max_n = N`, `_exhausted = False`, `_snapshots_on_disk = 0`, `_snapshots_in_ram = cm` and the twin's
operation sequence `revolveOpsTop N cm c`.  Builder fuel: `N`. -/
theorem revolve_init_fields (N cm : Nat) (c : Costs) (hN : 1 ≤ N) (hcm : 1 ≤ cm) (wd rd : Rat) :
    ∃ ops, revolveOpsTop N cm c = some ops ∧ ops.length ≤ 8 * N ∧ ∀ fuelB, N ≤ fuelB →
      revolve_init fuelB (N : Int) (cm : Int) (c.uf : Rat) (c.ub : Rat) wd rd
        = .ok (0, 0, some (N : Int), false, some 0, (cm : Int), ops.map opPy) := by
  obtain ⟨ops, hops, hlen, hb⟩ := revolve_builder_top N cm c hN hcm wd rd
  refine ⟨ops, hops, hlen, fun fuelB hB => ?_⟩
  rw [revolve_init_unfold, hb fuelB hB]
  exact revolveBase_init_ok N cm (some 0) _ hN hcm

/-- **DiskRevolve, the fields** (`_snapshots_on_disk = None`).  Builder fuel: `N + 2`. -/
theorem diskRevolve_init_fields (N cm : Nat) (c : Costs) (hN : 1 ≤ N) (hcm : 1 ≤ cm) (ops : List Ops.Op)
    (hops : diskRevolveOpsTop N cm c = some ops) (fuelB : Nat) (hB : N + 2 ≤ fuelB) :
    diskRevolve_init fuelB (N : Int) (cm : Int) (c.uf : Rat) (c.ub : Rat) (c.wd : Rat) (c.rd : Rat)
      = .ok (0, 0, some (N : Int), false, none, (cm : Int), ops.map opPy) := by
  unfold diskRevolveOpsTop at hops
  simp only at hops
  rw [Nat.add_comm c.wd c.rd] at hops
  have e : (N : Int) - 1 = ((N - 1 : Nat) : Int) := by omega
  rw [diskRevolve_init_unfold, e,
    disk_revolve_refines_none revolveRefines (N - 1) cm c.uf c.ub c.wd c.rd hcm N ops fuelB (by omega) hops]
  exact revolveBase_init_ok N cm none _ hN hcm

theorem diskRevolve_init_fields_total (N cm : Nat) (c : Costs) (hN : 1 ≤ N) (hcm : 1 ≤ cm) :
    ∃ ops, diskRevolveOpsTop N cm c = some ops ∧ ∀ fuelB, N + 2 ≤ fuelB →
      diskRevolve_init fuelB (N : Int) (cm : Int) (c.uf : Rat) (c.ub : Rat) (c.wd : Rat) (c.rd : Rat)
        = .ok (0, 0, some (N : Int), false, none, (cm : Int), ops.map opPy) := by
  obtain ⟨ops, _, hops, _⟩ := revolve_iterator_diskRevolve N cm c hN hcm
  exact ⟨ops, hops, fun fuelB hB => diskRevolve_init_fields N cm c hN hcm ops hops fuelB hB⟩

/-- **PeriodicDiskRevolve, the fields** (`_snapshots_on_disk = None`).  Builder fuel: `max (wd + rd + 2) (N + mx + 1)`,
`mx` the period `mxrr_close_formula(cm, uf, wd, rd)`. -/
theorem periodicDiskRevolve_init_fields (N cm : Nat) (c : Costs) (hN : 1 ≤ N) (hcm : 1 ≤ cm) (ops : List Ops.Op)
    (hops : periodicOpsTop N cm c = some ops) :
    ∃ mx, mxrr cm c.uf (c.wd + c.rd) = some mx ∧ ∀ fuelB, c.wd + c.rd + 2 ≤ fuelB → N + mx + 1 ≤ fuelB →
      periodicDiskRevolve_init fuelB (N : Int) (cm : Int) (c.uf : Rat) (c.ub : Rat) (c.wd : Rat) (c.rd : Rat)
        = .ok (0, 0, some (N : Int), false, none, (cm : Int), ops.map opPy) := by
  unfold periodicOpsTop at hops
  cases hmx : mxrr cm c.uf (c.wd + c.rd) with
  | none => rw [hmx] at hops; cases hops
  | some mx =>
    rw [hmx] at hops
    simp only at hops
    refine ⟨mx, rfl, fun fuelB hb1 hb2 => ?_⟩
    have e : (N : Int) - 1 = ((N - 1 : Nat) : Int) := by omega
    rw [periodicDiskRevolve_init_unfold, e,
      periodic_disk_revolve_refines revolveRefines (N - 1) cm c.uf c.ub c.wd c.rd mx hcm
        (by rw [Nat.add_comm]; exact hmx) ops fuelB (by omega) (by omega) hops]
    exact revolveBase_init_ok N cm none _ hN hcm

theorem periodicDiskRevolve_init_fields_total (N cm : Nat) (c : Costs) (hN : 1 ≤ N) (hcm : 1 ≤ cm) (huf : 0 < c.uf) :
    ∃ ops mx, periodicOpsTop N cm c = some ops ∧ mxrr cm c.uf (c.wd + c.rd) = some mx ∧
      ∀ fuelB, c.wd + c.rd + 2 ≤ fuelB → N + mx + 1 ≤ fuelB →
        periodicDiskRevolve_init fuelB (N : Int) (cm : Int) (c.uf : Rat) (c.ub : Rat) (c.wd : Rat) (c.rd : Rat)
          = .ok (0, 0, some (N : Int), false, none, (cm : Int), ops.map opPy) := by
  obtain ⟨ops, _, hops, _⟩ := revolve_iterator_periodic N cm c hN hcm huf
  obtain ⟨mx, hmx, h⟩ := periodicDiskRevolve_init_fields N cm c hN hcm ops hops
  exact ⟨ops, mx, hops, hmx, h⟩

/-- **HRevolve, the fields** (`_snapshots_on_disk = c1`, `_snapshots_in_ram = c0`).  Builder fuel: `4 N + 8`. -/
theorem hrevolve_init_fields (N c0 c1 : Nat) (c : Costs) (hN : 1 ≤ N) (hc0 : 1 ≤ c0) (ops : List Ops.Op)
    (hops : hrevolveOpsTop N c0 c1 c = some ops) (fuelB : Nat) (hB : 4 * N + 8 ≤ fuelB) :
    hrevolve_init fuelB (N : Int) (c0 : Int) (c1 : Int) (c.uf : Rat) (c.ub : Rat) (c.wd : Rat) (c.rd : Rat)
      = .ok (0, 0, some (N : Int), false, some (c1 : Int), (c0 : Int), ops.map opPy) := by
  rw [hrevolve_init_unfold, hrevolve_refines N c0 c1 c hN hc0 ops hops fuelB hB]
  exact revolveBase_init_ok N c0 (some (c1 : Int)) _ hN hc0

theorem hrevolve_init_fields_total (N c0 c1 : Nat) (c : Costs) (hN : 1 ≤ N) (hc0 : 1 ≤ c0) :
    ∃ ops, hrevolveOpsTop N c0 c1 c = some ops ∧ ∀ fuelB, 4 * N + 8 ≤ fuelB →
      hrevolve_init fuelB (N : Int) (c0 : Int) (c1 : Int) (c.uf : Rat) (c.ub : Rat) (c.wd : Rat) (c.rd : Rat)
        = .ok (0, 0, some (N : Int), false, some (c1 : Int), (c0 : Int), ops.map opPy) := by
  obtain ⟨ops, _, hops, _⟩ := revolve_iterator_hrevolve N c0 c1 c hN hc0
  exact ⟨ops, hops, fun fuelB hB => hrevolve_init_fields N c0 c1 c hN hc0 ops hops fuelB hB⟩

/-- the `AssertionError` of the base constructor surfaces only when the builder has returned (e.g. `Revolve(1, 0, …)`:
`revolve(0, 0, …)` returns a sequence); for `N ≥ 2`, `cm = 0` the builder raises first (below) -/
theorem revolve_init_assertionError (fuel : Nat) (mx cm : Int) (uf ub wd rd : Rat) (s : List PyOp)
    (h : revolve fuel (mx - 1) cm wd rd uf ub none = .ok s) (hmx : 1 ≤ mx) (hcm : cm ≤ 0) :
    revolve_init fuel mx cm uf ub wd rd = .error .assertionError := by
  rw [revolve_init_unfold, h]
  exact revolveBase_init_assertionError mx cm (some 0) s hmx hcm

/-- non-vacuity of `revolve_init_assertionError`: `Revolve(1, 0, 1, 1, 1, 1)` -/
example : (match revolve 2 ((1 : Int) - 1) 0 1 1 1 1 none with | .ok _ => true | .error _ => false) = true ∧
    (1 : Int) ≤ 1 ∧ (0 : Int) ≤ 0 := ⟨by decide +kernel, by decide, by decide⟩
example : (match revolve_init 2 1 0 1 1 1 1 with | .error .assertionError => true | _ => false) = true := by
  decide +kernel

/-- `Revolve(N, 0, …)` with `N ≥ 3`: the builder's `IndexError` (from `get_opt_0_table`) comes first, the
`assert snapshots_in_ram > 0` of the base constructor is not reached -/
theorem revolve_init_cm0_indexError (uf ub : Nat) (wd rd : Rat) (fuel N : Nat) (hN : 3 ≤ N) :
    revolve_init (fuel + 1) (N : Int) ((0 : Nat) : Int) (uf : Rat) (ub : Rat) wd rd = .error .indexError := by
  have e : (N : Int) - 1 = ((N - 1 : Nat) : Int) := by omega
  rw [revolve_init_unfold, e, revolve_none_indexError uf ub wd rd fuel (N - 1) (by omega)]
  rfl

/-- `Revolve(2, 0, …)`: the builder's `ValueError` -/
theorem revolve_init_cm0_valueError (uf ub : Nat) (wd rd : Rat) (fuel : Nat) :
    revolve_init (fuel + 1) ((2 : Nat) : Int) ((0 : Nat) : Int) (uf : Rat) (ub : Rat) wd rd = .error .valueError := by
  have e : ((2 : Nat) : Int) - 1 = ((1 : Nat) : Int) := by norm_num
  rw [revolve_init_unfold, e, revolve_valueError_none fuel uf ub wd rd]
  rfl

example : (3 : Nat) ≤ 3 := by decide
example := revolve_init_cm0_indexError 1 1 1 1 5 3 (by decide)

example : (1 : Nat) ≤ 3 ∧ (1 : Nat) ≤ 2 ∧ 3 ≤ 3 := by decide
example := revolve_init_fields 3 2 ⟨1, 1, 1, 1⟩ (by decide) (by decide) 1 1
example : (1 : Nat) ≤ 3 ∧ (1 : Nat) ≤ 2 ∧ 3 + 2 ≤ 5 ∧ (diskRevolveOpsTop 3 2 ⟨1, 1, 1, 1⟩).isSome = true := by decide
example := diskRevolve_init_fields_total 3 2 ⟨1, 1, 1, 1⟩ (by decide) (by decide)
example : (1 : Nat) ≤ 3 ∧ (1 : Nat) ≤ 2 ∧ 0 < (⟨1, 1, 1, 1⟩ : Costs).uf ∧ mxrr 2 1 (1 + 1) = some 3 ∧
    (periodicOpsTop 3 2 ⟨1, 1, 1, 1⟩).isSome = true := by decide
example := periodicDiskRevolve_init_fields_total 3 2 ⟨1, 1, 1, 1⟩ (by decide) (by decide) (by decide)
example : (1 : Nat) ≤ 3 ∧ (1 : Nat) ≤ 2 ∧ 4 * 3 + 8 ≤ 20 := by decide
example := hrevolve_init_fields_total 3 2 1 ⟨1, 1, 1, 1⟩ (by decide) (by decide)

/-! ## 3. the object-level capstones -/

/-- **Revolve, the object**: `Revolve(N, cm, uf, ub, wd, rd)` constructed by the generated constructor and iterated by the
generated `_iterator` yields the stream model `revolveEvs` -/
theorem object_revolve_model (N cm : Nat) (c : Costs) (hN : 1 ≤ N) (hcm : 1 ≤ cm) (wd rd : Rat) :
    ∃ evs, revolveEvs N cm c = .ok evs ∧ ∀ fuelB fuelI, N ≤ fuelB → 8 * N + 1 ≤ fuelI →
      objRun (revolve_init fuelB (N : Int) (cm : Int) (c.uf : Rat) (c.ub : Rat) wd rd) fuelI
        = .ok (markLast (evs.map (evPy · false))) := by
  obtain ⟨ops, hops, hlen, hf⟩ := revolve_init_fields N cm c hN hcm wd rd
  obtain ⟨ops', evs, hops', hev, hrun⟩ := revolve_iterator_revolve N cm c hN hcm
  rw [hops] at hops'
  cases hops'
  refine ⟨evs, hev, fun fuelB fuelI hB hI => ?_⟩
  rw [hf fuelB hB, objRun_ok]
  exact hrun fuelI (by omega)

/-- **Revolve, the object, accepted**: for all valid parameters and every number `k` of adjoint calculations allowed,
the stream of the constructed object is accepted by the checking executor (no violation of any tag, complete).
Fuel: builder `N`, iterator `8 N + 1`. -/
theorem object_revolve_accepted (N cm : Nat) (c : Costs) (hv : validRevolve N cm c.uf c.ub = true) (k : Nat)
    (wd rd : Rat) (fuelB fuelI : Nat) (hB : N ≤ fuelB) (hI : 8 * N + 1 ≤ fuelI) :
    ∃ pevs, objRun (revolve_init fuelB (N : Int) (cm : Int) (c.uf : Rat) (c.ub : Rat) wd rd) fuelI = .ok pevs ∧
      Accepted (cfgRevolve cm N) k (obsOfPy false N pevs) := by
  obtain ⟨hN, hcm, _, _⟩ := (validRevolve_iff _ _ _ _).1 hv
  obtain ⟨ops, hops, hlen, hf⟩ := revolve_init_fields N cm c hN hcm wd rd
  obtain ⟨ops', hops', hacc⟩ := source_revolve_accepted N cm c hv k
  rw [hops] at hops'
  cases hops'
  obtain ⟨pevs, hp, ha⟩ := hacc fuelI (by omega)
  refine ⟨pevs, ?_, ha⟩
  rw [hf fuelB hB, objRun_ok, ← revolve_run_eq fuelI N _ hN]
  exact hp

/-- **DiskRevolve, the object**: the stream model `diskRevolveEvs` -/
theorem object_diskRevolve_model (N cm : Nat) (c : Costs) (hN : 1 ≤ N) (hcm : 1 ≤ cm) :
    ∃ ops evs, diskRevolveOpsTop N cm c = some ops ∧ diskRevolveEvs N cm c = .ok evs ∧
      ∀ fuelB fuelI, N + 2 ≤ fuelB → ops.length + 1 ≤ fuelI →
        objRun (diskRevolve_init fuelB (N : Int) (cm : Int) (c.uf : Rat) (c.ub : Rat) (c.wd : Rat) (c.rd : Rat)) fuelI
          = .ok (markLast (evs.map (evPy · false))) := by
  obtain ⟨ops, evs, hops, hev, hrun⟩ := revolve_iterator_diskRevolve N cm c hN hcm
  refine ⟨ops, evs, hops, hev, fun fuelB fuelI hB hI => ?_⟩
  rw [diskRevolve_init_fields N cm c hN hcm ops hops fuelB hB, objRun_ok]
  exact hrun fuelI hI

/-- **DiskRevolve, the object, accepted** (RAM bounded by `snapshots_in_ram`, DISK unbounded).
Fuel: builder `N + 2`, iterator one more than the number of operations built. -/
theorem object_diskRevolve_accepted (N cm : Nat) (c : Costs) (hv : validRevolve N cm c.uf c.ub = true) (k : Nat) :
    ∃ ops, diskRevolveOpsTop N cm c = some ops ∧ ∀ fuelB fuelI, N + 2 ≤ fuelB → ops.length + 1 ≤ fuelI →
      ∃ pevs, objRun (diskRevolve_init fuelB (N : Int) (cm : Int) (c.uf : Rat) (c.ub : Rat) (c.wd : Rat) (c.rd : Rat))
          fuelI = .ok pevs ∧
        Accepted (cfgDiskRevolve cm N) k (obsOfPy false N pevs) := by
  obtain ⟨hN, hcm, _, _⟩ := (validRevolve_iff _ _ _ _).1 hv
  obtain ⟨ops, hops, hacc⟩ := source_diskRevolve_accepted N cm c hv k
  refine ⟨ops, hops, fun fuelB fuelI hB hI => ?_⟩
  obtain ⟨pevs, hp, ha⟩ := hacc fuelI hI
  refine ⟨pevs, ?_, ha⟩
  rw [diskRevolve_init_fields N cm c hN hcm ops hops fuelB hB, objRun_ok, ← revolve_run_eq fuelI N _ hN]
  exact hp

/-- **PeriodicDiskRevolve, the object**: the stream model `periodicEvs` -/
theorem object_periodic_model (N cm : Nat) (c : Costs) (hN : 1 ≤ N) (hcm : 1 ≤ cm) (huf : 0 < c.uf) :
    ∃ ops evs mx, periodicOpsTop N cm c = some ops ∧ periodicEvs N cm c = .ok evs ∧
      mxrr cm c.uf (c.wd + c.rd) = some mx ∧
      ∀ fuelB fuelI, c.wd + c.rd + 2 ≤ fuelB → N + mx + 1 ≤ fuelB → ops.length + 1 ≤ fuelI →
        objRun (periodicDiskRevolve_init fuelB (N : Int) (cm : Int) (c.uf : Rat) (c.ub : Rat) (c.wd : Rat) (c.rd : Rat))
          fuelI = .ok (markLast (evs.map (evPy · false))) := by
  obtain ⟨ops, evs, hops, hev, hrun⟩ := revolve_iterator_periodic N cm c hN hcm huf
  obtain ⟨mx, hmx, hf⟩ := periodicDiskRevolve_init_fields N cm c hN hcm ops hops
  refine ⟨ops, evs, mx, hops, hev, hmx, fun fuelB fuelI hB1 hB2 hI => ?_⟩
  rw [hf fuelB hB1 hB2, objRun_ok]
  exact hrun fuelI hI

/-- **PeriodicDiskRevolve, the object, accepted**.  Fuel: builder `max (wd + rd + 2) (N + mx + 1)` (`mx` the period),
iterator one more than the number of operations built. -/
theorem object_periodic_accepted (N cm : Nat) (c : Costs) (hv : validRevolve N cm c.uf c.ub = true) (k : Nat) :
    ∃ ops mx, periodicOpsTop N cm c = some ops ∧ mxrr cm c.uf (c.wd + c.rd) = some mx ∧
      ∀ fuelB fuelI, c.wd + c.rd + 2 ≤ fuelB → N + mx + 1 ≤ fuelB → ops.length + 1 ≤ fuelI →
        ∃ pevs, objRun (periodicDiskRevolve_init fuelB (N : Int) (cm : Int) (c.uf : Rat) (c.ub : Rat) (c.wd : Rat)
            (c.rd : Rat)) fuelI = .ok pevs ∧
          Accepted (cfgDiskRevolve cm N) k (obsOfPy false N pevs) := by
  obtain ⟨hN, hcm, huf, _⟩ := (validRevolve_iff _ _ _ _).1 hv
  obtain ⟨ops, hops, hacc⟩ := source_periodic_accepted N cm c hv k
  obtain ⟨mx, hmx, hf⟩ := periodicDiskRevolve_init_fields N cm c hN hcm ops hops
  refine ⟨ops, mx, hops, hmx, fun fuelB fuelI hB1 hB2 hI => ?_⟩
  obtain ⟨pevs, hp, ha⟩ := hacc fuelI hI
  refine ⟨pevs, ?_, ha⟩
  rw [hf fuelB hB1 hB2, objRun_ok, ← revolve_run_eq fuelI N _ hN]
  exact hp

/-- **HRevolve, the object**: the stream model `hrevolveEvs` -/
theorem object_hrevolve_model (N c0 c1 : Nat) (c : Costs) (hN : 1 ≤ N) (hc0 : 1 ≤ c0) :
    ∃ ops evs, hrevolveOpsTop N c0 c1 c = some ops ∧ hrevolveEvs N c0 c1 c = .ok evs ∧
      ∀ fuelB fuelI, 4 * N + 8 ≤ fuelB → ops.length + 1 ≤ fuelI →
        objRun (hrevolve_init fuelB (N : Int) (c0 : Int) (c1 : Int) (c.uf : Rat) (c.ub : Rat) (c.wd : Rat) (c.rd : Rat))
          fuelI = .ok (markLast (evs.map (evPy · false))) := by
  obtain ⟨ops, evs, hops, hev, hrun⟩ := revolve_iterator_hrevolve N c0 c1 c hN hc0
  refine ⟨ops, evs, hops, hev, fun fuelB fuelI hB hI => ?_⟩
  rw [hrevolve_init_fields N c0 c1 c hN hc0 ops hops fuelB hB, objRun_ok]
  exact hrun fuelI hI

/-- **HRevolve, the object, accepted** (`c0 ≥ 1` RAM units, `c1` DISK units).  Fuel: builder `4 N + 8`, iterator one more
than the number of operations built. -/
theorem object_hrevolve_accepted (N c0 c1 : Nat) (c : Costs) (hv : validRevolve N c0 c.uf c.ub = true) (k : Nat) :
    ∃ ops, hrevolveOpsTop N c0 c1 c = some ops ∧ ∀ fuelB fuelI, 4 * N + 8 ≤ fuelB → ops.length + 1 ≤ fuelI →
      ∃ pevs, objRun (hrevolve_init fuelB (N : Int) (c0 : Int) (c1 : Int) (c.uf : Rat) (c.ub : Rat) (c.wd : Rat)
          (c.rd : Rat)) fuelI = .ok pevs ∧
        Accepted (cfgHRevolve c0 c1 N) k (obsOfPy false N pevs) := by
  obtain ⟨hN, hc0, _, _⟩ := (validRevolve_iff _ _ _ _).1 hv
  obtain ⟨ops, hops, hacc⟩ := source_hrevolve_accepted N c0 c1 c hv k
  refine ⟨ops, hops, fun fuelB fuelI hB hI => ?_⟩
  obtain ⟨pevs, hp, ha⟩ := hacc fuelI hI
  refine ⟨pevs, ?_, ha⟩
  rw [hrevolve_init_fields N c0 c1 c hN hc0 ops hops fuelB hB, objRun_ok, ← revolve_run_eq fuelI N _ hN]
  exact hp

/-- with one fuel bound for both stages (all four classes) -/
theorem object_hrevolve_accepted' (N c0 c1 : Nat) (c : Costs) (hv : validRevolve N c0 c.uf c.ub = true) (k : Nat) :
    ∃ F, ∀ fuelB fuelI, F ≤ fuelB → F ≤ fuelI →
      ∃ pevs, objRun (hrevolve_init fuelB (N : Int) (c0 : Int) (c1 : Int) (c.uf : Rat) (c.ub : Rat) (c.wd : Rat)
          (c.rd : Rat)) fuelI = .ok pevs ∧
        Accepted (cfgHRevolve c0 c1 N) k (obsOfPy false N pevs) := by
  obtain ⟨ops, _, h⟩ := object_hrevolve_accepted N c0 c1 c hv k
  exact ⟨max (4 * N + 8) (ops.length + 1), fun fuelB fuelI hB hI =>
    h fuelB fuelI (le_trans (le_max_left _ _) hB) (le_trans (le_max_right _ _) hI)⟩

theorem object_diskRevolve_accepted' (N cm : Nat) (c : Costs) (hv : validRevolve N cm c.uf c.ub = true) (k : Nat) :
    ∃ F, ∀ fuelB fuelI, F ≤ fuelB → F ≤ fuelI →
      ∃ pevs, objRun (diskRevolve_init fuelB (N : Int) (cm : Int) (c.uf : Rat) (c.ub : Rat) (c.wd : Rat) (c.rd : Rat))
          fuelI = .ok pevs ∧
        Accepted (cfgDiskRevolve cm N) k (obsOfPy false N pevs) := by
  obtain ⟨ops, _, h⟩ := object_diskRevolve_accepted N cm c hv k
  exact ⟨max (N + 2) (ops.length + 1), fun fuelB fuelI hB hI =>
    h fuelB fuelI (le_trans (le_max_left _ _) hB) (le_trans (le_max_right _ _) hI)⟩

theorem object_periodic_accepted' (N cm : Nat) (c : Costs) (hv : validRevolve N cm c.uf c.ub = true) (k : Nat) :
    ∃ F, ∀ fuelB fuelI, F ≤ fuelB → F ≤ fuelI →
      ∃ pevs, objRun (periodicDiskRevolve_init fuelB (N : Int) (cm : Int) (c.uf : Rat) (c.ub : Rat) (c.wd : Rat)
          (c.rd : Rat)) fuelI = .ok pevs ∧
        Accepted (cfgDiskRevolve cm N) k (obsOfPy false N pevs) := by
  obtain ⟨ops, mx, _, _, h⟩ := object_periodic_accepted N cm c hv k
  exact ⟨max (max (c.wd + c.rd + 2) (N + mx + 1)) (ops.length + 1), fun fuelB fuelI hB hI =>
    h fuelB fuelI (le_trans (le_trans (le_max_left _ _) (le_max_left _ _)) hB)
      (le_trans (le_trans (le_max_right _ _) (le_max_left _ _)) hB) (le_trans (le_max_right _ _) hI)⟩

/-- the properties discharged at object level: no violation of any of the tags the executor checks, stream complete -/
theorem object_revolve_C01_C18 (N cm : Nat) (c : Costs) (hv : validRevolve N cm c.uf c.ub = true)
    (wd rd : Rat) (fuelB fuelI : Nat) (hB : N ≤ fuelB) (hI : 8 * N + 1 ≤ fuelI) :
    ∃ pevs, objRun (revolve_init fuelB (N : Int) (cm : Int) (c.uf : Rat) (c.ub : Rat) wd rd) fuelI = .ok pevs ∧
      NoViolation (cfgRevolve cm N) (obsOfPy false N pevs) ∧
      finished (cfgRevolve cm N) (run (cfgRevolve cm N) (obsOfPy false N pevs)).1 = true := by
  obtain ⟨pevs, hp, ha⟩ := object_revolve_accepted N cm c hv 1 wd rd fuelB fuelI hB hI
  exact ⟨pevs, hp, ha.noViolation, ha.finished rfl⟩

/-! ### non-vacuity -/

example : validRevolve 3 2 (⟨1, 1, 1, 1⟩ : Costs).uf (⟨1, 1, 1, 1⟩ : Costs).ub = true ∧ 3 ≤ 3 ∧ 8 * 3 + 1 ≤ 25 := by decide
example := object_revolve_model 3 2 ⟨1, 1, 1, 1⟩ (by decide) (by decide) 1 1
example := object_revolve_accepted 3 2 ⟨1, 1, 1, 1⟩ (by decide) 1 1 1 3 25 (by decide) (by decide)
example := object_diskRevolve_model 3 2 ⟨1, 1, 1, 1⟩ (by decide) (by decide)
example := object_diskRevolve_accepted 3 2 ⟨1, 1, 1, 1⟩ (by decide) 1
example := object_periodic_model 3 2 ⟨1, 1, 1, 1⟩ (by decide) (by decide) (by decide)
example := object_periodic_accepted 3 2 ⟨1, 1, 1, 1⟩ (by decide) 1
example := object_hrevolve_model 3 2 1 ⟨1, 1, 1, 1⟩ (by decide) (by decide)
example := object_hrevolve_accepted 3 2 1 ⟨1, 1, 1, 1⟩ (by decide) 1

/-- constructor and iterator evaluated on a tuple, the executor's verdict decided -/
example : (match objRun (revolve_init 3 3 2 1 1 1 1) 25 with
    | .ok pevs => decide (pevs.length = 12 ∧ (run (cfgRevolve 2 3) (obsOfPy false 3 pevs)).2 = [])
    | .error _ => false) = true := by decide +kernel

end Ckpt.Py

#print axioms Ckpt.Py.revolveBase_init_spec
#print axioms Ckpt.Py.revolveBase_init_ok
#print axioms Ckpt.Py.revolveBase_init_valueError
#print axioms Ckpt.Py.revolveBase_init_assertionError
#print axioms Ckpt.Py.revolve_init_unfold
#print axioms Ckpt.Py.diskRevolve_init_unfold
#print axioms Ckpt.Py.periodicDiskRevolve_init_unfold
#print axioms Ckpt.Py.hrevolve_init_unfold
#print axioms Ckpt.Py.revolve_init_fields
#print axioms Ckpt.Py.revolve_init_assertionError
#print axioms Ckpt.Py.revolve_init_cm0_indexError
#print axioms Ckpt.Py.revolve_init_cm0_valueError
#print axioms Ckpt.Py.diskRevolve_init_fields
#print axioms Ckpt.Py.diskRevolve_init_fields_total
#print axioms Ckpt.Py.periodicDiskRevolve_init_fields
#print axioms Ckpt.Py.periodicDiskRevolve_init_fields_total
#print axioms Ckpt.Py.hrevolve_init_fields
#print axioms Ckpt.Py.hrevolve_init_fields_total
#print axioms Ckpt.Py.object_revolve_model
#print axioms Ckpt.Py.object_revolve_accepted
#print axioms Ckpt.Py.object_diskRevolve_model
#print axioms Ckpt.Py.object_diskRevolve_accepted
#print axioms Ckpt.Py.object_periodic_model
#print axioms Ckpt.Py.object_periodic_accepted
#print axioms Ckpt.Py.object_hrevolve_model
#print axioms Ckpt.Py.object_hrevolve_accepted
#print axioms Ckpt.Py.object_diskRevolve_accepted'
#print axioms Ckpt.Py.object_periodic_accepted'
#print axioms Ckpt.Py.object_hrevolve_accepted'
#print axioms Ckpt.Py.object_revolve_C01_C18
