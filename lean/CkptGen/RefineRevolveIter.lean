import CkptGen.RefineCommon
import CkptGen.RefineMultistage
import CkptVerif.Properties.Twins
import Mathlib.Tactic
/-!
# The conversion stage of the Revolve family: the generated `_iterator` yields the twin's events

`Ckpt.Py.convert_action`, `Ckpt.Py.last_reads`, `Ckpt.Py.revolve_iterator` (+ `revolve_iterator.while1`) are produced by
`harness/py2lean.py` from `hrevolve.py` (`_convert_action`, `_last_reads`, `RevolveCheckpointSchedule._iterator`).
They are related here to stage 2 of the twin (`CkptVerif/Model/Ops.lean`: `convAct`, `lastReads`, `convLoop`,
`convertOps`):

* `opPy : Ops.Op → PyOp` builds the Python `Operation` object (type string, index shape) of a twin operation;
* `convert_action_refines`: `convert_action (opPy o)` is `convAct o` (results to results, exceptions to exceptions);
* `last_reads_refines`: `last_reads (ops.map opPy)` is `lastReads ops.toArray`; the generated text lists the positions
  in the order of its backward scan (descending), the twin ascending: the list is the twin's list reversed;
* `revolve_iterator_refines`: if `convertOps N ops = .ok evs`, then with `ops.length + 1 ≤ fuel`
  `revolve_iterator fuel 0 0 (some N) (ops.map opPy) false = .ok (markLast (evs.map (evPy · false)))`.
  Proof: one lemma per operation type (`step_*_rv`: one iteration of `revolve_iterator.while1` = one `convStep`), a state
  correspondence `stTup_rv` (the twin's `snapshots` are most-recent-first and duplicate free, the generated set is the
  reversed list; `w_n0` unbound in the twin is the default `0` in the generated text and is never read then), and an
  induction on the number of remaining operations (`while1_sim_rv`);
* the four corollaries `revolve_iterator_revolve`, `revolve_iterator_diskRevolve`, `revolve_iterator_periodic`,
  `revolve_iterator_hrevolve`: for all valid parameters, the twin's stage-1 operation sequence exists, the stream model
  (`revolveEvs`, `diskRevolveEvs`, `periodicEvs`, `hrevolveEvs`) is defined, and the GENERATED iterator run on that
  sequence yields the stream model (through `twin_revolve`, `twin_diskRevolve`, `twin_periodic`, `twin_hrevolve`).

Fuel: `ops.length + 1`.
-/

set_option linter.unusedSimpArgs false
set_option linter.unusedVariables false
namespace Ckpt.Py
open Ckpt Ckpt.Ops

/-- `Operation.type`: the official name of the operation -/
def opKindStr : OpKind → String
  | .forward => "Forward"
  | .backward => "Backward"
  | .writeMemory => "Write_memory"
  | .readMemory => "Read_memory"
  | .discardMemory => "Discard_memory"
  | .writeDisk => "Write_disk"
  | .readDisk => "Read_disk"
  | .discardDisk => "Discard_disk"
  | .writeForwardMemory => "Write_Forward_memory"
  | .discardForwardMemory => "Discard_Forward_memory"
  | .write => "Write"
  | .read => "Read"
  | .discard => "Discard"
  | .writeForward => "Write_Forward"
  | .discardForward => "Discard_Forward"

/-- `Operation.index` -/
def opIdxPy (o : Ops.Op) : PyIdx :=
  match o.kind with
  | .forward | .backward => .pair (o.a : Int) (o.b : Int)
  | .write | .read | .discard | .writeForward | .discardForward => .pair (o.lvl : Int) (o.a : Int)
  | _ => .single (o.a : Int)

def opPy (o : Ops.Op) : PyOp := ⟨opKindStr o.kind, opIdxPy o⟩

def cactPy (a : CAct) : String × (Int × Option Int × Option StorageType) :=
  (opKindStr a.kind, ((a.n0 : Int), a.n1.map (fun (k : Nat) => (k : Int)), a.storage.map stPy))

def convErrPy (e : String) : PyErr := if e = "KeyError" then .keyError else .runtimeError

theorem pyDictGet_lvl_rv (l : Nat) :
    pyDictGet [((0 : Int), StorageType.ram), ((1 : Int), StorageType.disk)] (l : Int) =
      if l = 0 then .ok .ram else if l = 1 then .ok .disk else .error .keyError := by
  unfold pyDictGet
  rcases l with _ | _ | l
  · simp; rfl
  · simp; rfl
  · have h1 : ¬ ((0 : Int) = ((l + 1 + 1 : Nat) : Int)) := by omega
    have h2 : ¬ ((1 : Int) = ((l + 1 + 1 : Nat) : Int)) := by omega
    simp [List.find?, h1, h2]
    rfl

theorem convert_action_refines (o : Ops.Op) :
    convert_action (opPy o) =
      match convAct o with
      | .ok a => .ok (cactPy a)
      | .error e => .error (convErrPy e) := by
  obtain ⟨k, l, a, b⟩ := o
  cases k
  case forward =>
    simp only [convert_action, opPy, opKindStr, opIdxPy, convAct, idxPair, unwrap, bind, Except.bind, pure, Except.pure]
    by_cases h : b ≤ a
    · have h' : (b : Int) ≤ (a : Int) := by omega
      simp [h, h', convErrPy]; rfl
    · have h' : ¬ (b : Int) ≤ (a : Int) := by omega
      simp [h, h', cactPy, opKindStr]
  case backward =>
    simp only [convert_action, opPy, opKindStr, opIdxPy, convAct, idxPair, unwrap, bind, Except.bind, pure, Except.pure]
    by_cases h : a ≤ b
    · have h' : (a : Int) ≤ (b : Int) := by omega
      simp [h, h', convErrPy]; rfl
    · have h' : ¬ (a : Int) ≤ (b : Int) := by omega
      simp [h, h', cactPy, opKindStr]
  case write | read | discard =>
    simp only [convert_action, opPy, opKindStr, opIdxPy, convAct, idxPair, unwrap, bind, Except.bind, pure, Except.pure,
      pyDictGet_lvl_rv]
    by_cases h0 : l = 0
    · simp [h0, cactPy, opKindStr, stPy]
    · by_cases h1 : l = 1
      · simp [h1, cactPy, opKindStr, stPy]
      · simp [h0, h1, convErrPy]
  all_goals
    simp [convert_action, opPy, opKindStr, opIdxPy, convAct, cactPy, idxPair, idxSingle, unwrap, pyDictGet, bind,
      Except.bind, pure, Except.pure, stPy]

/-- non-vacuity / sanity: a `Forward`, a hierarchical `Write` on disk, an invalid `Forward`, an unknown level -/
example : convert_action (opPy (Op.fwd 2 5)) = .ok ("Forward", (2, some 5, none)) := by
  rw [convert_action_refines]; rfl
example : convert_action (opPy (Op.w 1 4)) = .ok ("Write", (4, none, some .disk)) := by
  rw [convert_action_refines]; rfl
example : convert_action (opPy (Op.fwd 5 5)) = .error .runtimeError := by
  rw [convert_action_refines]; rfl
example : convert_action (opPy (Op.r 2 0)) = .error .keyError := by
  rw [convert_action_refines]; rfl

/-! ## sets of `(storage, step)` pairs: most-recent-first in the twin, oldest-first in the generated text -/

def pairPy_rv (x : Option Storage × Nat) : Option StorageType × Int := (x.1.map stPy, (x.2 : Int))

theorem stPy_inj_rv : Function.Injective stPy := by
  intro a b h; cases a <;> cases b <;> first | rfl | cases h

theorem pairPy_inj_rv : Function.Injective pairPy_rv := by
  rintro ⟨a, n⟩ ⟨b, m⟩ h
  simp only [pairPy_rv, Prod.mk.injEq] at h
  obtain ⟨h1, h2⟩ := h
  have := Option.map_injective stPy_inj_rv h1
  have : n = m := by omega
  simp [*]

def setPy_rv (l : List (Option Storage × Nat)) : List (Option StorageType × Int) := (l.map pairPy_rv).reverse

theorem setPy_mem_rv (l : List (Option Storage × Nat)) (x : Option Storage × Nat) : pairPy_rv x ∈ setPy_rv l ↔ x ∈ l := by
  simp only [setPy_rv, List.mem_reverse]
  exact List.mem_map_of_injective pairPy_inj_rv

theorem setPy_add_rv (l : List (Option Storage × Nat)) (x : Option Storage × Nat) :
    pySetAdd (setPy_rv l) (pairPy_rv x) = setPy_rv (if l.contains x then l else x :: l) := by
  unfold pySetAdd
  simp only [setPy_mem_rv]
  by_cases h : x ∈ l
  · simp [h]
  · simp [h, setPy_rv]

theorem setPy_erase_rv [BEq (Option StorageType × Int)] [LawfulBEq (Option StorageType × Int)]
    (l : List (Option Storage × Nat)) (x : Option Storage × Nat) (hnd : l.Nodup) :
    (setPy_rv l).erase (pairPy_rv x) = setPy_rv (l.filter (· ≠ x)) := by
  have hnd' : (setPy_rv l).Nodup := by
    simp only [setPy_rv, List.nodup_reverse]
    exact hnd.map pairPy_inj_rv
  rw [hnd'.erase_eq_filter]
  simp only [setPy_rv, List.filter_reverse, List.filter_map]
  congr 2
  apply List.filter_congr
  intro y _
  by_cases hy : y = x
  · simp [hy]
  · have : pairPy_rv y ≠ pairPy_rv x := fun h => hy (pairPy_inj_rv h)
    simp [hy, this]

theorem nodup_add_rv (l : List (Option Storage × Nat)) (x : Option Storage × Nat) (hnd : l.Nodup) :
    (if l.contains x then l else x :: l).Nodup := by
  by_cases h : x ∈ l
  · simp [h, hnd]
  · simp [h, hnd]

theorem pySetRemove_setPy_rv (l : List (Option Storage × Nat)) (x : Option Storage × Nat) (hnd : l.Nodup) :
    pySetRemove (setPy_rv l) (pairPy_rv x) =
      if x ∈ l then .ok (setPy_rv (l.filter (· ≠ x))) else .error .keyError := by
  simp only [pySetRemove, setPy_mem_rv]
  split_ifs with hm
  · have := @setPy_erase_rv instBEqOfDecidableEq inferInstance l x hnd
    rw [this]
    rfl
  · rfl

/-! ## indexing the schedule -/

theorem pyIndex_map_nat_rv (ops : List Ops.Op) (j : Nat) :
    pyIndex (ops.map opPy) (j : Int) =
      match ops[j]? with
      | some o => .ok (opPy o)
      | none => .error .indexError := by
  unfold pyIndex
  have h1 : ¬ ((j : Int) < 0) := by omega
  simp only [h1, if_false, Int.toNat_natCast, List.getElem?_map]
  cases ops[j]? <;> rfl

theorem pyRangeDown_succ_rv (i : Nat) :
    pyRangeDown (((i + 1 : Nat) : Int) - 1) (-1) = (i : Int) :: pyRangeDown ((i : Int) - 1) (-1) := by
  unfold pyRangeDown
  have e1 : (((i + 1 : Nat) : Int) - 1 - (-1)).toNat = i + 1 := by omega
  have e2 : ((i : Int) - 1 - (-1)).toNat = i := by omega
  rw [e1, e2, List.range_succ_eq_map]
  simp only [List.map_cons, List.map_map]
  congr 1
  · simp
  · apply List.map_congr_left
    intro k _
    simp only [Function.comp]
    push_cast
    omega

/-! ## `_last_reads` -/

/-- one iteration of the loop of `_last_reads` at index `i` -/
def lrStep_rv (i : Nat) (a : CAct) (t : List Nat × List (Option Storage × Nat)) :
    List Nat × List (Option Storage × Nat) :=
  if a.kind.isRead then
    (if t.2.contains (a.storage, a.n0) then t.1 else i :: t.1,
     if t.2.contains (a.storage, a.n0) then t.2 else (a.storage, a.n0) :: t.2)
  else if a.kind.isWrite then (t.1, t.2.filter (· ≠ (a.storage, a.n0)))
  else t

theorem lastReadsLoop_succ_rv (sched : Array Ops.Op) (i : Nat) (t : List Nat × List (Option Storage × Nat)) :
    lastReadsLoop sched (i + 1) t =
      match convAct (sched.getD i default) with
      | .error e => .error e
      | .ok a => lastReadsLoop sched i (lrStep_rv i a t) := by
  obtain ⟨lr, rl⟩ := t
  rw [lastReadsLoop]
  cases convAct (sched.getD i default) with
  | error e => rfl
  | ok a =>
    simp only [lrStep_rv]
    split_ifs <;> rfl

/-- the positions as the generated text keeps them: in the order found (descending) -/
def lrPy_rv (l : List Nat) : List Int := (l.map (fun (k : Nat) => (k : Int))).reverse

theorem opKindStr_isRead_rv (k : OpKind) :
    (opKindStr k = "Read" ∨ opKindStr k = "Read_memory" ∨ opKindStr k = "Read_disk") ↔ k.isRead = true := by
  cases k <;> simp [opKindStr, OpKind.isRead]

theorem opKindStr_isWrite_rv (k : OpKind) :
    (opKindStr k = "Write" ∨ opKindStr k = "Write_memory" ∨ opKindStr k = "Write_disk") ↔ k.isWrite = true := by
  cases k <;> simp [opKindStr, OpKind.isWrite]

theorem opKindStr_isWriteB_rv (k : OpKind) :
    (opKindStr k = "Write" ∨ opKindStr k = "Write_disk" ∨ opKindStr k = "Write_memory") ↔ k.isWrite = true := by
  cases k <;> simp [opKindStr, OpKind.isWrite]

/-- the state of the loop of `_last_reads` as the generated text keeps it -/
def lrState_rv (t : List Nat × List (Option Storage × Nat)) : List Int × List (Option StorageType × Int) :=
  (lrPy_rv t.1, setPy_rv t.2)

theorem forIn_lastReads_rv (ops : List Ops.Op) (body : Int → List Int × List (Option StorageType × Int) →
      M (ForInStep (List Int × List (Option StorageType × Int))))
    (Q : Nat → List Nat × List (Option Storage × Nat) → Prop)
    (h : ∀ i t, i < ops.length → Q (i + 1) t →
      match convAct (ops.toArray.getD i default) with
      | .error e => body (i : Int) (lrState_rv t) = .error (convErrPy e)
      | .ok a => body (i : Int) (lrState_rv t) = .ok (.yield (lrState_rv (lrStep_rv i a t))) ∧ Q i (lrStep_rv i a t)) :
    ∀ i t, i ≤ ops.length → Q i t →
      forIn (pyRangeDown ((i : Int) - 1) (-1)) (lrState_rv t) body =
        match lastReadsLoop ops.toArray i t with
        | .ok t' => .ok (lrState_rv t')
        | .error e => .error (convErrPy e) := by
  intro i
  induction i with
  | zero =>
    intro t _ _
    have : pyRangeDown (((0 : Nat) : Int) - 1) (-1) = [] := by
      unfold pyRangeDown; simp
    rw [this, lastReadsLoop]
    rfl
  | succ i ih =>
    intro t hi hQ
    rw [pyRangeDown_succ_rv, List.forIn_cons, lastReadsLoop_succ_rv]
    have := h i t (by omega) hQ
    cases hc : convAct (ops.toArray.getD i default) with
    | error e =>
      rw [hc] at this
      rw [this]; rfl
    | ok a =>
      rw [hc] at this
      rw [this.1]
      exact ih _ (by omega) this.2

theorem convAct_kind_rv (o : Ops.Op) (a : CAct) (h : convAct o = .ok a) : a.kind = o.kind := by
  unfold convAct at h
  split at h <;> (try split_ifs at h) <;> first | (cases h; done) | (cases h; rfl)

/-- `_last_reads`: the generated function finds the twin's positions, listed in the order in which the backward scan
meets them (descending; the twin's list is ascending) -/
theorem last_reads_refines (ops : List Ops.Op) :
    last_reads (ops.map opPy) =
      match lastReads ops.toArray with
      | .ok l => .ok ((l.map (fun (k : Nat) => (k : Int))).reverse)
      | .error e => .error (convErrPy e) := by
  unfold last_reads
  simp only [bind, Except.bind, pure, Except.pure, List.length_map]
  rw [show (([] : List Int), ([] : List (Option StorageType × Int))) = lrState_rv ([], []) from rfl,
    forIn_lastReads_rv ops _ (fun i t => t.2.Nodup ∧ ∀ j ∈ t.1, i ≤ j) ?_ ops.length ([], []) le_rfl (by simp)]
  · unfold lastReads
    rw [List.size_toArray]
    cases lastReadsLoop ops.toArray ops.length ([], []) with
    | error e => rfl
    | ok t => rfl
  · intro i t hi hQ
    obtain ⟨lr, rl⟩ := t
    obtain ⟨hnd, hge⟩ := hQ
    simp only at hnd hge
    have hget : ops.toArray.getD i default = ops[i] := by simp [hi]
    have hidx : pyIndex (ops.map opPy) (i : Int) = .ok (opPy ops[i]) := by
      rw [pyIndex_map_nat_rv]; simp [hi]
    rw [hget]
    simp only [hidx, convert_action_refines]
    cases hc : convAct ops[i] with
    | error e => rfl
    | ok a =>
      have hp : (Option.map stPy a.storage, (a.n0 : Int)) = pairPy_rv (a.storage, a.n0) := rfl
      have hni : (i : Int) ∉ lrPy_rv lr := by
        simp only [lrPy_rv, List.mem_reverse, List.mem_map, not_exists, not_and]
        intro j hj hji
        have := hge j hj
        omega
      simp only [cactPy, opKindStr_isRead_rv, opKindStr_isWrite_rv, lrStep_rv, lrState_rv, hp, setPy_mem_rv, setPy_add_rv]
      by_cases hr : a.kind.isRead = true
      · by_cases hm : (a.storage, a.n0) ∈ rl
        · simp only [hr, hm, if_true, not_true, if_false, List.contains_iff_mem, true_and]
          exact ⟨hnd, fun j hj => by have := hge j hj; omega⟩
        · simp only [hr, hm, if_true, not_false_iff, if_false, List.contains_iff_mem]
          refine ⟨?_, ?_, ?_⟩
          · simp only [lrPy_rv] at hni
            simp only [pySetAdd, hni, if_false, lrPy_rv, List.map_cons, List.reverse_cons]
          · exact List.nodup_cons.mpr ⟨hm, hnd⟩
          · intro j hj
            rcases List.mem_cons.mp hj with rfl | hj
            · exact le_rfl
            · have := hge j hj; omega
      · rw [Bool.not_eq_true] at hr
        cases hw : a.kind.isWrite
        · simp only [hr, hw, Bool.false_eq_true, if_false, true_and]
          exact ⟨hnd, fun j hj => by have := hge j hj; omega⟩
        · simp only [hr, hw, Bool.false_eq_true, if_true, if_false, setPy_erase_rv _ _ hnd, true_and]
          exact ⟨hnd.filter _, fun j hj => by have := hge j hj; omega⟩

/-- non-vacuity / sanity: in `WM_0 F RM_0 RM_0 DM_0` only the second read (position 3) is a last read; two cells give
the positions in descending order -/
example : last_reads ([Op.wm 0, Op.fwd 0 1, Op.rm 0, Op.rm 0, Op.dm 0].map opPy) = .ok [3] := by
  rw [last_reads_refines]; rfl
example : last_reads ([Op.wm 0, Op.wd 1, Op.rm 0, Op.rd 1].map opPy) = .ok [3, 2] := by
  rw [last_reads_refines]; rfl

/-! ## the loop of `_iterator` -/

theorem opKindStr_forward_rv (k : OpKind) : opKindStr k = "Forward" ↔ k = .forward := by
  cases k <;> simp [opKindStr]
theorem opKindStr_backward_rv (k : OpKind) : opKindStr k = "Backward" ↔ k = .backward := by
  cases k <;> simp [opKindStr]
theorem opKindStr_writeMemory_rv (k : OpKind) : opKindStr k = "Write_memory" ↔ k = .writeMemory := by
  cases k <;> simp [opKindStr]
theorem opKindStr_readMemory_rv (k : OpKind) : opKindStr k = "Read_memory" ↔ k = .readMemory := by
  cases k <;> simp [opKindStr]
theorem opKindStr_discardMemory_rv (k : OpKind) : opKindStr k = "Discard_memory" ↔ k = .discardMemory := by
  cases k <;> simp [opKindStr]
theorem opKindStr_writeDisk_rv (k : OpKind) : opKindStr k = "Write_disk" ↔ k = .writeDisk := by
  cases k <;> simp [opKindStr]
theorem opKindStr_readDisk_rv (k : OpKind) : opKindStr k = "Read_disk" ↔ k = .readDisk := by
  cases k <;> simp [opKindStr]
theorem opKindStr_discardDisk_rv (k : OpKind) : opKindStr k = "Discard_disk" ↔ k = .discardDisk := by
  cases k <;> simp [opKindStr]
theorem opKindStr_writeForwardMemory_rv (k : OpKind) : opKindStr k = "Write_Forward_memory" ↔ k = .writeForwardMemory := by
  cases k <;> simp [opKindStr]
theorem opKindStr_discardForwardMemory_rv (k : OpKind) : opKindStr k = "Discard_Forward_memory" ↔ k = .discardForwardMemory := by
  cases k <;> simp [opKindStr]
theorem opKindStr_write_rv (k : OpKind) : opKindStr k = "Write" ↔ k = .write := by
  cases k <;> simp [opKindStr]
theorem opKindStr_read_rv (k : OpKind) : opKindStr k = "Read" ↔ k = .read := by
  cases k <;> simp [opKindStr]
theorem opKindStr_discard_rv (k : OpKind) : opKindStr k = "Discard" ↔ k = .discard := by
  cases k <;> simp [opKindStr]
theorem opKindStr_writeForward_rv (k : OpKind) : opKindStr k = "Write_Forward" ↔ k = .writeForward := by
  cases k <;> simp [opKindStr]
theorem opKindStr_discardForward_rv (k : OpKind) : opKindStr k = "Discard_Forward" ↔ k = .discardForward := by
  cases k <;> simp [opKindStr]

theorem convAct_n1_rv (o : Ops.Op) (a : CAct) (h : convAct o = .ok a) (hk : a.kind = .forward ∨ a.kind = .backward) :
    ∃ b, a.n1 = some b := by
  unfold convAct at h
  split at h <;> (try split_ifs at h) <;> first | (cases h; done) | (cases h; simp_all)

theorem convAct_storage_rv (o : Ops.Op) (a : CAct) (h : convAct o = .ok a) (hk : a.kind ≠ .forward)
    (hk' : a.kind ≠ .backward) : ∃ st, a.storage = some st := by
  unfold convAct at h
  split at h <;> (try split_ifs at h) <;>
    first | (cases h; done) | (cases h; exact ⟨_, rfl⟩) | (cases h; simp_all)

theorem convAct_storage_wf_rv (o : Ops.Op) (a : CAct) (h : convAct o = .ok a)
    (hk : a.kind = .writeForward ∨ a.kind = .writeForwardMemory ∨ a.kind = .discardForward ∨
      a.kind = .discardForwardMemory) : a.storage = some .work := by
  unfold convAct at h
  split at h <;> (try split_ifs at h) <;>
    first | (cases h; done) | (cases h; rfl) | (cases h; simp_all)

abbrev GenSt_rv := Int × Int × Option StorageType × Bool × Bool × Int × Int × List PyEv × List (Option StorageType × Int)

/-- the state tuple of the generated loop for the twin's state `s` at index `i` -/
def stTup_rv (s : ConvSt) (i : Nat) : GenSt_rv :=
  ((s.n : Int), ((s.wN0.getD 0 : Nat) : Int), s.wStorage.map stPy, s.writeIcs, s.adjDeps, (s.r : Int), (i : Int),
    s.out.map (fun e => evPy e false), setPy_rv s.snapshots)

/-- one iteration of the generated loop does what one `convStep` of the twin does -/
def StepOK_rv (N : Nat) (ops : List Ops.Op) (LR : List Int) (i : Nat) (s s' : ConvSt) (fuel : Nat) : Prop :=
  revolve_iterator.while1 (ops.map opPy) (some (N : Int)) LR false (fuel + 1) (stTup_rv s i) =
    revolve_iterator.while1 (ops.map opPy) (some (N : Int)) LR false fuel (stTup_rv s' (i + 1)) ∧ s'.snapshots.Nodup

theorem pyIndex_prev_rv (ops : List Ops.Op) (i : Nat) (hi : i < ops.length) :
    pyIndex (ops.map opPy) ((i : Int) - 1) =
      match pyGetPrev ops.toArray i with
      | some o => .ok (opPy o)
      | none => .error .indexError := by
  unfold pyGetPrev
  rcases i with _ | i
  · have hne : ¬ (ops.toArray.size = 0) := by rw [List.size_toArray]; omega
    simp only [if_true, hne, if_false]
    unfold pyIndex
    have h0 : (((0 : Nat) : Int) - 1 < 0) := by omega
    have e : ((0 : Nat) : Int) - 1 + ((ops.map opPy).length : Int) = ((ops.length - 1 : Nat) : Int) := by
      simp; omega
    have h1 : ¬ (((ops.length - 1 : Nat) : Int) < 0) := by omega
    simp only [h0, if_true, e, h1, if_false, Int.toNat_natCast, List.getElem?_map, List.size_toArray,
      List.getElem?_toArray]
    cases ops[ops.length - 1]? <;> rfl
  · have e : (((i + 1 : Nat) : Int) - 1) = (i : Int) := by omega
    rw [e, pyIndex_map_nat_rv]
    simp

theorem pyIndex_ahead_rv (ops : List Ops.Op) (i : Nat) :
    pyIndex (ops.map opPy) ((i : Int) + 3) =
      match ops.toArray[i + 3]? with
      | some o => .ok (opPy o)
      | none => .error .indexError := by
  have e : ((i : Int) + 3) = ((i + 3 : Nat) : Int) := by omega
  rw [e, pyIndex_map_nat_rv]
  simp

section step
variable (N : Nat) (ops : List Ops.Op) (lastR : List Nat) (LR : List Int)

theorem step_forward_rv (i : Nat) (hi : i < ops.length) (s s' : ConvSt) (hnd : s.snapshots.Nodup)
    (hk : ops[i].kind = .forward) (h : convStep N ops.toArray lastR i s = .ok s') (fuel : Nat) :
    StepOK_rv N ops LR i s s' fuel := by
  have hget : ops.toArray.getD i default = ops[i] := by simp [hi]
  have hidx : pyIndex (ops.map opPy) (i : Int) = .ok (opPy ops[i]) := by
    rw [pyIndex_map_nat_rv]; simp [hi]
  unfold convStep convBody at h
  rw [hget] at h
  cases hc : convAct ops[i] with
  | error e => rw [hc] at h; cases h
  | ok a =>
    have hak : a.kind = .forward := (convAct_kind_rv _ _ hc).trans hk
    obtain ⟨b, hb⟩ := convAct_n1_rv _ _ hc (Or.inl hak)
    simp only [hc, hak] at h
    unfold StepOK_rv
    rw [revolve_iterator.while1]
    have hi' : (i : Int) < ((ops.map opPy).length : Int) := by simp; omega
    simp only [stTup_rv, bind, Except.bind, pure, Except.pure]
    simp only [hi', ↓reduceIte, hidx]
    simp only [convert_action_refines, hc]
    simp only [cactPy, hak, opKindStr, String.reduceEq, ↓reduceIte]
    by_cases h0 : a.n0 = s.n
    swap
    · simp only [ne_eq, h0, not_false_iff, ↓reduceIte] at h; cases h
    have h0' : ¬ ((a.n0 : Int) ≠ (s.n : Int)) := by simp [h0]
    simp only [ne_eq, h0, not_true, ↓reduceIte] at h
    cases hp : pyGetPrev ops.toArray i with
    | none => rw [hp] at h; cases h
    | some prev =>
    cases hw : convAct prev with
    | error e => simp only [hp, hw] at h; cases h
    | ok w =>
    simp only [hp, hw, hb, Option.getD_some] at h
    simp only [h0', ↓reduceIte, hb, Option.map_some, unwrap, pure, Except.pure, pyIndex_prev_rv ops i hi, hp,
      convert_action_refines, hw, cactPy, opKindStr_isWriteB_rv, opKindStr_writeForward_rv, opKindStr_writeForwardMemory_rv]
    simp only [ConvSt.yield] at h
    have hcast : ((i : Int) + 1) = ((i + 1 : Nat) : Int) := by push_cast; rfl
    cases hiw : w.kind.isWrite
    · simp only [hiw, Bool.false_eq_true, ↓reduceIte] at h ⊢
      by_cases hwf : w.kind = .writeForward ∨ w.kind = .writeForwardMemory
      · have hst := convAct_storage_wf_rv _ _ hw (by tauto)
        simp only [hwf, ↓reduceIte, hst] at h ⊢
        simp only [ne_eq, Nat.cast_inj, Int.natCast_eq_zero, Option.map_some, hcast]
        by_cases c1 : w.n0 = b
        swap
        · simp only [c1, not_false_eq_true, ↓reduceIte] at h; cases h
        simp only [c1, not_true_eq_false, ↓reduceIte] at h ⊢
        by_cases c2 : b = N
        · by_cases c3 : s.r = 0
          · simp only [c2, c3, not_true_eq_false, ↓reduceIte] at h ⊢
            injection h with h; subst h
            exact ⟨by simp [h0, stTup_rv, evPy, actPy, stPy], hnd⟩
          · simp only [c2, c3, not_false_eq_true, ↓reduceIte] at h; cases h
        · simp only [c2, ↓reduceIte] at h ⊢
          injection h with h; subst h
          exact ⟨by simp [h0, stTup_rv, evPy, actPy, stPy], hnd⟩
      · simp only [hwf, ↓reduceIte] at h ⊢
        simp only [ne_eq, Nat.cast_inj, Int.natCast_eq_zero, Option.map_some, hcast]
        by_cases c2 : b = N
        · by_cases c3 : s.r = 0
          · simp only [c2, c3, not_true_eq_false, ↓reduceIte] at h ⊢
            injection h with h; subst h
            exact ⟨by simp [h0, stTup_rv, evPy, actPy, stPy], hnd⟩
          · simp only [c2, c3, not_false_eq_true, ↓reduceIte] at h; cases h
        · simp only [c2, ↓reduceIte] at h ⊢
          injection h with h; subst h
          exact ⟨by simp [h0, stTup_rv, evPy, actPy, stPy], hnd⟩
    · obtain ⟨st, hst⟩ := convAct_storage_rv _ _ hw (by intro hh; rw [hh] at hiw; cases hiw)
        (by intro hh; rw [hh] at hiw; cases hiw)
      have hp2 : (Option.map stPy w.storage, (w.n0 : Int)) = pairPy_rv (w.storage, w.n0) := rfl
      have hnd2 := nodup_add_rv s.snapshots (w.storage, w.n0) hnd
      simp only [hiw, ↓reduceIte] at h ⊢
      simp only [ne_eq, Nat.cast_inj, Int.natCast_eq_zero, hcast, hp2, setPy_add_rv]
      rw [hst] at h ⊢
      simp only [Option.map_some, Option.getD_some] at h ⊢
      by_cases c1 : w.n0 = s.n
      swap
      · simp only [c1, not_false_eq_true, ↓reduceIte] at h; cases h
      simp only [c1, h0, not_true_eq_false, ↓reduceIte] at h ⊢
      by_cases c2 : b = N
      · by_cases c3 : s.r = 0
        · simp only [c2, c3, not_true_eq_false, ↓reduceIte] at h ⊢
          injection h with h; subst h
          exact ⟨by simp [h0, stTup_rv, evPy, actPy, stPy], by simpa [hst, c1] using hnd2⟩
        · simp only [c2, c3, not_false_eq_true, ↓reduceIte] at h; cases h
      · simp only [c2, ↓reduceIte] at h ⊢
        injection h with h; subst h
        exact ⟨by simp [h0, stTup_rv, evPy, actPy, stPy], by simpa [hst, c1] using hnd2⟩

theorem convAct_backward_rv (o : Ops.Op) (a : CAct) (h : convAct o = .ok a) (hk : a.kind = .backward) :
    ∃ b, a.n1 = some b ∧ b < a.n0 := by
  unfold convAct at h
  split at h <;> (try split_ifs at h) <;> first | (cases h; done) | (cases h; simp_all)

theorem step_backward_rv (i : Nat) (hi : i < ops.length) (s s' : ConvSt) (hnd : s.snapshots.Nodup)
    (hk : ops[i].kind = .backward) (h : convStep N ops.toArray lastR i s = .ok s') (fuel : Nat) :
    StepOK_rv N ops LR i s s' fuel := by
  have hget : ops.toArray.getD i default = ops[i] := by simp [hi]
  have hidx : pyIndex (ops.map opPy) (i : Int) = .ok (opPy ops[i]) := by
    rw [pyIndex_map_nat_rv]; simp [hi]
  have hcast : ((i : Int) + 1) = ((i + 1 : Nat) : Int) := by push_cast; rfl
  unfold convStep convBody at h
  rw [hget] at h
  cases hc : convAct ops[i] with
  | error e => rw [hc] at h; cases h
  | ok a =>
    have hak : a.kind = .backward := (convAct_kind_rv _ _ hc).trans hk
    simp only [hc, hak] at h
    unfold StepOK_rv
    rw [revolve_iterator.while1]
    have hi' : (i : Int) < ((ops.map opPy).length : Int) := by simp; omega
    simp only [stTup_rv, bind, Except.bind, pure, Except.pure]
    simp only [hi', ↓reduceIte, hidx]
    simp only [convert_action_refines, hc]
    simp only [cactPy, hak, opKindStr, String.reduceEq, ↓reduceIte, or_true, true_or, or_false, false_or]
    obtain ⟨b, hb, hlt⟩ := convAct_backward_rv _ _ hc hak
    simp only [ne_eq, hcast, unwrap, hb, Option.map_some, pure, Except.pure, Option.getD_some, ConvSt.yield] at h ⊢
    by_cases c1 : a.n0 = s.n
    swap
    · simp only [eq_false c1, not_false_eq_true, ↓reduceIte] at h; cases h
    by_cases c2 : a.n0 = N - s.r
    swap
    · simp only [eq_true c1, eq_false c2, not_true_eq_false, not_false_eq_true, ↓reduceIte] at h; cases h
    have c1' : (a.n0 : Int) = (s.n : Int) := by omega
    have c2' : (a.n0 : Int) = (N : Int) - (s.r : Int) := by omega
    simp only [eq_true c1, eq_true c2, not_true_eq_false, ↓reduceIte] at h
    simp only [eq_true c1', eq_true c2', not_true_eq_false, ↓reduceIte]
    injection h with h; subst h
    exact ⟨by simp [stTup_rv, evPy, actPy, stPy], hnd⟩

theorem step_read_rv (i : Nat) (hi : i < ops.length) (s s' : ConvSt) (hnd : s.snapshots.Nodup) (hLR : ∀ j : Nat, ((j : Int) ∈ LR) ↔ j ∈ lastR)
    (hk : ops[i].kind = .read) (h : convStep N ops.toArray lastR i s = .ok s') (fuel : Nat) :
    StepOK_rv N ops LR i s s' fuel := by
  have hget : ops.toArray.getD i default = ops[i] := by simp [hi]
  have hidx : pyIndex (ops.map opPy) (i : Int) = .ok (opPy ops[i]) := by
    rw [pyIndex_map_nat_rv]; simp [hi]
  have hcast : ((i : Int) + 1) = ((i + 1 : Nat) : Int) := by push_cast; rfl
  unfold convStep convBody at h
  rw [hget] at h
  cases hc : convAct ops[i] with
  | error e => rw [hc] at h; cases h
  | ok a =>
    have hak : a.kind = .read := (convAct_kind_rv _ _ hc).trans hk
    simp only [hc, hak] at h
    unfold StepOK_rv
    rw [revolve_iterator.while1]
    have hi' : (i : Int) < ((ops.map opPy).length : Int) := by simp; omega
    simp only [stTup_rv, bind, Except.bind, pure, Except.pure]
    simp only [hi', ↓reduceIte, hidx]
    simp only [convert_action_refines, hc]
    simp only [cactPy, hak, opKindStr, String.reduceEq, ↓reduceIte, or_true, true_or, or_false, false_or]
    obtain ⟨st, hst⟩ := convAct_storage_rv _ _ hc (by rw [hak]; simp) (by rw [hak]; simp)
    have hp2 : (Option.map stPy a.storage, (a.n0 : Int)) = pairPy_rv (a.storage, a.n0) := rfl
    simp only [hcast, hp2, pySetRemove_setPy_rv _ _ hnd, hLR, unwrap, ConvSt.yield, List.contains_iff_mem] at h ⊢
    rw [hst] at h ⊢
    simp only [Option.map_some, Option.getD_some, pure, Except.pure] at h ⊢
    by_cases c1 : i ∈ lastR
    · by_cases c2 : (some st, a.n0) ∈ s.snapshots
      · simp only [eq_true c1, eq_true c2, not_true_eq_false, ↓reduceIte] at h ⊢
        injection h with h; subst h
        exact ⟨by simp [stTup_rv, evPy, actPy, stPy], hnd.filter _⟩
      · simp only [eq_true c1, eq_false c2, not_false_eq_true, ↓reduceIte] at h; cases h
    · simp only [eq_false c1, ↓reduceIte] at h ⊢
      injection h with h; subst h
      exact ⟨by simp [stTup_rv, evPy, actPy, stPy], hnd⟩

theorem step_readMemory_rv (i : Nat) (hi : i < ops.length) (s s' : ConvSt) (hnd : s.snapshots.Nodup) (hLR : ∀ j : Nat, ((j : Int) ∈ LR) ↔ j ∈ lastR)
    (hk : ops[i].kind = .readMemory) (h : convStep N ops.toArray lastR i s = .ok s') (fuel : Nat) :
    StepOK_rv N ops LR i s s' fuel := by
  have hget : ops.toArray.getD i default = ops[i] := by simp [hi]
  have hidx : pyIndex (ops.map opPy) (i : Int) = .ok (opPy ops[i]) := by
    rw [pyIndex_map_nat_rv]; simp [hi]
  have hcast : ((i : Int) + 1) = ((i + 1 : Nat) : Int) := by push_cast; rfl
  unfold convStep convBody at h
  rw [hget] at h
  cases hc : convAct ops[i] with
  | error e => rw [hc] at h; cases h
  | ok a =>
    have hak : a.kind = .readMemory := (convAct_kind_rv _ _ hc).trans hk
    simp only [hc, hak] at h
    unfold StepOK_rv
    rw [revolve_iterator.while1]
    have hi' : (i : Int) < ((ops.map opPy).length : Int) := by simp; omega
    simp only [stTup_rv, bind, Except.bind, pure, Except.pure]
    simp only [hi', ↓reduceIte, hidx]
    simp only [convert_action_refines, hc]
    simp only [cactPy, hak, opKindStr, String.reduceEq, ↓reduceIte, or_true, true_or, or_false, false_or]
    obtain ⟨st, hst⟩ := convAct_storage_rv _ _ hc (by rw [hak]; simp) (by rw [hak]; simp)
    have hp2 : (Option.map stPy a.storage, (a.n0 : Int)) = pairPy_rv (a.storage, a.n0) := rfl
    simp only [hcast, hp2, pySetRemove_setPy_rv _ _ hnd, hLR, unwrap, ConvSt.yield, List.contains_iff_mem] at h ⊢
    rw [hst] at h ⊢
    simp only [Option.map_some, Option.getD_some, pure, Except.pure] at h ⊢
    by_cases c1 : i ∈ lastR
    · by_cases c2 : (some st, a.n0) ∈ s.snapshots
      · simp only [eq_true c1, eq_true c2, not_true_eq_false, ↓reduceIte] at h ⊢
        injection h with h; subst h
        exact ⟨by simp [stTup_rv, evPy, actPy, stPy], hnd.filter _⟩
      · simp only [eq_true c1, eq_false c2, not_false_eq_true, ↓reduceIte] at h; cases h
    · simp only [eq_false c1, ↓reduceIte] at h ⊢
      injection h with h; subst h
      exact ⟨by simp [stTup_rv, evPy, actPy, stPy], hnd⟩

theorem step_readDisk_rv (i : Nat) (hi : i < ops.length) (s s' : ConvSt) (hnd : s.snapshots.Nodup) (hLR : ∀ j : Nat, ((j : Int) ∈ LR) ↔ j ∈ lastR)
    (hk : ops[i].kind = .readDisk) (h : convStep N ops.toArray lastR i s = .ok s') (fuel : Nat) :
    StepOK_rv N ops LR i s s' fuel := by
  have hget : ops.toArray.getD i default = ops[i] := by simp [hi]
  have hidx : pyIndex (ops.map opPy) (i : Int) = .ok (opPy ops[i]) := by
    rw [pyIndex_map_nat_rv]; simp [hi]
  have hcast : ((i : Int) + 1) = ((i + 1 : Nat) : Int) := by push_cast; rfl
  unfold convStep convBody at h
  rw [hget] at h
  cases hc : convAct ops[i] with
  | error e => rw [hc] at h; cases h
  | ok a =>
    have hak : a.kind = .readDisk := (convAct_kind_rv _ _ hc).trans hk
    simp only [hc, hak] at h
    unfold StepOK_rv
    rw [revolve_iterator.while1]
    have hi' : (i : Int) < ((ops.map opPy).length : Int) := by simp; omega
    simp only [stTup_rv, bind, Except.bind, pure, Except.pure]
    simp only [hi', ↓reduceIte, hidx]
    simp only [convert_action_refines, hc]
    simp only [cactPy, hak, opKindStr, String.reduceEq, ↓reduceIte, or_true, true_or, or_false, false_or]
    obtain ⟨st, hst⟩ := convAct_storage_rv _ _ hc (by rw [hak]; simp) (by rw [hak]; simp)
    have hp2 : (Option.map stPy a.storage, (a.n0 : Int)) = pairPy_rv (a.storage, a.n0) := rfl
    simp only [hcast, hp2, pySetRemove_setPy_rv _ _ hnd, hLR, unwrap, ConvSt.yield, List.contains_iff_mem] at h ⊢
    rw [hst] at h ⊢
    simp only [Option.map_some, Option.getD_some, pure, Except.pure] at h ⊢
    by_cases c1 : i ∈ lastR
    · by_cases c2 : (some st, a.n0) ∈ s.snapshots
      · simp only [eq_true c1, eq_true c2, not_true_eq_false, ↓reduceIte] at h ⊢
        injection h with h; subst h
        exact ⟨by simp [stTup_rv, evPy, actPy, stPy], hnd.filter _⟩
      · simp only [eq_true c1, eq_false c2, not_false_eq_true, ↓reduceIte] at h; cases h
    · simp only [eq_false c1, ↓reduceIte] at h ⊢
      injection h with h; subst h
      exact ⟨by simp [stTup_rv, evPy, actPy, stPy], hnd⟩

theorem step_write_rv (i : Nat) (hi : i < ops.length) (s s' : ConvSt) (hnd : s.snapshots.Nodup)
    (hk : ops[i].kind = .write) (h : convStep N ops.toArray lastR i s = .ok s') (fuel : Nat) :
    StepOK_rv N ops LR i s s' fuel := by
  have hget : ops.toArray.getD i default = ops[i] := by simp [hi]
  have hidx : pyIndex (ops.map opPy) (i : Int) = .ok (opPy ops[i]) := by
    rw [pyIndex_map_nat_rv]; simp [hi]
  have hcast : ((i : Int) + 1) = ((i + 1 : Nat) : Int) := by push_cast; rfl
  unfold convStep convBody at h
  rw [hget] at h
  cases hc : convAct ops[i] with
  | error e => rw [hc] at h; cases h
  | ok a =>
    have hak : a.kind = .write := (convAct_kind_rv _ _ hc).trans hk
    simp only [hc, hak] at h
    unfold StepOK_rv
    rw [revolve_iterator.while1]
    have hi' : (i : Int) < ((ops.map opPy).length : Int) := by simp; omega
    simp only [stTup_rv, bind, Except.bind, pure, Except.pure]
    simp only [hi', ↓reduceIte, hidx]
    simp only [convert_action_refines, hc]
    simp only [cactPy, hak, opKindStr, String.reduceEq, ↓reduceIte, or_true, true_or, or_false, false_or]
    simp only [ne_eq, hcast] at h ⊢
    by_cases c1 : a.n0 = s.n
    swap
    · simp only [eq_false c1, not_false_eq_true, ↓reduceIte] at h; cases h
    have c1' : (a.n0 : Int) = (s.n : Int) := by omega
    simp only [eq_true c1, not_true_eq_false, ↓reduceIte] at h
    simp only [eq_true c1', not_true_eq_false, ↓reduceIte]
    injection h with h; subst h
    exact ⟨rfl, hnd⟩

theorem step_writeDisk_rv (i : Nat) (hi : i < ops.length) (s s' : ConvSt) (hnd : s.snapshots.Nodup)
    (hk : ops[i].kind = .writeDisk) (h : convStep N ops.toArray lastR i s = .ok s') (fuel : Nat) :
    StepOK_rv N ops LR i s s' fuel := by
  have hget : ops.toArray.getD i default = ops[i] := by simp [hi]
  have hidx : pyIndex (ops.map opPy) (i : Int) = .ok (opPy ops[i]) := by
    rw [pyIndex_map_nat_rv]; simp [hi]
  have hcast : ((i : Int) + 1) = ((i + 1 : Nat) : Int) := by push_cast; rfl
  unfold convStep convBody at h
  rw [hget] at h
  cases hc : convAct ops[i] with
  | error e => rw [hc] at h; cases h
  | ok a =>
    have hak : a.kind = .writeDisk := (convAct_kind_rv _ _ hc).trans hk
    simp only [hc, hak] at h
    unfold StepOK_rv
    rw [revolve_iterator.while1]
    have hi' : (i : Int) < ((ops.map opPy).length : Int) := by simp; omega
    simp only [stTup_rv, bind, Except.bind, pure, Except.pure]
    simp only [hi', ↓reduceIte, hidx]
    simp only [convert_action_refines, hc]
    simp only [cactPy, hak, opKindStr, String.reduceEq, ↓reduceIte, or_true, true_or, or_false, false_or]
    simp only [ne_eq, hcast] at h ⊢
    by_cases c1 : a.n0 = s.n
    swap
    · simp only [eq_false c1, not_false_eq_true, ↓reduceIte] at h; cases h
    have c1' : (a.n0 : Int) = (s.n : Int) := by omega
    simp only [eq_true c1, not_true_eq_false, ↓reduceIte] at h
    simp only [eq_true c1', not_true_eq_false, ↓reduceIte]
    injection h with h; subst h
    exact ⟨rfl, hnd⟩

theorem step_writeMemory_rv (i : Nat) (hi : i < ops.length) (s s' : ConvSt) (hnd : s.snapshots.Nodup)
    (hk : ops[i].kind = .writeMemory) (h : convStep N ops.toArray lastR i s = .ok s') (fuel : Nat) :
    StepOK_rv N ops LR i s s' fuel := by
  have hget : ops.toArray.getD i default = ops[i] := by simp [hi]
  have hidx : pyIndex (ops.map opPy) (i : Int) = .ok (opPy ops[i]) := by
    rw [pyIndex_map_nat_rv]; simp [hi]
  have hcast : ((i : Int) + 1) = ((i + 1 : Nat) : Int) := by push_cast; rfl
  unfold convStep convBody at h
  rw [hget] at h
  cases hc : convAct ops[i] with
  | error e => rw [hc] at h; cases h
  | ok a =>
    have hak : a.kind = .writeMemory := (convAct_kind_rv _ _ hc).trans hk
    simp only [hc, hak] at h
    unfold StepOK_rv
    rw [revolve_iterator.while1]
    have hi' : (i : Int) < ((ops.map opPy).length : Int) := by simp; omega
    simp only [stTup_rv, bind, Except.bind, pure, Except.pure]
    simp only [hi', ↓reduceIte, hidx]
    simp only [convert_action_refines, hc]
    simp only [cactPy, hak, opKindStr, String.reduceEq, ↓reduceIte, or_true, true_or, or_false, false_or]
    simp only [ne_eq, hcast] at h ⊢
    by_cases c1 : a.n0 = s.n
    swap
    · simp only [eq_false c1, not_false_eq_true, ↓reduceIte] at h; cases h
    have c1' : (a.n0 : Int) = (s.n : Int) := by omega
    simp only [eq_true c1, not_true_eq_false, ↓reduceIte] at h
    simp only [eq_true c1', not_true_eq_false, ↓reduceIte]
    injection h with h; subst h
    exact ⟨rfl, hnd⟩

theorem step_discardForward_rv (i : Nat) (hi : i < ops.length) (s s' : ConvSt) (hnd : s.snapshots.Nodup)
    (hk : ops[i].kind = .discardForward) (h : convStep N ops.toArray lastR i s = .ok s') (fuel : Nat) :
    StepOK_rv N ops LR i s s' fuel := by
  have hget : ops.toArray.getD i default = ops[i] := by simp [hi]
  have hidx : pyIndex (ops.map opPy) (i : Int) = .ok (opPy ops[i]) := by
    rw [pyIndex_map_nat_rv]; simp [hi]
  have hcast : ((i : Int) + 1) = ((i + 1 : Nat) : Int) := by push_cast; rfl
  unfold convStep convBody at h
  rw [hget] at h
  cases hc : convAct ops[i] with
  | error e => rw [hc] at h; cases h
  | ok a =>
    have hak : a.kind = .discardForward := (convAct_kind_rv _ _ hc).trans hk
    simp only [hc, hak] at h
    unfold StepOK_rv
    rw [revolve_iterator.while1]
    have hi' : (i : Int) < ((ops.map opPy).length : Int) := by simp; omega
    simp only [stTup_rv, bind, Except.bind, pure, Except.pure]
    simp only [hi', ↓reduceIte, hidx]
    simp only [convert_action_refines, hc]
    simp only [cactPy, hak, opKindStr, String.reduceEq, ↓reduceIte, or_true, true_or, or_false, false_or]
    simp only [ne_eq, hcast] at h ⊢
    by_cases c1 : a.n0 = s.n
    swap
    · simp only [eq_false c1, not_false_eq_true, ↓reduceIte] at h; cases h
    have c1' : (a.n0 : Int) = (s.n : Int) := by omega
    simp only [eq_true c1, not_true_eq_false, ↓reduceIte] at h
    simp only [eq_true c1', not_true_eq_false, ↓reduceIte]
    injection h with h; subst h
    exact ⟨rfl, hnd⟩

theorem step_discardForwardMemory_rv (i : Nat) (hi : i < ops.length) (s s' : ConvSt) (hnd : s.snapshots.Nodup)
    (hk : ops[i].kind = .discardForwardMemory) (h : convStep N ops.toArray lastR i s = .ok s') (fuel : Nat) :
    StepOK_rv N ops LR i s s' fuel := by
  have hget : ops.toArray.getD i default = ops[i] := by simp [hi]
  have hidx : pyIndex (ops.map opPy) (i : Int) = .ok (opPy ops[i]) := by
    rw [pyIndex_map_nat_rv]; simp [hi]
  have hcast : ((i : Int) + 1) = ((i + 1 : Nat) : Int) := by push_cast; rfl
  unfold convStep convBody at h
  rw [hget] at h
  cases hc : convAct ops[i] with
  | error e => rw [hc] at h; cases h
  | ok a =>
    have hak : a.kind = .discardForwardMemory := (convAct_kind_rv _ _ hc).trans hk
    simp only [hc, hak] at h
    unfold StepOK_rv
    rw [revolve_iterator.while1]
    have hi' : (i : Int) < ((ops.map opPy).length : Int) := by simp; omega
    simp only [stTup_rv, bind, Except.bind, pure, Except.pure]
    simp only [hi', ↓reduceIte, hidx]
    simp only [convert_action_refines, hc]
    simp only [cactPy, hak, opKindStr, String.reduceEq, ↓reduceIte, or_true, true_or, or_false, false_or]
    simp only [ne_eq, hcast] at h ⊢
    by_cases c1 : a.n0 = s.n
    swap
    · simp only [eq_false c1, not_false_eq_true, ↓reduceIte] at h; cases h
    have c1' : (a.n0 : Int) = (s.n : Int) := by omega
    simp only [eq_true c1, not_true_eq_false, ↓reduceIte] at h
    simp only [eq_true c1', not_true_eq_false, ↓reduceIte]
    injection h with h; subst h
    exact ⟨rfl, hnd⟩

theorem step_discard_rv (i : Nat) (hi : i < ops.length) (s s' : ConvSt) (hnd : s.snapshots.Nodup)
    (hk : ops[i].kind = .discard) (h : convStep N ops.toArray lastR i s = .ok s') (fuel : Nat) :
    StepOK_rv N ops LR i s s' fuel := by
  have hget : ops.toArray.getD i default = ops[i] := by simp [hi]
  have hidx : pyIndex (ops.map opPy) (i : Int) = .ok (opPy ops[i]) := by
    rw [pyIndex_map_nat_rv]; simp [hi]
  have hcast : ((i : Int) + 1) = ((i + 1 : Nat) : Int) := by push_cast; rfl
  unfold convStep convBody at h
  rw [hget] at h
  cases hc : convAct ops[i] with
  | error e => rw [hc] at h; cases h
  | ok a =>
    have hak : a.kind = .discard := (convAct_kind_rv _ _ hc).trans hk
    simp only [hc, hak] at h
    unfold StepOK_rv
    rw [revolve_iterator.while1]
    have hi' : (i : Int) < ((ops.map opPy).length : Int) := by simp; omega
    simp only [stTup_rv, bind, Except.bind, pure, Except.pure]
    simp only [hi', ↓reduceIte, hidx]
    simp only [convert_action_refines, hc]
    simp only [cactPy, hak, opKindStr, String.reduceEq, ↓reduceIte, or_true, true_or, or_false, false_or]
    simp only [hcast, decide_eq_true_eq] at h ⊢
    by_cases c1 : i < 2
    · simp only [eq_true c1, ↓reduceIte] at h; cases h
    have c1' : ¬ ((i : Int) < 2) := by omega
    simp only [eq_false c1, ↓reduceIte] at h
    simp only [eq_false c1', ↓reduceIte]
    injection h with h; subst h
    exact ⟨rfl, hnd⟩

theorem step_discardMemory_rv (i : Nat) (hi : i < ops.length) (s s' : ConvSt) (hnd : s.snapshots.Nodup)
    (hk : ops[i].kind = .discardMemory) (h : convStep N ops.toArray lastR i s = .ok s') (fuel : Nat) :
    StepOK_rv N ops LR i s s' fuel := by
  have hget : ops.toArray.getD i default = ops[i] := by simp [hi]
  have hidx : pyIndex (ops.map opPy) (i : Int) = .ok (opPy ops[i]) := by
    rw [pyIndex_map_nat_rv]; simp [hi]
  have hcast : ((i : Int) + 1) = ((i + 1 : Nat) : Int) := by push_cast; rfl
  unfold convStep convBody at h
  rw [hget] at h
  cases hc : convAct ops[i] with
  | error e => rw [hc] at h; cases h
  | ok a =>
    have hak : a.kind = .discardMemory := (convAct_kind_rv _ _ hc).trans hk
    simp only [hc, hak] at h
    unfold StepOK_rv
    rw [revolve_iterator.while1]
    have hi' : (i : Int) < ((ops.map opPy).length : Int) := by simp; omega
    simp only [stTup_rv, bind, Except.bind, pure, Except.pure]
    simp only [hi', ↓reduceIte, hidx]
    simp only [convert_action_refines, hc]
    simp only [cactPy, hak, opKindStr, String.reduceEq, ↓reduceIte, or_true, true_or, or_false, false_or]
    simp only [hcast, decide_eq_true_eq] at h ⊢
    by_cases c1 : i < 2
    · simp only [eq_true c1, ↓reduceIte] at h; cases h
    have c1' : ¬ ((i : Int) < 2) := by omega
    simp only [eq_false c1, ↓reduceIte] at h
    simp only [eq_false c1', ↓reduceIte]
    injection h with h; subst h
    exact ⟨rfl, hnd⟩

theorem step_discardDisk_rv (i : Nat) (hi : i < ops.length) (s s' : ConvSt) (hnd : s.snapshots.Nodup)
    (hk : ops[i].kind = .discardDisk) (h : convStep N ops.toArray lastR i s = .ok s') (fuel : Nat) :
    StepOK_rv N ops LR i s s' fuel := by
  have hget : ops.toArray.getD i default = ops[i] := by simp [hi]
  have hidx : pyIndex (ops.map opPy) (i : Int) = .ok (opPy ops[i]) := by
    rw [pyIndex_map_nat_rv]; simp [hi]
  have hcast : ((i : Int) + 1) = ((i + 1 : Nat) : Int) := by push_cast; rfl
  unfold convStep convBody at h
  rw [hget] at h
  cases hc : convAct ops[i] with
  | error e => rw [hc] at h; cases h
  | ok a =>
    have hak : a.kind = .discardDisk := (convAct_kind_rv _ _ hc).trans hk
    simp only [hc, hak] at h
    unfold StepOK_rv
    rw [revolve_iterator.while1]
    have hi' : (i : Int) < ((ops.map opPy).length : Int) := by simp; omega
    simp only [stTup_rv, bind, Except.bind, pure, Except.pure]
    simp only [hi', ↓reduceIte, hidx]
    simp only [convert_action_refines, hc]
    simp only [cactPy, hak, opKindStr, String.reduceEq, ↓reduceIte, or_true, true_or, or_false, false_or]
    cases h

theorem step_writeForward_rv (i : Nat) (hi : i < ops.length) (s s' : ConvSt) (hnd : s.snapshots.Nodup)
    (hk : ops[i].kind = .writeForward) (h : convStep N ops.toArray lastR i s = .ok s') (fuel : Nat) :
    StepOK_rv N ops LR i s s' fuel := by
  have hget : ops.toArray.getD i default = ops[i] := by simp [hi]
  have hidx : pyIndex (ops.map opPy) (i : Int) = .ok (opPy ops[i]) := by
    rw [pyIndex_map_nat_rv]; simp [hi]
  have hcast : ((i : Int) + 1) = ((i + 1 : Nat) : Int) := by push_cast; rfl
  unfold convStep convBody at h
  rw [hget] at h
  cases hc : convAct ops[i] with
  | error e => rw [hc] at h; cases h
  | ok a =>
    have hak : a.kind = .writeForward := (convAct_kind_rv _ _ hc).trans hk
    simp only [hc, hak] at h
    unfold StepOK_rv
    rw [revolve_iterator.while1]
    have hi' : (i : Int) < ((ops.map opPy).length : Int) := by simp; omega
    simp only [stTup_rv, bind, Except.bind, pure, Except.pure]
    simp only [hi', ↓reduceIte, hidx]
    simp only [convert_action_refines, hc]
    simp only [cactPy, hak, opKindStr, String.reduceEq, ↓reduceIte, or_true, true_or, or_false, false_or]
    have hsta := convAct_storage_wf_rv _ _ hc (by rw [hak]; simp)
    by_cases c1 : a.n0 = s.n + 1
    swap
    · simp only [ne_eq, eq_false c1, not_false_eq_true, ↓reduceIte] at h; cases h
    have c1' : (a.n0 : Int) = (s.n : Int) + 1 := by omega
    simp only [ne_eq, eq_true c1, not_true_eq_false, ↓reduceIte] at h
    simp only [ne_eq, eq_true c1', not_true_eq_false, ↓reduceIte, pyIndex_ahead_rv]
    cases hn : ops.toArray[i + 3]? with
    | none => simp only [hn] at h; cases h
    | some nxt =>
    cases hd : convAct nxt with
    | error e => simp only [hn, hd] at h; cases h
    | ok d =>
    simp only [hn, hd] at h
    simp only [hn, convert_action_refines, hd, cactPy, opKindStr_discardForward_rv, hsta, Option.map_some, unwrap, hcast]
    by_cases c2 : d.kind = .discardForward
    · by_cases c3 : d.n0 = a.n0
      · have hstd := convAct_storage_wf_rv _ _ hd (by tauto)
        have c3' : (d.n0 : Int) = (a.n0 : Int) := by omega
        simp only [eq_true c2, eq_true c3, hstd, hsta, not_true_eq_false, or_self, ↓reduceIte] at h
        simp only [eq_true c2, eq_true c3', hstd, not_true_eq_false, ↓reduceIte, Option.map_some, pure, Except.pure,
          decide_false, Bool.false_eq_true]
        injection h with h; subst h
        exact ⟨by simp [stTup_rv, stPy], hnd⟩
      · have c3' : ¬ ((d.n0 : Int) = (a.n0 : Int)) := by omega
        cases hwn : s.wN0 with
        | none => simp only [eq_true c2, eq_false c3, not_true_eq_false, not_false_eq_true, false_or, true_or, ↓reduceIte, hwn] at h; cases h
        | some wn0 =>
          simp only [eq_true c2, eq_false c3, not_true_eq_false, not_false_eq_true, false_or, true_or, ↓reduceIte, hwn, Option.getD_some] at h
          simp only [eq_true c2, eq_false c3', not_true_eq_false, not_false_eq_true, ↓reduceIte, hwn, Option.getD_some]
          by_cases c4 : wn0 = a.n0
          swap
          · simp only [eq_false c4, not_false_eq_true, ↓reduceIte] at h; cases h
          have c4' : (wn0 : Int) = (a.n0 : Int) := by omega
          simp only [eq_true c4, not_true_eq_false, ↓reduceIte] at h
          simp only [eq_true c4', not_true_eq_false, ↓reduceIte]
          injection h with h; subst h
          exact ⟨by simp [stTup_rv, hwn], hnd⟩
    · cases hwn : s.wN0 with
      | none => simp only [eq_false c2, not_false_eq_true, true_or, ↓reduceIte, hwn] at h; cases h
      | some wn0 =>
        simp only [eq_false c2, not_false_eq_true, true_or, ↓reduceIte, hwn, Option.getD_some] at h
        simp only [eq_false c2, not_false_eq_true, ↓reduceIte, hwn, Option.getD_some]
        by_cases c4 : wn0 = a.n0
        swap
        · simp only [eq_false c4, not_false_eq_true, ↓reduceIte] at h; cases h
        have c4' : (wn0 : Int) = (a.n0 : Int) := by omega
        simp only [eq_true c4, not_true_eq_false, ↓reduceIte] at h
        simp only [eq_true c4', not_true_eq_false, ↓reduceIte]
        injection h with h; subst h
        exact ⟨by simp [stTup_rv, hwn], hnd⟩

theorem step_writeForwardMemory_rv (i : Nat) (hi : i < ops.length) (s s' : ConvSt) (hnd : s.snapshots.Nodup)
    (hk : ops[i].kind = .writeForwardMemory) (h : convStep N ops.toArray lastR i s = .ok s') (fuel : Nat) :
    StepOK_rv N ops LR i s s' fuel := by
  have hget : ops.toArray.getD i default = ops[i] := by simp [hi]
  have hidx : pyIndex (ops.map opPy) (i : Int) = .ok (opPy ops[i]) := by
    rw [pyIndex_map_nat_rv]; simp [hi]
  have hcast : ((i : Int) + 1) = ((i + 1 : Nat) : Int) := by push_cast; rfl
  unfold convStep convBody at h
  rw [hget] at h
  cases hc : convAct ops[i] with
  | error e => rw [hc] at h; cases h
  | ok a =>
    have hak : a.kind = .writeForwardMemory := (convAct_kind_rv _ _ hc).trans hk
    simp only [hc, hak] at h
    unfold StepOK_rv
    rw [revolve_iterator.while1]
    have hi' : (i : Int) < ((ops.map opPy).length : Int) := by simp; omega
    simp only [stTup_rv, bind, Except.bind, pure, Except.pure]
    simp only [hi', ↓reduceIte, hidx]
    simp only [convert_action_refines, hc]
    simp only [cactPy, hak, opKindStr, String.reduceEq, ↓reduceIte, or_true, true_or, or_false, false_or]
    have hsta := convAct_storage_wf_rv _ _ hc (by rw [hak]; simp)
    by_cases c1 : a.n0 = s.n + 1
    swap
    · simp only [ne_eq, eq_false c1, not_false_eq_true, ↓reduceIte] at h; cases h
    have c1' : (a.n0 : Int) = (s.n : Int) + 1 := by omega
    simp only [ne_eq, eq_true c1, not_true_eq_false, ↓reduceIte] at h
    simp only [ne_eq, eq_true c1', not_true_eq_false, ↓reduceIte, pyIndex_ahead_rv]
    cases hn : ops.toArray[i + 3]? with
    | none => simp only [hn] at h; cases h
    | some nxt =>
    cases hd : convAct nxt with
    | error e => simp only [hn, hd] at h; cases h
    | ok d =>
    simp only [hn, hd] at h
    simp only [hn, convert_action_refines, hd, cactPy, opKindStr_discardForwardMemory_rv, hsta, Option.map_some, unwrap, hcast]
    by_cases c2 : d.kind = .discardForwardMemory
    · by_cases c3 : d.n0 = a.n0
      · have hstd := convAct_storage_wf_rv _ _ hd (by tauto)
        have c3' : (d.n0 : Int) = (a.n0 : Int) := by omega
        simp only [eq_true c2, eq_true c3, hstd, hsta, not_true_eq_false, or_self, ↓reduceIte] at h
        simp only [eq_true c2, eq_true c3', hstd, not_true_eq_false, ↓reduceIte, Option.map_some, pure, Except.pure,
          decide_false, Bool.false_eq_true]
        injection h with h; subst h
        exact ⟨by simp [stTup_rv, stPy], hnd⟩
      · have c3' : ¬ ((d.n0 : Int) = (a.n0 : Int)) := by omega
        cases hwn : s.wN0 with
        | none => simp only [eq_true c2, eq_false c3, not_true_eq_false, not_false_eq_true, false_or, true_or, ↓reduceIte, hwn] at h; cases h
        | some wn0 =>
          simp only [eq_true c2, eq_false c3, not_true_eq_false, not_false_eq_true, false_or, true_or, ↓reduceIte, hwn, Option.getD_some] at h
          simp only [eq_true c2, eq_false c3', not_true_eq_false, not_false_eq_true, ↓reduceIte, hwn, Option.getD_some]
          by_cases c4 : wn0 = a.n0
          swap
          · simp only [eq_false c4, not_false_eq_true, ↓reduceIte] at h; cases h
          have c4' : (wn0 : Int) = (a.n0 : Int) := by omega
          simp only [eq_true c4, not_true_eq_false, ↓reduceIte] at h
          simp only [eq_true c4', not_true_eq_false, ↓reduceIte]
          injection h with h; subst h
          exact ⟨by simp [stTup_rv, hwn], hnd⟩
    · cases hwn : s.wN0 with
      | none => simp only [eq_false c2, not_false_eq_true, true_or, ↓reduceIte, hwn] at h; cases h
      | some wn0 =>
        simp only [eq_false c2, not_false_eq_true, true_or, ↓reduceIte, hwn, Option.getD_some] at h
        simp only [eq_false c2, not_false_eq_true, ↓reduceIte, hwn, Option.getD_some]
        by_cases c4 : wn0 = a.n0
        swap
        · simp only [eq_false c4, not_false_eq_true, ↓reduceIte] at h; cases h
        have c4' : (wn0 : Int) = (a.n0 : Int) := by omega
        simp only [eq_true c4, not_true_eq_false, ↓reduceIte] at h
        simp only [eq_true c4', not_true_eq_false, ↓reduceIte]
        injection h with h; subst h
        exact ⟨by simp [stTup_rv, hwn], hnd⟩

/-- one iteration of the generated loop = one `convStep` of the twin (whenever the twin does not raise) -/
theorem conv_step_sim_rv (hLR : ∀ j : Nat, ((j : Int) ∈ LR) ↔ j ∈ lastR) (i : Nat) (hi : i < ops.length) (s s' : ConvSt)
    (hnd : s.snapshots.Nodup) (h : convStep N ops.toArray lastR i s = .ok s') (fuel : Nat) :
    StepOK_rv N ops LR i s s' fuel := by
  cases hk : ops[i].kind
  case forward => exact step_forward_rv N ops lastR LR i hi s s' hnd hk h fuel
  case backward => exact step_backward_rv N ops lastR LR i hi s s' hnd hk h fuel
  case writeMemory => exact step_writeMemory_rv N ops lastR LR i hi s s' hnd hk h fuel
  case readMemory => exact step_readMemory_rv N ops lastR LR i hi s s' hnd hLR hk h fuel
  case discardMemory => exact step_discardMemory_rv N ops lastR LR i hi s s' hnd hk h fuel
  case writeDisk => exact step_writeDisk_rv N ops lastR LR i hi s s' hnd hk h fuel
  case readDisk => exact step_readDisk_rv N ops lastR LR i hi s s' hnd hLR hk h fuel
  case discardDisk => exact step_discardDisk_rv N ops lastR LR i hi s s' hnd hk h fuel
  case writeForwardMemory => exact step_writeForwardMemory_rv N ops lastR LR i hi s s' hnd hk h fuel
  case discardForwardMemory => exact step_discardForwardMemory_rv N ops lastR LR i hi s s' hnd hk h fuel
  case write => exact step_write_rv N ops lastR LR i hi s s' hnd hk h fuel
  case read => exact step_read_rv N ops lastR LR i hi s s' hnd hLR hk h fuel
  case discard => exact step_discard_rv N ops lastR LR i hi s s' hnd hk h fuel
  case writeForward => exact step_writeForward_rv N ops lastR LR i hi s s' hnd hk h fuel
  case discardForward => exact step_discardForward_rv N ops lastR LR i hi s s' hnd hk h fuel

theorem while1_exit_rv (s : ConvSt) (fuel : Nat) :
    revolve_iterator.while1 (ops.map opPy) (some (N : Int)) LR false (fuel + 1) (stTup_rv s ops.length) =
      .ok (stTup_rv s ops.length) := by
  rw [stTup_rv, revolve_iterator.while1]
  have hc : ¬ ((ops.length : Int) < ((ops.map opPy).length : Int)) := by simp
  simp only [hc, ↓reduceIte]
  rfl

/-- the whole loop: `convLoop` of the twin from index `i` on, with `k` iterations left -/
theorem while1_sim_rv (hLR : ∀ j : Nat, ((j : Int) ∈ LR) ↔ j ∈ lastR) :
    ∀ (k i : Nat) (s s' : ConvSt), i + k = ops.length → s.snapshots.Nodup →
      convLoop N ops.toArray lastR k i s = .ok s' → ∀ fuel, k + 1 ≤ fuel →
      revolve_iterator.while1 (ops.map opPy) (some (N : Int)) LR false fuel (stTup_rv s i) =
        .ok (stTup_rv s' ops.length) := by
  intro k
  induction k with
  | zero =>
    intro i s s' hik _ h fuel hf
    rw [convLoop] at h
    injection h with h; subst h
    obtain ⟨f, rfl⟩ : ∃ f, fuel = f + 1 := ⟨fuel - 1, by omega⟩
    have : i = ops.length := by omega
    subst this
    exact while1_exit_rv N ops LR s f
  | succ k ih =>
    intro i s s' hik hnd h fuel hf
    rw [convLoop] at h
    obtain ⟨f, rfl⟩ : ∃ f, fuel = f + 1 := ⟨fuel - 1, by omega⟩
    cases hs : convStep N ops.toArray lastR i s with
    | error e => rw [hs] at h; cases h
    | ok s1 =>
      rw [hs] at h
      obtain ⟨hstep, hnd1⟩ := conv_step_sim_rv N ops lastR LR hLR i (by omega) s s1 hnd hs f
      rw [hstep]
      exact ih (i + 1) s1 s' (by omega) hnd1 h f (by omega)

end step

/-- **`RevolveCheckpointSchedule._iterator`.**  Whenever the twin `convertOps N ops` yields `evs`, the generated
iterator, run on the same operations (as Python `Operation` objects), yields the same events; only the final
`EndReverse` carries `exhausted = true`.  Fuel: one more than the number of operations. -/
theorem revolve_iterator_refines (N : Nat) (ops : List Ops.Op) (evs : List Ev) (h : convertOps N ops = .ok evs)
    (fuel : Nat) (hf : ops.length + 1 ≤ fuel) :
    revolve_iterator fuel 0 0 (some (N : Int)) (ops.map opPy) false =
      .ok (markLast (evs.map (evPy · false))) := by
  unfold convertOps at h
  simp only at h
  cases hl : lastReads ops.toArray with
  | error e => rw [hl] at h; cases h
  | ok lastR =>
    rw [hl] at h
    simp only [List.size_toArray] at h
    cases hloop : convLoop N ops.toArray lastR ops.length 0 ConvSt.init with
    | error e => rw [hloop] at h; cases h
    | ok s =>
      rw [hloop] at h
      simp only at h
      by_cases hsn : s.snapshots.length > 0
      · rw [if_pos hsn] at h; cases h
      rw [if_neg hsn] at h
      injection h with h; subst h
      have hLR : ∀ j : Nat, ((j : Int) ∈ (lastR.map (fun (k : Nat) => (k : Int))).reverse) ↔ j ∈ lastR := by
        intro j
        simp only [List.mem_reverse, List.mem_map, Nat.cast_inj, exists_eq_right]
      have hw := while1_sim_rv N ops lastR _ hLR ops.length 0 ConvSt.init s (by omega) (by simp [ConvSt.init])
        hloop fuel hf
      unfold revolve_iterator
      simp only [bind, Except.bind, pure, Except.pure, reduceCtorEq, ↓reduceIte, last_reads_refines, hl]
      have hinit : ((0 : Int), (default : Int), (none : Option StorageType), false, false, (0 : Int), (0 : Int),
          ([] : List PyEv), ([] : List (Option StorageType × Int))) = stTup_rv ConvSt.init 0 := rfl
      rw [hinit, hw]
      simp only [stTup_rv]
      have hlen : ¬ (((setPy_rv s.snapshots).length : Int) > 0) := by
        simp only [setPy_rv, List.length_reverse, List.length_map]; omega
      simp only [hlen, ↓reduceIte, ConvSt.yield, List.map_append, List.map_cons, List.map_nil]
      rw [markLast_append_ne _ _ (by simp)]
      rfl

/-- non-vacuity: the operation sequence of `Revolve(3, 1)` (with a `Write_memory`, `Read_memory` as copy and as move,
`Write_Forward_memory`/`Discard_Forward_memory`, `Discard_memory`) is converted without an exception -/
example : ∃ evs, convertOps 3 [Op.wm 0, Op.fwd 0 2, Op.wfm 3, Op.fwd 2 3, Op.bwd 3 2, Op.dfm 3, Op.rm 0, Op.fwd 0 1,
    Op.wfm 2, Op.fwd 1 2, Op.bwd 2 1, Op.dfm 2, Op.rm 0, Op.wfm 1, Op.fwd 0 1, Op.bwd 1 0, Op.dfm 1, Op.dm 0]
    = .ok evs := ⟨_, rfl⟩

/-- non-vacuity with hierarchical operations (`HRevolve`, `l = 0`) -/
example : ∃ evs, convertOps 1 [Op.wf 0 1, Op.fwd 0 1, Op.bwd 1 0, Op.df 0 1] = .ok evs := ⟨_, rfl⟩

/-! ## the four classes: the twin's operation sequence fed to the generated iterator yields the stream model -/

theorem twinOf_ok_rv (N : Nat) (what : String) (o : Option (List Ops.Op)) (evs : List Ev)
    (h : twinOf N what o = .ok evs) : ∃ ops, o = some ops ∧ convertOps N ops = .ok evs := by
  cases o with
  | none => cases h
  | some ops => exact ⟨ops, rfl, h⟩

/-- **Revolve.**  For all valid parameters the operation sequence `list(revolve(max_n - 1, snapshots_in_ram, …))` of the
twin exists, the stream model `revolveEvs` is defined, and the generated `_iterator` run on that sequence yields
exactly the stream model's events. -/
theorem revolve_iterator_revolve (N cm : Nat) (c : Costs) (hN : 1 ≤ N) (hcm : 1 ≤ cm) :
    ∃ ops evs, revolveOpsTop N cm c = some ops ∧ revolveEvs N cm c = .ok evs ∧
      ∀ fuel, ops.length + 1 ≤ fuel →
        revolve_iterator fuel 0 0 (some (N : Int)) (ops.map opPy) false =
          .ok (markLast (evs.map (evPy · false))) := by
  obtain ⟨evs0, _, hev, _⟩ := revolve_clean N cm c hN hcm
  have ht := twin_revolve N cm c hN hcm
  rw [hev] at ht
  obtain ⟨ops, hops, hconv⟩ := twinOf_ok_rv _ _ _ _ ht
  exact ⟨ops, _, hops, hev, fun fuel hf => revolve_iterator_refines N ops _ hconv fuel hf⟩

/-- **DiskRevolve.** -/
theorem revolve_iterator_diskRevolve (N cm : Nat) (c : Costs) (hN : 1 ≤ N) (hcm : 1 ≤ cm) :
    ∃ ops evs, diskRevolveOpsTop N cm c = some ops ∧ diskRevolveEvs N cm c = .ok evs ∧
      ∀ fuel, ops.length + 1 ≤ fuel →
        revolve_iterator fuel 0 0 (some (N : Int)) (ops.map opPy) false =
          .ok (markLast (evs.map (evPy · false))) := by
  obtain ⟨evs0, _, hev, _⟩ := diskRevolve_clean N cm c hN hcm
  have ht := twin_diskRevolve N cm c hN hcm
  rw [hev] at ht
  obtain ⟨ops, hops, hconv⟩ := twinOf_ok_rv _ _ _ _ ht
  exact ⟨ops, _, hops, hev, fun fuel hf => revolve_iterator_refines N ops _ hconv fuel hf⟩

/-- **PeriodicDiskRevolve.** -/
theorem revolve_iterator_periodic (N cm : Nat) (c : Costs) (hN : 1 ≤ N) (hcm : 1 ≤ cm) (huf : 0 < c.uf) :
    ∃ ops evs, periodicOpsTop N cm c = some ops ∧ periodicEvs N cm c = .ok evs ∧
      ∀ fuel, ops.length + 1 ≤ fuel →
        revolve_iterator fuel 0 0 (some (N : Int)) (ops.map opPy) false =
          .ok (markLast (evs.map (evPy · false))) := by
  obtain ⟨evs0, _, hev, _⟩ := periodic_clean N cm c hN hcm huf
  have ht := twin_periodic N cm c hN hcm huf
  rw [hev] at ht
  obtain ⟨ops, hops, hconv⟩ := twinOf_ok_rv _ _ _ _ ht
  exact ⟨ops, _, hops, hev, fun fuel hf => revolve_iterator_refines N ops _ hconv fuel hf⟩

/-- **HRevolve.** -/
theorem revolve_iterator_hrevolve (N c0 c1 : Nat) (c : Costs) (hN : 1 ≤ N) (hc0 : 1 ≤ c0) :
    ∃ ops evs, hrevolveOpsTop N c0 c1 c = some ops ∧ hrevolveEvs N c0 c1 c = .ok evs ∧
      ∀ fuel, ops.length + 1 ≤ fuel →
        revolve_iterator fuel 0 0 (some (N : Int)) (ops.map opPy) false =
          .ok (markLast (evs.map (evPy · false))) := by
  obtain ⟨evs0, _, hev, _⟩ := hrevolve_clean N c0 c1 c hN hc0
  have ht := twin_hrevolve N c0 c1 c hN hc0
  rw [hev] at ht
  obtain ⟨ops, hops, hconv⟩ := twinOf_ok_rv _ _ _ _ ht
  exact ⟨ops, _, hops, hev, fun fuel hf => revolve_iterator_refines N ops _ hconv fuel hf⟩

/-- without the existence statements: whatever the stream model is, if the twin's stage 1 gives `ops` and the stream
model gives `evs`, the generated iterator on `ops` gives `evs` -/
theorem revolve_iterator_revolve_of (N cm : Nat) (c : Costs) (hN : 1 ≤ N) (hcm : 1 ≤ cm) (ops : List Ops.Op) (evs : List Ev)
    (hops : revolveOpsTop N cm c = some ops) (hev : revolveEvs N cm c = .ok evs) (fuel : Nat)
    (hf : ops.length + 1 ≤ fuel) :
    revolve_iterator fuel 0 0 (some (N : Int)) (ops.map opPy) false = .ok (markLast (evs.map (evPy · false))) := by
  have ht := twin_revolve N cm c hN hcm
  rw [hev] at ht
  unfold revolveTwin at ht
  rw [hops] at ht
  exact revolve_iterator_refines N ops _ ht fuel hf

/-- non-vacuity of the hypotheses of the four corollaries -/
example : (1 : Nat) ≤ 3 ∧ (1 : Nat) ≤ 2 ∧ 0 < (⟨1, 1, 1, 1⟩ : Costs).uf := by decide

example := revolve_iterator_revolve 3 2 ⟨1, 1, 1, 1⟩ (by decide) (by decide)
example := revolve_iterator_diskRevolve 3 2 ⟨1, 1, 1, 1⟩ (by decide) (by decide)
example := revolve_iterator_periodic 3 2 ⟨1, 1, 1, 1⟩ (by decide) (by decide) (by decide)
example := revolve_iterator_hrevolve 3 2 1 ⟨1, 1, 1, 1⟩ (by decide) (by decide)

end Ckpt.Py

#print axioms Ckpt.Py.convert_action_refines
#print axioms Ckpt.Py.last_reads_refines
#print axioms Ckpt.Py.revolve_iterator_refines
#print axioms Ckpt.Py.revolve_iterator_revolve
#print axioms Ckpt.Py.revolve_iterator_diskRevolve
#print axioms Ckpt.Py.revolve_iterator_periodic
#print axioms Ckpt.Py.revolve_iterator_hrevolve
