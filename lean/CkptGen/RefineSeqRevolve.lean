import CkptGen.RefineArgmin
import CkptGen.RefineTables
import CkptGen.Capstone
import CkptVerif.Proofs.OpsRevolve
import Mathlib.Tactic
/-!
# The operation-sequence builder `revolve` (hrevolve_sequences/revolve.py) as generated computes the twin `revolveOps`

`Ckpt.Py.revolve`, `Ckpt.Py.argmin_rat` are produced by `harness/py2lean.py` from `revolve.py` / `basic_functions.py`
(a `Sequence` is the flattened list of its operations).  They are related here to stage 1 of the twin
(`CkptVerif/Model/Ops.lean`: `revolveOps`, `shiftOps`, `removeUselessWm`, `revolveOpsTop`).

1. `argmin_rat_refines`: `argmin` on a list of (cast) naturals is the model's `argminO` (`argmin_rat_spec`: the 1-based
   index of the LAST minimum; `argmin_rat_empty`: `IndexError`).
2. `seqShift_opPy`, `seqRemoveUselessWm_opPy`: `Sequence.shift`, `Sequence.remove_useless_wm` commute with `opPy`.
3. `revolve_some_refines` (any table `T` with `TabOk T t0 L M`: rows `1 … M`, columns `0 … L` hold `opt0Get t0`),
   `revolve_refines` (`opt_0 = some (tabQ (opt0Table lmax mmax uf ub))`, `l ≤ max lmax 1`, `cm ≤ mmax`: what the recursion
   and the disk builders pass), `revolve_refines_none` (`opt_0 = None`, `1 ≤ cm ∨ l ≤ 1`): for EVERY fuel
   `revolve fuel l cm rd wd uf ub opt_0 = match revolveOps t0 uf fuel l cm with | some ops => .ok (ops.map opPy)
   | none => .error (revolveErr fuel cm)`, `revolveErr` = `ValueError` for `cm = 0` (fuel left), `PyErr.fuel` otherwise;
   `rd`, `wd` are arbitrary rationals (unused; the recursion swaps them).  The generated function and the twin consume
   fuel in step (one unit per recursion level), so the fuel is the same on both sides; `l + 1` suffices
   (`revolveOps_isSome`, `revolve_ok`, `revolve_ok_none`).  Exceptions: `revolve_valueError` (`cm = 0`, `l ≥ 1`, a table
   passed), `revolve_valueError_none` (`opt_0 = None`, `l = 1`), and `revolve_none_indexError`: `opt_0 = None`, `cm = 0`,
   `l ≥ 2` raises the `IndexError` of `get_opt_0_table`, NOT the `ValueError` (Python does the same).
4. `revolveClass_run` = `Revolve.__init__` + `_iterator`, builder AND iterator as generated.  `revolve_builder_top`: the
   generated builder returns `revolveOpsTop N cm c` (fuel `N`; at most `8 N` operations, `revolveOps_length`:
   `≤ 8 l + 5`); `revolveClass_run_refines`: the result is the stream model `revolveEvs`;
   `source_revolve_accepted_full`, `source_revolve_C01_C18_full`: accepted by the checking executor, complete.
   Fuel: builder `N ≤ fuelB`, iterator `8 N + 1 ≤ fuelI`.
-/
set_option linter.unusedSimpArgs false
namespace Ckpt.Py
open Ckpt Ckpt.Ops

/-! ## 1. `argmin` on rationals -/

theorem pyIndex_natQ (l : List Rat) (k : Nat) (h : k < l.length) : pyIndex l (k : Int) = .ok l[k]! := by
  apply pyIndex_of_getElem?
  rw [List.getElem?_eq_getElem h, getElem!_pos l k h]

/-- the body of the loop -/
def argStepQ (l : List Rat) (s : Int × Rat) (k : Nat) : Int × Rat :=
  if l[k]! ≤ s.2 then ((k : Int), l[k]!) else s

theorem argLoopQ_inv (l : List Rat) (n : Nat) : ∃ i : Nat,
    (List.range n).foldl (argStepQ l) ((0 : Int), l[0]!) = ((i : Int), l[i]!) ∧ (i < n ∨ i = 0) ∧
    (∀ j, j < n → l[i]! ≤ l[j]!) ∧ (∀ j, i < j → j < n → l[i]! < l[j]!) := by
  induction n with
  | zero => exact ⟨0, rfl, Or.inr rfl, by intro j hj; omega, by intro j _ hj; omega⟩
  | succ n ih =>
    obtain ⟨i, e, hi, hle, hlt⟩ := ih
    rw [List.range_succ, List.foldl_append, e]
    simp only [List.foldl_cons, List.foldl_nil, argStepQ]
    by_cases hc : l[n]! ≤ l[i]!
    · rw [if_pos hc]
      refine ⟨n, rfl, Or.inl (by omega), ?_, ?_⟩
      · intro j hj
        rcases Nat.lt_succ_iff_lt_or_eq.1 hj with h | h
        · exact le_trans hc (hle j h)
        · rw [h]
      · intro j h1 h2; omega
    · rw [if_neg hc]
      refine ⟨i, rfl, ?_, ?_, ?_⟩
      · rcases hi with h | h
        · left; omega
        · right; exact h
      · intro j hj
        rcases Nat.lt_succ_iff_lt_or_eq.1 hj with h | h
        · exact hle j h
        · rw [h]; exact le_of_lt (lt_of_not_ge hc)
      · intro j h1 h2
        rcases Nat.lt_succ_iff_lt_or_eq.1 h2 with h | h
        · exact hlt j h1 h
        · rw [h]; exact lt_of_not_ge hc

/-- the generated function is the fold -/
theorem argmin_rat_eq_fold (l : List Rat) (h : l ≠ []) :
    argmin_rat l = .ok ((1 : Int) + ((List.range l.length).foldl (argStepQ l) ((0 : Int), l[0]!)).1) := by
  have hpos : 0 < l.length := List.length_pos_iff.2 h
  unfold argmin_rat
  simp only [bind, Except.bind, pure, Except.pure]
  have h0 := pyIndex_natQ l 0 hpos
  simp only [Nat.cast_zero] at h0
  rw [h0]
  simp only []
  rw [pyRange_zero, forIn_yield (g := fun s (i : Int) => argStepQ l s i.toNat), List.foldl_map]
  · simp only [Int.toNat_natCast]
  · intro x hx s
    obtain ⟨k, hk, rfl⟩ := List.mem_map.1 hx
    have hk' : k < l.length := List.mem_range.1 hk
    simp only [pyIndex_natQ l k hk', Int.toNat_natCast, argStepQ]
    split_ifs <;> rfl

/-- `list[0]` on an empty list -/
theorem argmin_rat_empty : argmin_rat [] = .error .indexError := by
  unfold argmin_rat
  have : pyIndex ([] : List Rat) 0 = .error .indexError := pyIndex_oob [] 0 (by simp)
  simp only [bind, Except.bind, this]

/-- characterisation independent of the model: the result is the 1-based index of the LAST minimum -/
theorem argmin_rat_spec (l : List Rat) (h : l ≠ []) :
    ∃ k : Nat, argmin_rat l = .ok ((k : Int) + 1) ∧ k < l.length ∧
      (∀ j, j < l.length → l[k]! ≤ l[j]!) ∧ (∀ j, k < j → j < l.length → l[k]! < l[j]!) := by
  have hpos : 0 < l.length := List.length_pos_iff.2 h
  obtain ⟨i, e, hi, hle, hlt⟩ := argLoopQ_inv l l.length
  refine ⟨i, ?_, by omega, hle, hlt⟩
  rw [argmin_rat_eq_fold l h, e, Int.add_comm]

theorem argmin_rat_refines (l : List Nat) (h : l ≠ []) :
    argmin_rat (l.map (fun a : Nat => (a : Rat))) = .ok ((argminO (l.map some) : Nat) : Int) := by
  obtain ⟨k, e, hk, hle, hlt⟩ := argmin_rat_spec (l.map (fun a : Nat => (a : Rat))) (by simpa using h)
  obtain ⟨⟨p1, p2⟩, pget, pmin, plast⟩ := argminO_map_some_spec l h
  simp only [List.length_map] at hk hle hlt
  have cast : ∀ j (hj : j < l.length), (l.map (fun a : Nat => (a : Rat)))[j]! = ((l[j] : Nat) : Rat) := by
    intro j hj
    rw [getElem!_pos _ j (by simpa using hj), List.getElem_map]
  have hp : argminO (l.map some) - 1 < l.length := by omega
  have pget' : l[argminO (l.map some) - 1] = l.foldl min (l.headD 0) := by
    have := List.getElem?_eq_getElem hp
    rw [this] at pget
    exact Option.some.inj pget
  have key : argminO (l.map some) = k + 1 := by
    rcases Nat.lt_trichotomy (argminO (l.map some) - 1) k with c | c | c
    · have a1 := plast k hk c
      have a2 := hle _ hp
      rw [cast _ hk, cast _ hp, pget'] at a2
      have a2' : l[k] ≤ l.foldl min (l.headD 0) := by exact_mod_cast a2
      omega
    · omega
    · have a1 := hlt _ c hp
      rw [cast _ hk, cast _ hp, pget'] at a1
      have a1' : l[k] < l.foldl min (l.headD 0) := by exact_mod_cast a1
      have a2 := pmin l[k] (List.getElem_mem hk)
      omega
  rw [e, key]
  push_cast
  rfl

example : argmin_rat ([3, 1, 2, 1].map (fun a : Nat => (a : Rat))) = .ok 4 :=
  argmin_rat_refines [3, 1, 2, 1] (by decide)


/-! ## 2. `Sequence.shift`, `Sequence.remove_useless_wm` -/

theorem opShift_opPy (o : Ops.Op) (k : Nat) : opShift (opPy o) (k : Int) = opPy (shiftOp k o) := by
  obtain ⟨kind, lvl, a, b⟩ := o
  cases kind <;> simp [opShift, opPy, opIdxPy, opKindStr, shiftOp]

theorem seqShift_opPy (ops : List Ops.Op) (k : Nat) :
    seqShift (ops.map opPy) (k : Int) = (shiftOps k ops).map opPy := by
  unfold seqShift shiftOps
  rw [List.map_map, List.map_map]
  apply List.map_congr_left
  intro o _
  exact opShift_opPy o k

theorem seqRemoveUselessWm_opPy (ops : List Ops.Op) :
    seqRemoveUselessWm (ops.map opPy) (-1) = (removeUselessWm ops).map opPy := by
  cases ops with
  | nil => rfl
  | cons o rest =>
    obtain ⟨kind, lvl, a, b⟩ := o
    cases kind <;> simp [seqRemoveUselessWm, removeUselessWm, opPy, opIdxPy, opKindStr]

example : seqShift ([Op.wm 0, Op.fwd 0 2, Op.w 1 3].map opPy) ((5 : Nat) : Int)
    = (shiftOps 5 [Op.wm 0, Op.fwd 0 2, Op.w 1 3]).map opPy := seqShift_opPy _ 5
example : seqRemoveUselessWm ([Op.wm 0, Op.fwd 0 2].map opPy) (-1) = [Op.fwd 0 2].map opPy :=
  seqRemoveUselessWm_opPy _

/-! ## 3. `revolve` -/

/-- a descending `for` loop whose body appends `g index` to the sequence -/
theorem forIn_down_append (body : Int → List PyOp → M (ForInStep (List PyOp))) (g : Nat → List PyOp)
    (hb : ∀ (i : Nat) (s : List PyOp), body (i : Int) s = .ok (.yield (s ++ g i))) :
    ∀ (n : Nat) (s : List PyOp),
      forIn (pyRangeDown ((n : Int) - 1) (-1)) s body = .ok (s ++ (List.range n).reverse.flatMap g) := by
  intro n
  induction n with
  | zero => intro s; simp [pyRangeDown]; rfl
  | succ n ih =>
    intro s
    rw [pyRangeDown_succ_rv, List.forIn_cons, hb]
    simp only [bind, Except.bind]
    rw [ih, List.range_succ, List.reverse_append, List.reverse_singleton, List.singleton_append,
      List.flatMap_cons, List.append_assoc]

theorem revolve_l0 (fuel : Nat) (l cm : Int) (hl : l = 0) (rd wd uf ub : Rat) (T : List (List Rat)) :
    revolve (fuel + 1) l cm rd wd uf ub (some T)
      = .ok ([Op.wfm 1, Op.fwd 0 1, Op.bwd 1 0, Op.dfm 1, Op.dm 0].map opPy) := by
  rw [revolve]
  simp only [bind, Except.bind, pure, Except.pure]
  rw [if_neg (Option.some_ne_none T), if_pos hl]
  rfl

theorem revolve_cm0 (fuel : Nat) (l cm : Int) (hl : l ≠ 0) (hcm : cm = 0) (rd wd uf ub : Rat) (T : List (List Rat)) :
    revolve (fuel + 1) l cm rd wd uf ub (some T) = .error .valueError := by
  rw [revolve]
  simp only [bind, Except.bind, pure, Except.pure]
  rw [if_neg (Option.some_ne_none T), if_neg hl, if_pos hcm]
  rfl

theorem revolve_l1 (fuel : Nat) (l cm : Int) (hl : l = 1) (hcm : cm ≠ 0) (rd wd uf ub : Rat) (T : List (List Rat)) :
    revolve (fuel + 1) l cm rd wd uf ub (some T)
      = .ok ([Op.wm 0, Op.fwd 0 1, Op.wfm 2, Op.fwd 1 2, Op.bwd 2 1, Op.dfm 2, Op.rm 0,
            Op.wfm 1, Op.fwd 0 1, Op.bwd 1 0, Op.dfm 1, Op.dm 0].map opPy) := by
  rw [revolve]
  simp only [bind, Except.bind, pure, Except.pure]
  rw [if_neg (Option.some_ne_none T), if_neg (by omega), if_neg hcm, if_pos hl]
  rfl

theorem revolve_cm1 (fuel : Nat) (l : Nat) (cm : Int) (hl : 2 ≤ l) (hcm : cm = 1) (rd wd uf ub : Rat) (T : List (List Rat)) :
    revolve (fuel + 1) (l : Int) cm rd wd uf ub (some T)
      = .ok (([Op.wm 0] ++ (List.range l).reverse.flatMap (revolveLoopBody l) ++
        [Op.rm 0, Op.wfm 1, Op.fwd 0 1, Op.bwd 1 0, Op.dfm 1, Op.dm 0]).map opPy) := by
  rw [revolve]
  simp only [bind, Except.bind, pure, Except.pure]
  rw [if_neg (Option.some_ne_none T), if_neg (by omega), if_neg (by omega), if_neg (by omega), if_pos hcm]
  rw [forIn_down_append _ (fun i => (revolveLoopBody l i).map opPy)]
  · simp only [List.map_append, List.map_flatMap, List.append_assoc, List.nil_append, List.map_cons, List.map_nil,
      List.cons_append]
    rfl
  · intro i s
    have h1 : (i : Int) + 1 ≠ 0 := by omega
    have h1' : i + 1 ≠ 0 := by omega
    by_cases h : i = l - 1
    · have h2 : ¬ ((i : Int) ≠ (l : Int) - 1) := by omega
      rw [if_neg h2, if_pos h1]
      simp [revolveLoopBody, h, opPy, opIdxPy, opKindStr, Op.fwd, Op.bwd, Op.wfm, Op.dfm]
    · have h2 : ((i : Int) ≠ (l : Int) - 1) := by omega
      rw [if_pos h2, if_pos h1]
      simp [revolveLoopBody, h, opPy, opIdxPy, opKindStr, Op.fwd, Op.bwd, Op.wfm, Op.dfm, Op.rm]


/-- the table `T` (Python's `opt_0`) holds the model's entries in rows `1 … M`, columns `0 … L` -/
def TabOk (T : List (List Rat)) (t0 : Array (Array Nat)) (L M : Nat) : Prop :=
  ∀ m, 1 ≤ m → m ≤ M → ∃ row, T[m]? = some row ∧
    ∀ l, l ≤ L → row[l]? = some ((opt0Get t0 m l : Nat) : Rat)

/-- the candidates of the model's `argmin` -/
def revListMem (t0 : Array (Array Nat)) (uf l cm : Nat) : List Nat :=
  (List.range' 1 (l - 1)).map (fun j => j * uf + opt0Get t0 (cm - 1) (l - j) + opt0Get t0 cm (j - 1))

def revJmin (t0 : Array (Array Nat)) (uf l cm : Nat) : Nat := argminO ((revListMem t0 uf l cm).map some)

theorem revolve_rec (fuel : Nat) (l cm L M uf : Nat) (T : List (List Rat)) (t0 : Array (Array Nat))
    (hT : TabOk T t0 L M) (hl : 2 ≤ l) (hlL : l ≤ L) (hcm : 2 ≤ cm) (hcmM : cm ≤ M) (rd wd ub : Rat) :
    revolve (fuel + 1) (l : Int) (cm : Int) rd wd (uf : Rat) ub (some T)
      = (revolve fuel ((l - revJmin t0 uf l cm : Nat) : Int) ((cm - 1 : Nat) : Int) wd rd (uf : Rat) ub (some T) >>= fun right =>
         revolve fuel ((revJmin t0 uf l cm - 1 : Nat) : Int) (cm : Int) wd rd (uf : Rat) ub (some T) >>= fun left =>
         pure ([Op.wm 0, Op.fwd 0 (revJmin t0 uf l cm)].map opPy ++ seqShift right (revJmin t0 uf l cm : Int) ++ [opPy (Op.rm 0)]
            ++ seqRemoveUselessWm left (-1))) := by
  rw [revolve]
  simp only [bind, Except.bind, pure, Except.pure]
  rw [if_neg (Option.some_ne_none T), if_neg (by omega), if_neg (by omega), if_neg (by omega), if_neg (by omega)]
  obtain ⟨rowc, hTc, hrowc⟩ := hT cm (by omega) hcmM
  obtain ⟨rowp, hTp, hrowp⟩ := hT (cm - 1) (by omega) (by omega)
  have hu : unwrap (some T) = Except.ok T := rfl
  have ecm : (cm : Int) - 1 = ((cm - 1 : Nat) : Int) := by omega
  rw [pyRange_one l, mapM_ok_map _ _
      ((fun x : Nat => (x : Rat)) ∘ (fun j => j * uf + opt0Get t0 (cm - 1) (l - j) + opt0Get t0 cm (j - 1)))]
  swap
  · intro j hj
    have hj' := List.mem_range'_1.1 hj
    have el : (l : Int) - (j : Int) = ((l - j : Nat) : Int) := by omega
    have ej : (j : Int) - 1 = ((j - 1 : Nat) : Int) := by omega
    simp only [Function.comp_apply, hu]
    rw [ecm, pyIndex_of_getElem? _ _ _ hTp]
    simp only []
    rw [el, pyIndex_of_getElem? _ _ _ (hrowp (l - j) (by omega))]
    simp only []
    rw [pyIndex_of_getElem? _ _ _ hTc]
    simp only []
    rw [ej, pyIndex_of_getElem? _ _ _ (hrowc (j - 1) (by omega))]
    simp only []
    push_cast
    rfl
  simp only []
  rw [← List.map_map]
  have ec : List.map (fun j => j * uf + opt0Get t0 (cm - 1) (l - j) + opt0Get t0 cm (j - 1))
      (List.range' 1 (l - 1)) = revListMem t0 uf l cm := rfl
  have hne : revListMem t0 uf l cm ≠ [] := by
    intro h
    have := congrArg List.length h
    simp [revListMem] at this
    omega
  rw [ec, argmin_rat_refines _ hne]
  simp only []
  have hr := argminO_map_some_range _ hne
  have hlen : (revListMem t0 uf l cm).length = l - 1 := by simp [revListMem]
  rw [hlen] at hr
  have ej1 : (l : Int) - ((argminO ((revListMem t0 uf l cm).map some) : Nat) : Int) = ((l - revJmin t0 uf l cm : Nat) : Int) := by
    unfold revJmin; omega
  have ej2 : ((argminO ((revListMem t0 uf l cm).map some) : Nat) : Int) - 1 = ((revJmin t0 uf l cm - 1 : Nat) : Int) := by
    unfold revJmin; omega
  rw [ej1, ej2, ecm]
  rfl

theorem revJmin_range (t0 : Array (Array Nat)) (uf l cm : Nat) (hl : 2 ≤ l) :
    1 ≤ revJmin t0 uf l cm ∧ revJmin t0 uf l cm ≤ l - 1 := by
  have hne : revListMem t0 uf l cm ≠ [] := by
    intro h
    have := congrArg List.length h
    simp [revListMem] at this
    omega
  have hr := argminO_map_some_range _ hne
  have hlen : (revListMem t0 uf l cm).length = l - 1 := by simp [revListMem]
  rw [hlen] at hr
  exact hr

theorem revolveOps_rec (t0 : Array (Array Nat)) (uf fuel l cm : Nat) (hl : 2 ≤ l) (hcm : 2 ≤ cm) :
    revolveOps t0 uf (fuel + 1) l cm =
      match revolveOps t0 uf fuel (l - revJmin t0 uf l cm) (cm - 1) with
      | none => none
      | some right =>
        match revolveOps t0 uf fuel (revJmin t0 uf l cm - 1) cm with
        | none => none
        | some left =>
          some ([Op.wm 0, Op.fwd 0 (revJmin t0 uf l cm)] ++ shiftOps (revJmin t0 uf l cm) right ++ [Op.rm 0] ++
            removeUselessWm left) := by
  have e : (revListMem t0 uf l cm).map some = (List.range' 1 (l - 1)).map (fun j =>
        some (j * uf + opt0Get t0 (cm - 1) (l - j) + opt0Get t0 cm (j - 1))) := by
    simp [revListMem, List.map_map]
  rw [revolveOps]
  rw [if_neg (by omega), if_neg (by omega), if_neg (by omega), if_neg (by omega)]
  unfold revJmin
  rw [e]
  rfl

/-- the exception of the generated `revolve` where the twin has no sequence -/
def revolveErr (fuel cm : Nat) : PyErr := if cm = 0 ∧ fuel ≠ 0 then .valueError else .fuel

theorem revolve_some_refines (T : List (List Rat)) (t0 : Array (Array Nat)) (L M uf : Nat) (hT : TabOk T t0 L M)
    (ub : Rat) : ∀ (fuel l cm : Nat) (rd wd : Rat), l ≤ L → cm ≤ M →
    revolve fuel (l : Int) (cm : Int) rd wd (uf : Rat) ub (some T) =
      match revolveOps t0 uf fuel l cm with
      | some ops => .ok (ops.map opPy)
      | none => .error (revolveErr fuel cm) := by
  intro fuel
  induction fuel with
  | zero =>
    intro l cm rd wd _ _
    rw [revolve, revolveOps]
    simp [revolveErr]
    rfl
  | succ fuel ih =>
    intro l cm rd wd hlL hcmM
    by_cases hl0 : l = 0
    · rw [revolve_l0 fuel _ _ (by omega), revolveOps, if_pos hl0]
    by_cases hcm0 : cm = 0
    · rw [revolve_cm0 fuel _ _ (by omega) (by omega), revolveOps, if_neg hl0, if_pos hcm0]
      simp [revolveErr, hcm0]
    by_cases hl1 : l = 1
    · rw [revolve_l1 fuel _ _ (by omega) (by omega), revolveOps, if_neg hl0, if_neg hcm0, if_pos hl1]
    by_cases hcm1 : cm = 1
    · rw [revolve_cm1 fuel l _ (by omega) (by omega), revolveOps, if_neg hl0, if_neg hcm0, if_neg hl1, if_pos hcm1]
    have hj := revJmin_range t0 uf l cm (by omega)
    rw [revolve_rec fuel l cm L M uf T t0 hT (by omega) hlL (by omega) hcmM,
      revolveOps_rec t0 uf fuel l cm (by omega) (by omega),
      ih _ _ wd rd (by omega) (by omega), ih _ _ wd rd (by omega) hcmM]
    simp only [bind, Except.bind, pure, Except.pure]
    cases h1 : revolveOps t0 uf fuel (l - revJmin t0 uf l cm) (cm - 1) with
    | none =>
      simp only []
      unfold revolveErr
      rw [if_neg (by omega), if_neg (by omega)]
    | some right =>
      simp only []
      cases h2 : revolveOps t0 uf fuel (revJmin t0 uf l cm - 1) cm with
      | none =>
        simp only []
        unfold revolveErr
        rw [if_neg (by omega), if_neg (by omega)]
      | some left =>
        simp only []
        rw [seqShift_opPy, seqRemoveUselessWm_opPy]
        simp only [List.map_append, List.map_cons, List.map_nil]


/-- the model's table, cast, is a table in the sense of `TabOk` (rows `1 … mmax`, columns `0 … max lmax 1`) -/
theorem tabOk_tabQ (lmax mmax uf ub : Nat) :
    TabOk (tabQ (opt0Table lmax mmax uf ub)) (opt0Table lmax mmax uf ub) (max lmax 1) mmax := by
  intro m hm1 hm
  exact tabQ_row_ok lmax mmax uf ub m (max lmax 1) hm1 hm (Nat.le_refl _)

/-- with enough fuel and at least one memory slot the twin has a sequence -/
theorem revolveOps_isSome (t0 : Array (Array Nat)) (uf : Nat) : ∀ (fuel l cm : Nat), l + 1 ≤ fuel → 1 ≤ cm →
    ∃ ops, revolveOps t0 uf fuel l cm = some ops := by
  intro fuel
  induction fuel with
  | zero => intro l cm h; omega
  | succ fuel ih =>
    intro l cm hf hcm
    by_cases hl0 : l = 0
    · exact ⟨_, by rw [revolveOps, if_pos hl0]⟩
    by_cases hl1 : l = 1
    · exact ⟨_, by rw [revolveOps, if_neg hl0, if_neg (by omega), if_pos hl1]⟩
    by_cases hcm1 : cm = 1
    · exact ⟨_, by rw [revolveOps, if_neg hl0, if_neg (by omega), if_neg hl1, if_pos hcm1]⟩
    have hj := revJmin_range t0 uf l cm (by omega)
    obtain ⟨right, hr⟩ := ih (l - revJmin t0 uf l cm) (cm - 1) (by omega) (by omega)
    obtain ⟨left, hl⟩ := ih (revJmin t0 uf l cm - 1) cm (by omega) hcm
    exact ⟨_, by rw [revolveOps_rec t0 uf fuel l cm (by omega) (by omega), hr, hl]⟩

/-- no memory slot, at least one step: the twin has no sequence -/
theorem revolveOps_cm0 (t0 : Array (Array Nat)) (uf fuel l : Nat) (hl : 1 ≤ l) :
    revolveOps t0 uf fuel l 0 = none := by
  cases fuel with
  | zero => rw [revolveOps]
  | succ fuel => rw [revolveOps, if_neg (by omega), if_pos rfl]

/-- `opt_0 = None`: the table is computed first -/
theorem revolve_none_eq (fuel : Nat) (l cm : Int) (rd wd uf ub : Rat) :
    revolve (fuel + 1) l cm rd wd uf ub none
      = (get_opt_0_table l cm uf ub >>= fun T => revolve (fuel + 1) l cm rd wd uf ub (some T)) := by
  conv_lhs => rw [revolve]
  simp only [bind, Except.bind, pure, Except.pure]
  rw [if_pos trivial]
  cases get_opt_0_table l cm uf ub with
  | error e => rfl
  | ok T =>
    simp only []
    conv_rhs => rw [revolve]
    simp only [bind, Except.bind, pure, Except.pure]
    rw [if_neg (Option.some_ne_none T)]

/-- **`revolve` with the table passed on** (`opt_0 = some (tabQ (opt0Table lmax mmax uf ub))`, a table for at least `l`
steps and `cm` slots: this is what the recursion, `disk_revolve` and `periodic_disk_revolve` pass): the generated
function returns the twin's sequence, for every fuel (the same fuel on both sides), and raises where the twin has
none. -/
theorem revolve_refines (lmax mmax uf ub : Nat) (rd wd : Rat) (fuel l cm : Nat) (hl : l ≤ max lmax 1) (hcm : cm ≤ mmax) :
    revolve fuel (l : Int) (cm : Int) rd wd (uf : Rat) (ub : Rat) (some (tabQ (opt0Table lmax mmax uf ub))) =
      match revolveOps (opt0Table lmax mmax uf ub) uf fuel l cm with
      | some ops => .ok (ops.map opPy)
      | none => .error (revolveErr fuel cm) :=
  revolve_some_refines _ _ _ _ uf (tabOk_tabQ lmax mmax uf ub) (ub : Rat) fuel l cm rd wd hl hcm

/-- **`revolve` with `opt_0 = None`** on the domain where `get_opt_0_table(l, cm, …)` does not raise -/
theorem revolve_refines_none (uf ub : Nat) (rd wd : Rat) (fuel l cm : Nat) (h : 1 ≤ cm ∨ l ≤ 1) :
    revolve fuel (l : Int) (cm : Int) rd wd (uf : Rat) (ub : Rat) none =
      match revolveOps (opt0Table l cm uf ub) uf fuel l cm with
      | some ops => .ok (ops.map opPy)
      | none => .error (revolveErr fuel cm) := by
  cases fuel with
  | zero =>
    rw [revolve, revolveOps]
    simp [revolveErr]
    rfl
  | succ fuel =>
    rw [revolve_none_eq, get_opt_0_table_refines l cm uf ub h]
    exact revolve_refines l cm uf ub rd wd (fuel + 1) l cm (by omega) (Nat.le_refl _)

/-- … and outside (`cm = 0`, `l ≥ 2`): the `IndexError` of `get_opt_0_table`, not the `ValueError` -/
theorem revolve_none_indexError (uf ub : Nat) (rd wd : Rat) (fuel l : Nat) (hl : 2 ≤ l) :
    revolve (fuel + 1) (l : Int) ((0 : Nat) : Int) rd wd (uf : Rat) (ub : Rat) none = .error .indexError := by
  rw [revolve_none_eq, get_opt_0_table_raises l 0 uf ub (by omega)]
  rfl

/-- enough fuel (`l + 1`), at least one slot: the sequence exists and the generated function returns it -/
theorem revolve_ok (lmax mmax uf ub : Nat) (rd wd : Rat) (fuel l cm : Nat) (hl : l ≤ max lmax 1) (hcm1 : 1 ≤ cm)
    (hcm : cm ≤ mmax) (hf : l + 1 ≤ fuel) :
    ∃ ops, revolveOps (opt0Table lmax mmax uf ub) uf fuel l cm = some ops ∧
      revolve fuel (l : Int) (cm : Int) rd wd (uf : Rat) (ub : Rat) (some (tabQ (opt0Table lmax mmax uf ub)))
        = .ok (ops.map opPy) := by
  obtain ⟨ops, h⟩ := revolveOps_isSome (opt0Table lmax mmax uf ub) uf fuel l cm hf hcm1
  refine ⟨ops, h, ?_⟩
  rw [revolve_refines lmax mmax uf ub rd wd fuel l cm hl hcm, h]

theorem revolve_ok_none (uf ub : Nat) (rd wd : Rat) (fuel l cm : Nat) (hcm1 : 1 ≤ cm) (hf : l + 1 ≤ fuel) :
    ∃ ops, revolveOps (opt0Table l cm uf ub) uf fuel l cm = some ops ∧
      revolve fuel (l : Int) (cm : Int) rd wd (uf : Rat) (ub : Rat) none = .ok (ops.map opPy) := by
  obtain ⟨ops, h⟩ := revolveOps_isSome (opt0Table l cm uf ub) uf fuel l cm hf hcm1
  refine ⟨ops, h, ?_⟩
  rw [revolve_refines_none uf ub rd wd fuel l cm (Or.inl hcm1), h]

/-- `cm = 0`, `l ≥ 1`: `ValueError`, whatever table is passed … -/
theorem revolve_valueError (fuel : Nat) (l : Nat) (hl : 1 ≤ l) (rd wd uf ub : Rat) (T : List (List Rat)) :
    revolve (fuel + 1) (l : Int) 0 rd wd uf ub (some T) = .error .valueError :=
  revolve_cm0 fuel _ _ (by omega) rfl rd wd uf ub T

/-- … and with `opt_0 = None` for `l = 1` (for `l ≥ 2`: `revolve_none_indexError`) -/
theorem revolve_valueError_none (fuel : Nat) (uf ub : Nat) (rd wd : Rat) :
    revolve (fuel + 1) ((1 : Nat) : Int) ((0 : Nat) : Int) rd wd (uf : Rat) (ub : Rat) none = .error .valueError := by
  rw [revolve_refines_none uf ub rd wd (fuel + 1) 1 0 (Or.inr (Nat.le_refl _)), revolveOps_cm0 _ _ _ _ (Nat.le_refl _)]
  rfl



/-! ### non-vacuity -/

/-- non-vacuity of `revolve_refines` / `revolve_ok`: `l = 3`, `cm = 2`, a table for 4 steps and 2 slots, fuel 4 -/
example : (3 : Nat) ≤ max 4 1 ∧ (1 : Nat) ≤ 2 ∧ (2 : Nat) ≤ 2 ∧ (3 : Nat) + 1 ≤ 4 := by decide
example := revolve_refines 4 2 1 1 2 2 4 3 2 (by decide) (by decide)
example := revolve_ok 4 2 1 1 2 2 4 3 2 (by decide) (by decide) (by decide) (by decide)
example := revolve_ok_none 1 1 2 2 4 3 2 (by decide) (by decide)
/-- the twin's sequence for `revolve(3, 2)` with unit costs (the list Python prints) … -/
example : (revolveOps (opt0Table 3 2 1 1) 1 4 3 2).map ppOps = some ("[WM_0, F_0->2, WM_2, F_2->3, WFM_4, F_3->4, " ++
    "B_4->3, DFM_4, RM_2, WFM_3, F_2->3, B_3->2, DFM_3, DM_2, RM_0, F_0->1, WFM_2, F_1->2, B_2->1, DFM_2, RM_0, " ++
    "WFM_1, F_0->1, B_1->0, DFM_1, DM_0]") := by decide +kernel
/-- … and the generated text EVALUATED on the same arguments (`opt_0 = None`, `wd = rd = 2`) -/
example : revolve 4 3 2 2 2 1 1 none = .ok (((revolveOps (opt0Table 3 2 1 1) 1 4 3 2).getD []).map opPy) := by
  decide +kernel
/-- the exceptions: `cm = 0` -/
example : revolve 4 3 0 2 2 1 1 (some [[1]]) = .error .valueError := revolve_valueError 3 3 (by decide) 2 2 1 1 _
example : revolve 4 ((1 : Nat) : Int) ((0 : Nat) : Int) 2 2 ((1 : Nat) : Rat) ((1 : Nat) : Rat) none = .error .valueError :=
  revolve_valueError_none 3 1 1 2 2
example : revolve 4 ((3 : Nat) : Int) ((0 : Nat) : Int) 2 2 ((1 : Nat) : Rat) ((1 : Nat) : Rat) none = .error .indexError :=
  revolve_none_indexError 1 1 2 2 3 3 (by decide)

/-! ## 4. the class `Revolve`: generated builder, then generated iterator -/

/-- more fuel does not change the twin's sequence -/
theorem revolveOps_mono (t0 : Array (Array Nat)) (uf : Nat) : ∀ (fuel fuel' l cm : Nat) (ops : List Ops.Op),
    fuel ≤ fuel' → revolveOps t0 uf fuel l cm = some ops → revolveOps t0 uf fuel' l cm = some ops := by
  intro fuel
  induction fuel with
  | zero => intro fuel' l cm ops _ h; rw [revolveOps] at h; cases h
  | succ fuel ih =>
    intro fuel' l cm ops hf h
    obtain ⟨f', rfl⟩ : ∃ f', fuel' = f' + 1 := ⟨fuel' - 1, by omega⟩
    by_cases hl0 : l = 0
    · rw [revolveOps, if_pos hl0] at h ⊢; exact h
    by_cases hcm0 : cm = 0
    · rw [revolveOps, if_neg hl0, if_pos hcm0] at h; cases h
    by_cases hl1 : l = 1
    · rw [revolveOps, if_neg hl0, if_neg hcm0, if_pos hl1] at h ⊢; exact h
    by_cases hcm1 : cm = 1
    · rw [revolveOps, if_neg hl0, if_neg hcm0, if_neg hl1, if_pos hcm1] at h ⊢; exact h
    rw [revolveOps_rec t0 uf _ l cm (by omega) (by omega)] at h ⊢
    cases h1 : revolveOps t0 uf fuel (l - revJmin t0 uf l cm) (cm - 1) with
    | none => rw [h1] at h; cases h
    | some right =>
      rw [h1] at h
      cases h2 : revolveOps t0 uf fuel (revJmin t0 uf l cm - 1) cm with
      | none => rw [h2] at h; cases h
      | some left =>
        rw [h2] at h
        rw [ih f' _ _ _ (by omega) h1, ih f' _ _ _ (by omega) h2]
        exact h

theorem flatMap_length_le {α β : Type} (f : α → List β) (c : Nat) (hf : ∀ x, (f x).length ≤ c) :
    ∀ xs : List α, (xs.flatMap f).length ≤ c * xs.length
  | [] => by simp
  | x :: xs => by
    rw [List.flatMap_cons, List.length_append, List.length_cons, Nat.mul_succ]
    have := flatMap_length_le f c hf xs
    have := hf x
    omega

theorem revolveLoopBody_length (l i : Nat) : (revolveLoopBody l i).length ≤ 6 := by
  unfold revolveLoopBody
  split_ifs <;> simp

theorem removeUselessWm_length (ops : List Ops.Op) : (removeUselessWm ops).length ≤ ops.length := by
  cases ops with
  | nil => simp [removeUselessWm]
  | cons o rest =>
    simp only [removeUselessWm]
    split_ifs <;> simp

/-- the sequence of `revolve(l, cm)` has at most `8 l + 5` operations -/
theorem revolveOps_length (t0 : Array (Array Nat)) (uf : Nat) : ∀ (fuel l cm : Nat) (ops : List Ops.Op),
    revolveOps t0 uf fuel l cm = some ops → ops.length ≤ 8 * l + 5 := by
  intro fuel
  induction fuel with
  | zero => intro l cm ops h; rw [revolveOps] at h; cases h
  | succ fuel ih =>
    intro l cm ops h
    by_cases hl0 : l = 0
    · rw [revolveOps, if_pos hl0] at h; cases h; simp
    by_cases hcm0 : cm = 0
    · rw [revolveOps, if_neg hl0, if_pos hcm0] at h; cases h
    by_cases hl1 : l = 1
    · rw [revolveOps, if_neg hl0, if_neg hcm0, if_pos hl1] at h; cases h; simp; omega
    by_cases hcm1 : cm = 1
    · rw [revolveOps, if_neg hl0, if_neg hcm0, if_neg hl1, if_pos hcm1] at h
      cases h
      have := flatMap_length_le (revolveLoopBody l) 6 (revolveLoopBody_length l) (List.range l).reverse
      simp only [List.length_append, List.length_cons, List.length_nil, List.length_reverse, List.length_range] at this ⊢
      omega
    have hj := revJmin_range t0 uf l cm (by omega)
    rw [revolveOps_rec t0 uf _ l cm (by omega) (by omega)] at h
    cases h1 : revolveOps t0 uf fuel (l - revJmin t0 uf l cm) (cm - 1) with
    | none => rw [h1] at h; cases h
    | some right =>
      rw [h1] at h
      cases h2 : revolveOps t0 uf fuel (revJmin t0 uf l cm - 1) cm with
      | none => rw [h2] at h; cases h
      | some left =>
        rw [h2] at h
        cases h
        have a1 := ih _ _ _ h1
        have a2 := ih _ _ _ h2
        have a3 := removeUselessWm_length left
        simp only [List.length_append, List.length_cons, List.length_nil, shiftOps, List.length_map]
        omega

/-- `Revolve.__init__(max_n, snapshots_in_ram, uf, ub, wd, rd)` (hrevolve.py:336-338):
`schedule = list(revolve(max_n - 1, snapshots_in_ram, wd, rd, uf, ub))`, both stages as generated from the source: the
GENERATED builder `revolve`, then (`revolve_run`) the generated base-class constructor and the generated `_iterator` -/
def revolveClass_run (fuelB fuelI : Nat) (max_n snapshots_in_ram : Int) (uf ub wd rd : Rat) : M (List PyEv) := do
  let schedule ← revolve fuelB (max_n - 1) snapshots_in_ram wd rd uf ub none
  revolve_run fuelI max_n schedule

/-- the generated builder, called as the class `Revolve` calls it, returns the twin's `revolveOpsTop N cm c`
(fuel: `N`, one per step) -/
theorem revolve_builder_top (N cm : Nat) (c : Costs) (hN : 1 ≤ N) (hcm : 1 ≤ cm) (wd rd : Rat) :
    ∃ ops, revolveOpsTop N cm c = some ops ∧ ops.length ≤ 8 * N ∧ ∀ fuelB, N ≤ fuelB →
      revolve fuelB ((N : Int) - 1) (cm : Int) wd rd (c.uf : Rat) (c.ub : Rat) none = .ok (ops.map opPy) := by
  obtain ⟨ops, h⟩ := revolveOps_isSome (opt0Table (N - 1) cm c.uf c.ub) c.uf N (N - 1) cm (by omega) hcm
  have hlen := revolveOps_length _ _ _ _ _ _ h
  refine ⟨ops, h, by omega, fun fuelB hf => ?_⟩
  have e : (N : Int) - 1 = ((N - 1 : Nat) : Int) := by omega
  rw [e, revolve_refines_none c.uf c.ub wd rd fuelB (N - 1) cm (Or.inl hcm),
    revolveOps_mono _ _ N fuelB _ _ _ hf h]

/-- **Revolve: builder + iterator, both as generated from the source, yield the stream model `revolveEvs`.** -/
theorem revolveClass_run_refines (N cm : Nat) (c : Costs) (hN : 1 ≤ N) (hcm : 1 ≤ cm) (wd rd : Rat) :
    ∃ evs, revolveEvs N cm c = .ok evs ∧ ∀ fuelB fuelI, N ≤ fuelB → 8 * N + 1 ≤ fuelI →
      revolveClass_run fuelB fuelI (N : Int) (cm : Int) (c.uf : Rat) (c.ub : Rat) wd rd
        = .ok (markLast (evs.map (evPy · false))) := by
  obtain ⟨ops, hops, hlen, hb⟩ := revolve_builder_top N cm c hN hcm wd rd
  obtain ⟨ops', evs, hops', hev, hrun⟩ := revolve_iterator_revolve N cm c hN hcm
  rw [hops] at hops'
  cases hops'
  refine ⟨evs, hev, fun fuelB fuelI hB hI => ?_⟩
  unfold revolveClass_run
  rw [hb fuelB hB]
  exact (revolve_run_eq fuelI N _ hN).trans (hrun fuelI (by omega))

/-- **Revolve, the translated source, builder included**: for all valid parameters the stream of the generated builder
followed by the generated iterator is accepted by the checking executor (no violation of any tag) and complete. -/
theorem source_revolve_accepted_full (N cm : Nat) (c : Costs) (hv : validRevolve N cm c.uf c.ub = true) (k : Nat)
    (wd rd : Rat) (fuelB fuelI : Nat) (hB : N ≤ fuelB) (hI : 8 * N + 1 ≤ fuelI) :
    ∃ pevs, revolveClass_run fuelB fuelI (N : Int) (cm : Int) (c.uf : Rat) (c.ub : Rat) wd rd = .ok pevs ∧
      Accepted (cfgRevolve cm N) k (obsOfPy false N pevs) := by
  obtain ⟨hN, hcm, _, _⟩ := (validRevolve_iff _ _ _ _).1 hv
  obtain ⟨ops, hops, hlen, hb⟩ := revolve_builder_top N cm c hN hcm wd rd
  obtain ⟨ops', hops', hacc⟩ := source_revolve_accepted N cm c hv k
  rw [hops] at hops'
  cases hops'
  obtain ⟨pevs, hp, ha⟩ := hacc fuelI (by omega)
  refine ⟨pevs, ?_, ha⟩
  unfold revolveClass_run
  rw [hb fuelB hB]
  exact hp

theorem source_revolve_C01_C18_full (N cm : Nat) (c : Costs) (hv : validRevolve N cm c.uf c.ub = true)
    (wd rd : Rat) (fuelB fuelI : Nat) (hB : N ≤ fuelB) (hI : 8 * N + 1 ≤ fuelI) :
    ∃ pevs, revolveClass_run fuelB fuelI (N : Int) (cm : Int) (c.uf : Rat) (c.ub : Rat) wd rd = .ok pevs ∧
      NoViolation (cfgRevolve cm N) (obsOfPy false N pevs) ∧
      finished (cfgRevolve cm N) (run (cfgRevolve cm N) (obsOfPy false N pevs)).1 = true := by
  obtain ⟨pevs, hp, ha⟩ := source_revolve_accepted_full N cm c hv 1 wd rd fuelB fuelI hB hI
  exact ⟨pevs, hp, ha.noViolation, ha.finished rfl⟩


/-! ### non-vacuity -/

example : validRevolve 3 2 (⟨1, 1, 1, 1⟩ : Costs).uf (⟨1, 1, 1, 1⟩ : Costs).ub = true ∧ 3 ≤ 3 ∧ 8 * 3 + 1 ≤ 25 := by decide
example := revolveClass_run_refines 3 2 ⟨1, 1, 1, 1⟩ (by decide) (by decide) 2 2
example := source_revolve_accepted_full 3 2 ⟨1, 1, 1, 1⟩ (by decide) 1 2 2 3 25 (by decide) (by decide)
/-- builder and iterator evaluated, the executor's verdict decided -/
example : (match revolveClass_run 3 25 3 2 1 1 2 2 with
    | .ok pevs => decide (pevs.length = 12 ∧ (run (cfgRevolve 2 3) (obsOfPy false 3 pevs)).2 = [])
    | .error _ => false) = true := by decide +kernel

end Ckpt.Py

#print axioms Ckpt.Py.argmin_rat_refines
#print axioms Ckpt.Py.argmin_rat_spec
#print axioms Ckpt.Py.argmin_rat_empty
#print axioms Ckpt.Py.seqShift_opPy
#print axioms Ckpt.Py.seqRemoveUselessWm_opPy
#print axioms Ckpt.Py.revolve_some_refines
#print axioms Ckpt.Py.revolve_refines
#print axioms Ckpt.Py.revolve_refines_none
#print axioms Ckpt.Py.revolve_none_indexError
#print axioms Ckpt.Py.revolve_ok
#print axioms Ckpt.Py.revolve_ok_none
#print axioms Ckpt.Py.revolve_valueError
#print axioms Ckpt.Py.revolve_valueError_none
#print axioms Ckpt.Py.revolveOps_length
#print axioms Ckpt.Py.revolve_builder_top
#print axioms Ckpt.Py.revolveClass_run_refines
#print axioms Ckpt.Py.source_revolve_accepted_full
#print axioms Ckpt.Py.source_revolve_C01_C18_full
