import CkptGen.RefineTab
import CkptVerif.Properties.C07
import Mathlib.Tactic
/-!
# The Lean text generated from `get_hopt_table` (hrevolve_sequences/hrevolve.py) computes the model `hoptTable`

`hopt_run`: for all natural `lmax, c0, c1`, cost vectors `wvect = (w0, w1)`, `rvect = (r0, r1)` and `ub, uf`
(costs cast to `Rat`, `float("inf")` = `ER.inf`) the generated function returns the model's four tables
(`hoptResult`: `optp = [enc optp0, enc optp1]`, `opt = [enc opt0, enc opt1]`) if `c0 ≥ 1 ∨ lmax ≤ 1`, and raises
`IndexError` otherwise (`c0 = 0`, `lmax ≥ 2`: the write `optp[0][2][1] = …` is out of range; the model skips it).
* `get_hopt_table_refines_general`, `get_hopt_table_refines` (the library's `wvect = (0, wd)`, `rvect = (0, rd)`):
  entry by entry, `T[k][l][m] = erOf (model entry)`;
* `get_hopt_table_indexError`, `get_hopt_table_ok_iff`: the domain is exact;
* `get_hopt_table_hrevolve_cost`, `get_hopt_table_lowerBound`: the entry `opt[1][N-1][c1]` of the GENERATED table
  is the cost of the HRevolve stream minus `N·uf` (`C07_hrevolve`) and a lower bound for all accepted LIFO streams
  (`C07_hrevolve_lowerBound_partial`).

Method: the statement of each innermost loop body is written once more in `do` notation (`body1a` … `body5b`, the
text of `Src.lean` with the loop variables instantiated) and proved equal to one step of the model's fold on
encoded tables (`cell_facts`: the list operations behind `T[k][l][m]`, `T[k][l][m] = v` on `enc t`, under the
invariant `InBAll` "all cells exist"); `hopt_run` unfolds the generated function, turns every `for` loop into the
model's `foldl` with `forIn_range_sim'` (the body obligations are closed by the `body*` lemmas up to definitional
unfolding), and ends in the named stages `hBorder`, `hLevel0`, `hLevel1` of `CkptVerif/Proofs/HOpt.lean`
(`hoptTable_eq`).  `pyMin` (first minimum) against `ominList`: `pyMin_erOf` (only the value matters).  No fuel: the
function has only `for` loops.
-/

namespace Ckpt.Py
open Ckpt

abbrev T3 := List (List (List ER))

/-- a model cost (`none` = `float("inf")`) as the generated code's `ER` -/
def erOf : Option Nat → ER
  | none => .inf
  | some v => .fin (v : Rat)

def encRow (r : Array (Option Nat)) : List ER := r.toList.map erOf
def enc (t : Tab2) : List (List ER) := t.toList.map encRow
/-- `T[k][l][m]` (`inf` outside the table) -/
def tab3 (T : T3) (k l m : Nat) : ER := ((T.getD k []).getD l []).getD m ER.inf

/-! ## `ER` against `Option Nat` -/

theorem fin_add (a b : Rat) : ER.fin a + ER.fin b = ER.fin (a + b) := rfl

theorem erOf_oadd (a b : Option Nat) : erOf (oadd a b) = erOf a + erOf b := by
  cases a <;> cases b <;> try rfl
  show ER.fin _ = ER.fin _
  push_cast
  rfl

theorem erOf_lt (a b : Option Nat) : (erOf b < erOf a) ↔ olt b a = true := by
  cases a with
  | none =>
    cases b with
    | none => exact ⟨fun h => h.elim, fun h => by cases h⟩
    | some b => exact ⟨fun _ => rfl, fun _ => trivial⟩
  | some a =>
    cases b with
    | none => exact ⟨fun h => h.elim, fun h => by cases h⟩
    | some b =>
      show ((b : Rat) < (a : Rat)) ↔ decide (b < a) = true
      rw [decide_eq_true_iff, Nat.cast_lt]

theorem erOf_omin (a b : Option Nat) : erOf (omin a b) = min (erOf a) (erOf b) := by
  show erOf (if olt b a then b else a) = if erOf b < erOf a then erOf b else erOf a
  by_cases h : olt b a = true
  · rw [if_pos h, if_pos ((erOf_lt a b).2 h)]
  · rw [if_neg h, if_neg (fun h' => h ((erOf_lt a b).1 h'))]

theorem foldl_erOf (xs : List (Option Nat)) : ∀ x : Option Nat,
    (xs.map erOf).foldl (fun m y => if y < m then y else m) (erOf x) = erOf (xs.foldl omin x) := by
  induction xs with
  | nil => intro x; rfl
  | cons y ys ih =>
    intro x
    rw [List.map_cons, List.foldl_cons, List.foldl_cons, ← ih]
    congr 1
    exact (erOf_omin x y).symm

theorem pyMin_erOf (xs : List (Option Nat)) (h : xs ≠ []) :
    pyMin (xs.map erOf) = .ok (erOf (ominList xs)) := by
  cases xs with
  | nil => exact absurd rfl h
  | cons x xs =>
    show Except.ok _ = Except.ok _
    congr 1
    exact foldl_erOf xs x

/-! ## list operations on encoded tables -/

theorem pySetAt_nat {α : Type} (xs : List α) (i : Nat) (v : α) (h : i < xs.length) :
    pySetAt xs (i : Int) v = .ok (xs.set i v) := by
  unfold pySetAt
  have h1 : ¬ ((i : Int) < 0) := by omega
  simp only [h1, if_false]
  have h2 : ¬ (False ∨ (i : Int) ≥ (xs.length : Int)) := by
    rintro (h | h)
    · exact h
    · omega
  rw [if_neg h2, Int.toNat_natCast]
  rfl

theorem pyIndex_pair0 {α : Type} (a b : α) : pyIndex [a, b] (0 : Int) = .ok a := rfl
theorem pyIndex_pair1 {α : Type} (a b : α) : pyIndex [a, b] (1 : Int) = .ok b := rfl
theorem pySetAt_pair0 {α : Type} (a b x : α) : pySetAt [a, b] (0 : Int) x = .ok [x, b] := rfl
theorem pySetAt_pair1 {α : Type} (a b x : α) : pySetAt [a, b] (1 : Int) x = .ok [a, x] := rfl

/-- row `l` of a table -/
def rw2 (t : Tab2) (l : Nat) : Array (Option Nat) := t.getD l #[]

theorem rw2_of (t : Tab2) (l : Nat) (row : Array (Option Nat)) (h : t[l]? = some row) : rw2 t l = row := by
  unfold rw2
  rw [Array.getD_eq_getD_getElem?, h]
  rfl

theorem enc_set (t : Tab2) (l m : Nat) (v : Option Nat) (row : Array (Option Nat)) (h : t[l]? = some row) :
    (enc t).set l (encRow (row.setIfInBounds m v)) = enc (s2 t l m v) := by
  apply List.ext_getElem?
  intro k
  unfold enc
  rw [List.getElem?_set, List.getElem?_map, List.getElem?_map, Array.getElem?_toList, Array.getElem?_toList,
    s2_row]
  have hl : l < t.size := by
    by_contra hc
    rw [Array.getElem?_eq_none (by omega)] at h
    cases h
  by_cases hlk : l = k
  · subst hlk
    rw [if_pos rfl, if_pos rfl, h, List.length_map, Array.length_toList, if_pos hl]
    rfl
  · rw [if_neg hlk, if_neg hlk]

/-- the four list operations of `T[k][l][m] = v` / `T[k][l][m]` below the level index -/
theorem cell_facts (t : Tab2) (l m : Nat) (li mi : Int) (hli : li = (l : Int)) (hmi : mi = (m : Int))
    (h : InB2 t l m) :
    pyIndex (enc t) li = .ok (encRow (rw2 t l)) ∧
    pyIndex (encRow (rw2 t l)) mi = .ok (erOf (g2 t l m)) ∧
    ∀ v, pySetAt (encRow (rw2 t l)) mi (erOf v) = .ok (encRow ((rw2 t l).setIfInBounds m v)) ∧
      pySetAt (enc t) li (encRow ((rw2 t l).setIfInBounds m v)) = .ok (enc (s2 t l m v)) := by
  subst hli hmi
  obtain ⟨row, hr, hs⟩ := h
  rw [rw2_of t l row hr]
  have hl : l < t.size := by
    by_contra hc
    rw [Array.getElem?_eq_none (by omega)] at hr
    cases hr
  refine ⟨?_, ?_, fun v => ⟨?_, ?_⟩⟩
  · apply pyIndex_of_getElem?
    unfold enc
    rw [List.getElem?_map, Array.getElem?_toList, hr]
    rfl
  · apply pyIndex_of_getElem?
    unfold encRow
    rw [List.getElem?_map, Array.getElem?_toList, g2_eq, hr, Option.getD_some,
      Array.getElem?_eq_getElem hs]
    rfl
  · rw [pySetAt_nat _ _ _ (by unfold encRow; simpa using hs)]
    unfold encRow
    rw [Array.toList_setIfInBounds, List.map_set]
  · rw [pySetAt_nat _ _ _ (by unfold enc; simpa using hl), enc_set t l m v row hr]

/-! ## invariants and model steps -/

/-- all cells `l ≤ lmax`, `m ≤ c` of both tables exist -/
def InBAll (lmax c : Nat) (p : Tab2 × Tab2) : Prop :=
  ∀ l m, l ≤ lmax → m ≤ c → InB2 p.1 l m ∧ InB2 p.2 l m

theorem ratDiv_two (a : Rat) : ratDiv a (((2 : Int) : Int) : Rat) = .ok (a / 2) := by
  unfold ratDiv
  rw [if_neg (by norm_num)]
  simp
  rfl

/-- the two-level list `[level 0, level 1]` with `X` at level `k` and `B` at the other level -/
def lvl2 (k : Nat) (X B : List (List ER)) : T3 := if k = 0 then [X, B] else [B, X]

theorem lvl2_facts (k : Nat) (ki : Int) (hki : ki = (k : Int)) (hk : k ≤ 1) (X B : List (List ER)) :
    pyIndex (lvl2 k X B) ki = .ok X ∧ ∀ Y, pySetAt (lvl2 k X B) ki Y = .ok (lvl2 k Y B) := by
  subst hki
  have : k = 0 ∨ k = 1 := by omega
  rcases this with rfl | rfl
  · exact ⟨rfl, fun _ => rfl⟩
  · exact ⟨rfl, fun _ => rfl⟩

/-- borders, row `l = 0` -/
def step1a (ub : Nat) (p : Tab2 × Tab2) (m : Nat) : Tab2 × Tab2 :=
  (s2 p.1 0 m (some ub), s2 p.2 0 m (some ub))

/-- borders, row `l = 1` -/
def step1b (lmax w0 r0 ub uf k : Nat) (p : Tab2 × Tab2) (m : Nat) : Tab2 × Tab2 :=
  if (m = 0 ∧ k = 0) ∨ lmax < 1 then p else
  let v := uf + 2 * ub + r0
  (s2 p.1 1 m (some v), s2 p.2 1 m (some (w0 + v)))

theorem body1a (lmax c ubn kn : Nat) (ub : Rat) (k : Int) (hk : k = (kn : Int)) (hk1 : kn ≤ 1) (hub : ub = ubn)
    (B1 B2 : List (List ER)) (p : Tab2 × Tab2) (x : Nat) (hx : x ≤ c) (hin : InBAll lmax c p) :
    (do
      let mut opt : T3 := lvl2 kn (enc p.2) B1
      let mut optp : T3 := lvl2 kn (enc p.1) B2
      let m : Int := (x : Int)
      let set_1 := (ER.fin ub)
      let ix_2 : Int := k
      let ix_3 : Int := (0 : Int)
      let ix_4 : Int := m
      opt := (← pySetAt opt ix_2 (← pySetAt (← pyIndex opt ix_2) ix_3 (← pySetAt (← pyIndex (← pyIndex opt ix_2) ix_3) ix_4 set_1)))
      let set_5 := (ER.fin ub)
      let ix_6 : Int := k
      let ix_7 : Int := (0 : Int)
      let ix_8 : Int := m
      optp := (← pySetAt optp ix_6 (← pySetAt (← pyIndex optp ix_6) ix_7 (← pySetAt (← pyIndex (← pyIndex optp ix_6) ix_7) ix_8 set_5)))
      pure (ForInStep.yield (opt, optp)) : M (ForInStep (T3 × T3)))
    = .ok (.yield (lvl2 kn (enc (step1a ubn p x).2) B1, lvl2 kn (enc (step1a ubn p x).1) B2)) := by
  subst hub
  have hi1 := (hin 0 x (Nat.zero_le _) hx).1
  have hi2 := (hin 0 x (Nat.zero_le _) hx).2
  obtain ⟨a1, -, a3⟩ := cell_facts p.1 0 x 0 (x : Int) rfl rfl hi1
  obtain ⟨c1, -, c3⟩ := cell_facts p.2 0 x 0 (x : Int) rfl rfl hi2
  have hv : ER.fin (ubn : Rat) = erOf (some ubn) := rfl
  have l1 := fun X B => lvl2_facts kn k hk hk1 X B
  simp only [bind, Except.bind, pure, Except.pure, (l1 _ _).1, (l1 _ _).2, a1, c1, hv,
    (a3 _).1, (a3 _).2, (c3 _).1, (c3 _).2]
  rfl

theorem body1b (lmaxn c w0 r0 ubn ufn kn : Nat) (lmax : Int) (wvect rvect : List Rat) (ub uf : Rat) (w1 r1 : Rat)
    (k : Int) (hk : k = (kn : Int)) (hk1 : kn ≤ 1) (hlm : lmax = (lmaxn : Int))
    (hw : wvect = [(w0 : Rat), w1]) (hr : rvect = [(r0 : Rat), r1]) (hub : ub = ubn) (huf : uf = ufn)
    (B1 B2 : List (List ER)) (p : Tab2 × Tab2) (x : Nat) (hx : x ≤ c) (hin : InBAll lmaxn c p) :
    (do
      let mut opt : T3 := lvl2 kn (enc p.2) B1
      let mut optp : T3 := lvl2 kn (enc p.1) B2
      let m : Int := (x : Int)
      if (((m = (0 : Int)) ∧ (k = (0 : Int))) ∨ (lmax < (1 : Int))) then
        pure (ForInStep.yield (opt, optp))
      else do
        let set_9 := (ER.fin ((uf + ((((2 : Int) : Int) : Rat) * ub)) + (← pyIndex rvect (0 : Int))))
        let ix_10 : Int := k
        let ix_11 : Int := (1 : Int)
        let ix_12 : Int := m
        optp := (← pySetAt optp ix_10 (← pySetAt (← pyIndex optp ix_10) ix_11 (← pySetAt (← pyIndex (← pyIndex optp ix_10) ix_11) ix_12 set_9)))
        let set_13 := ((ER.fin (← pyIndex wvect (0 : Int))) + (← pyIndex (← pyIndex (← pyIndex optp k) (1 : Int)) m))
        let ix_14 : Int := k
        let ix_15 : Int := (1 : Int)
        let ix_16 : Int := m
        opt := (← pySetAt opt ix_14 (← pySetAt (← pyIndex opt ix_14) ix_15 (← pySetAt (← pyIndex (← pyIndex opt ix_14) ix_15) ix_16 set_13)))
        pure (ForInStep.yield (opt, optp)) : M (ForInStep (T3 × T3)))
    = .ok (.yield (lvl2 kn (enc (step1b lmaxn w0 r0 ubn ufn kn p x).2) B1,
        lvl2 kn (enc (step1b lmaxn w0 r0 ubn ufn kn p x).1) B2)) := by
  subst hw hr hub huf hlm hk
  unfold step1b
  by_cases hc : (x = 0 ∧ kn = 0) ∨ lmaxn < 1
  · have hc' : (((x : Int) = 0) ∧ ((kn : Int) = 0)) ∨ ((lmaxn : Int) < 1) := by omega
    simp only [if_pos hc, if_pos hc']
    rfl
  have hc' : ¬ ((((x : Int) = 0) ∧ ((kn : Int) = 0)) ∨ ((lmaxn : Int) < 1)) := by omega
  simp only [if_neg hc, if_neg hc']
  have hl1 : 1 ≤ lmaxn := by omega
  have hi1 := (hin 1 x hl1 hx).1
  have hi2 := (hin 1 x hl1 hx).2
  obtain ⟨a1, -, a3⟩ := cell_facts p.1 1 x 1 (x : Int) rfl rfl hi1
  obtain ⟨b1, b2, -⟩ := cell_facts (s2 p.1 1 x (some (ufn + 2 * ubn + r0))) 1 x 1 (x : Int) rfl rfl
    (InB2_s2 _ _ _ _ _ _ hi1)
  obtain ⟨c1, -, c3⟩ := cell_facts p.2 1 x 1 (x : Int) rfl rfl hi2
  rw [g2_s2_same _ _ _ _ hi1] at b2
  have hv : ER.fin ((ufn : Rat) + (((2 : Int) : Int) : Rat) * (ubn : Rat) + (r0 : Rat)) = erOf (some (ufn + 2 * ubn + r0)) := by
    show ER.fin _ = ER.fin _
    congr 1
    push_cast
    rfl
  have hw : ∀ v : Nat, ER.fin (w0 : Rat) + erOf (some v) = erOf (some (w0 + v)) := fun v =>
    (erOf_oadd (some w0) (some v)).symm
  have l1 := fun X B => lvl2_facts kn (kn : Int) rfl hk1 X B
  simp only [bind, Except.bind, pure, Except.pure, pyIndex_pair0, (l1 _ _).1, (l1 _ _).2, a1, hv,
    (a3 _).1, (a3 _).2, b1, b2, c1, hw, (c3 _).1, (c3 _).2]

/-- level 0, column `m = 1` -/
def step3 (w0 r0 ub uf : Nat) (p : Tab2 × Tab2) (l : Nat) : Tab2 × Tab2 :=
  let v := (l + 1) * ub + l * (l + 1) / 2 * uf + l * r0
  (s2 p.1 l 1 (some v), s2 p.2 l 1 (some (w0 + v)))

theorem body3 (lmax c0 w0 r0 ubn ufn : Nat) (wvect rvect : List Rat) (ub uf : Rat) (w1 r1 : Rat)
    (hw : wvect = [(w0 : Rat), w1]) (hr : rvect = [(r0 : Rat), r1]) (hub : ub = ubn) (huf : uf = ufn)
    (B1 B2 : List (List ER)) (p : Tab2 × Tab2) (x : Nat) (hx : x ≤ lmax) (hc0 : 1 ≤ c0)
    (hin : InBAll lmax c0 p) :
    (do
      let mut opt : T3 := [enc p.2, B1]
      let mut optp : T3 := [enc p.1, B2]
      let l : Int := (x : Int)
      let set_17 := (ER.fin ((((((l + (1 : Int)) : Int) : Rat) * ub) + ((← ratDiv (((l * (l + (1 : Int))) : Int) : Rat) (((2 : Int) : Int) : Rat)) * uf)) + (((l : Int) : Rat) * (← pyIndex rvect (0 : Int)))))
      let ix_18 : Int := (0 : Int)
      let ix_19 : Int := l
      let ix_20 : Int := (1 : Int)
      optp := (← pySetAt optp ix_18 (← pySetAt (← pyIndex optp ix_18) ix_19 (← pySetAt (← pyIndex (← pyIndex optp ix_18) ix_19) ix_20 set_17)))
      let set_21 := ((ER.fin (← pyIndex wvect (0 : Int))) + (← pyIndex (← pyIndex (← pyIndex optp (0 : Int)) l) (1 : Int)))
      let ix_22 : Int := (0 : Int)
      let ix_23 : Int := l
      let ix_24 : Int := (1 : Int)
      opt := (← pySetAt opt ix_22 (← pySetAt (← pyIndex opt ix_22) ix_23 (← pySetAt (← pyIndex (← pyIndex opt ix_22) ix_23) ix_24 set_21)))
      pure (ForInStep.yield (opt, optp)) : M (ForInStep (T3 × T3)))
    = .ok (.yield ([enc (step3 w0 r0 ubn ufn p x).2, B1], [enc (step3 w0 r0 ubn ufn p x).1, B2])) := by
  subst hw hr hub huf
  have hi1 := (hin x 1 hx hc0).1
  have hi2 := (hin x 1 hx hc0).2
  obtain ⟨a1, -, a3⟩ := cell_facts p.1 x 1 (x : Int) 1 rfl rfl hi1
  obtain ⟨b1, b2, -⟩ := cell_facts (s2 p.1 x 1 (some ((x + 1) * ubn + x * (x + 1) / 2 * ufn + x * r0))) x 1
    (x : Int) 1 rfl rfl (InB2_s2 _ _ _ _ _ _ hi1)
  obtain ⟨c1, -, c3⟩ := cell_facts p.2 x 1 (x : Int) 1 rfl rfl hi2
  rw [g2_s2_same _ _ _ _ hi1] at b2
  have hv : ER.fin ((((x : Int) + 1 : Int) : Rat) * (ubn : Rat) + (((x : Int) * ((x : Int) + 1) : Int) : Rat) / 2 * (ufn : Rat)
      + (((x : Int) : Int) : Rat) * (r0 : Rat)) = erOf (some ((x + 1) * ubn + x * (x + 1) / 2 * ufn + x * r0)) := by
    show ER.fin _ = ER.fin _
    congr 1
    have hd : (2 : Nat) ∣ x * (x + 1) := (Nat.even_mul_succ_self x).two_dvd
    have hq : ((x * (x + 1) / 2 : Nat) : Rat) = (x : Rat) * ((x : Rat) + 1) / 2 := by
      rw [Nat.cast_div hd (by norm_num)]; push_cast; rfl
    push_cast [hq]
    rfl
  have hw : ∀ v : Nat, ER.fin (w0 : Rat) + erOf (some v) = erOf (some (w0 + v)) := fun v =>
    (erOf_oadd (some w0) (some v)).symm
  simp only [bind, Except.bind, pure, Except.pure, pyIndex_pair0, pySetAt_pair0, ratDiv_two, a1, hv,
    (a3 _).1, (a3 _).2, b1, b2, c1, hw, (c3 _).1, (c3 _).2]
  rfl

/-- `range(lo, hi)` between integers, possibly empty -/
theorem pyRange_eq2 (a k : Nat) (lo hi : Int) (h1 : lo = (a : Int)) (h2 : (hi - lo).toNat = k) :
    pyRange lo hi = (List.range' a k).map (fun k : Nat => (k : Int)) := by
  subst h1
  unfold pyRange
  rw [h2, List.range'_eq_map_range, List.map_map]
  apply List.map_congr_left
  intro k _
  simp

theorem mapM_ok {α β : Type} (f : α → M β) (g : α → β) : ∀ (xs : List α), (∀ x ∈ xs, f x = .ok (g x)) →
    xs.mapM f = .ok (xs.map g) := by
  intro xs
  induction xs with
  | nil => intro _; rfl
  | cons x xs ih =>
    intro h
    rw [List.mapM_cons, h x List.mem_cons_self, ih (fun y hy => h y (List.mem_cons_of_mem _ hy))]
    rfl

theorem mapM_range_ok {β : Type} (f : Int → M β) (g : Nat → β) (a k : Nat)
    (h : ∀ j : Nat, a ≤ j → j < a + k → f (j : Int) = .ok (g j)) :
    ((List.range' a k).map (fun k : Nat => (k : Int))).mapM f = .ok ((List.range' a k).map g) := by
  rw [mapM_ok f (fun i => g i.toNat)]
  · rw [List.map_map]
    congr 1
  · intro x hx
    obtain ⟨j, hj, rfl⟩ := List.mem_map.1 hx
    rw [List.mem_range'_1] at hj
    rw [h j hj.1 hj.2, Int.toNat_natCast]

/-- level 0, columns `m ≥ 2` -/
def step4 (w0 r0 uf m : Nat) (p : Tab2 × Tab2) (l : Nat) : Tab2 × Tab2 :=
  let cands := (List.range' 1 (l - 1)).map (fun j =>
    oadd (oadd (oadd (some (j * uf)) (g2 p.2 (l - j) (m - 1))) (some r0)) (g2 p.1 (j - 1) m))
  let v := ominList (cands ++ [g2 p.1 l 1])
  (s2 p.1 l m v, s2 p.2 l m (oadd (some w0) v))

theorem fin_mul_cast (j uf : Nat) : ER.fin ((((j : Int) : Int) : Rat) * (uf : Rat)) = erOf (some (j * uf)) := by
  show ER.fin _ = ER.fin _
  congr 1
  push_cast
  rfl

theorem body4 (lmax c0 w0 r0 ufn : Nat) (wvect rvect : List Rat) (uf : Rat) (w1 r1 : Rat)
    (hw : wvect = [(w0 : Rat), w1]) (hr : rvect = [(r0 : Rat), r1]) (huf : uf = ufn)
    (B1 B2 : List (List ER)) (p : Tab2 × Tab2) (x y : Nat) (h2 : 2 ≤ x) (hx : x ≤ lmax) (hy2 : 2 ≤ y) (hy : y ≤ c0)
    (hin : InBAll lmax c0 p) :
    (do
      let mut opt : T3 := lvl2 0 (enc p.2) B1
      let mut optp : T3 := lvl2 0 (enc p.1) B2
      let l : Int := (x : Int)
      let m : Int := (y : Int)
      let set_25 := (← pyMin ((← (pyRange (1 : Int) l).mapM (fun j => do pure ((((ER.fin (((j : Int) : Rat) * uf)) + (← pyIndex (← pyIndex (← pyIndex opt (0 : Int)) (l - j)) (m - (1 : Int)))) + (ER.fin (← pyIndex rvect (0 : Int)))) + (← pyIndex (← pyIndex (← pyIndex optp (0 : Int)) (j - (1 : Int))) m)))) ++ [(← pyIndex (← pyIndex (← pyIndex optp (0 : Int)) l) (1 : Int))]))
      let ix_26 : Int := (0 : Int)
      let ix_27 : Int := l
      let ix_28 : Int := m
      optp := (← pySetAt optp ix_26 (← pySetAt (← pyIndex optp ix_26) ix_27 (← pySetAt (← pyIndex (← pyIndex optp ix_26) ix_27) ix_28 set_25)))
      let set_29 := ((ER.fin (← pyIndex wvect (0 : Int))) + (← pyIndex (← pyIndex (← pyIndex optp (0 : Int)) l) m))
      let ix_30 : Int := (0 : Int)
      let ix_31 : Int := l
      let ix_32 : Int := m
      opt := (← pySetAt opt ix_30 (← pySetAt (← pyIndex opt ix_30) ix_31 (← pySetAt (← pyIndex (← pyIndex opt ix_30) ix_31) ix_32 set_29)))
      pure (ForInStep.yield (opt, optp)) : M (ForInStep (T3 × T3)))
    = .ok (.yield (lvl2 0 (enc (step4 w0 r0 ufn y p x).2) B1, lvl2 0 (enc (step4 w0 r0 ufn y p x).1) B2)) := by
  subst hw hr huf
  have e0 : ∀ X B, lvl2 0 X B = [X, B] := fun _ _ => rfl
  simp only [e0, bind, Except.bind, pure, Except.pure, pyIndex_pair0, pySetAt_pair0]
  rw [pyRange_eq2 1 (x - 1) 1 (x : Int) rfl (by omega),
    mapM_range_ok _ (fun j => erOf (oadd (oadd (oadd (some (j * ufn)) (g2 p.2 (x - j) (y - 1))) (some r0))
      (g2 p.1 (j - 1) y))) 1 (x - 1)]
  swap
  · intro j hj1 hj2
    obtain ⟨a1, a2, -⟩ := cell_facts p.2 (x - j) (y - 1) ((x : Int) - (j : Int)) ((y : Int) - 1) (by omega) (by omega)
      (hin (x - j) (y - 1) (by omega) (by omega)).2
    obtain ⟨b1, b2, -⟩ := cell_facts p.1 (j - 1) y ((j : Int) - 1) (y : Int) (by omega) rfl
      (hin (j - 1) y (by omega) hy).1
    simp only [a1, a2, b1, b2, erOf_oadd, fin_mul_cast]
    rfl
  have hi1 := (hin x 1 hx (by omega)).1
  have hiy1 := (hin x y hx hy).1
  have hiy2 := (hin x y hx hy).2
  obtain ⟨a1, a2, -⟩ := cell_facts p.1 x 1 (x : Int) 1 rfl rfl hi1
  obtain ⟨-, -, a3⟩ := cell_facts p.1 x y (x : Int) (y : Int) rfl rfl hiy1
  obtain ⟨c1, -, c3⟩ := cell_facts p.2 x y (x : Int) (y : Int) rfl rfl hiy2
  have hl : ∀ (cand : Nat → Option Nat) (v : Option Nat),
      List.map (fun j => erOf (cand j)) (List.range' 1 (x - 1)) ++ [erOf v] =
        ((List.range' 1 (x - 1)).map cand ++ [v]).map erOf := by
    intro cand v
    rw [List.map_append, List.map_map]
    rfl
  have hw : ∀ v : Option Nat, ER.fin (w0 : Rat) + erOf v = erOf (oadd (some w0) v) := fun v =>
    (erOf_oadd (some w0) v).symm
  simp only [a1, a2, hl, pyMin_erOf _ (List.append_ne_nil_of_right_ne_nil _ (List.cons_ne_nil _ _)), (a3 _).1, (a3 _).2]
  obtain ⟨b1, b2, -⟩ := cell_facts (step4 w0 r0 ufn y p x).1 x y (x : Int) (y : Int) rfl rfl (InB2_s2 _ _ _ _ _ _ hiy1)
  have hg : g2 (step4 w0 r0 ufn y p x).1 x y = _ := g2_s2_same _ _ _ _ hiy1
  rw [hg] at b2
  simp only [step4] at b1 b2
  simp only [b1, b2, c1, hw, (c3 _).1, (c3 _).2]
  rfl

/-- `T[k-1]`, `T[k]`, `T[k] = X` for `k = 1` -/
theorem one_facts (k : Int) (hk : k = ((1 : Nat) : Int)) :
    (∀ {α : Type} (a b : α), pyIndex [a, b] (k - 1) = .ok a) ∧ (∀ {α : Type} (a b : α), pyIndex [a, b] k = .ok b) ∧
      (∀ {α : Type} (a b x : α), pySetAt [a, b] k x = .ok [a, x]) := by
  subst hk
  exact ⟨fun _ _ => rfl, fun _ _ => rfl, fun _ _ _ => rfl⟩

theorem body5a (c0 c1 : Nat) (cvect : List Int) (k : Int) (hk : k = ((1 : Nat) : Int))
    (hcv : cvect = [(c0 : Int), (c1 : Int)]) (o0 t : Tab2) (x : Nat)
    (hin0 : InB2 o0 x c0) (hin : InB2 t x 0) :
    (do
      let mut opt : T3 := [enc o0, enc t]
      let l : Int := (x : Int)
      let set_33 := (← pyIndex (← pyIndex (← pyIndex opt (k - (1 : Int))) l) (← pyIndex cvect (k - (1 : Int))))
      let ix_34 : Int := k
      let ix_35 : Int := l
      let ix_36 : Int := (0 : Int)
      opt := (← pySetAt opt ix_34 (← pySetAt (← pyIndex opt ix_34) ix_35 (← pySetAt (← pyIndex (← pyIndex opt ix_34) ix_35) ix_36 set_33)))
      pure (ForInStep.yield opt) : M (ForInStep T3))
    = .ok (.yield [enc o0, enc (s2 t x 0 (g2 o0 x c0))]) := by
  subst hcv
  obtain ⟨k1, k2, k3⟩ := one_facts k hk
  obtain ⟨a1, a2, -⟩ := cell_facts o0 x c0 (x : Int) (c0 : Int) rfl rfl hin0
  obtain ⟨c1, -, c3⟩ := cell_facts t x 0 (x : Int) 0 rfl rfl hin
  simp only [bind, Except.bind, pure, Except.pure, k1, k2, k3, a1, a2, c1, (c3 _).1, (c3 _).2]

theorem body5b (lmax c0 c1 w0 w1 r0 r1 ufn : Nat) (cvect : List Int) (wvect rvect : List Rat) (uf : Rat) (k : Int)
    (hk : k = ((1 : Nat) : Int)) (hcv : cvect = [(c0 : Int), (c1 : Int)])
    (hw : wvect = [(w0 : Rat), (w1 : Rat)]) (hr : rvect = [(r0 : Rat), (r1 : Rat)]) (huf : uf = ufn)
    (o0 : Tab2) (B2 : List (List ER)) (p : Tab2 × Tab2) (x y : Nat) (h1 : 1 ≤ x) (hx : x ≤ lmax) (hy1 : 1 ≤ y) (hy : y ≤ c1)
    (hin0 : InB2 o0 x c0) (hin : InBAll lmax c1 p) :
    (do
      let mut opt : T3 := lvl2 1 (enc p.2) (enc o0)
      let mut optp : T3 := lvl2 1 (enc p.1) B2
      let l : Int := (x : Int)
      let m : Int := (y : Int)
      let set_37 := (← pyMin ([(← pyIndex (← pyIndex (← pyIndex opt (k - (1 : Int))) l) (← pyIndex cvect (k - (1 : Int))))] ++ (← (pyRange (1 : Int) l).mapM (fun j => do pure ((((ER.fin (((j : Int) : Rat) * uf)) + (← pyIndex (← pyIndex (← pyIndex opt k) (l - j)) (m - (1 : Int)))) + (ER.fin (← pyIndex rvect k))) + (← pyIndex (← pyIndex (← pyIndex optp k) (j - (1 : Int))) m))))))
      let ix_38 : Int := k
      let ix_39 : Int := l
      let ix_40 : Int := m
      optp := (← pySetAt optp ix_38 (← pySetAt (← pyIndex optp ix_38) ix_39 (← pySetAt (← pyIndex (← pyIndex optp ix_38) ix_39) ix_40 set_37)))
      let set_41 := (min (← pyIndex (← pyIndex (← pyIndex opt (k - (1 : Int))) l) (← pyIndex cvect (k - (1 : Int)))) ((ER.fin (← pyIndex wvect k)) + (← pyIndex (← pyIndex (← pyIndex optp k) l) m)))
      let ix_42 : Int := k
      let ix_43 : Int := l
      let ix_44 : Int := m
      opt := (← pySetAt opt ix_42 (← pySetAt (← pyIndex opt ix_42) ix_43 (← pySetAt (← pyIndex (← pyIndex opt ix_42) ix_43) ix_44 set_41)))
      pure (ForInStep.yield (opt, optp)) : M (ForInStep (T3 × T3)))
    = .ok (.yield (lvl2 1 (enc (h1Step c0 w1 r1 ufn o0 p y x).2) (enc o0),
        lvl2 1 (enc (h1Step c0 w1 r1 ufn o0 p y x).1) B2)) := by
  subst hcv hw hr huf
  obtain ⟨k1, k2, k3⟩ := one_facts k hk
  have e1 : ∀ X B, lvl2 1 X B = [B, X] := fun _ _ => rfl
  obtain ⟨z1, z2, -⟩ := cell_facts o0 x c0 (x : Int) (c0 : Int) rfl rfl hin0
  simp only [e1, bind, Except.bind, pure, Except.pure, k1, k2, k3, z1, z2]
  rw [pyRange_eq2 1 (x - 1) 1 (x : Int) rfl (by omega),
    mapM_range_ok _ (fun j => erOf (oadd (oadd (oadd (some (j * ufn)) (g2 p.2 (x - j) (y - 1))) (some r1))
      (g2 p.1 (j - 1) y))) 1 (x - 1)]
  swap
  · intro j hj1 hj2
    obtain ⟨a1, a2, -⟩ := cell_facts p.2 (x - j) (y - 1) ((x : Int) - (j : Int)) ((y : Int) - 1) (by omega) (by omega)
      (hin (x - j) (y - 1) (by omega) (by omega)).2
    obtain ⟨b1, b2, -⟩ := cell_facts p.1 (j - 1) y ((j : Int) - 1) (y : Int) (by omega) rfl
      (hin (j - 1) y (by omega) hy).1
    simp only [a1, a2, b1, b2, erOf_oadd, fin_mul_cast]
    rfl
  have hiy1 := (hin x y hx hy).1
  have hiy2 := (hin x y hx hy).2
  obtain ⟨a1, -, a3⟩ := cell_facts p.1 x y (x : Int) (y : Int) rfl rfl hiy1
  obtain ⟨c1, -, c3⟩ := cell_facts p.2 x y (x : Int) (y : Int) rfl rfl hiy2
  have hl : ∀ (cand : Nat → Option Nat) (v : Option Nat),
      [erOf v] ++ List.map (fun j => erOf (cand j)) (List.range' 1 (x - 1)) =
        ([v] ++ (List.range' 1 (x - 1)).map cand).map erOf := by
    intro cand v
    rw [List.map_append, List.map_map]
    rfl
  have hw : ∀ v : Option Nat, ER.fin (w1 : Rat) + erOf v = erOf (oadd (some w1) v) := fun v =>
    (erOf_oadd (some w1) v).symm
  simp only [hl, pyMin_erOf _ (List.append_ne_nil_of_left_ne_nil (List.cons_ne_nil _ _) _), a1, (a3 _).1, (a3 _).2]
  obtain ⟨b1, b2, -⟩ := cell_facts (h1Step c0 w1 r1 ufn o0 p y x).1 x y (x : Int) (y : Int) rfl rfl
    (InB2_s2 _ _ _ _ _ _ hiy1)
  have hg : g2 (h1Step c0 w1 r1 ufn o0 p y x).1 x y = _ := g2_s2_same _ _ _ _ hiy1
  rw [hg] at b2
  simp only [h1Step, h1Val, h1Cands] at b1 b2
  simp only [b1, b2, c1, hw, ← erOf_omin, (c3 _).1, (c3 _).2]
  rfl

/-! ## the main simulation -/

theorem enc_hBlank (lmax c : Nat) :
    enc (hBlank lmax c) = List.replicate (lmax + 1) (List.replicate (c + 1) ER.inf) := by
  simp [enc, encRow, hBlank, erOf]

theorem init_ok (lmax c0 c1 : Nat) :
    List.mapM (fun i => List.mapM (fun _ => do
        pure (List.replicate (((← pyIndex [(c0 : Int), (c1 : Int)] i) + (1 : Int))).toNat ER.inf))
        (pyRange (0 : Int) ((lmax : Int) + 1))) (pyRange 0 (([(c0 : Int), (c1 : Int)].length : Nat) : Int))
      = .ok [enc (hBlank lmax c0), enc (hBlank lmax c1)] := by
  have e : pyRange 0 (([(c0 : Int), (c1 : Int)].length : Nat) : Int) = [0, 1] := rfl
  rw [e, List.mapM_cons, List.mapM_cons, List.mapM_nil]
  have hrow : ∀ c : Nat, List.mapM (fun _ => (Except.ok (List.replicate ((c : Int) + 1).toNat ER.inf) : M (List ER)))
      (pyRange (0 : Int) ((lmax : Int) + 1)) = .ok (enc (hBlank lmax c)) := by
    intro c
    rw [mapM_ok _ (fun _ => List.replicate ((c : Int) + 1).toNat ER.inf) _ (fun _ _ => rfl), enc_hBlank]
    have e1 : ((c : Int) + 1).toNat = c + 1 := by omega
    have e2 : (pyRange (0 : Int) ((lmax : Int) + 1)).length = lmax + 1 := by
      unfold pyRange; simp
    rw [e1, List.map_const', e2]
  simp only [bind, Except.bind, pure, Except.pure, pyIndex_pair0, pyIndex_pair1, hrow]

theorem ok_bind {α β : Type} (a : α) (f : α → M β) : ((Except.ok a : M α) >>= f) = f a := rfl

/-- the state of the generated loops: `(opt, optp)` with the model's pair `(optp_k, opt_k)` at level `k` -/
def R2 (k : Nat) (B1 B2 : List (List ER)) (p : Tab2 × Tab2) : T3 × T3 :=
  (lvl2 k (enc p.2) B1, lvl2 k (enc p.1) B2)

theorem R2_zero (a b : Tab2) (B1 B2 : List (List ER)) :
    (([enc a, B1], [enc b, B2]) : T3 × T3) = R2 0 B1 B2 (b, a) := rfl

theorem R2_one (a b : Tab2) (B1 B2 : List (List ER)) :
    (([B1, enc a], [B2, enc b]) : T3 × T3) = R2 1 B1 B2 (b, a) := rfl

theorem R2_swap (a b : Tab2) (p : Tab2 × Tab2) :
    R2 0 (enc a) (enc b) p = R2 1 (enc p.2) (enc p.1) (b, a) := rfl

theorem InBAll_s2 (lmax c : Nat) (p : Tab2 × Tab2) (hin : InBAll lmax c p) (a b a' b' : Nat) (v v' : Option Nat) :
    InBAll lmax c (s2 p.1 a b v, s2 p.2 a' b' v') :=
  fun l m h1 h2 => ⟨InB2_s2 _ _ _ _ _ _ (hin l m h1 h2).1, InB2_s2 _ _ _ _ _ _ (hin l m h1 h2).2⟩

theorem InBAll_hBlank (lmax c : Nat) : InBAll lmax c (hBlank lmax c, hBlank lmax c) :=
  fun l m h1 h2 => ⟨InB2_hBlank lmax c l m h1 h2, InB2_hBlank lmax c l m h1 h2⟩

theorem InBAll_step1b (lmax c w0 r0 ub uf k : Nat) (p : Tab2 × Tab2) (hin : InBAll lmax c p) (m : Nat) :
    InBAll lmax c (step1b lmax w0 r0 ub uf k p m) := by
  unfold step1b
  split
  · exact hin
  · exact InBAll_s2 lmax c p hin _ _ _ _ _ _

/-- what `get_hopt_table` returns on the domain on which it does not raise: the model's four tables -/
def hoptResult (lmax c0 c1 w0 w1 r0 r1 ub uf : Nat) : T3 × T3 :=
  ([enc (hLevel0 lmax c0 w0 r0 ub uf).1,
    enc (hLevel1 lmax c0 c1 w1 r1 uf (hLevel0 lmax c0 w0 r0 ub uf).2
      (hBorder lmax w0 r0 ub uf 1 c1 (hBlank lmax c1) (hBlank lmax c1))).1],
   [enc (hLevel0 lmax c0 w0 r0 ub uf).2,
    enc (hLevel1 lmax c0 c1 w1 r1 uf (hLevel0 lmax c0 w0 r0 ub uf).2
      (hBorder lmax w0 r0 ub uf 1 c1 (hBlank lmax c1) (hBlank lmax c1))).2])

theorem hBorder_shape (lmax w0 r0 ub uf k c : Nat) :
    RC.Shape lmax c (hBorder lmax w0 r0 ub uf k c (hBlank lmax c) (hBlank lmax c)).1 := by
  unfold hBorder
  apply foldl_inv (fun p : Tab2 × Tab2 => RC.Shape lmax c p.1)
  · intro s m _ hs
    show RC.Shape lmax c (if (m = 0 ∧ k = 0) ∨ lmax < 1 then s else _).1
    split
    · exact hs
    · exact RC.Shape.s2 hs _ _ _
  · apply foldl_inv (fun p : Tab2 × Tab2 => RC.Shape lmax c p.1)
    · intro s m _ hs
      exact RC.Shape.s2 hs _ _ _
    · exact RC.hBlank_shape lmax c

theorem err_bind2 {α β γ : Type} (x : M α) (e : PyErr) (hx : x = .error e) (f : α → M β) (g : β → M γ) :
    ((x >>= f) >>= g) = .error e := by
  subst hx; rfl

theorem pyRange_cons (a b : Int) (h : a < b) : pyRange a b = a :: pyRange (a + 1) b := by
  unfold pyRange
  have e : (b - a).toNat = (b - (a + 1)).toNat + 1 := by omega
  rw [e, List.range_succ_eq_map, List.map_cons, List.map_map]
  congr 1
  · simp
  · apply List.map_congr_left
    intro k _
    simp only [Function.comp]
    push_cast
    ring

theorem pySetAt_oob {α : Type} (xs : List α) (i : Nat) (v : α) (h : xs.length ≤ i) :
    pySetAt xs (i : Int) v = .error .indexError := by
  unfold pySetAt
  have h1 : ¬ ((i : Int) < 0) := by omega
  simp only [h1, if_false]
  have h2 : (False ∨ (i : Int) ≥ (xs.length : Int)) := Or.inr (by omega)
  rw [if_pos h2]
  rfl

/-- `c0 = 0`: `optp[0][l][1] = …` is out of range -/
theorem body3_fail (lmax w0 r0 ubn ufn : Nat) (wvect rvect : List Rat) (ub uf : Rat) (w1 r1 : Rat)
    (hw : wvect = [(w0 : Rat), w1]) (hr : rvect = [(r0 : Rat), r1]) (hub : ub = ubn) (huf : uf = ufn)
    (B1 B2 : List (List ER)) (p : Tab2 × Tab2) (x : Nat) (hx : x ≤ lmax)
    (hin : InBAll lmax 0 p) (hs : RC.Shape lmax 0 p.1) :
    (do
      let mut opt : T3 := [enc p.2, B1]
      let mut optp : T3 := [enc p.1, B2]
      let l : Int := (x : Int)
      let set_17 := (ER.fin ((((((l + (1 : Int)) : Int) : Rat) * ub) + ((← ratDiv (((l * (l + (1 : Int))) : Int) : Rat) (((2 : Int) : Int) : Rat)) * uf)) + (((l : Int) : Rat) * (← pyIndex rvect (0 : Int)))))
      let ix_18 : Int := (0 : Int)
      let ix_19 : Int := l
      let ix_20 : Int := (1 : Int)
      optp := (← pySetAt optp ix_18 (← pySetAt (← pyIndex optp ix_18) ix_19 (← pySetAt (← pyIndex (← pyIndex optp ix_18) ix_19) ix_20 set_17)))
      let set_21 := ((ER.fin (← pyIndex wvect (0 : Int))) + (← pyIndex (← pyIndex (← pyIndex optp (0 : Int)) l) (1 : Int)))
      let ix_22 : Int := (0 : Int)
      let ix_23 : Int := l
      let ix_24 : Int := (1 : Int)
      opt := (← pySetAt opt ix_22 (← pySetAt (← pyIndex opt ix_22) ix_23 (← pySetAt (← pyIndex (← pyIndex opt ix_22) ix_23) ix_24 set_21)))
      pure (ForInStep.yield (opt, optp)) : M (ForInStep (T3 × T3)))
    = .error .indexError := by
  subst hw hr hub huf
  have hi1 := (hin x 0 hx (le_refl _)).1
  obtain ⟨a1, -, -⟩ := cell_facts p.1 x 0 (x : Int) 0 rfl rfl hi1
  obtain ⟨row, hr, -⟩ := hi1
  have hsz : (rw2 p.1 x).size = 1 := by rw [rw2_of _ _ _ hr]; exact hs.2 x row hr
  have a2 : ∀ v, pySetAt (encRow (rw2 p.1 x)) (1 : Int) v = .error .indexError := fun v =>
    pySetAt_oob _ 1 v (by unfold encRow; simp [hsz])
  simp only [bind, Except.bind, pyIndex_pair0, ratDiv_two, a1, a2]

theorem hopt_run (lmax c0 c1 w0 w1 r0 r1 ub uf : Nat) :
    get_hopt_table lmax [c0, c1] [(w0 : Rat), (w1 : Rat)] [(r0 : Rat), (r1 : Rat)] ub uf =
      if 1 ≤ c0 ∨ lmax ≤ 1 then .ok (hoptResult lmax c0 c1 w0 w1 r0 r1 ub uf) else .error .indexError := by
  unfold get_hopt_table
  have hK : ¬ ¬ ((([(w0 : Rat), (w1 : Rat)].length : Nat) : Int) = (([(r0 : Rat), (r1 : Rat)].length : Nat) : Int) ∧
      (([(r0 : Rat), (r1 : Rat)].length : Nat) : Int) = (([(c0 : Int), (c1 : Int)].length : Nat) : Int)) := by
    simp
  obtain ⟨z, hz⟩ : ∃ z : Int, z = ((0 : Nat) : Int) := ⟨_, rfl⟩
  obtain ⟨o, ho⟩ : ∃ o : Int, o = ((1 : Nat) : Int) := ⟨_, rfl⟩
  have eK : pyRange 0 (([(c0 : Int), (c1 : Int)].length : Nat) : Int) = [z, o] := by rw [hz, ho]; rfl
  have hcz : pyIndex [(c0 : Int), (c1 : Int)] z = .ok (c0 : Int) := by rw [hz]; rfl
  have hco : pyIndex [(c0 : Int), (c1 : Int)] o = .ok (c1 : Int) := by rw [ho]; rfl
  simp only [if_neg hK]
  rw [init_ok, ok_bind, ok_bind, eK, List.forIn_cons]
  rw [hcz, ok_bind]
  -- k = 0, row 0
  rw [R2_zero, forIn_range_sim' (R2 0 (enc (hBlank lmax c1)) (enc (hBlank lmax c1))) (step1a ub)
    (fun _ t => InBAll lmax c0 t) (c0 + 1) 0 (hBlank lmax c0, hBlank lmax c0) _ _ _
    (pyRange_eq 0 (c0 + 1) _ _ (by simp) (by push_cast; ring)) rfl (InBAll_hBlank lmax c0)]
  swap
  · intro x t _ hx hq
    exact ⟨body1a lmax c0 ub 0 ub z hz (by omega) rfl _ _ t x (by omega) hq, InBAll_s2 lmax c0 t hq _ _ _ _ _ _⟩
  rw [ok_bind, Prod.mk.eta]
  have hq1 : InBAll lmax c0 (List.foldl (step1a ub) (hBlank lmax c0, hBlank lmax c0) (List.range' 0 (c0 + 1))) :=
    foldl_inv (InBAll lmax c0) _ _ (fun s m _ hs => InBAll_s2 lmax c0 s hs _ _ _ _ _ _) _ (InBAll_hBlank lmax c0)
  -- k = 0, row 1
  rw [forIn_range_sim' (R2 0 (enc (hBlank lmax c1)) (enc (hBlank lmax c1))) (step1b lmax w0 r0 ub uf 0)
    (fun _ t => InBAll lmax c0 t) (c0 + 1) 0 _ _ _ _
    (pyRange_eq 0 (c0 + 1) _ _ (by simp) (by push_cast; ring)) rfl hq1]
  swap
  · intro x t _ hx hq
    exact ⟨body1b lmax c0 w0 r0 ub uf 0 lmax _ _ ub uf w1 r1 z hz (by omega) rfl rfl rfl rfl rfl _ _ t x (by omega) hq,
      InBAll_step1b lmax c0 w0 r0 ub uf 0 t hq x⟩
  rw [ok_bind, Prod.mk.eta, pure_bind]
  simp only []
  have hb0 : List.foldl (step1b lmax w0 r0 ub uf 0)
      (List.foldl (step1a ub) (hBlank lmax c0, hBlank lmax c0) (List.range' 0 (c0 + 1))) (List.range' 0 (c0 + 1))
      = hBorder lmax w0 r0 ub uf 0 c0 (hBlank lmax c0) (hBlank lmax c0) := by
    unfold hBorder; rw [List.range_eq_range']; rfl
  have hq2 : InBAll lmax c0 (hBorder lmax w0 r0 ub uf 0 c0 (hBlank lmax c0) (hBlank lmax c0)) := by
    rw [← hb0]
    exact foldl_inv (InBAll lmax c0) _ _ (fun s m _ hs => InBAll_step1b lmax c0 w0 r0 ub uf 0 s hs m) _ hq1
  rw [hb0]
  have hs0 := hBorder_shape lmax w0 r0 ub uf 0 c0
  generalize hb0' : hBorder lmax w0 r0 ub uf 0 c0 (hBlank lmax c0) (hBlank lmax c0) = b0 at hq2 hs0 ⊢
  clear hb0 hq1
  -- k = 1
  rw [R2_swap, List.forIn_cons]
  rw [hco, ok_bind]
  rw [forIn_range_sim' (R2 1 (enc b0.2) (enc b0.1)) (step1a ub)
    (fun _ t => InBAll lmax c1 t) (c1 + 1) 0 (hBlank lmax c1, hBlank lmax c1) _ _ _
    (pyRange_eq 0 (c1 + 1) _ _ (by simp) (by push_cast; ring)) (by rw [Prod.mk.eta]) (InBAll_hBlank lmax c1)]
  swap
  · intro x t _ hx hq
    exact ⟨body1a lmax c1 ub 1 ub o ho (by omega) rfl _ _ t x (by omega) hq, InBAll_s2 lmax c1 t hq _ _ _ _ _ _⟩
  rw [ok_bind, Prod.mk.eta]
  have hq1 : InBAll lmax c1 (List.foldl (step1a ub) (hBlank lmax c1, hBlank lmax c1) (List.range' 0 (c1 + 1))) :=
    foldl_inv (InBAll lmax c1) _ _ (fun s m _ hs => InBAll_s2 lmax c1 s hs _ _ _ _ _ _) _ (InBAll_hBlank lmax c1)
  rw [forIn_range_sim' (R2 1 (enc b0.2) (enc b0.1)) (step1b lmax w0 r0 ub uf 1)
    (fun _ t => InBAll lmax c1 t) (c1 + 1) 0 _ _ _ _
    (pyRange_eq 0 (c1 + 1) _ _ (by simp) (by push_cast; ring)) rfl hq1]
  swap
  · intro x t _ hx hq
    exact ⟨body1b lmax c1 w0 r0 ub uf 1 lmax _ _ ub uf w1 r1 o ho (by omega) rfl rfl rfl rfl rfl _ _ t x (by omega) hq,
      InBAll_step1b lmax c1 w0 r0 ub uf 1 t hq x⟩
  rw [ok_bind, Prod.mk.eta, pure_bind]
  simp only []
  have hb1 : List.foldl (step1b lmax w0 r0 ub uf 1)
      (List.foldl (step1a ub) (hBlank lmax c1, hBlank lmax c1) (List.range' 0 (c1 + 1))) (List.range' 0 (c1 + 1))
      = hBorder lmax w0 r0 ub uf 1 c1 (hBlank lmax c1) (hBlank lmax c1) := by
    unfold hBorder; rw [List.range_eq_range']; rfl
  have hq3 : InBAll lmax c1 (hBorder lmax w0 r0 ub uf 1 c1 (hBlank lmax c1) (hBlank lmax c1)) := by
    rw [← hb1]
    exact foldl_inv (InBAll lmax c1) _ _ (fun s m _ hs => InBAll_step1b lmax c1 w0 r0 ub uf 1 s hs m) _ hq1
  rw [hb1, List.forIn_nil, pure_bind]
  generalize hb1' : hBorder lmax w0 r0 ub uf 1 c1 (hBlank lmax c1) (hBlank lmax c1) = b1 at hq3 ⊢
  clear hb1 hq1
  rw [pyIndex_pair0 (c0 : Int) (c1 : Int), ok_bind, ← R2_swap]
  by_cases h : 1 ≤ c0 ∨ lmax ≤ 1
  swap
  · -- `c0 = 0`, `lmax ≥ 2`: the first write of the `m = 1` column fails
    have hc0 : c0 = 0 := by omega
    subst hc0
    rw [if_neg h, pyRange_cons 2 ((lmax : Int) + 1) (by omega), List.forIn_cons, Prod.mk.eta]
    have hf := body3_fail lmax w0 r0 ub uf _ _ ub uf w1 r1 rfl rfl rfl rfl (enc b1.2) (enc b1.1) b0 2 (by omega) hq2 hs0
    have e2 : ((2 : Nat) : Int) = 2 := rfl
    rw [e2] at hf
    exact err_bind2 _ _ hf _ _
  rw [if_pos h]
  unfold hoptResult
  rw [hb1']
  -- level 0, m = 1
  rw [Prod.mk.eta, forIn_range_sim' (R2 0 (enc b1.2) (enc b1.1)) (step3 w0 r0 ub uf)
    (fun _ t => InBAll lmax c0 t) (lmax - 1) 2 b0 _ _ _
    (pyRange_eq2 2 (lmax - 1) 2 ((lmax : Int) + 1) rfl (by omega)) rfl hq2]
  swap
  · intro x t hx1 hx2 hq
    exact ⟨body3 lmax c0 w0 r0 ub uf _ _ ub uf w1 r1 rfl rfl rfl rfl _ _ t x (by omega) (by omega) hq,
      InBAll_s2 lmax c0 t hq _ _ _ _ _ _⟩
  rw [ok_bind, Prod.mk.eta]
  have hq4 : InBAll lmax c0 (List.foldl (step3 w0 r0 ub uf) b0 (List.range' 2 (lmax - 1))) :=
    foldl_inv (InBAll lmax c0) _ _ (fun s m _ hs => InBAll_s2 lmax c0 s hs _ _ _ _ _ _) _ hq2
  -- level 0, m ≥ 2
  rw [forIn_range_sim' (R2 0 (enc b1.2) (enc b1.1))
    (fun p m => (List.range' 2 (lmax - 1)).foldl (step4 w0 r0 uf m) p)
    (fun _ t => InBAll lmax c0 t) (c0 - 1) 2 _ _ _ _
    (pyRange_eq2 2 (c0 - 1) 2 ((c0 : Int) + 1) rfl (by omega)) rfl hq4]
  swap
  · intro y t hy1 hy2 hq
    refine ⟨?_, foldl_inv (InBAll lmax c0) _ _ (fun s m _ hs => InBAll_s2 lmax c0 s hs _ _ _ _ _ _) _ hq⟩
    rw [Prod.mk.eta, forIn_range_sim' (R2 0 (enc b1.2) (enc b1.1)) (step4 w0 r0 uf y)
      (fun _ t => InBAll lmax c0 t) (lmax - 1) 2 t _ _ _
      (pyRange_eq2 2 (lmax - 1) 2 ((lmax : Int) + 1) rfl (by omega)) rfl hq]
    swap
    · intro x t' hx1 hx2 hq'
      exact ⟨body4 lmax c0 w0 r0 uf _ _ uf w1 r1 rfl rfl rfl _ _ t' x y hx1 (by omega) hy1 (by omega) hq',
        InBAll_s2 lmax c0 t' hq' _ _ _ _ _ _⟩
    rw [ok_bind, Prod.mk.eta]
    rfl
  rw [ok_bind]
  have hL0 : List.foldl (fun p m => (List.range' 2 (lmax - 1)).foldl (step4 w0 r0 uf m) p)
      (List.foldl (step3 w0 r0 ub uf) b0 (List.range' 2 (lmax - 1))) (List.range' 2 (c0 - 1))
      = hLevel0 lmax c0 w0 r0 ub uf := by
    rw [← hb0']; rfl
  have hq5 : InBAll lmax c0 (hLevel0 lmax c0 w0 r0 ub uf) := by
    rw [← hL0]
    exact foldl_inv (InBAll lmax c0) _ _ (fun s m _ hs =>
      foldl_inv (InBAll lmax c0) _ _ (fun s m _ hs => InBAll_s2 lmax c0 s hs _ _ _ _ _ _) _ hs) _ hq4
  rw [hL0]
  generalize hLevel0 lmax c0 w0 r0 ub uf = L0 at hq5 ⊢
  clear hL0 hq4
  -- level 1
  have e5 : pyRange 1 (([(c0 : Int), (c1 : Int)].length : Nat) : Int) = [o] := by rw [ho]; rfl
  rw [e5, List.forIn_cons, hco, ok_bind,
    show R2 0 (enc b1.2) (enc b1.1) L0 = ([enc L0.2, enc b1.2], [enc L0.1, enc b1.1]) from rfl]
  simp only []
  rw [forIn_range_sim' (fun t : Tab2 => ([enc L0.2, enc t] : T3)) (fun t l => s2 t l 0 (g2 L0.2 l c0))
    (fun _ t => ∀ l m, l ≤ lmax → m ≤ c1 → InB2 t l m) (lmax - 1) 2 b1.2 _ _ _
    (pyRange_eq2 2 (lmax - 1) 2 ((lmax : Int) + 1) rfl (by omega)) rfl (fun l m h1 h2 => (hq3 l m h1 h2).2)]
  swap
  · intro x t hx1 hx2 hq
    exact ⟨body5a c0 c1 _ o ho rfl L0.2 t x (hq5 x c0 (by omega) (le_refl _)).2
      (hq x 0 (by omega) (Nat.zero_le _)), fun l m h1 h2 => InB2_s2 _ _ _ _ _ _ (hq l m h1 h2)⟩
  rw [ok_bind]
  have hq6 : InBAll lmax c1
      (b1.1, List.foldl (fun t l => s2 t l 0 (g2 L0.2 l c0)) b1.2 (List.range' 2 (lmax - 1))) := by
    intro l m h1 h2
    refine ⟨(hq3 l m h1 h2).1, ?_⟩
    exact foldl_inv (fun t => InB2 t l m) _ _ (fun s x _ hs => InB2_s2 _ _ _ _ _ _ hs) _ (hq3 l m h1 h2).2
  rw [R2_one, forIn_range_sim' (R2 1 (enc L0.2) (enc L0.1))
    (fun p m => (List.range' 1 lmax).foldl (fun p l => h1Step c0 w1 r1 uf L0.2 p m l) p)
    (fun _ t => InBAll lmax c1 t) c1 1 _ _ _ _
    (pyRange_eq2 1 c1 1 ((c1 : Int) + 1) rfl (by omega)) rfl hq6]
  swap
  · intro y t hy1 hy2 hq
    refine ⟨?_, foldl_inv (InBAll lmax c1) _ _ (fun s m _ hs => InBAll_s2 lmax c1 s hs _ _ _ _ _ _) _ hq⟩
    rw [Prod.mk.eta, forIn_range_sim' (R2 1 (enc L0.2) (enc L0.1)) (fun p l => h1Step c0 w1 r1 uf L0.2 p y l)
      (fun _ t => InBAll lmax c1 t) lmax 1 t _ _ _
      (pyRange_eq2 1 lmax 1 ((lmax : Int) + 1) rfl (by omega)) rfl hq]
    swap
    · intro x t' hx1 hx2 hq'
      exact ⟨body5b lmax c0 c1 w0 w1 r0 r1 uf _ _ _ uf o ho rfl rfl rfl rfl L0.2 _ t' x y hx1 (by omega) hy1 (by omega)
          (hq5 x c0 (by omega) (le_refl _)).2 hq',
        InBAll_s2 lmax c1 t' hq' _ _ _ _ _ _⟩
    rw [ok_bind, Prod.mk.eta]
    rfl
  rw [ok_bind, pure_bind]
  simp only []
  rw [List.forIn_nil, pure_bind]
  rfl

/-! ## reading the returned tables -/

theorem getD_encRow (r : Array (Option Nat)) (m : Nat) : (encRow r).getD m ER.inf = erOf (r.getD m none) := by
  unfold encRow
  rw [List.getD_eq_getElem?_getD, List.getElem?_map, Array.getElem?_toList, Array.getD_eq_getD_getElem?]
  cases r[m]? <;> rfl

theorem getD_enc (t : Tab2) (l m : Nat) : ((enc t).getD l []).getD m ER.inf = erOf (g2 t l m) := by
  have e : (enc t).getD l [] = encRow (t.getD l #[]) := by
    unfold enc
    rw [List.getD_eq_getElem?_getD, List.getElem?_map, Array.getElem?_toList, Array.getD_eq_getD_getElem?]
    cases t[l]? <;> rfl
  rw [e, getD_encRow]
  rfl

theorem tab3_zero (a : Tab2) (B : List (List ER)) (l m : Nat) : tab3 [enc a, B] 0 l m = erOf (g2 a l m) :=
  getD_enc a l m

theorem tab3_one (A : List (List ER)) (b : Tab2) (l m : Nat) : tab3 [A, enc b] 1 l m = erOf (g2 b l m) :=
  getD_enc b l m

/-! ## the refinement theorems -/

theorem hoptResult_spec (lmax c0 c1 w0 w1 r0 r1 ub uf : Nat) (k l m : Nat) (hk : k ≤ 1) :
    tab3 (hoptResult lmax c0 c1 w0 w1 r0 r1 ub uf).2 k l m
        = erOf ((hoptTable lmax c0 c1 w0 w1 r0 r1 ub uf).opt k l m) ∧
      tab3 (hoptResult lmax c0 c1 w0 w1 r0 r1 ub uf).1 k l m
        = erOf ((hoptTable lmax c0 c1 w0 w1 r0 r1 ub uf).optp k l m) := by
  rw [hoptTable_eq]
  have : k = 0 ∨ k = 1 := by omega
  rcases this with rfl | rfl
  · exact ⟨tab3_zero _ _ l m, tab3_zero _ _ l m⟩
  · exact ⟨tab3_one _ _ l m, tab3_one _ _ l m⟩

/-- **`get_hopt_table` as generated from the Python source computes the model `hoptTable`** (two levels, any
natural cost vectors `wvect = (w0, w1)`, `rvect = (r0, r1)`), on the exact domain on which it does not raise:
`c0 ≥ 1` or `lmax ≤ 1`.  Every entry `T[k][l][m]` of the two returned tables (and `inf` outside them) is the
model's entry. -/
theorem get_hopt_table_refines_general (lmax c0 c1 w0 w1 r0 r1 ub uf : Nat) (h : 1 ≤ c0 ∨ lmax ≤ 1) :
    ∃ optp opt, get_hopt_table lmax [c0, c1] [(w0 : Rat), (w1 : Rat)] [(r0 : Rat), (r1 : Rat)] ub uf
        = .ok (optp, opt) ∧
      ∀ k l m, k ≤ 1 →
        tab3 opt k l m = erOf ((hoptTable lmax c0 c1 w0 w1 r0 r1 ub uf).opt k l m) ∧
        tab3 optp k l m = erOf ((hoptTable lmax c0 c1 w0 w1 r0 r1 ub uf).optp k l m) := by
  refine ⟨_, _, by rw [hopt_run, if_pos h], ?_⟩
  intro k l m hk
  exact hoptResult_spec lmax c0 c1 w0 w1 r0 r1 ub uf k l m hk

example : (1 : Nat) ≤ 2 ∨ (5 : Nat) ≤ 1 := by decide
example : (1 : Nat) ≤ 0 ∨ (1 : Nat) ≤ 1 := by decide

/-- the same, with the shape of the returned lists: two levels, `lmax + 1` rows, `c_k + 1` entries per row -/
theorem get_hopt_table_shape (lmax c0 c1 w0 w1 r0 r1 ub uf : Nat) (h : 1 ≤ c0 ∨ lmax ≤ 1) :
    ∃ optp opt, get_hopt_table lmax [c0, c1] [(w0 : Rat), (w1 : Rat)] [(r0 : Rat), (r1 : Rat)] ub uf
        = .ok (optp, opt) ∧ optp.length = 2 ∧ opt.length = 2 := by
  exact ⟨_, _, by rw [hopt_run, if_pos h], rfl, rfl⟩

/-- **the library's call** (`wvect = (0, wd)`, `rvect = (0, rd)`) -/
theorem get_hopt_table_refines (lmax c0 c1 w1 r1 ub uf : Nat) (h : 1 ≤ c0 ∨ lmax ≤ 1) :
    ∃ optp opt, get_hopt_table lmax [c0, c1] [0, (w1 : Rat)] [0, (r1 : Rat)] ub uf = .ok (optp, opt) ∧
      ∀ k l m, k ≤ 1 → l ≤ lmax → m ≤ (if k = 0 then c0 else c1) →
        tab3 opt k l m = erOf ((hoptTable lmax c0 c1 0 w1 0 r1 ub uf).opt k l m) ∧
        tab3 optp k l m = erOf ((hoptTable lmax c0 c1 0 w1 0 r1 ub uf).optp k l m) := by
  obtain ⟨optp, opt, h1, h2⟩ := get_hopt_table_refines_general lmax c0 c1 0 w1 0 r1 ub uf h
  rw [Nat.cast_zero] at h1
  exact ⟨optp, opt, h1, fun k l m hk _ _ => h2 k l m hk⟩

example : (1 : Nat) ≤ 3 ∨ (7 : Nat) ≤ 1 := by decide

/-- outside that domain (`c0 = 0`, `lmax ≥ 2`) the function raises `IndexError`, at `optp[0][2][1] = …`
(the model silently skips the write: `Array.setIfInBounds`) -/
theorem get_hopt_table_indexError (lmax c1 w0 w1 r0 r1 ub uf : Nat) (h : 2 ≤ lmax) :
    get_hopt_table lmax [((0 : Nat) : Int), c1] [(w0 : Rat), (w1 : Rat)] [(r0 : Rat), (r1 : Rat)] ub uf
      = .error .indexError := by
  rw [hopt_run, if_neg (by omega)]

example : (2 : Nat) ≤ 2 := by decide

/-- the domain is exact -/
theorem get_hopt_table_ok_iff (lmax c0 c1 w0 w1 r0 r1 ub uf : Nat) :
    (∃ r, get_hopt_table lmax [c0, c1] [(w0 : Rat), (w1 : Rat)] [(r0 : Rat), (r1 : Rat)] ub uf = .ok r) ↔
      (1 ≤ c0 ∨ lmax ≤ 1) := by
  rw [hopt_run]
  by_cases h : 1 ≤ c0 ∨ lmax ≤ 1
  · rw [if_pos h]; exact ⟨fun _ => h, fun _ => ⟨_, rfl⟩⟩
  · rw [if_neg h]
    constructor
    · rintro ⟨r, hr⟩
      cases hr
    · intro h'
      exact absurd h' h

/-! ## the value the library reads: `opt[1][N-1][c1]` -/

theorem erOf_eq_fin (a : Option Nat) (v : Nat) : erOf a = ER.fin (v : Rat) ↔ a = some v := by
  cases a with
  | none => exact ⟨fun h => (by cases h), fun h => (by cases h)⟩
  | some w =>
    constructor
    · intro h
      have : (w : Rat) = (v : Rat) := by injection h
      rw [Nat.cast_injective this]
    · intro h; cases h; rfl

/-- **C07 for HRevolve on the GENERATED table**: whatever tables the generated `get_hopt_table` returns for the
library's call (`lmax = N - 1`), the entry `opt[1][N-1][c1]` is a finite natural number `v`, and the cost of the
HRevolve stream is `v + N·uf` (`C07_hrevolve`) -/
theorem get_hopt_table_hrevolve_cost (N c0 c1 : Nat) (c : Costs) (hN : 1 ≤ N) (hc0 : 1 ≤ c0) (evs : List Ev)
    (h : hrevolveEvs N c0 c1 c = .ok evs) (optp opt : T3)
    (hg : get_hopt_table ((N - 1 : Nat) : Int) [c0, c1] [0, (c.wd : Rat)] [0, (c.rd : Rat)] c.ub c.uf
      = .ok (optp, opt)) :
    ∃ v : Nat, tab3 opt 1 (N - 1) c1 = ER.fin (v : Rat) ∧ RC.cost c evs = v + N * c.uf := by
  obtain ⟨v, hv, hc⟩ := C07_hrevolve N c0 c1 c hN hc0 evs h
  obtain ⟨optp', opt', h1, h2⟩ := get_hopt_table_refines (N - 1) c0 c1 c.wd c.rd c.ub c.uf (Or.inl hc0)
  rw [h1] at hg
  injection hg with hg
  injection hg with _ hg2
  subst hg2
  refine ⟨v, ?_, hc⟩
  rw [(h2 1 (N - 1) c1 (le_refl _) (le_refl _) (le_refl _)).1, hv]
  rfl

/-- and it is returned: the generated function does not raise on the library's call (`c0 ≥ 1`) -/
theorem get_hopt_table_hrevolve_ok (N c0 c1 : Nat) (c : Costs) (hc0 : 1 ≤ c0) :
    ∃ optp opt, get_hopt_table ((N - 1 : Nat) : Int) [c0, c1] [0, (c.wd : Rat)] [0, (c.rd : Rat)] c.ub c.uf
      = .ok (optp, opt) := by
  obtain ⟨optp, opt, h1, _⟩ := get_hopt_table_refines (N - 1) c0 c1 c.wd c.rd c.ub c.uf (Or.inl hc0)
  exact ⟨optp, opt, h1⟩

open Ckpt.LB7 in
/-- **the entry of the GENERATED table is a lower bound** (`C07_hrevolve_lowerBound_partial`): if
`opt[1][N-1][c1]` of the returned table is `v`, every accepted LIFO stream costs at least `v + N·uf` in the
transfer-aware cost — and the HRevolve stream (accepted, LIFO) costs exactly that -/
theorem get_hopt_table_lowerBound (N c0 c1 v : Nat) (c : Costs) (hN : 1 ≤ N) (hc0 : 1 ≤ c0) (huf : 0 < c.uf)
    (optp opt : T3)
    (hg : get_hopt_table ((N - 1 : Nat) : Int) [c0, c1] [0, (c.wd : Rat)] [0, (c.rd : Rat)] c.ub c.uf
      = .ok (optp, opt))
    (hv : tab3 opt 1 (N - 1) c1 = ER.fin (v : Rat)) :
    (∀ os, Accepted (cfgHRevolve c0 c1 N) os → Lifo (cfgHRevolve c0 c1 N) os → v + N * c.uf ≤ obsCostT c os) ∧
    ∃ evs os0, hrevolveEvs N c0 c1 c = .ok evs ∧ os0.map (·.act) = evs.map (·.act) ∧
      Accepted (cfgHRevolve c0 c1 N) os0 ∧ Lifo (cfgHRevolve c0 c1 N) os0 ∧ obsCostT c os0 = v + N * c.uf := by
  obtain ⟨optp', opt', h1, h2⟩ := get_hopt_table_refines (N - 1) c0 c1 c.wd c.rd c.ub c.uf (Or.inl hc0)
  rw [h1] at hg
  injection hg with hg
  injection hg with _ hg2
  subst hg2
  rw [(h2 1 (N - 1) c1 (le_refl _) (le_refl _) (le_refl _)).1, erOf_eq_fin] at hv
  refine ⟨fun os ha hl => C07_hrevolve_lowerBound_partial N c0 c1 v c os hN hc0 huf hv ha hl, ?_⟩
  obtain ⟨evs, os0, v', hevs, hacts, hacc, hlifo, hv', hcost⟩ := C07_hrevolve_lifo_attains N c0 c1 c hN hc0
  rw [hv] at hv'
  injection hv' with hv'
  subst hv'
  exact ⟨evs, os0, hevs, hacts, hacc, hlifo, hcost⟩

example : (1 : Nat) ≤ 5 ∧ (1 : Nat) ≤ 2 ∧ 0 < (Costs.mk 1 1 2 2).uf := by decide

/-- non-vacuity of the hypotheses of the two corollaries: for `N ≥ 1`, `c0 ≥ 1` the stream exists, the generated
function returns, and the entry read is finite -/
example (N c0 c1 : Nat) (c : Costs) (hN : 1 ≤ N) (hc0 : 1 ≤ c0) :
    ∃ evs optp opt, ∃ v : Nat, hrevolveEvs N c0 c1 c = .ok evs ∧
      get_hopt_table ((N - 1 : Nat) : Int) [c0, c1] [0, (c.wd : Rat)] [0, (c.rd : Rat)] c.ub c.uf = .ok (optp, opt) ∧
      tab3 opt 1 (N - 1) c1 = ER.fin (v : Rat) := by
  obtain ⟨evs, _, _, hevs, _⟩ := C07_hrevolve_lifo_attains N c0 c1 c hN hc0
  obtain ⟨optp, opt, hg⟩ := get_hopt_table_hrevolve_ok N c0 c1 c hc0
  obtain ⟨v, hv, _⟩ := get_hopt_table_hrevolve_cost N c0 c1 c hN hc0 evs hevs optp opt hg
  exact ⟨evs, optp, opt, v, hevs, hg, hv⟩

/-- a concrete instance (`N = 4` steps, one RAM and one disk unit): the generated table holds `opt[1][3][1] = 10` -/
example : ∃ optp opt, get_hopt_table 3 [1, 1] [0, 2] [0, 2] 1 1 = .ok (optp, opt) ∧
    tab3 opt 1 3 1 = ER.fin 10 := by
  obtain ⟨optp, opt, h1, h2⟩ := get_hopt_table_refines 3 1 1 2 2 1 1 (by decide)
  refine ⟨optp, opt, by simpa using h1, ?_⟩
  rw [(h2 1 3 1 (by decide) (by decide) (by decide)).1]
  have : (hoptTable 3 1 1 0 2 0 2 1 1).opt 1 3 1 = some 10 := by decide
  rw [this]
  show ER.fin _ = ER.fin _
  norm_num

end Ckpt.Py

#print axioms Ckpt.Py.hopt_run
#print axioms Ckpt.Py.get_hopt_table_refines_general
#print axioms Ckpt.Py.get_hopt_table_refines
#print axioms Ckpt.Py.get_hopt_table_indexError
#print axioms Ckpt.Py.get_hopt_table_ok_iff
#print axioms Ckpt.Py.get_hopt_table_hrevolve_cost
#print axioms Ckpt.Py.get_hopt_table_hrevolve_ok
#print axioms Ckpt.Py.get_hopt_table_lowerBound
