import CkptGen.Src
import CkptGen.RefineNAdv
import CkptVerif.Proofs.ExtraRec
import Mathlib.Tactic
/-!
# The Lean text generated from `optimal_extra_steps` / `optimal_steps_binomial` (multistage.py) computes the
models `extraSpec` / `optimalStepsBinomial`
-/
namespace Ckpt.Py
open Ckpt

/-! ## general lemmas: `for` loops in `Except`, `range` -/

/-- a `for` loop whose body never fails and never breaks is a `List.foldl` -/
theorem forIn_yield_eq {α β : Type} (l : List α) (body : α → β → M (ForInStep β)) (step : β → α → β)
    (h : ∀ a ∈ l, ∀ b, body a b = .ok (.yield (step b a))) (b : β) :
    forIn l b body = .ok (l.foldl step b) := by
  induction l generalizing b with
  | nil => rfl
  | cons x xs ih =>
    rw [List.forIn_cons, h x (List.mem_cons_self ..) b]
    exact ih (fun a ha => h a (List.mem_cons_of_mem _ ha)) _

/-- `range(a, b)` for non-negative bounds -/
theorem pyRange_nat (a b : Nat) :
    pyRange (a : Int) (b : Int) = (List.range' a (b - a)).map (fun k : Nat => (k : Int)) := by
  unfold pyRange
  have e : ((b : Int) - (a : Int)).toNat = b - a := by omega
  rw [e, List.range'_eq_map_range, List.map_map]
  apply List.map_congr_left
  intro k _
  simp

/-! ## the loop of `optimal_extra_steps` on integers -/

/-- the loop body of the generated text, as a pure step on `Option Int` -/
def stepZ (cz : Int → Int) (m : Option Int) (i : Int) : Option Int :=
  match m with
  | none => some (cz i)
  | some c => if cz i < c then some (cz i) else some c

theorem stepZ_cast (cand : Nat → Nat) (cz : Int → Int) (m : Option Nat) (x : Nat)
    (h : cz (x : Int) = (cand x : Int)) :
    stepZ cz (m.map (fun a : Nat => (a : Int))) (x : Int) =
      (extraStep cand m x).map (fun a : Nat => (a : Int)) := by
  cases m with
  | none => simp [stepZ, extraStep, h]
  | some c =>
    simp only [stepZ, extraStep, Option.map_some, h]
    by_cases hlt : cand x < c
    · have : (cand x : Int) < (c : Int) := by exact_mod_cast hlt
      rw [if_pos hlt, if_pos this]; rfl
    · have : ¬ (cand x : Int) < (c : Int) := by exact_mod_cast hlt
      rw [if_neg hlt, if_neg this]; rfl

theorem foldl_stepZ_cast (cand : Nat → Nat) (cz : Int → Int) (l : List Nat)
    (h : ∀ x ∈ l, cz (x : Int) = (cand x : Int)) (m : Option Nat) :
    (l.map (fun k : Nat => (k : Int))).foldl (stepZ cz) (m.map (fun a : Nat => (a : Int))) =
      (l.foldl (extraStep cand) m).map (fun a : Nat => (a : Int)) := by
  induction l generalizing m with
  | nil => rfl
  | cons x xs ih =>
    rw [List.map_cons, List.foldl_cons, List.foldl_cons,
      stepZ_cast cand cz m x (h x (List.mem_cons_self ..))]
    exact ih (fun y hy => h y (List.mem_cons_of_mem _ hy)) _

theorem validKey_iff (n s : Nat) : validKey n s = true ↔ 1 ≤ n ∧ min 1 (n - 1) ≤ s ∧ s ≤ n - 1 := by
  simp [validKey, and_assoc]

/-- the loop of the model over a non-empty range has a value -/
theorem extra_fold_some (n s : Nat) (hn : 2 ≤ n) (hs : s ≠ 1) :
    (List.range' 1 (n - 1)).foldl (extraStep (splitCand n s extraCell)) none = some (extraCell n s) := by
  have hfold := GW.extraCell_fold n s hn hs
  have e : n - 1 = (n - 2) + 1 := by omega
  rw [e, List.range'_succ, List.foldl_cons] at hfold ⊢
  have e2 : extraStep (splitCand n s extraCell) none 1 = some (splitCand n s extraCell 1) := rfl
  rw [e2] at hfold ⊢
  obtain ⟨v, hv, -⟩ := GW.extraStep_fold_some (splitCand n s extraCell) (List.range' (1+1) (n - 2))
    (splitCand n s extraCell 1)
  rw [hv] at hfold ⊢
  rw [hfold]; rfl

/-- the clamp of `cache_step` on integers -/
theorem clamp_cast (n s : Nat) (hn : 1 ≤ n) :
    min (s : Int) ((n : Int) - 1) = ((clampS n s : Nat) : Int) := by
  unfold clampS
  push_cast [Nat.cast_sub hn]; rfl

/-- valid keys: the generated function returns the model's cell; fuel `n` suffices -/
theorem extra_ok : ∀ (fuel n s : Nat), 1 ≤ n → n ≤ fuel → validKey n (clampS n s) = true →
    optimal_extra_steps fuel (n : Int) (s : Int) = .ok ((extraCell n (clampS n s) : Nat) : Int) := by
  intro fuel
  induction fuel with
  | zero => intro n s h1 h2; omega
  | succ fuel ih =>
    intro n s hn hf hv
    unfold optimal_extra_steps
    simp only [bind, Except.bind, pure, Except.pure]
    rw [clamp_cast n s hn]
    rw [validKey_iff] at hv
    obtain ⟨-, hv1, hv2⟩ := hv
    generalize clampS n s = s' at *
    have c0 : ¬ (n : Int) ≤ 0 := by omega
    rw [if_neg c0]
    have c1 : ¬ ((s' : Int) < min 1 ((n : Int) - 1) ∨ (s' : Int) > (n : Int) - 1) := by omega
    rw [if_neg c1]
    by_cases hn1 : n = 1
    · subst hn1
      rw [if_pos (by rfl), GW.extraCell_le_one 1 s' (le_refl _)]; rfl
    have hn1' : ¬ (n : Int) = 1 := by omega
    rw [if_neg hn1']
    by_cases hs1 : s' = 1
    · subst hs1
      rw [if_pos (by rfl), GW.extraCell_s1 n (by omega)]
      have := floordiv_nat (n * (n - 1)) 2 (by omega)
      push_cast [Nat.cast_sub hn] at this ⊢
      exact this
    have hs1' : ¬ (s' : Int) = 1 := by omega
    rw [if_neg hs1']
    have hs2 : 2 ≤ s' := by omega
    have hn3 : 3 ≤ n := by omega
    have hr := pyRange_nat 1 n
    rw [Nat.cast_one] at hr
    rw [hr]
    rw [forIn_yield_eq _ _
      (stepZ (fun i : Int => ((splitCand n s' extraCell i.toNat : Nat) : Int)))]
    · have := foldl_stepZ_cast (splitCand n s' extraCell)
        (fun i : Int => ((splitCand n s' extraCell i.toNat : Nat) : Int)) (List.range' 1 (n - 1))
        (fun x _ => by simp) none
      rw [Option.map_none] at this
      rw [this, extra_fold_some n s' (by omega) hs1]
      rfl
    · intro i hi b
      rw [List.mem_map] at hi
      obtain ⟨k, hk, rfl⟩ := hi
      rw [List.mem_range'_1] at hk
      have r1 := ih k s' (by omega) (by omega) (by rw [validKey_iff]; unfold clampS; omega)
      have r2 := ih (n - k) (s' - 1) (by omega) (by omega) (by rw [validKey_iff]; unfold clampS; omega)
      have e1 : ((n : Int) - (k : Int)) = ((n - k : Nat) : Int) := by omega
      have e2 : ((s' : Int) - 1) = ((s' - 1 : Nat) : Int) := by omega
      rw [e1, e2, r1, r2]
      simp only []
      have ec : ((k : Int) + ((extraCell k (clampS k s') : Nat) : Int)
          + ((extraCell (n - k) (clampS (n - k) (s' - 1)) : Nat) : Int))
          = ((splitCand n s' extraCell k : Nat) : Int) := by
        unfold splitCand; push_cast; rfl
      rw [ec]
      cases b with
      | none => simp [stepZ]
      | some c =>
        simp only [stepZ, Int.toNat_natCast]
        by_cases hlt : ((splitCand n s' extraCell k : Nat) : Int) < c
        · simp [hlt, unwrap, pure, Except.pure]
        · simp [hlt, unwrap, pure, Except.pure]

/-! ## the refinement theorems -/

/-- negative arguments (and `n = 0`): `ValueError`; one unit of fuel suffices -/
theorem optimal_extra_steps_invalid (n s : Int) (fuel : Nat) (h : n ≤ 0 ∨ s < 0) (hf : 1 ≤ fuel) :
    optimal_extra_steps fuel n s = .error .valueError := by
  obtain ⟨fuel, rfl⟩ : ∃ k, fuel = k + 1 := ⟨fuel - 1, by omega⟩
  unfold optimal_extra_steps
  simp only [bind, Except.bind, pure, Except.pure]
  by_cases h0 : n ≤ 0
  · rw [if_pos h0]; rfl
  · rw [if_neg h0]
    have hs : s < 0 := by rcases h with h | h; exact absurd h h0; exact h
    have : min s (n - 1) < min 1 (n - 1) ∨ min s (n - 1) > n - 1 := by left; omega
    rw [if_pos this]; rfl

/-- **`optimal_extra_steps` as generated from the Python source computes the model `extraSpec`** (all `n, s ≥ 0`;
`ValueError` exactly where the model says so), for any fuel `≥ max n 1` -/
theorem optimal_extra_steps_refines (n s fuel : Nat) (hf : max n 1 ≤ fuel) :
    optimal_extra_steps fuel (n : Int) (s : Int) = ofOpt (fun a : Nat => (a : Int)) (extraSpec n s) := by
  unfold extraSpec
  simp only []
  by_cases hv : validKey n (clampS n s) = true
  · rw [if_pos hv]
    have hn : 1 ≤ n := ((validKey_iff _ _).1 hv).1
    exact extra_ok fuel n s hn (by omega) hv
  · rw [if_neg hv]
    show _ = Except.error PyErr.valueError
    by_cases hn : n = 0
    · subst hn
      exact optimal_extra_steps_invalid _ _ fuel (Or.inl (by simp)) (by omega)
    · have hn1 : 1 ≤ n := by omega
      obtain ⟨fuel, rfl⟩ : ∃ k, fuel = k + 1 := ⟨fuel - 1, by omega⟩
      unfold optimal_extra_steps
      simp only [bind, Except.bind, pure, Except.pure]
      rw [clamp_cast n s hn1]
      rw [validKey_iff] at hv
      have hc : clampS n s ≤ n - 1 := by unfold clampS; omega
      generalize clampS n s = s' at *
      have c0 : ¬ (n : Int) ≤ 0 := by omega
      rw [if_neg c0]
      have c1 : ((s' : Int) < min 1 ((n : Int) - 1) ∨ (s' : Int) > (n : Int) - 1) := by left; omega
      rw [if_pos c1]; rfl

/-- **`optimal_steps_binomial` as generated from the Python source computes the model `optimalStepsBinomial`**,
for any fuel `≥ max n 1` -/
theorem optimal_steps_binomial_refines (n s fuel : Nat) (hf : max n 1 ≤ fuel) :
    optimal_steps_binomial fuel (n : Int) (s : Int)
      = ofOpt (fun a : Nat => (a : Int)) (optimalStepsBinomial n s) := by
  unfold optimal_steps_binomial optimalStepsBinomial
  simp only [bind, Except.bind, pure, Except.pure]
  rw [optimal_extra_steps_refines n s fuel hf]
  cases extraSpec n s with
  | none => rfl
  | some a =>
    show Except.ok ((n : Int) + (a : Int)) = Except.ok (((n + a : Nat)) : Int)
    rw [Nat.cast_add]

/-- negative arguments (and `n = 0`): `optimal_steps_binomial` raises `ValueError` -/
theorem optimal_steps_binomial_invalid (n s : Int) (fuel : Nat) (h : n ≤ 0 ∨ s < 0) (hf : 1 ≤ fuel) :
    optimal_steps_binomial fuel n s = .error .valueError := by
  unfold optimal_steps_binomial
  simp only [bind, Except.bind, pure, Except.pure]
  rw [optimal_extra_steps_invalid n s fuel h hf]

/-- without fuel the generated function reports `fuel` (so the bound `max n 1` cannot be lowered to `0`) -/
theorem optimal_extra_steps_no_fuel (n s : Int) : optimal_extra_steps 0 n s = .error .fuel := rfl

/-- every pair of integers is covered by `optimal_extra_steps_refines` or `optimal_extra_steps_invalid` -/
theorem optimal_extra_steps_cases (n s : Int) :
    (n ≤ 0 ∨ s < 0) ∨ ∃ n' s' : Nat, n = (n' : Int) ∧ s = (s' : Int) := by
  by_cases h : n ≤ 0 ∨ s < 0
  · exact Or.inl h
  · exact Or.inr ⟨n.toNat, s.toNat, by omega, by omega⟩

end Ckpt.Py

#print axioms Ckpt.Py.optimal_extra_steps_refines
#print axioms Ckpt.Py.optimal_steps_binomial_refines
#print axioms Ckpt.Py.optimal_extra_steps_invalid
#print axioms Ckpt.Py.optimal_steps_binomial_invalid
