import CkptGen.Src
import CkptVerif.Proofs.Period
import CkptVerif.Properties.C19
import Mathlib.Tactic
/-!
# The Lean text generated from `beta` (hrevolve_sequences/basic_functions.py) and `mxrr_close_formula`
(hrevolve_sequences/periodic_disk_revolve.py) computes the model `Ckpt.beta` / `Ckpt.mxrr`

`Ckpt.Py.beta`, `Ckpt.Py.mxrr_close_formula` are produced by `harness/py2lean.py` from the current Python source
(Python's floats are exact rationals there); `Ckpt.beta`, `Ckpt.mxrr` are the hand-written models the property
`C19_period` is about.

* `beta_refines`, `beta_neg`: the factorial quotient is exact and equals the binomial coefficient.
* `mxrr_close_formula_rat`: for rational costs `0 < uf`, `0 ≤ wd`, `0 ≤ rd` and fuel `⌊(wd+rd)/uf⌋₊ + 2` the generated
  function returns `beta cm t*` for the least `t*` with `beta (cm+1) t* · uf > wd + rd`.
* `mxrr_close_formula_ratio`: the period depends on the ratio `(wd+rd)/uf` only.
* `mxrr_close_formula_refines`: for natural-number costs and fuel `wd + rd + 2` the generated function is the model
  `mxrr` (`ZeroDivisionError` for `uf = 0`).
-/
namespace Ckpt.Py
open Ckpt

/-! ## `math.factorial` and `beta` -/

theorem factorial_foldl (n : Nat) :
    (List.range n).foldl (fun (acc : Int) (k : Nat) => acc * ((k : Int) + 1)) 1 = ((n.factorial : Nat) : Int) := by
  induction n with
  | zero => rfl
  | succ n ih =>
    rw [List.range_succ, List.foldl_append, ih]
    simp only [List.foldl_cons, List.foldl_nil, Nat.factorial_succ]
    push_cast
    ring

theorem pyFactorial_nat (n : Nat) : pyFactorial (n : Int) = .ok ((n.factorial : Nat) : Int) := by
  unfold pyFactorial
  have h : ¬ ((n : Int) < 0) := by omega
  rw [if_neg h, Int.toNat_natCast, factorial_foldl]
  rfl

/-- the quotient of factorials is the binomial coefficient, exactly -/
theorem factorial_quot (x y : Nat) :
    (((((x + y).factorial : Nat) : Int) : Rat)) / ((((x.factorial : Nat) : Int) * ((y.factorial : Nat) : Int) : Int) : Rat) =
      ((Ckpt.beta x y : Nat) : Rat) := by
  have hx : ((x.factorial : Nat) : Rat) ≠ 0 := by exact_mod_cast Nat.factorial_ne_zero x
  have hy : ((y.factorial : Nat) : Rat) ≠ 0 := by exact_mod_cast Nat.factorial_ne_zero y
  have hc : (((x + y).choose y * x.factorial * y.factorial : Nat) : Rat) = (((x + y).factorial : Nat) : Rat) := by
    rw [Nat.add_choose_mul_factorial_mul_factorial]
  rw [beta_eq]
  push_cast at hc ⊢
  rw [← hc]
  field_simp

/-- `beta(x, y)` for `x, y ≥ 0`: exact, and the model's binomial coefficient -/
theorem beta_refines (x y : Nat) : Ckpt.Py.beta (x : Int) (y : Int) = .ok ((Ckpt.beta x y : Nat) : Rat) := by
  unfold Ckpt.Py.beta
  have h : ¬ ((y : Int) < 0) := by omega
  have e : (x : Int) + (y : Int) = ((x + y : Nat) : Int) := by push_cast; rfl
  rw [if_neg h, e, pyFactorial_nat, pyFactorial_nat, pyFactorial_nat]
  simp only [bind, Except.bind]
  unfold ratDiv
  have hne : ¬ ((((x.factorial : Nat) : Int) * ((y.factorial : Nat) : Int) : Int) : Rat) = 0 := by
    have hx := Nat.factorial_ne_zero x
    have hy := Nat.factorial_ne_zero y
    push_cast
    exact mul_ne_zero (by exact_mod_cast hx) (by exact_mod_cast hy)
  rw [if_neg hne]
  show Except.ok _ = _
  rw [factorial_quot]

/-- `beta(x, y) = 0` for `y < 0` -/
theorem beta_neg (x : Int) (y : Int) (h : y < 0) : Ckpt.Py.beta x y = .ok 0 := by
  unfold Ckpt.Py.beta
  rw [if_pos h]
  rfl

example : Ckpt.Py.beta (3 : Nat) (2 : Nat) = .ok (10 : Rat) := by
  rw [beta_refines]; rfl
example : Ckpt.Py.beta 3 (-1) = .ok 0 := beta_neg 3 (-1) (by decide)

/-! ## `int(·)` of a natural number -/

theorem ratTrunc_nat (n : Nat) : ratTrunc ((n : Nat) : Rat) = (n : Int) := by
  unfold ratTrunc
  have h : ((n : Nat) : Rat) ≥ 0 := by positivity
  rw [if_pos h]
  have := Rat.floor_intCast (n : Int)
  simpa using this

/-! ## The loop -/

/-- the loop test, for a positive unit cost: `beta ≤ (wd+rd)/uf` iff `beta·uf ≤ wd+rd` -/
theorem test_iff (cm t : Nat) (uf wd rd : Rat) (huf : 0 < uf) :
    ((Ckpt.beta (cm + 1) t : Nat) : Rat) ≤ (wd + rd) / uf ↔ ((Ckpt.beta (cm + 1) t : Nat) : Rat) * uf ≤ wd + rd :=
  le_div_iff₀ huf

/-- one turn of the generated loop -/
theorem while1_succ (cm t : Nat) (uf wd rd : Rat) (huf : 0 < uf) (fuel : Nat) :
    mxrr_close_formula.while1 uf (cm : Int) wd rd (fuel + 1) (t : Int) =
      if ((Ckpt.beta (cm + 1) t : Nat) : Rat) * uf ≤ wd + rd
      then mxrr_close_formula.while1 uf (cm : Int) wd rd fuel ((t + 1 : Nat) : Int)
      else .ok (t : Int) := by
  rw [mxrr_close_formula.while1]
  have e : (cm : Int) + (1 : Int) = ((cm + 1 : Nat) : Int) := by push_cast; rfl
  have hne : ¬ uf = 0 := ne_of_gt huf
  rw [e, beta_refines]
  simp only [bind, Except.bind, pure, Except.pure, ratDiv, if_neg hne]
  simp only [test_iff cm t uf wd rd huf]
  have e2 : (t : Int) + (1 : Int) = ((t + 1 : Nat) : Int) := by push_cast; rfl
  rw [e2]

/-- the generated loop started at `t ≤ ts` with enough fuel stops exactly at the first `ts` failing the test -/
theorem while1_eq_pe (cm ts : Nat) (uf wd rd : Rat) (huf : 0 < uf)
    (hlt : wd + rd < ((Ckpt.beta (cm + 1) ts : Nat) : Rat) * uf)
    (hmin : ∀ s < ts, ((Ckpt.beta (cm + 1) s : Nat) : Rat) * uf ≤ wd + rd) :
    ∀ fuel t, t ≤ ts → ts - t < fuel →
      mxrr_close_formula.while1 uf (cm : Int) wd rd fuel (t : Int) = .ok (ts : Int) := by
  intro fuel
  induction fuel with
  | zero => intro t _ h; omega
  | succ fuel ih =>
    intro t hle hf
    rw [while1_succ cm t uf wd rd huf]
    rcases Nat.lt_or_ge t ts with h | h
    · rw [if_pos (hmin t h)]
      exact ih (t + 1) h (by omega)
    · have e : t = ts := by omega
      subst e
      rw [if_neg (not_le.2 hlt)]

/-- at `t = ⌊(wd+rd)/uf⌋₊` the loop test already fails -/
theorem test_fails_at (cm : Nat) (uf wd rd : Rat) (huf : 0 < uf) :
    wd + rd < ((Ckpt.beta (cm + 1) ⌊(wd + rd) / uf⌋₊ : Nat) : Rat) * uf := by
  have h1 : (wd + rd) / uf < (⌊(wd + rd) / uf⌋₊ : Rat) + 1 := Nat.lt_floor_add_one _
  have h2 : ((⌊(wd + rd) / uf⌋₊ + 1 : Nat) : Rat) ≤ ((Ckpt.beta (cm + 1) ⌊(wd + rd) / uf⌋₊ : Nat) : Rat) := by
    exact_mod_cast beta_succ_ge cm ⌊(wd + rd) / uf⌋₊
  push_cast at h2
  rw [← div_lt_iff₀ huf]
  linarith

theorem period_exists (cm : Nat) (uf wd rd : Rat) (huf : 0 < uf) :
    ∃ t : Nat, wd + rd < ((Ckpt.beta (cm + 1) t : Nat) : Rat) * uf :=
  ⟨_, test_fails_at cm uf wd rd huf⟩

/-! ## `mxrr_close_formula` for rational costs -/

/-- a sufficient fuel for `mxrr_close_formula`: the loop makes at most `⌊(wd+rd)/uf⌋ + 1` tests -/
def periodFuel (uf wd rd : Rat) : Nat := ⌊(wd + rd) / uf⌋₊ + 2

/-- the generated function, given any least index `ts` -/
theorem mxrr_close_formula_of_least (cm ts : Nat) (uf wd rd : Rat) (huf : 0 < uf)
    (hlt : wd + rd < ((Ckpt.beta (cm + 1) ts : Nat) : Rat) * uf)
    (hmin : ∀ s < ts, ((Ckpt.beta (cm + 1) s : Nat) : Rat) * uf ≤ wd + rd)
    (fuel : Nat) (hf : ts + 1 ≤ fuel) :
    mxrr_close_formula fuel (cm : Int) uf rd wd = .ok ((Ckpt.beta cm ts : Nat) : Int) := by
  unfold mxrr_close_formula
  have h := while1_eq_pe cm ts uf wd rd huf hlt hmin fuel 0 (Nat.zero_le _) (by omega)
  rw [Nat.cast_zero] at h
  simp only [h, bind, Except.bind, pure, Except.pure, beta_refines, ratTrunc_nat]

/-- **The period formula, rational costs.**  For `0 < uf` (the hypotheses `0 ≤ wd`, `0 ≤ rd` are not even needed)
and fuel at least `⌊(wd+rd)/uf⌋₊ + 2` the generated `mxrr_close_formula` returns `beta cm t*` for the least `t*`
with `beta (cm+1) t* · uf > wd + rd`. -/
theorem mxrr_close_formula_rat (cm : Nat) (uf wd rd : Rat) (huf : 0 < uf) (fuel : Nat)
    (hf : periodFuel uf wd rd ≤ fuel) :
    ∃ h : ∃ t : Nat, wd + rd < ((Ckpt.beta (cm + 1) t : Nat) : Rat) * uf,
      mxrr_close_formula fuel (cm : Int) uf rd wd = .ok ((Ckpt.beta cm (Nat.find h) : Nat) : Int) := by
  refine ⟨period_exists cm uf wd rd huf, ?_⟩
  generalize period_exists cm uf wd rd huf = h
  have hle : Nat.find h ≤ ⌊(wd + rd) / uf⌋₊ := Nat.find_min' h (test_fails_at cm uf wd rd huf)
  exact mxrr_close_formula_of_least cm (Nat.find h) uf wd rd huf (Nat.find_spec h)
    (fun s hs => not_lt.1 (Nat.find_min h hs)) fuel (by unfold periodFuel at hf; omega)

/-- the same with the test in the code's form `beta (cm+1) t > (wd+rd)/uf` -/
theorem mxrr_close_formula_rat' (cm : Nat) (uf wd rd : Rat) (huf : 0 < uf) (fuel : Nat)
    (hf : periodFuel uf wd rd ≤ fuel) :
    ∃ h : ∃ t : Nat, (wd + rd) / uf < ((Ckpt.beta (cm + 1) t : Nat) : Rat),
      mxrr_close_formula fuel (cm : Int) uf rd wd = .ok ((Ckpt.beta cm (Nat.find h) : Nat) : Int) := by
  obtain ⟨h, e⟩ := mxrr_close_formula_rat cm uf wd rd huf fuel hf
  have h' : ∃ t : Nat, (wd + rd) / uf < ((Ckpt.beta (cm + 1) t : Nat) : Rat) := by
    obtain ⟨t, ht⟩ := h
    exact ⟨t, (div_lt_iff₀ huf).2 ht⟩
  refine ⟨h', ?_⟩
  have : Nat.find h' = Nat.find h := by
    congr 1
    funext t
    exact propext (div_lt_iff₀ huf)
  rw [this]
  exact e

/-- **The period depends on the cost ratio only.** -/
theorem mxrr_close_formula_ratio (cm : Nat) (uf wd rd uf' wd' rd' : Rat) (huf : 0 < uf) (huf' : 0 < uf')
    (hr : (wd + rd) / uf = (wd' + rd') / uf') (fuel fuel' : Nat)
    (hf : periodFuel uf wd rd ≤ fuel) (hf' : periodFuel uf' wd' rd' ≤ fuel') :
    mxrr_close_formula fuel (cm : Int) uf rd wd = mxrr_close_formula fuel' (cm : Int) uf' rd' wd' := by
  obtain ⟨h, e⟩ := mxrr_close_formula_rat' cm uf wd rd huf fuel hf
  obtain ⟨h', e'⟩ := mxrr_close_formula_rat' cm uf' wd' rd' huf' fuel' hf'
  rw [e, e']
  have : Nat.find h = Nat.find h' := by
    congr 1
    funext t
    rw [hr]
  rw [this]

-- non-vacuity: cm = 2, uf = 1/2, wd = 3/2, rd = 2 (ratio 7): beta 3 t = 1, 4, 10, so t* = 2, period = beta 2 2 = 6
example : (0 : Rat) < 1 / 2 ∧ periodFuel (1 / 2) (3 / 2) 2 ≤ 9 := by
  refine ⟨by norm_num, ?_⟩
  unfold periodFuel
  have : ((3 / 2 + 2) / (1 / 2) : Rat) = ((7 : Nat) : Rat) := by norm_num
  rw [this, Nat.floor_natCast]
example : mxrr_close_formula 9 ((2 : Nat) : Int) (1 / 2) 2 (3 / 2) = .ok 6 := by
  obtain ⟨h, e⟩ := mxrr_close_formula_rat 2 (1 / 2) (3 / 2) 2 (by norm_num) 9 (by
    unfold periodFuel
    have : ((3 / 2 + 2) / (1 / 2) : Rat) = ((7 : Nat) : Rat) := by norm_num
    rw [this, Nat.floor_natCast])
  have h2 : Nat.find h = 2 := by
    rw [Nat.find_eq_iff]
    refine ⟨by norm_num [show Ckpt.beta 3 2 = 10 from by decide], ?_⟩
    intro s hs
    interval_cases s
    · norm_num [show Ckpt.beta 3 0 = 1 from by decide]
    · norm_num [show Ckpt.beta 3 1 = 4 from by decide]
  rw [e, h2]
  rfl

/-! ## Natural-number costs: the model `mxrr` -/

theorem periodFuel_nat_le (uf wd rd : Nat) : periodFuel (uf : Rat) (wd : Rat) (rd : Rat) ≤ wd + rd + 2 := by
  unfold periodFuel
  have : ⌊((wd : Rat) + (rd : Rat)) / (uf : Rat)⌋₊ ≤ wd + rd := by
    apply Nat.floor_le_of_le
    push_cast
    rcases Nat.eq_zero_or_pos uf with h0 | hpos
    · subst h0
      rw [Nat.cast_zero, div_zero]
      positivity
    · exact div_le_self (by positivity) (by exact_mod_cast hpos)
  omega

/-- a zero unit cost: `ZeroDivisionError` (as in Python) -/
theorem mxrr_close_formula_zero (cm : Nat) (wd rd : Rat) (fuel : Nat) :
    mxrr_close_formula (fuel + 1) (cm : Int) 0 rd wd = .error .zeroDivisionError := by
  have e : (cm : Int) + (1 : Int) = ((cm + 1 : Nat) : Int) := by push_cast; rfl
  have e0 : (0 : Int) = ((0 : Nat) : Int) := rfl
  have hw : mxrr_close_formula.while1 0 (cm : Int) wd rd (fuel + 1) (0 : Int) = .error .zeroDivisionError := by
    rw [mxrr_close_formula.while1, e, e0, beta_refines]
    simp only [bind, Except.bind, ratDiv, if_true]
    rfl
  unfold mxrr_close_formula
  simp only [hw, bind, Except.bind]

/-- **The period formula, natural-number costs**: with fuel `wd + rd + 2` the generated `mxrr_close_formula` is the
model `mxrr` (of `C19_period`). -/
theorem mxrr_close_formula_refines (cm uf wd rd fuel : Nat) (hf : wd + rd + 2 ≤ fuel) :
    mxrr_close_formula fuel (cm : Int) (uf : Rat) (rd : Rat) (wd : Rat) =
      match mxrr cm uf (wd + rd) with
      | some m => .ok (m : Int)
      | none => .error .zeroDivisionError := by
  rcases Nat.eq_zero_or_pos uf with h0 | hpos
  · subst h0
    obtain ⟨f, rfl⟩ : ∃ f, fuel = f + 1 := ⟨fuel - 1, by omega⟩
    rw [mxrr_zero, Nat.cast_zero, mxrr_close_formula_zero]
  · obtain ⟨h, e⟩ := C19_period cm uf (wd + rd) hpos
    rw [e]
    have hlt : (wd : Rat) + (rd : Rat) < ((Ckpt.beta (cm + 1) (Nat.find h) : Nat) : Rat) * (uf : Rat) := by
      exact_mod_cast Nat.find_spec h
    have hmin : ∀ s < Nat.find h, ((Ckpt.beta (cm + 1) s : Nat) : Rat) * (uf : Rat) ≤ (wd : Rat) + (rd : Rat) := by
      intro s hs
      have := Nat.le_of_not_lt (Nat.find_min h hs)
      exact_mod_cast this
    have hle := mxrr_find_le cm uf (wd + rd) h hpos
    exact mxrr_close_formula_of_least cm (Nat.find h) uf wd rd (by exact_mod_cast hpos) hlt hmin fuel (by omega)

/-- the same, spelled with the `Nat.find` of `C19_period` -/
theorem mxrr_close_formula_C19 (cm uf wd rd fuel : Nat) (huf : 0 < uf) (hf : wd + rd + 2 ≤ fuel) :
    ∃ h : ∃ t, wd + rd < Ckpt.beta (cm + 1) t * uf,
      mxrr_close_formula fuel (cm : Int) (uf : Rat) (rd : Rat) (wd : Rat) = .ok ((Ckpt.beta cm (Nat.find h) : Nat) : Int) := by
  obtain ⟨h, e⟩ := C19_period cm uf (wd + rd) huf
  refine ⟨h, ?_⟩
  rw [mxrr_close_formula_refines cm uf wd rd fuel hf, e]

/-- rational costs with a natural-number ratio partner: the generated function on rational costs `uf, wd, rd`
agrees with the model `mxrr` on any natural costs of the same ratio -/
theorem mxrr_close_formula_rat_model (cm : Nat) (uf wd rd : Rat) (huf : 0 < uf) (ufN wdN rdN : Nat) (hN : 0 < ufN)
    (hr : (wd + rd) / uf = ((wdN : Rat) + (rdN : Rat)) / (ufN : Rat)) (fuel : Nat) (hf : periodFuel uf wd rd ≤ fuel) :
    mxrr_close_formula fuel (cm : Int) uf rd wd =
      match mxrr cm ufN (wdN + rdN) with
      | some m => .ok (m : Int)
      | none => .error .zeroDivisionError := by
  rw [← mxrr_close_formula_refines cm ufN wdN rdN (wdN + rdN + 2) (le_refl _)]
  exact mxrr_close_formula_ratio cm uf wd rd ufN wdN rdN huf (by exact_mod_cast hN) hr fuel _ hf
    (periodFuel_nat_le ufN wdN rdN)

-- non-vacuity: cm = 2, uf = 1, wd = 3, rd = 4: period 6; uf = 0: ZeroDivisionError
example : (3 + 4 + 2 ≤ 9) ∧ mxrr 2 1 (3 + 4) = some 6 := by decide
example : mxrr_close_formula 9 (2 : Nat) ((1 : Nat) : Rat) ((4 : Nat) : Rat) ((3 : Nat) : Rat) = .ok 6 := by
  rw [mxrr_close_formula_refines 2 1 3 4 9 (by decide)]
  rfl
example : mxrr_close_formula 9 (2 : Nat) ((0 : Nat) : Rat) ((4 : Nat) : Rat) ((3 : Nat) : Rat) = .error .zeroDivisionError := by
  rw [mxrr_close_formula_refines 2 0 3 4 9 (by decide)]
  rfl

end Ckpt.Py

#print axioms Ckpt.Py.beta_refines
#print axioms Ckpt.Py.beta_neg
#print axioms Ckpt.Py.mxrr_close_formula_rat
#print axioms Ckpt.Py.mxrr_close_formula_rat'
#print axioms Ckpt.Py.mxrr_close_formula_ratio
#print axioms Ckpt.Py.mxrr_close_formula_refines
#print axioms Ckpt.Py.mxrr_close_formula_C19
#print axioms Ckpt.Py.mxrr_close_formula_rat_model
