import CkptGen.Src
import CkptVerif.Model.Basic
/-!
# The model's values as values of the generated text

`Nat ↦ Int`, `Storage ↦ StorageType`, `Action ↦ PyAction`, `Ev ↦ PyEv` (with the value of `self._exhausted` at the
yield).  Shared by the refinement theorems of the generator bodies and methods.
-/
namespace Ckpt.Py
open Ckpt

def stPy : Storage → StorageType
  | .ram => .ram
  | .disk => .disk
  | .work => .work
  | .none => .none

def actPy : Action → PyAction
  | .forward n0 n1 wi wa st => .forward (n0 : Int) (n1 : Int) wi wa (stPy st)
  | .reverse n1 n0 c => .reverse (n1 : Int) (n0 : Int) c
  | .copy n a b => .copy (n : Int) (stPy a) (stPy b)
  | .move n a b => .move (n : Int) (stPy a) (stPy b)
  | .endForward => .endForward
  | .endReverse => .endReverse

/-- one `yield`: the model event and the value of `self._exhausted` at that moment -/
def evPy (e : Ev) (exh : Bool) : PyEv := ⟨actPy e.act, (e.n : Int), (e.r : Int), exh⟩

end Ckpt.Py
