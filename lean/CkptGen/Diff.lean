import CkptGen.Src
import CkptVerif.Model.NAdv
import CkptVerif.Model.Machine
import CkptVerif.Model.Mixed
/-!
# Differential search between the GENERATED functions and the hand-written model, far beyond the Python boxes

`lean --run CkptGen/Diff.lean` with the Lean text regenerated from a CHANGED source on the search path: when a
refinement theorem no longer checks, this looks for concrete arguments on which the translated current source and the
model disagree (compiled-in-Lean arithmetic is fast, so sizes in the thousands are reachable); the harness then
runs the real schedules of those sizes.  Prints one line per disagreement.
-/
open Ckpt Ckpt.Py

def trajS : Traj → String
  | .maximum => "maximum"
  | .revolve => "revolve"

def showM (r : M Int) : String :=
  match r with
  | .ok v => toString v
  | .error _ => "raise"

def showO (r : Option Nat) : String :=
  match r with
  | some v => toString v
  | none => "raise"

/-- is advancing `a` steps first an optimal choice for `n` steps and `s` units (Griewank-Walther recurrence)? -/
def stepOptimal (E : Array (Array Nat)) (n s a : Nat) : Bool :=
  let e := fun (m k : Nat) => dpGet E m (clampS m k)
  decide (1 ≤ a ∧ a < n) && decide (a + e a s + e (n - a) (s - 1) = e n s)

def nadvDiff (nmax smax : Nat) : IO Unit := do
  let tmax := min nmax 400
  let E := dpTable extraF tmax (smax + 2)
  let mut found := 0
  let mut foundBad := 0
  for n in [0:nmax+1] do
    for tr in [Traj.maximum, Traj.revolve] do
      -- small unit counts, and unit counts close to n
      let ss := (List.range (min smax (n + 2) + 1)) ++ (if n > smax + 4 then [n / 2, n - 3, n - 2, n - 1, n] else [])
      for s in ss do
        let gr := n_advance (n + 2) (n : Int) (s : Int) (trajS tr)
        let g := showM gr
        let m := showO (nAdvance n s tr)
        if g ≠ m then
          let kind : String :=
            match gr with
            | .ok a =>
              if n ≤ tmax ∧ s ≤ smax ∧ 2 ≤ n ∧ 1 ≤ s then
                (if stepOptimal E n (clampS n s) a.toNat ∧ a ≥ 0 then "still-optimal" else "SUBOPTIMAL")
              else "unranked"
            | .error _ => "RAISES"
          if kind = "still-optimal" then
            if found < 12 then
              IO.println s!"nadv {n} {s} {trajS tr} gen={g} model={m} {kind}"
              found := found + 1
          else if foundBad < 40 then
            IO.println s!"nadv {n} {s} {trajS tr} gen={g} model={m} {kind}"
            foundBad := foundBad + 1

def finDiff (kmax : Nat) : IO Unit := do
  let mut found := 0
  let vals : List Int := [-1, 0, 1, 2, 3, 255, 256, 257, 258, 1000, 2147483647, 2147483648, (kmax : Int)]
  for k in vals do
    for n in vals do
      for mx in ([none] ++ vals.map some : List (Option Int)) do
        if n ≥ 0 ∧ (mx.getD 0) ≥ 0 then
          let m : MSt := { n := n.toNat, r := 0, maxN := mx.map Int.toNat, started := true, exhausted := false, phase := .fwd }
          let (m', out) := Ckpt.finalize m k
          let want : String := match out with
            | .ok => s!"{m'.n} {m'.maxN}"
            | .valueError => "ValueError"
            | .runtimeError => "RuntimeError"
          let got : String := match Ckpt.Py.finalize k n mx with
            | .ok (a, b) => s!"{a} {b.map Int.toNat}"
            | .error .valueError => "ValueError"
            | .error .runtimeError => "RuntimeError"
            | .error _ => "other"
          if got ≠ want ∧ found < 20 then
            IO.println s!"finalize {k} {n} {mx} gen={got} model={want}"
            found := found + 1

def main (args : List String) : IO Unit := do
  let nmax := (args.getD 0 "1500").toNat!
  let smax := (args.getD 1 "14").toNat!
  nadvDiff nmax smax
  finDiff 300
  IO.println "done"
