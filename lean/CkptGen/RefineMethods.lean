import CkptGen.Src
import CkptVerif.Model.Online
import CkptVerif.Model.Mixed
import CkptVerif.Model.Revolve
import CkptGen.RefineCommon
/-!
# The Lean text generated from the METHODS of the schedule classes computes what the models say

`CheckpointSchedule.finalize`, `CheckpointSchedule.__init__`, the `uses_storage_type` methods of all classes, and
the canonical client `clientHook` of the generated online generators, against `Ckpt.finalize`, `Sched.init`,
`Sched.uses` (`CkptVerif/Model/Machine.lean`) and the client of `Sched.canonLoop`.

Conventions of the mapping model ↦ generated text
* `Nat ↦ Int` by the cast, `Option Nat ↦ Option Int` by `optInt`, `Storage ↦ StorageType` by `stPy`;
* the outcome `MSt × FinOut` of the model's `finalize` ↦ `finPy` (`.ok` ↦ the new `(_n, _max_n)`, the two errors ↦ the
  corresponding `throw`);
* `Sched.uses : Storage → Option Bool` records what the drivers of the harness observe
  (`harness/rtrace.py: int(bool(o.uses_storage_type(t)))`, `"x"` when the call raised): `none` = the call raised,
  `some b` = the truth value of the returned object.  The observation of a generated `uses` function is `obsUses`
  (`M Bool`) / `obsUsesO` (`M (Option Bool)`, Python `None` is falsy).  For `MultistageCheckpointSchedule`, whose
  method returns `None` for WORK and NONE, the exact value is stated as well (`multistage_uses_exact`).
-/
namespace Ckpt.Py
open Ckpt

/-! ## The mapping -/

theorem stPy_injective : ∀ a b : Storage, stPy a = stPy b ↔ a = b := by
  intro a b; cases a <;> cases b <;> simp [stPy]

def optInt (o : Option Nat) : Option Int := o.map (fun n : Nat => (n : Int))

@[simp] theorem optInt_none : optInt none = none := rfl
@[simp] theorem optInt_some (n : Nat) : optInt (some n) = some (n : Int) := rfl

/-- the outcome of the model's `finalize`, as the generated function reports it -/
def finPy (r : MSt × FinOut) : M (Int × Option Int) :=
  match r.2 with
  | .ok => .ok ((r.1.n : Int), optInt r.1.maxN)
  | .valueError => .error .valueError
  | .runtimeError => .error .runtimeError

/-- `bool(x)` of what a `uses_storage_type` returning `bool | None` returned -/
def truthy : Option Bool → Bool
  | some b => b
  | none => false

/-- what the harness observes of a `uses_storage_type` call (`none` = it raised) -/
def obsUses : M Bool → Option Bool
  | .ok b => some b
  | .error _ => none

def obsUsesO : M (Option Bool) → Option Bool
  | .ok r => some (truthy r)
  | .error _ => none

/-! ## 1. `finalize` -/

/-- the generated `finalize` in closed form, for all integer inputs -/
theorem finalize_spec (k n : Int) (mx : Option Int) :
    Py.finalize k n mx =
      if k < 1 then .error .valueError else
      match mx with
      | none => if n ≥ k then .ok (k, some k) else .error .runtimeError
      | some N => if n ≠ k ∨ N ≠ k then .error .runtimeError else .ok (n, some N) := by
  unfold Py.finalize
  by_cases hk : k < 1
  · simp [hk]; rfl
  · cases mx with
    | none =>
      by_cases hn : n ≥ k
      · simp [hk, hn]; rfl
      · simp [hk, hn]; rfl
    | some N =>
      by_cases h1 : n = k
      · by_cases h2 : N = k
        · simp [hk, h1, h2, unwrap, bind, Except.bind, pure, Except.pure]
        · simp [hk, h1, h2, unwrap, bind, Except.bind, pure, Except.pure]; rfl
      · simp [hk, h1, bind, Except.bind, pure, Except.pure]; rfl

/-- **`finalize` refines**: on the fields `_n`, `_max_n` of any machine state and for every integer argument the
generated `finalize` returns / raises exactly what the model's `finalize` does. -/
theorem finalize_refines (m : MSt) (k : Int) :
    Py.finalize k (m.n : Int) (optInt m.maxN) = finPy (Ckpt.finalize m k) := by
  rw [finalize_spec]
  unfold Ckpt.finalize finPy
  by_cases hk : k < 1
  · simp [hk]
  · have hk' : k.toNat = k := Int.toNat_of_nonneg (by omega)
    cases hm : m.maxN with
    | none =>
      by_cases hn : (m.n : Int) ≥ k
      · simp [hk, hn, hk']
      · simp [hk, hn]
    | some N =>
      by_cases h : (m.n : Int) ≠ k ∨ (N : Int) ≠ k
      · simp only [hk, if_false, optInt_some, h, if_true]
      · simp only [hk, if_false, optInt_some, h, hm]

/-- the model's `finalize` touches nothing but `n` and `maxN`, and nothing at all unless it succeeds -/
theorem finalize_frame (m : MSt) (k : Int) :
    (Ckpt.finalize m k).1.r = m.r ∧ (Ckpt.finalize m k).1.started = m.started ∧
    (Ckpt.finalize m k).1.exhausted = m.exhausted ∧ (Ckpt.finalize m k).1.phase = m.phase ∧
    ((Ckpt.finalize m k).2 ≠ .ok → (Ckpt.finalize m k).1 = m) := by
  unfold Ckpt.finalize
  by_cases hk : k < 1
  · simp [hk]
  · cases hm : m.maxN with
    | none =>
      by_cases hn : (m.n : Int) ≥ k
      · simp [hk, hn]
      · simp [hk, hn]
    | some N =>
      by_cases h : (m.n : Int) ≠ k ∨ (N : Int) ≠ k
      · simp only [hk, if_false, h, if_true]; simp
      · simp only [hk, if_false, h]; simp

/-- non-vacuity: the three outcomes occur -/
example : Py.finalize 5 (7 : Nat) (optInt none) = .ok (5, some 5) ∧
    Py.finalize 0 (7 : Nat) (optInt none) = .error .valueError ∧
    Py.finalize 5 (3 : Nat) (optInt (some 5)) = .error .runtimeError ∧
    Py.finalize 5 (5 : Nat) (optInt (some 5)) = .ok (5, some 5) := ⟨rfl, rfl, rfl, rfl⟩

/-! ## 2. the canonical client -/

/-- **`clientHook` is the canonical client**: when the forward has been told to reach `N` (and `max_n` is still
unknown) it is the generated `finalize(N)`, which succeeds; otherwise nothing changes. -/
theorem clientHook_eq_finalize (N n : Int) (mx : Option Int) (hN : 1 ≤ N) :
    (mx = none ∧ n ≥ N → Py.finalize N n mx = .ok (clientHook N n mx)) ∧
    (¬ (mx = none ∧ n ≥ N) → clientHook N n mx = (n, mx)) := by
  constructor
  · rintro ⟨rfl, hn⟩
    rw [finalize_spec]
    have : ¬ N < 1 := by omega
    simp [clientHook, this, hn]
  · intro h
    simp only [clientHook, h, if_false]

/-- the same against the model: `clientHook` computes the `_n`, `_max_n` of the state `m2` that the driver
`Sched.canonLoop` continues with after an action left the machine in state `m1` (`Machine.lean`, line
`let m2 := if m1.maxN.isNone ∧ Nfin ≤ m1.n then (finalize m1 Nfin).1 else m1`). -/
theorem clientHook_canon (m1 : MSt) (Nfin : Nat) (hN : 1 ≤ Nfin) :
    clientHook (Nfin : Int) (m1.n : Int) (optInt m1.maxN) =
      (((if m1.maxN.isNone ∧ Nfin ≤ m1.n then (Ckpt.finalize m1 (Nfin : Int)).1 else m1).n : Int),
       optInt (if m1.maxN.isNone ∧ Nfin ≤ m1.n then (Ckpt.finalize m1 (Nfin : Int)).1 else m1).maxN) := by
  have hk : ¬ ((Nfin : Int) < 1) := by omega
  unfold clientHook Ckpt.finalize
  cases hm : m1.maxN with
  | some M => simp [hm]
  | none =>
    by_cases hn : Nfin ≤ m1.n
    · have hn' : (m1.n : Int) ≥ (Nfin : Int) := by omega
      simp [hk, hn, hn']
    · have hn' : ¬ (m1.n : Int) ≥ (Nfin : Int) := by omega
      simp [hn, hn', hm]

example : clientHook 5 7 none = (5, some 5) ∧ clientHook 5 3 none = (3, none) ∧
    clientHook 5 7 (some 7) = (7, some 7) := ⟨rfl, rfl, rfl⟩

/-! ## 3. `CheckpointSchedule.__init__` -/

/-- the generated `__init__` in closed form, for every argument -/
theorem init_spec (mx : Option Int) :
    checkpointSchedule_init mx =
      match mx with
      | none => .ok (0, 0, none)
      | some k => if k < 1 then .error .valueError else .ok (0, 0, some k) := by
  unfold checkpointSchedule_init
  cases mx with
  | none => simp [bind, Except.bind, pure, Except.pure]
  | some k =>
    by_cases hk : k < 1
    · simp [hk, unwrap, bind, Except.bind, pure, Except.pure]; rfl
    · simp [hk, unwrap, bind, Except.bind, pure, Except.pure]

/-- **`__init__` refines**: for a schedule whose `max_n` argument is absent or positive the generated `__init__`
sets `_n, _r, _max_n` to the fields of the model's initial state `Sched.init` (whose other fields say: not started,
not exhausted, generator not begun). -/
theorem init_refines (s : Sched) (h : ∀ N, s.maxN0 = some N → 1 ≤ N) :
    checkpointSchedule_init (optInt s.maxN0) = .ok ((s.init.n : Int), (s.init.r : Int), optInt s.init.maxN) ∧
    s.init.started = false ∧ s.init.exhausted = false ∧ s.init.phase = .fwd := by
  refine ⟨?_, rfl, rfl, rfl⟩
  rw [init_spec]
  cases hm : s.maxN0 with
  | none => simp [Sched.init, hm]
  | some N =>
    have : ¬ ((N : Int) < 1) := by have := h N hm; omega
    simp [Sched.init, hm, this]

/-- … and `max_n < 1` is the `ValueError` of `__init__` -/
theorem init_rejects (k : Int) (hk : k < 1) : checkpointSchedule_init (some k) = .error .valueError := by
  rw [init_spec]; simp [hk]

/-- the online classes call `__init__()` without `max_n` -/
theorem init_online :
    checkpointSchedule_init (optInt singleMemorySched.maxN0) = .ok (0, 0, none) ∧
    (∀ mv, checkpointSchedule_init (optInt (singleDiskSched mv).maxN0) = .ok (0, 0, none)) ∧
    checkpointSchedule_init (optInt noneSched.maxN0) = .ok (0, 0, none) ∧
    (∀ p b st traj s, twoLevelSched p b st traj = .ok s →
      checkpointSchedule_init (optInt s.maxN0) = .ok (0, 0, none)) := by
  refine ⟨by rw [init_spec]; rfl, fun _ => by rw [init_spec]; rfl, by rw [init_spec]; rfl, ?_⟩
  intro p b st traj s h
  unfold twoLevelSched at h
  split at h
  · cases h
  · split at h
    · cases h
    · cases h; rw [init_spec]; rfl

/-- what the model's constructors of the offline classes do with `max_n = N`: they build `offlineSched N …` only
for `N ≥ 1`, and reject `N < 1` with `Err.construct` — exactly when the generated `__init__` raises `ValueError`. -/
theorem offlineSched_init (N : Nat) (evs : Except Err (List Ev)) (u : Storage → Option Bool) (hN : 1 ≤ N) :
    checkpointSchedule_init (some (N : Int)) =
      .ok (((offlineSched N evs u).init.n : Int), ((offlineSched N evs u).init.r : Int),
           optInt (offlineSched N evs u).init.maxN) :=
  (init_refines (offlineSched N evs u) (by intro M h; cases h; exact hN)).1

theorem init_multistage (N ram disk : Nat) (traj : Traj) :
    (∀ s, multistageSched N ram disk traj = .ok s →
      checkpointSchedule_init (some (N : Int)) = .ok ((s.init.n : Int), (s.init.r : Int), optInt s.init.maxN)) ∧
    (N < 1 → checkpointSchedule_init (some (N : Int)) = .error .valueError ∧
      multistageSched N ram disk traj = .error (.construct "max_n must be positive") ∧
      multistageEvs N ram disk traj = .error (.construct "max_n must be positive")) := by
  constructor
  · intro s h
    unfold multistageSched at h
    split at h
    · cases h
    · rename_i hN
      split at h
      · cases h
      · cases h; exact offlineSched_init _ _ _ (by omega)
  · intro hN
    exact ⟨init_rejects _ (by omega), by simp [multistageSched, hN], by simp [multistageEvs, hN]⟩

theorem init_mixed (plan : Planner) (N sn : Nat) (st : Storage) :
    (∀ s, mixedSched plan N sn st = .ok s →
      checkpointSchedule_init (some (N : Int)) = .ok ((s.init.n : Int), (s.init.r : Int), optInt s.init.maxN)) ∧
    (N < 1 → checkpointSchedule_init (some (N : Int)) = .error .valueError ∧
      ∃ msg, mixedSched plan N sn st = .error (.construct msg)) := by
  constructor
  · intro s h
    unfold mixedSched at h
    split at h
    · cases h
    · split at h
      · cases h
      · split at h
        · cases h
        · cases h; exact offlineSched_init _ _ _ (by omega)
  · intro hN
    refine ⟨init_rejects _ (by omega), ?_⟩
    unfold mixedSched
    have h1 : ¬ (sn < min 1 (N - 1) ∧ 1 ≤ N) := by omega
    by_cases h2 : st = .ram ∨ st = .disk
    · exact ⟨"max_n must be positive", by simp only [h1, if_false, h2, not_true_eq_false, hN, if_true]⟩
    · exact ⟨"Invalid storage", by simp only [h1, if_false, h2, not_false_eq_true, if_true]⟩

theorem init_revolve (N cm : Nat) (c : Costs) :
    (∀ s, revolveSched N cm c = .ok s →
      checkpointSchedule_init (some (N : Int)) = .ok ((s.init.n : Int), (s.init.r : Int), optInt s.init.maxN)) ∧
    (N < 1 → checkpointSchedule_init (some (N : Int)) = .error .valueError ∧
      revolveSched N cm c = .error (.construct "Revolve")) := by
  constructor
  · intro s h
    unfold revolveSched at h
    split at h
    · cases h
    · cases h; exact offlineSched_init _ _ _ (by omega)
  · intro hN
    exact ⟨init_rejects _ (by omega), by simp [revolveSched, hN]⟩

theorem init_diskRevolve (N cm : Nat) (c : Costs) :
    (∀ s, diskRevolveSched N cm c = .ok s →
      checkpointSchedule_init (some (N : Int)) = .ok ((s.init.n : Int), (s.init.r : Int), optInt s.init.maxN)) ∧
    (N < 1 → checkpointSchedule_init (some (N : Int)) = .error .valueError ∧
      diskRevolveSched N cm c = .error (.construct "DiskRevolve")) := by
  constructor
  · intro s h
    unfold diskRevolveSched at h
    split at h
    · cases h
    · cases h; exact offlineSched_init _ _ _ (by omega)
  · intro hN
    exact ⟨init_rejects _ (by omega), by simp [diskRevolveSched, hN]⟩

theorem init_periodic (N cm : Nat) (c : Costs) :
    (∀ s, periodicSched N cm c = .ok s →
      checkpointSchedule_init (some (N : Int)) = .ok ((s.init.n : Int), (s.init.r : Int), optInt s.init.maxN)) ∧
    (N < 1 → checkpointSchedule_init (some (N : Int)) = .error .valueError ∧
      periodicSched N cm c = .error (.construct "PeriodicDiskRevolve")) := by
  constructor
  · intro s h
    unfold periodicSched at h
    split at h
    · cases h
    · cases h; exact offlineSched_init _ _ _ (by omega)
  · intro hN
    exact ⟨init_rejects _ (by omega), by simp [periodicSched, hN]⟩

theorem init_hrevolve (N c0 c1 : Nat) (c : Costs) :
    (∀ s, hrevolveSched N c0 c1 c = .ok s →
      checkpointSchedule_init (some (N : Int)) = .ok ((s.init.n : Int), (s.init.r : Int), optInt s.init.maxN)) ∧
    (N < 1 → checkpointSchedule_init (some (N : Int)) = .error .valueError ∧
      hrevolveSched N c0 c1 c = .error (.construct "HRevolve")) := by
  constructor
  · intro s h
    unfold hrevolveSched at h
    split at h
    · cases h
    · cases h; exact offlineSched_init _ _ _ (by omega)
  · intro hN
    exact ⟨init_rejects _ (by omega), by simp [hrevolveSched, hN]⟩

example : (∀ N, (offlineSched 3 (.ok []) (fun _ => none)).maxN0 = some N → 1 ≤ N) := by
  intro N h; cases h; decide
example : checkpointSchedule_init (some 3) = .ok (0, 0, some 3) ∧
    checkpointSchedule_init (some 0) = .error .valueError ∧ checkpointSchedule_init none = .ok (0, 0, none) :=
  ⟨rfl, rfl, rfl⟩

/-! ## 4. `uses_storage_type` -/

/-- SingleMemoryStorageSchedule: the constructor sets `_storage = StorageType.WORK` (basic_schedules.py:36) -/
theorem singleMemory_uses_refines (st : Storage) :
    obsUses (singleMemory_uses (stPy st) StorageType.work) = singleMemorySched.uses st := by
  cases st <;> rfl

/-- SingleDiskStorageSchedule: the constructor sets `_storage = StorageType.DISK` (basic_schedules.py:114) -/
theorem singleDisk_uses_refines (mv : Bool) (st : Storage) :
    obsUses (singleDisk_uses (stPy st) StorageType.disk) = (singleDiskSched mv).uses st := by
  cases st <;> rfl

theorem none_uses_refines (st : Storage) : obsUses (none_uses (stPy st)) = noneSched.uses st := by
  cases st <;> rfl

/-- TwoLevelCheckpointSchedule: `_binomial_storage` is the constructor's argument -/
theorem twoLevel_uses_refines (p b : Nat) (bst : Storage) (traj : Traj) (s : Sched)
    (h : twoLevelSched p b bst traj = .ok s) (st : Storage) :
    obsUses (twoLevel_uses (stPy st) (stPy bst)) = s.uses st := by
  unfold twoLevelSched at h
  split at h
  · cases h
  · split at h
    · cases h
    · cases h
      cases st <;> cases bst <;> rfl

/-- MixedCheckpointSchedule: `_storage` is the constructor's argument -/
theorem mixed_uses_refines (plan : Planner) (N sn : Nat) (bst : Storage) (s : Sched)
    (h : mixedSched plan N sn bst = .ok s) (st : Storage) :
    obsUses (mixed_uses (stPy st) (stPy bst)) = s.uses st := by
  unfold mixedSched at h
  split at h
  · cases h
  · split at h
    · cases h
    · split at h
      · cases h
      · cases h
        cases st <;> cases bst <;> rfl

/-- the `uses` of the Revolve family in the model is `revUses` of the fields the constructors set -/
theorem revolve_uses_revUses (ram : Nat) (disk : Option Nat) (st : Storage) :
    obsUses (revolve_uses (stPy st) (ram : Int) (optInt disk)) = revUses ram disk st := by
  cases st with
  | ram => simp [revolve_uses, stPy, revUses, obsUses, pure, Except.pure]
  | disk =>
    cases disk with
    | none => simp [revolve_uses, stPy, revUses, obsUses, pure, Except.pure]
    | some d => simp [revolve_uses, stPy, revUses, obsUses, pure, Except.pure, bind, Except.bind, unwrap]
  | work => simp [revolve_uses, stPy, revUses, obsUses, pure, Except.pure]
  | none => simp [revolve_uses, stPy, revUses, obsUses, pure, Except.pure]

/-- Revolve: `super().__init__(max_n, snapshots_in_ram, 0, schedule)` (hrevolve.py:338) -/
theorem revolve_uses_refines (N cm : Nat) (c : Costs) (s : Sched) (h : revolveSched N cm c = .ok s)
    (st : Storage) : obsUses (revolve_uses (stPy st) (cm : Int) (some 0)) = s.uses st := by
  unfold revolveSched at h
  split at h
  · cases h
  · cases h; exact revolve_uses_revUses cm (some 0) st

/-- DiskRevolve: `super().__init__(max_n, snapshots_in_ram, None, schedule)` (hrevolve.py:270) -/
theorem diskRevolve_uses_refines (N cm : Nat) (c : Costs) (s : Sched) (h : diskRevolveSched N cm c = .ok s)
    (st : Storage) : obsUses (revolve_uses (stPy st) (cm : Int) none) = s.uses st := by
  unfold diskRevolveSched at h
  split at h
  · cases h
  · cases h; exact revolve_uses_revUses cm none st

/-- PeriodicDiskRevolve: `super().__init__(max_n, snapshots_in_ram, None, schedule)` (hrevolve.py:305) -/
theorem periodic_uses_refines (N cm : Nat) (c : Costs) (s : Sched) (h : periodicSched N cm c = .ok s)
    (st : Storage) : obsUses (revolve_uses (stPy st) (cm : Int) none) = s.uses st := by
  unfold periodicSched at h
  split at h
  · cases h
  · cases h; exact revolve_uses_revUses cm none st

/-- HRevolve: `super().__init__(max_n, snapshots_in_ram, snapshots_on_disk, schedule)` (hrevolve.py:236) -/
theorem hrevolve_uses_refines (N c0 c1 : Nat) (c : Costs) (s : Sched) (h : hrevolveSched N c0 c1 c = .ok s)
    (st : Storage) : obsUses (revolve_uses (stPy st) (c0 : Int) (some (c1 : Int))) = s.uses st := by
  unfold hrevolveSched at h
  split at h
  · cases h
  · cases h; exact revolve_uses_revUses c0 (some c1) st

theorem count_pos_contains (l : List Storage) (x : Storage) :
    decide (((l.count x : Nat) : Int) > 0) = l.contains x := by
  have h1 : (((l.count x : Nat) : Int) > 0) ↔ x ∈ l := by
    rw [← List.count_pos_iff]; omega
  by_cases h : x ∈ l
  · simp [h]
  · simp [h]

/-- the exact value of the generated Multistage `uses_storage_type`: `None` for WORK and NONE -/
theorem multistage_uses_exact (ram disk : Int) :
    multistage_uses .ram ram disk = .ok (some (decide (ram > 0))) ∧
    multistage_uses .disk ram disk = .ok (some (decide (disk > 0))) ∧
    multistage_uses .work ram disk = .ok none ∧ multistage_uses .none ram disk = .ok none := by
  refine ⟨?_, ?_, ?_, ?_⟩ <;> simp [multistage_uses, pure, Except.pure]

/-- MultistageCheckpointSchedule: the constructor sets `_snapshots_in_ram = storage.count(StorageType.RAM)`,
`_snapshots_on_disk = storage.count(StorageType.DISK)` for the `storage` tuple it computes
(multistage.py:195-198; `multistageStorage` in the model) -/
theorem multistage_uses_refines (N ram disk : Nat) (traj : Traj) (s : Sched) (storage : List Storage)
    (hs : multistageStorage N ram disk traj = some storage)
    (h : multistageSched N ram disk traj = .ok s) (st : Storage) :
    obsUsesO (multistage_uses (stPy st) (storage.count .ram : Nat) (storage.count .disk : Nat)) = s.uses st := by
  unfold multistageSched at h
  split at h
  · cases h
  · rw [hs] at h
    cases h
    have e := multistage_uses_exact (storage.count .ram : Nat) (storage.count .disk : Nat)
    cases st with
    | ram => simp only [stPy, e.1, obsUsesO, truthy, offlineSched, count_pos_contains]
    | disk => simp only [stPy, e.2.1, obsUsesO, truthy, offlineSched, count_pos_contains]
    | work => simp only [stPy, e.2.2.1, obsUsesO, truthy, offlineSched]
    | none => simp only [stPy, e.2.2.2, obsUsesO, truthy, offlineSched]

/-- a successfully constructed Multistage model always has a `storage` tuple -/
theorem multistageSched_storage (N ram disk : Nat) (traj : Traj) (s : Sched)
    (h : multistageSched N ram disk traj = .ok s) : ∃ storage, multistageStorage N ram disk traj = some storage := by
  unfold multistageSched at h
  split at h
  · cases h
  · cases hs : multistageStorage N ram disk traj with
    | none => rw [hs] at h; cases h
    | some storage => exact ⟨storage, rfl⟩

/-- when only one kind of storage is requested the counts are the clamped constructor arguments -/
theorem multistageStorage_counts_ram0 (N disk : Nat) (traj : Traj) :
    ∃ storage, multistageStorage N 0 disk traj = some storage ∧
      storage.count .ram = 0 ∧ storage.count .disk = min disk (N - 1) := by
  refine ⟨List.replicate (min disk (N - 1)) .disk, by simp [multistageStorage], ?_, ?_⟩
  · simp [List.count_replicate]
  · simp

theorem multistageStorage_counts_disk0 (N ram : Nat) (traj : Traj) :
    ∃ storage, multistageStorage N ram 0 traj = some storage ∧
      storage.count .ram = min ram (N - 1) ∧ storage.count .disk = 0 := by
  by_cases h : min ram (N - 1) = 0
  · refine ⟨[], ?_, by simp [h], by simp⟩
    simp [multistageStorage, h]
  · refine ⟨List.replicate (min ram (N - 1)) .ram, ?_, ?_, ?_⟩
    · simp only [multistageStorage, h, if_false]; simp
    · simp
    · simp [List.count_replicate]

/-! ### non-vacuity of the hypotheses -/

example : ∃ s, twoLevelSched 2 1 .ram .maximum = .ok s := ⟨_, rfl⟩
example : ∃ s, mixedSched (fun _ _ => none) 4 2 .disk = .ok s := ⟨_, rfl⟩
example : ∃ s, revolveSched 5 2 ⟨1, 1, 2, 2⟩ = .ok s := ⟨_, rfl⟩
example : ∃ s, diskRevolveSched 5 2 ⟨1, 1, 2, 2⟩ = .ok s := ⟨_, rfl⟩
example : ∃ s, periodicSched 5 2 ⟨1, 1, 2, 2⟩ = .ok s := ⟨_, rfl⟩
example : ∃ s, hrevolveSched 5 1 2 ⟨1, 1, 2, 2⟩ = .ok s := ⟨_, rfl⟩
example : multistageStorage 5 2 0 .maximum = some [.ram, .ram] ∧
    ∃ s, multistageSched 5 2 0 .maximum = .ok s := ⟨by decide, _, rfl⟩

end Ckpt.Py

#print axioms Ckpt.Py.finalize_spec
#print axioms Ckpt.Py.finalize_refines
#print axioms Ckpt.Py.finalize_frame
#print axioms Ckpt.Py.clientHook_eq_finalize
#print axioms Ckpt.Py.clientHook_canon
#print axioms Ckpt.Py.init_spec
#print axioms Ckpt.Py.init_refines
#print axioms Ckpt.Py.init_rejects
#print axioms Ckpt.Py.init_online
#print axioms Ckpt.Py.init_multistage
#print axioms Ckpt.Py.init_mixed
#print axioms Ckpt.Py.init_revolve
#print axioms Ckpt.Py.init_diskRevolve
#print axioms Ckpt.Py.init_periodic
#print axioms Ckpt.Py.init_hrevolve
#print axioms Ckpt.Py.singleMemory_uses_refines
#print axioms Ckpt.Py.singleDisk_uses_refines
#print axioms Ckpt.Py.none_uses_refines
#print axioms Ckpt.Py.twoLevel_uses_refines
#print axioms Ckpt.Py.mixed_uses_refines
#print axioms Ckpt.Py.revolve_uses_refines
#print axioms Ckpt.Py.diskRevolve_uses_refines
#print axioms Ckpt.Py.periodic_uses_refines
#print axioms Ckpt.Py.hrevolve_uses_refines
#print axioms Ckpt.Py.multistage_uses_exact
#print axioms Ckpt.Py.multistage_uses_refines
#print axioms Ckpt.Py.multistageSched_storage
#print axioms Ckpt.Py.multistageStorage_counts_ram0
#print axioms Ckpt.Py.multistageStorage_counts_disk0
