/-
  The operation-sequence builders of the Revolve family, all translated from the source: the hypothesis
  `RevolveRefines` of `RefineSeqDisk.lean` (proved independently of `RefineSeqRevolve.lean`) is discharged by
  `revolve_refines`, giving the unconditional statements for `disk_revolve` and `periodic_disk_revolve`.
-/
import CkptGen.RefineSeqRevolve
import CkptGen.RefineSeqDisk

namespace Ckpt.Py
open Ckpt Ckpt.Ops

/-- the generated `revolve` refines the twin's `revolveOps` (`RefineSeqRevolve.revolve_refines`), in the form
`RefineSeqDisk.lean` assumes -/
theorem revolveRefines : RevolveRefines := by
  intro l cm uf ub lmax mmax fuel rd wd ops _ hcm hl hf h
  have h1 := revolve_refines lmax mmax uf ub rd wd fuel l cm (le_trans hl (le_max_left _ _)) hcm
  rw [revolveOps_mono _ _ (l + 2) fuel l cm ops hf h] at h1
  exact h1

/-- **DiskRevolve**: builder and iterator, both as generated from the source -/
theorem source_diskRevolve_accepted_all (N cm : Nat) (c : Costs)
    (hv : validRevolve N cm c.uf c.ub = true) (k : Nat) (rd wd : Nat) (hwr : wd + rd = c.wd + c.rd)
    (bfuel : Nat) (hb : N + 2 ≤ bfuel) :
    ∃ pops, disk_revolve bfuel ((N : Int) - 1) (cm : Int) (rd : Rat) (wd : Rat) (c.uf : Rat) (c.ub : Rat) none none
        = .ok pops ∧
      ∀ fuel, pops.length + 1 ≤ fuel →
        ∃ pevs, revolve_run fuel (N : Int) pops = .ok pevs ∧
          Accepted (cfgDiskRevolve cm N) k (obsOfPy false N pevs) :=
  source_diskRevolve_accepted_full revolveRefines N cm c hv k rd wd hwr bfuel hb

/-- **PeriodicDiskRevolve**: builder and iterator, both as generated from the source -/
theorem source_periodic_accepted_all (N cm : Nat) (c : Costs)
    (hv : validRevolve N cm c.uf c.ub = true) (k : Nat) (rd wd : Nat) (hwr : wd + rd = c.wd + c.rd) :
    ∃ mx, mxrr cm c.uf (c.wd + c.rd) = some mx ∧ ∀ bfuel, c.wd + c.rd + 2 ≤ bfuel → N + mx + 1 ≤ bfuel →
      ∃ pops, periodic_disk_revolve bfuel ((N : Int) - 1) (cm : Int) (rd : Rat) (wd : Rat) (c.uf : Rat) (c.ub : Rat)
          none none = .ok pops ∧
        ∀ fuel, pops.length + 1 ≤ fuel →
          ∃ pevs, revolve_run fuel (N : Int) pops = .ok pevs ∧
            Accepted (cfgDiskRevolve cm N) k (obsOfPy false N pevs) :=
  source_periodic_accepted_full revolveRefines N cm c hv k rd wd hwr

example : validRevolve 5 2 1 1 = true := by decide

end Ckpt.Py

#print axioms Ckpt.Py.revolveRefines
#print axioms Ckpt.Py.source_diskRevolve_accepted_all
#print axioms Ckpt.Py.source_periodic_accepted_all
