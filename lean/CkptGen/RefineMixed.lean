import CkptGen.RefineNAdv
import CkptVerif.Proofs.MixedDP
import Mathlib.Tactic
/-!
# The Lean text generated from `mixed_step_memoization` / `optimal_steps_mixed` (mixed.py) computes the models
-/
namespace Ckpt.Py
open Ckpt

/-- inverse of `StepType.toInt` on `0..6` -/
def stepTypeOfNat : Nat → StepType
  | 1 => .forward
  | 2 => .forward_reverse
  | 3 => .write_adj_deps
  | 4 => .write_ics
  | 5 => .read_adj_deps
  | 6 => .read_ics
  | _ => .none

theorem stepTypeOfNat_toInt (t : StepType) : stepTypeOfNat t.toInt.toNat = t := by
  cases t <;> rfl

theorem toInt_stepTypeOfNat (k : Nat) (hk : k ≤ 6) : (stepTypeOfNat k).toInt = (k : Int) := by
  interval_cases k <;> rfl

/-- a model cell as the Python tuple `(StepType, int, int)` -/
def cellTuple (c : Cell) : StepType × Int × Int := (stepTypeOfNat c.kind, (c.len : Int), (c.cost : Int))

/-- a `for` loop over (the casts of) a list of naturals whose body always continues is a `foldl`
(through a representation map `R` of the loop state) -/
theorem forIn_yield_map {σ τ : Type} (R : τ → σ) (g : τ → Nat → τ) (body : Int → σ → M (ForInStep σ)) :
    ∀ (l : List Nat) (t0 : τ), (∀ x ∈ l, ∀ t, body (x : Int) (R t) = .ok (.yield (R (g t x)))) →
      forIn (l.map (fun k : Nat => (k : Int))) (R t0) body = .ok (R (l.foldl g t0)) := by
  intro l
  induction l with
  | nil => intro t0 _; rfl
  | cons x xs ih =>
    intro t0 h
    rw [List.map_cons, List.forIn_cons, h x (List.mem_cons_self ..) t0]
    show forIn (List.map (fun k : Nat => (k : Int)) xs) (R (g t0 x)) body = _
    rw [List.foldl_cons]
    exact ih (g t0 x) (fun y hy t => h y (List.mem_cons_of_mem _ hy) t)

theorem forIn_yield_map' {σ τ : Type} (R : τ → σ) (g : τ → Nat → τ) (l : List Nat) (t0 : τ) (init : σ)
    (body : Int → σ → M (ForInStep σ)) (hi : init = R t0)
    (h : ∀ x ∈ l, ∀ t, body (x : Int) (R t) = .ok (.yield (R (g t x)))) :
    forIn (l.map (fun k : Nat => (k : Int))) init body = .ok (R (l.foldl g t0)) := by
  subst hi; exact forIn_yield_map R g body l t0 h

theorem pyRange_nat (a b : Nat) :
    pyRange (a : Int) (b : Int) = (List.range' a (b - a)).map (fun k : Nat => (k : Int)) := by
  unfold pyRange
  have : ((b : Int) - (a : Int)).toNat = b - a := by omega
  rw [this, List.range'_eq_map_range, List.map_map]
  apply List.map_congr_left
  intro k _
  simp

theorem memoSpec_valid (n s : Nat) (h : validKey n (clampS n s) = true) :
    memoSpec n s = some (memoCell n (clampS n s)) := by
  show (if validKey n (clampS n s) = true then some (memoCell n (clampS n s)) else none) = _
  rw [if_pos h]

theorem memoSpec_invalid (n s : Nat) (h : ¬ validKey n (clampS n s) = true) :
    memoSpec n s = none := by
  show (if validKey n (clampS n s) = true then some (memoCell n (clampS n s)) else none) = _
  rw [if_neg h]

/-- the cost candidates of the model's loop -/
abbrev mcand (n s : Nat) : Nat → Nat := splitCand n s (fun i j => (memoCell i j).cost)

theorem memo_main (n : Nat) : ∀ (s fuel : Nat), n + 1 ≤ fuel →
    mixed_step_memoization fuel (n : Int) (s : Int) = ofOpt cellTuple (memoSpec n s) := by
  induction n using Nat.strongRecOn with
  | ind n ih =>
  intro s fuel hf
  obtain ⟨f, rfl⟩ : ∃ f, fuel = f + 1 := ⟨fuel - 1, by omega⟩
  unfold mixed_step_memoization
  simp only [bind, Except.bind, pure, Except.pure]
  by_cases hn0 : n = 0
  · subst hn0
    rw [memoSpec_invalid 0 s (by simp [validKey])]
    simp only [Nat.cast_zero, le_refl, if_true]; rfl
  have hn0' : ¬ (n : Int) ≤ 0 := by omega
  rw [if_neg hn0']
  have hmin : min (s : Int) ((n : Int) - 1) = ((clampS n s : Nat) : Int) := by unfold clampS; omega
  rw [hmin]
  by_cases hv : validKey n (clampS n s) = true
  swap
  · rw [memoSpec_invalid n s hv]
    rw [validKey_iff] at hv
    have : ((clampS n s : Nat) : Int) < min 1 ((n : Int) - 1) ∨ ((clampS n s : Nat) : Int) > (n : Int) - 1 := by
      unfold clampS at hv ⊢; omega
    rw [if_pos this]; rfl
  rw [memoSpec_valid n s hv, memoCell_eq, memoF_def]
  have hv' := (validKey_iff _ _).1 hv
  generalize clampS n s = s' at *
  have : ¬ (((s' : Nat) : Int) < min 1 ((n : Int) - 1) ∨ ((s' : Nat) : Int) > (n : Int) - 1) := by omega
  rw [if_neg this]
  by_cases h1 : n ≤ 1
  · have : (n : Int) = 1 := by omega
    rw [if_pos this, if_pos h1]; rfl
  have : ¬ (n : Int) = 1 := by omega
  rw [if_neg this, if_neg h1]
  by_cases h2 : n ≤ s' + 1
  · have : (n : Int) ≤ (s' : Int) + 1 := by omega
    rw [if_pos this, if_pos h2]; rfl
  have : ¬ (n : Int) ≤ (s' : Int) + 1 := by omega
  rw [if_neg this, if_neg h2]
  by_cases h3 : s' = 1
  · have : (s' : Int) = 1 := by omega
    rw [if_pos this, if_pos h3]
    have hd := floordiv_nat (n * (n + 1)) 2 (by omega)
    push_cast at hd
    rw [hd]
    show Except.ok _ = Except.ok _
    have : 1 ≤ n * (n + 1) / 2 := by
      have : 2 ≤ n * (n + 1) := by nlinarith
      omega
    have e1 : (n : Int) - 1 = ((n - 1 : Nat) : Int) := by omega
    have e2 : ((n * (n + 1) / 2 : Nat) : Int) - 1 = ((n * (n + 1) / 2 - 1 : Nat) : Int) := by omega
    push_cast at e2
    rw [e1, e2]; rfl
  have : ¬ (s' : Int) = 1 := by omega
  rw [if_neg this, if_neg h3]
  have hs2 : 2 ≤ s' := by omega
  have hn : s' + 1 < n := by omega
  have hL : ∀ x, 2 ≤ x → x < n →
      mixed_step_memoization f (x : Int) (s' : Int) = .ok (cellTuple (memoCell x (clampS x s'))) := by
    intro x hx2 hxn
    rw [ih x hxn s' f (by omega), memoSpec_valid x s' (validKey_left n s' x hn hs2 hx2 hxn)]; rfl
  have hR : ∀ x, 1 ≤ x → x < n →
      mixed_step_memoization f ((n : Int) - (x : Int)) ((s' : Int) - 1)
        = .ok (cellTuple (memoCell (n - x) (clampS (n - x) (s' - 1)))) := by
    intro x hx1 hxn
    have e1 : (n : Int) - (x : Int) = ((n - x : Nat) : Int) := by omega
    have e2 : (s' : Int) - 1 = ((s' - 1 : Nat) : Int) := by omega
    rw [e1, e2, ih (n - x) (by omega) (s' - 1) f (by omega),
      memoSpec_valid _ _ (validKey_right n s' x hn hs2 hx1 hxn)]; rfl
  have hr : pyRange 2 (n : Int) = (List.range' 2 (n - 2)).map (fun k : Nat => (k : Int)) := by
    simpa using pyRange_nat 2 n
  rw [hr, forIn_yield_map' (Option.map cellTuple) (memoStep (mcand n s')) (List.range' 2 (n - 2)) none none _ rfl]
  · obtain ⟨k, hk⟩ : ∃ k, n - 2 = k + 1 := ⟨n - 3, by omega⟩
    rw [hk, List.range'_succ, List.foldl_cons]
    have e : memoStep (mcand n s') none 2 = some ⟨stWriteIcs, 2, mcand n s' 2⟩ := rfl
    rw [e]
    obtain ⟨c', h1', -⟩ := memoStep_fold_some (mcand n s') (List.range' (2 + 1) k) ⟨stWriteIcs, 2, mcand n s' 2⟩
    rw [h1']
    simp only []
    have hne : ¬ (Option.map cellTuple (some c') = none) := by simp
    rw [if_neg hne]
    have e1 : (n : Int) - 1 = (n : Int) - ((1 : Nat) : Int) := by simp
    rw [e1, hR 1 (by omega) (by omega)]
    have hu : unwrap (Option.map cellTuple (some c')) = .ok (cellTuple c') := rfl
    rw [hu]
    simp only []
    have hm : (1 : Int) + (cellTuple (memoCell (n - 1) (clampS (n - 1) (s' - 1)))).2.2
        = ((1 + (memoCell (n - 1) (clampS (n - 1) (s' - 1))).cost : Nat) : Int) := by
      unfold cellTuple; push_cast; rfl
    rw [hm]
    generalize 1 + (memoCell (n - 1) (clampS (n - 1) (s' - 1))).cost = m1
    by_cases h : m1 < c'.cost
    · have h' : (m1 : Int) < (cellTuple c').2.2 := by show _ < (c'.cost : Int); omega
      rw [if_pos h']
      show _ = Except.ok (cellTuple (if m1 < c'.cost then _ else _))
      rw [if_pos h]; rfl
    · have h' : ¬ (m1 : Int) < (cellTuple c').2.2 := by show ¬ _ < (c'.cost : Int); omega
      rw [if_neg h']
      show _ = Except.ok (cellTuple (if m1 < c'.cost then _ else _))
      rw [if_neg h]
  · intro x hx t
    rw [List.mem_range'_1] at hx
    rw [hL x (by omega) (by omega), hR x (by omega) (by omega)]
    have hc : (x : Int) + (cellTuple (memoCell x (clampS x s'))).2.2 +
        (cellTuple (memoCell (n - x) (clampS (n - x) (s' - 1)))).2.2 = ((mcand n s' x : Nat) : Int) := by
      unfold mcand splitCand cellTuple; push_cast; rfl
    simp only []
    rw [hc]
    cases t with
    | none => rfl
    | some c =>
      have hu : unwrap (Option.map cellTuple (some c)) = .ok (cellTuple c) := rfl
      have hne : ¬ (Option.map cellTuple (some c) = none) := by simp
      rw [if_neg hne, hu]
      simp only []
      by_cases h : mcand n s' x ≤ c.cost
      · have h' : ((mcand n s' x : Nat) : Int) ≤ (cellTuple c).2.2 := by show _ ≤ (c.cost : Int); omega
        have e : memoStep (mcand n s') (some c) x = some ⟨stWriteIcs, x, mcand n s' x⟩ := by
          show (if mcand n s' x ≤ c.cost then _ else _) = _
          rw [if_pos h]
        rw [e, decide_eq_true h']
        rfl
      · have h' : ¬ ((mcand n s' x : Nat) : Int) ≤ (cellTuple c).2.2 := by show ¬ _ ≤ (c.cost : Int); omega
        have e : memoStep (mcand n s') (some c) x = some c := by
          show (if mcand n s' x ≤ c.cost then _ else _) = _
          rw [if_neg h]
        rw [e, decide_eq_false h']
        rfl

theorem optMixedSpec_valid (n s : Nat) (h : validKey n (clampS n s) = true) :
    optMixedSpec n s = some (optMixedCell n (clampS n s)) := by
  show (if validKey n (clampS n s) = true then some (optMixedCell n (clampS n s)) else none) = _
  rw [if_pos h]

theorem optMixedSpec_invalid (n s : Nat) (h : ¬ validKey n (clampS n s) = true) :
    optMixedSpec n s = none := by
  show (if validKey n (clampS n s) = true then some (optMixedCell n (clampS n s)) else none) = _
  rw [if_neg h]

theorem opt_main (n : Nat) : ∀ (s fuel : Nat), n + 1 ≤ fuel →
    optimal_steps_mixed fuel (n : Int) (s : Int) = ofOpt (fun a : Nat => (a : Int)) (optMixedSpec n s) := by
  induction n using Nat.strongRecOn with
  | ind n ih =>
  intro s fuel hf
  obtain ⟨f, rfl⟩ : ∃ f, fuel = f + 1 := ⟨fuel - 1, by omega⟩
  unfold optimal_steps_mixed
  simp only [bind, Except.bind, pure, Except.pure]
  by_cases hn0 : n = 0
  · subst hn0
    rw [optMixedSpec_invalid 0 s (by simp [validKey])]
    simp only [Nat.cast_zero, le_refl, if_true]; rfl
  have hn0' : ¬ (n : Int) ≤ 0 := by omega
  rw [if_neg hn0']
  have hmin : min (s : Int) ((n : Int) - 1) = ((clampS n s : Nat) : Int) := by unfold clampS; omega
  rw [hmin]
  by_cases hv : validKey n (clampS n s) = true
  swap
  · rw [optMixedSpec_invalid n s hv]
    rw [validKey_iff] at hv
    have : ((clampS n s : Nat) : Int) < min 1 ((n : Int) - 1) ∨ ((clampS n s : Nat) : Int) > (n : Int) - 1 := by
      unfold clampS at hv ⊢; omega
    rw [if_pos this]; rfl
  rw [optMixedSpec_valid n s hv, optMixedCell_eq, optMixedF_def]
  have hv' := (validKey_iff _ _).1 hv
  generalize clampS n s = s' at *
  have : ¬ (((s' : Nat) : Int) < min 1 ((n : Int) - 1) ∨ ((s' : Nat) : Int) > (n : Int) - 1) := by omega
  rw [if_neg this]
  by_cases h2 : n ≤ s' + 1
  · have : (n : Int) ≤ (s' : Int) + 1 := by omega
    rw [if_pos this, if_pos h2]; rfl
  have : ¬ (n : Int) ≤ (s' : Int) + 1 := by omega
  rw [if_neg this, if_neg h2]
  by_cases h3 : s' = 1
  · have : (s' : Int) = 1 := by omega
    rw [if_pos this, if_pos h3]
    have hd := floordiv_nat (n * (n + 1)) 2 (by omega)
    push_cast at hd
    rw [hd]
    show Except.ok _ = Except.ok _
    have : 1 ≤ n * (n + 1) / 2 := by
      have : 2 ≤ n * (n + 1) := by nlinarith
      omega
    have e2 : ((n * (n + 1) / 2 : Nat) : Int) - 1 = ((n * (n + 1) / 2 - 1 : Nat) : Int) := by omega
    push_cast at e2
    rw [e2]
  have : ¬ (s' : Int) = 1 := by omega
  rw [if_neg this, if_neg h3]
  have hs2 : 2 ≤ s' := by omega
  have hn : s' + 1 < n := by omega
  have hL : ∀ x, 2 ≤ x → x < n →
      optimal_steps_mixed f (x : Int) (s' : Int) = .ok ((optMixedCell x (clampS x s') : Nat) : Int) := by
    intro x hx2 hxn
    rw [ih x hxn s' f (by omega), optMixedSpec_valid x s' (validKey_left n s' x hn hs2 hx2 hxn)]; rfl
  have hR : ∀ x, 1 ≤ x → x < n →
      optimal_steps_mixed f ((n : Int) - (x : Int)) ((s' : Int) - 1)
        = .ok ((optMixedCell (n - x) (clampS (n - x) (s' - 1)) : Nat) : Int) := by
    intro x hx1 hxn
    have e1 : (n : Int) - (x : Int) = ((n - x : Nat) : Int) := by omega
    have e2 : (s' : Int) - 1 = ((s' - 1 : Nat) : Int) := by omega
    rw [e1, e2, ih (n - x) (by omega) (s' - 1) f (by omega),
      optMixedSpec_valid _ _ (validKey_right n s' x hn hs2 hx1 hxn)]; rfl
  have hr : pyRange 2 (n : Int) = (List.range' 2 (n - 2)).map (fun k : Nat => (k : Int)) := by
    simpa using pyRange_nat 2 n
  have e1 : (n : Int) - 1 = (n : Int) - ((1 : Nat) : Int) := by simp
  rw [e1, hR 1 (by omega) (by omega)]
  simp only []
  rw [hr, forIn_yield_map' (fun a : Nat => (a : Int)) (fun m i => min m (splitCand n s' optMixedCell i))
    (List.range' 2 (n - 2)) (1 + optMixedCell (n - 1) (clampS (n - 1) (s' - 1))) _ _ (by push_cast; rfl)]
  · rfl
  · intro x hx t
    rw [List.mem_range'_1] at hx
    rw [hL x (by omega) (by omega), hR x (by omega) (by omega)]
    simp only []
    unfold splitCand
    push_cast
    rfl

/-- the fuel bound: every recursive call strictly decreases `n` -/
def fuelBound (n _s : Nat) : Nat := n + 1

/-- **`mixed_step_memoization` as generated from the Python source computes the model `memoSpec`**
(step type, length and cost; `ValueError` exactly where the model says so), for any fuel `≥ n + 1` -/
theorem mixed_step_memoization_refines (n s fuel : Nat) (hf : fuelBound n s ≤ fuel) :
    mixed_step_memoization fuel (n : Int) (s : Int) = ofOpt cellTuple (memoSpec n s) :=
  memo_main n s fuel hf

/-- **`optimal_steps_mixed` as generated from the Python source computes the model `optMixedSpec`**,
for any fuel `≥ n + 1` -/
theorem optimal_steps_mixed_refines (n s fuel : Nat) (hf : fuelBound n s ≤ fuel) :
    optimal_steps_mixed fuel (n : Int) (s : Int) = ofOpt (fun a : Nat => (a : Int)) (optMixedSpec n s) :=
  opt_main n s fuel hf

/-- negative arguments: `ValueError` (any positive fuel) -/
theorem mixed_step_memoization_invalid (n s : Int) (fuel : Nat) (h : n < 0 ∨ s < 0) :
    mixed_step_memoization (fuel + 1) n s = .error .valueError := by
  unfold mixed_step_memoization
  simp only [bind, Except.bind, pure, Except.pure]
  by_cases h0 : n ≤ 0
  · rw [if_pos h0]; rfl
  · rw [if_neg h0]
    have : min s (n - 1) < min 1 (n - 1) ∨ min s (n - 1) > n - 1 := by omega
    rw [if_pos this]; rfl

/-- negative arguments: `ValueError` (any positive fuel) -/
theorem optimal_steps_mixed_invalid (n s : Int) (fuel : Nat) (h : n < 0 ∨ s < 0) :
    optimal_steps_mixed (fuel + 1) n s = .error .valueError := by
  unfold optimal_steps_mixed
  simp only [bind, Except.bind, pure, Except.pure]
  by_cases h0 : n ≤ 0
  · rw [if_pos h0]; rfl
  · rw [if_neg h0]
    have : min s (n - 1) < min 1 (n - 1) ∨ min s (n - 1) > n - 1 := by omega
    rw [if_pos this]; rfl

end Ckpt.Py

#print axioms Ckpt.Py.mixed_step_memoization_refines
#print axioms Ckpt.Py.optimal_steps_mixed_refines
#print axioms Ckpt.Py.mixed_step_memoization_invalid
#print axioms Ckpt.Py.optimal_steps_mixed_invalid
