import CkptGen.Src
import CkptVerif.Properties.Twins
import CkptVerif.Proofs.OnlineGlue
import Mathlib.Tactic
import CkptGen.RefineCommon
/-!
# The Lean text generated from the three generators of basic_schedules.py yields the model's events

`Ckpt.Py.singleMemory_iterator`, `Ckpt.Py.singleDisk_iterator`, `Ckpt.Py.none_iterator` are produced by
`harness/py2lean.py` from the current Python source (with the canonical client built in: it finalises at
`clientN` as soon as the forward has been told to reach it and stops after `passes` adjoint calculations).
The models are the `Sched` records `singleMemorySched`, `singleDiskSched mv`, `noneSched`
(`CkptVerif/Model/Online.lean`) all property theorems are about.

Right-hand side of the three theorems: `s.fwdPhase N ++ evs` with `s.stream N k = .ok evs`, where
* `s.fwdPhase N` (defined here) are the events `s.fwdEv` produces in the `while self._max_n is None` loop under
  the canonical client, from `_n = 0` until the reported `_n` reaches `N` (`fwdObs_eq_map` ties it to `fwdObs`
  of `Proofs/OnlineGlue.lean`, the forward phase of `Sched.canon`);
* `s.stream N k` (`Model/BasicIter.lean`) is `s.first N` followed by `k - 1` times `s.again N`; by
  `twin_singleMemory`, `twin_singleDisk`, `twin_none` it equals the literal twins (corollaries at the end).
-/
namespace Ckpt.Py
open Ckpt

/-! ## The mapping of model events to `PyEv` -/

/-- a whole run: `_exhausted` is `False` at every yield except possibly the last one -/
def pyEvs (exhLast : Bool) : List Ev → List PyEv
  | [] => []
  | [e] => [evPy e exhLast]
  | e :: e' :: es => evPy e false :: pyEvs exhLast (e' :: es)

theorem pyEvs_snoc (b : Bool) (l : List Ev) (e : Ev) :
    pyEvs b (l ++ [e]) = l.map (fun x => evPy x false) ++ [evPy e b] := by
  induction l with
  | nil => rfl
  | cons a l ih =>
    cases l with
    | nil => rfl
    | cons a' l =>
      simp only [List.cons_append, pyEvs, List.map_cons] at ih ⊢
      rw [ih]

theorem pyEvs_false (l : List Ev) : pyEvs false l = l.map (fun x => evPy x false) := by
  induction l with
  | nil => rfl
  | cons a l ih =>
    cases l with
    | nil => rfl
    | cons a' l => simp only [pyEvs, List.map_cons] at ih ⊢; rw [ih]

/-! ## The forward phase of a `Sched` under the canonical client -/

/-- the events of the loop `while self._max_n is None` started at `_n = n`: `fwdEv` is applied until the
reported `_n` reaches `N` (the canonical client then calls `finalize(N)`) -/
def fwdEvs (s : Sched) (N : Nat) : (fuel : Nat) → (n : Nat) → List Ev
  | 0, _ => []
  | f+1, n =>
    if N ≤ (s.fwdEv n).n then [s.fwdEv n]
    else s.fwdEv n :: fwdEvs s N f (s.fwdEv n).n

end Ckpt.Py

/-- the forward phase from `_n = 0` (every `fwdEv` of the classes here advances `_n`, so `N` rounds suffice) -/
def Ckpt.Sched.fwdPhase (s : Ckpt.Sched) (N : Nat) : List Ckpt.Ev := Ckpt.Py.fwdEvs s N N 0

namespace Ckpt.Py
open Ckpt

/-- `fwdEvs` and the observations `fwdObs` of the forward phase of `Sched.canon` (`Proofs/OnlineGlue.lean`)
are the same events: an observation reports `n`, `max_n` after the client's `finalize` -/
theorem fwdObs_eq_map (s : Sched) (N : Nat) : ∀ (f n : Nat),
    fwdObs s N f n = (fwdEvs s N f n).map (fun e =>
      if N ≤ e.n then (⟨e.act, N, e.r, some N, false, true⟩ : Obs)
      else ⟨e.act, e.n, e.r, none, false, true⟩) := by
  intro f
  induction f with
  | zero => intro n; rfl
  | succ f ih =>
    intro n
    unfold fwdObs fwdEvs
    by_cases h : N ≤ (s.fwdEv n).n
    · simp only [h, if_true, List.map_cons, List.map_nil]
    · simp only [h, if_false, List.map_cons, ih]

/-- for a constant-step forward loop, any sufficient number of rounds gives the same events -/
theorem fwdEvs_fuel (s : Sched) (N p : Nat) (hstep : ∀ n, (s.fwdEv n).n = n + p) :
    ∀ (f f' n : Nat), n < N → N ≤ n + f * p → f ≤ f' → fwdEvs s N f' n = fwdEvs s N f n := by
  intro f
  induction f with
  | zero => intro f' n h1 h2 _; omega
  | succ f ih =>
    intro f' n h1 h2 h3
    obtain ⟨f', rfl⟩ : ∃ g, f' = g + 1 := ⟨f' - 1, by omega⟩
    unfold fwdEvs
    by_cases h : N ≤ (s.fwdEv n).n
    · simp only [h, if_true]
    · simp only [h, if_false]
      rw [hstep] at h ⊢
      have e : (f + 1) * p = f * p + p := Nat.succ_mul f p
      rw [ih f' (n + p) (by omega) (by omega) (by omega)]


/-! ## small facts -/

theorem maxsize_cast : (9223372036854775807 : Int) = ((maxsize : Nat) : Int) := by decide

theorem clientHook_some (N n : Int) (m : Int) : clientHook N n (some m) = (n, some m) := by
  simp [clientHook]

theorem clientHook_none_ge (N n : Int) (h : n ≥ N) : clientHook N n none = (N, some N) := by
  simp [clientHook, h]

theorem clientHook_none_lt (N n : Int) (h : ¬ n ≥ N) : clientHook N n none = (n, none) := by
  simp [clientHook, h]

/-! ## SingleMemoryStorageSchedule -/

theorem sm_while1 (N : Nat) (pl : Int) : ∀ (f fuel n : Nat) (out : List PyEv),
    n < N → N ≤ n + f * maxsize → f + 1 ≤ fuel →
    singleMemory_iterator.while1 0 (N : Int) fuel ((n : Int), out, pl, none) =
      .ok ((N : Int), out ++ (fwdEvs singleMemorySched N f n).map (fun e => evPy e false), pl, some (N : Int)) := by
  intro f
  induction f with
  | zero => intro fuel n out h1 h2 _; omega
  | succ f ih =>
    intro fuel n out h1 h2 h3
    obtain ⟨fuel, rfl⟩ : ∃ g, fuel = g + 1 := ⟨fuel - 1, by omega⟩
    unfold singleMemory_iterator.while1 fwdEvs
    simp only [pure, Except.pure, if_true]
    rw [maxsize_cast]
    have hev : PyEv.mk (PyAction.forward (n : Int) ((n : Int) + (maxsize : Int)) false true StorageType.work)
        ((n : Int) + (maxsize : Int)) 0 false = evPy (singleMemorySched.fwdEv n) false := by
      simp [evPy, actPy, stPy, singleMemorySched]
    have hn : (singleMemorySched.fwdEv n).n = n + maxsize := rfl
    rw [hev, hn]
    by_cases h : N ≤ n + maxsize
    · have h' : (n : Int) + (maxsize : Int) ≥ (N : Int) := by exact_mod_cast h
      rw [clientHook_none_ge _ _ h', if_pos h]
      obtain ⟨fuel, rfl⟩ : ∃ g, fuel = g + 1 := ⟨fuel - 1, by omega⟩
      unfold singleMemory_iterator.while1
      simp [pure, Except.pure]
    · have h' : ¬ (n : Int) + (maxsize : Int) ≥ (N : Int) := by exact_mod_cast h
      rw [clientHook_none_lt _ _ h', if_neg h]
      have e : (f + 1) * maxsize = f * maxsize + maxsize := Nat.succ_mul f maxsize
      have := ih fuel (n + maxsize) (out ++ [evPy (singleMemorySched.fwdEv n) false]) (by omega) (by omega) (by omega)
      push_cast at this
      rw [this]
      simp


theorem sm_while2 (N : Nat) (hN : 1 ≤ N) : ∀ (k fuel : Nat) (out : List PyEv), 2 * k + 1 ≤ fuel →
    singleMemory_iterator.while2 (N : Int) fuel (0, out, (k : Int), (N : Int), some (N : Int)) =
      .ok (0, out ++ ((List.replicate k (singleMemorySched.again N)).flatten).map (fun e => evPy e false),
        0, (N : Int), some (N : Int)) := by
  intro k
  induction k with
  | zero =>
    intro fuel out h
    obtain ⟨fuel, rfl⟩ : ∃ g, fuel = g + 1 := ⟨fuel - 1, by omega⟩
    unfold singleMemory_iterator.while2
    simp [pure, Except.pure]
  | succ k ih =>
    intro fuel out h
    obtain ⟨fuel, rfl⟩ : ∃ g, fuel = g + 2 := ⟨fuel - 2, by omega⟩
    have hpos : ((k + 1 : Nat) : Int) > 0 := by omega
    have hN0 : ¬ (N : Int) = 0 := by omega
    unfold singleMemory_iterator.while2
    simp only [hpos, if_true, unwrap, bind, Except.bind, pure, Except.pure, clientHook_some]
    unfold singleMemory_iterator.while2
    simp only [hpos, hN0, if_true, if_false, unwrap, bind, Except.bind, pure, Except.pure, clientHook_some]
    have e : ((k + 1 : Nat) : Int) - 1 = (k : Int) := by omega
    rw [e, ih fuel _ (by omega)]
    simp [List.replicate_succ, singleMemorySched, evPy, actPy]

/-- the events of `stream`: `first N`, then `k - 1` times `again N` -/
theorem sm_stream (N k : Nat) (hk : 1 ≤ k) (evs : List Ev) (h : singleMemorySched.stream N k = .ok evs) :
    evs = ⟨.endForward, N, 0⟩ :: (List.replicate k (singleMemorySched.again N)).flatten := by
  obtain ⟨k, rfl⟩ : ∃ g, k = g + 1 := ⟨k - 1, by omega⟩
  simp only [Sched.stream, singleMemorySched, Except.ok.injEq, Nat.add_sub_cancel] at h
  subst h
  simp [List.replicate_succ, singleMemorySched]

/-- all `N ≥ 1`, also beyond `sys.maxsize`: the forward loop then takes `f` rounds, `N ≤ f * sys.maxsize` -/
theorem singleMemory_iterator_refines_anyN (N k f fuel : Nat) (hN : 1 ≤ N) (hmax : N ≤ f * maxsize) (hk : 1 ≤ k)
    (hf : 2 * k + 1 ≤ fuel) (hf' : f + 1 ≤ fuel) (evs : List Ev) (h : singleMemorySched.stream N k = .ok evs) :
    singleMemory_iterator fuel 0 0 none (k : Int) (N : Int) =
      .ok (pyEvs false (singleMemorySched.fwdPhase N ++ evs)) := by
  have hfN : f ≤ N ∨ N < f := by omega
  have hfw : singleMemorySched.fwdPhase N = fwdEvs singleMemorySched N (min f N) 0 := by
    apply fwdEvs_fuel singleMemorySched N maxsize (fun _ => rfl) (min f N) N 0 (by omega) _ (by omega)
    rcases hfN with h' | h'
    · rw [Nat.min_eq_left h']; omega
    · rw [Nat.min_eq_right (by omega)]
      have : N * 1 ≤ N * maxsize := Nat.mul_le_mul_left N maxsize_pos
      omega
  have hmin : N ≤ 0 + min f N * maxsize := by
    rcases hfN with h' | h'
    · rw [Nat.min_eq_left h']; omega
    · rw [Nat.min_eq_right (by omega)]
      have : N * 1 ≤ N * maxsize := Nat.mul_le_mul_left N maxsize_pos
      omega
  rw [sm_stream N k hk evs h, pyEvs_false, hfw]
  unfold singleMemory_iterator
  simp only [bind, Except.bind, pure, Except.pure, ne_eq, not_true_eq_false, if_false]
  have h1 := sm_while1 N (k : Int) (min f N) fuel 0 [] (by omega) hmin (by omega)
  simp only [Nat.cast_zero] at h1
  rw [h1]
  simp only [clientHook_some]
  rw [sm_while2 N hN k fuel _ hf]
  simp [evPy, actPy]

/-- **`SingleMemoryStorageSchedule._iterator` as generated from the Python source, run by the canonical client
(`finalize(N)` as soon as the forward has been told to reach `N`, `k` adjoint calculations), yields the forward
phase of `singleMemorySched` followed by `singleMemorySched.stream N k`**; `_exhausted` is never set.
Fuel: `2 * k + 1` (one round of the forward loop and its exit test; two rounds per calculation and the exit
test of `while True`). -/
theorem singleMemory_iterator_refines (N k fuel : Nat) (hN : 1 ≤ N) (hmax : N ≤ maxsize) (hk : 1 ≤ k)
    (hf : 2 * k + 1 ≤ fuel) (evs : List Ev) (h : singleMemorySched.stream N k = .ok evs) :
    singleMemory_iterator fuel 0 0 none (k : Int) (N : Int) =
      .ok (pyEvs false (singleMemorySched.fwdPhase N ++ evs)) :=
  singleMemory_iterator_refines_anyN N k 1 fuel hN (by omega) hk hf (by omega) evs h

/-- under `N ≤ sys.maxsize` the forward phase is the single `Forward(0, sys.maxsize)` -/
theorem singleMemory_fwdPhase (N : Nat) (hN : 1 ≤ N) (hmax : N ≤ maxsize) :
    singleMemorySched.fwdPhase N = [⟨.forward 0 maxsize false true .work, maxsize, 0⟩] := by
  have hfw : singleMemorySched.fwdPhase N = fwdEvs singleMemorySched N 1 0 :=
    fwdEvs_fuel singleMemorySched N maxsize (fun _ => rfl) 1 N 0 (by omega) (by omega) hN
  rw [hfw]
  simp [fwdEvs, singleMemorySched, hmax]

example : (1 : Nat) ≤ 5 ∧ 5 ≤ maxsize ∧ (1 : Nat) ≤ 3 ∧ 2 * 3 + 1 ≤ 7 ∧
    singleMemorySched.stream 5 3 = .ok ([⟨.endForward, 5, 0⟩, ⟨.reverse 5 0 false, 5, 5⟩, ⟨.endReverse, 5, 0⟩,
      ⟨.reverse 5 0 false, 5, 5⟩, ⟨.endReverse, 5, 0⟩, ⟨.reverse 5 0 false, 5, 5⟩, ⟨.endReverse, 5, 0⟩]) := by
  refine ⟨by decide, by decide, by decide, by decide, rfl⟩


/-! ## SingleDiskStorageSchedule -/

theorem sd_while1 (mv : Bool) (N : Nat) (pl : Int) : ∀ (f fuel n : Nat) (out : List PyEv),
    n < N → N ≤ n + f * 1 → f + 1 ≤ fuel →
    singleDisk_iterator.while1 0 false (N : Int) fuel ((n : Int), out, pl, none) =
      .ok ((N : Int), out ++ (fwdEvs (singleDiskSched mv) N f n).map (fun e => evPy e false), pl,
        some (N : Int)) := by
  intro f
  induction f with
  | zero => intro fuel n out h1 h2 _; omega
  | succ f ih =>
    intro fuel n out h1 h2 h3
    obtain ⟨fuel, rfl⟩ : ∃ g, fuel = g + 1 := ⟨fuel - 1, by omega⟩
    unfold singleDisk_iterator.while1 fwdEvs
    simp only [pure, Except.pure, if_true]
    have hev : PyEv.mk (PyAction.forward (n : Int) ((n : Int) + 1) false true StorageType.disk)
        ((n : Int) + 1) 0 false = evPy ((singleDiskSched mv).fwdEv n) false := by
      simp [evPy, actPy, stPy, singleDiskSched]
    have hn : ((singleDiskSched mv).fwdEv n).n = n + 1 := rfl
    rw [hev, hn]
    by_cases h : N ≤ n + 1
    · have h' : (n : Int) + 1 ≥ (N : Int) := by exact_mod_cast h
      rw [clientHook_none_ge _ _ h', if_pos h]
      obtain ⟨fuel, rfl⟩ : ∃ g, fuel = g + 1 := ⟨fuel - 1, by omega⟩
      unfold singleDisk_iterator.while1
      simp [pure, Except.pure]
    · have h' : ¬ (n : Int) + 1 ≥ (N : Int) := by exact_mod_cast h
      rw [clientHook_none_lt _ _ h', if_neg h]
      have := ih fuel (n + 1) (out ++ [evPy ((singleDiskSched mv).fwdEv n) false]) (by omega) (by omega) (by omega)
      push_cast at this
      rw [this]
      simp

/-- the reverse loop without its final `EndReverse` -/
def sdBody (move : Bool) (N : Nat) : Nat → List Ev
  | 0 => []
  | k+1 =>
    ⟨if move then .move k .disk .work else .copy k .disk .work, k, N - (k+1)⟩ ::
    ⟨.reverse (k+1) k true, k, N - k⟩ :: sdBody move N k

theorem singleDiskPass_eq (move : Bool) (N : Nat) : ∀ j, singleDiskPass move N j =
    sdBody move N j ++ [⟨.endReverse, 0, if move then N else 0⟩] := by
  intro j
  induction j with
  | zero => rfl
  | succ j ih => simp only [singleDiskPass, sdBody, ih, List.cons_append]

theorem sd_while3 (mv exh : Bool) (N : Nat) (pl : Int) : ∀ (j fuel : Nat) (n : Int) (out : List PyEv),
    j ≤ N → j + 1 ≤ fuel →
    singleDisk_iterator.while3 mv exh (N : Int) fuel (n, (N : Int) - (j : Int), out, pl, some (N : Int)) =
      .ok (if j = 0 then n else 0, (N : Int), out ++ (sdBody mv N j).map (fun e => evPy e exh), pl,
        some (N : Int)) := by
  intro j
  induction j with
  | zero =>
    intro fuel n out _ h
    obtain ⟨fuel, rfl⟩ : ∃ g, fuel = g + 1 := ⟨fuel - 1, by omega⟩
    unfold singleDisk_iterator.while3
    simp [unwrap, bind, Except.bind, pure, Except.pure, sdBody]
  | succ j ih =>
    intro fuel n out hj h
    obtain ⟨fuel, rfl⟩ : ∃ g, fuel = g + 1 := ⟨fuel - 1, by omega⟩
    have hlt : (N : Int) - ((j + 1 : Nat) : Int) < (N : Int) := by omega
    unfold singleDisk_iterator.while3
    simp only [hlt, if_true, unwrap, bind, Except.bind, pure, Except.pure, clientHook_some]
    have e1 : (N : Int) - ((N : Int) - ((j + 1 : Nat) : Int)) = (j : Int) + 1 := by omega
    simp only [e1, add_sub_cancel_right]
    have hih := ih fuel (j : Int)
    have hn0 : (if j = 0 then (j : Int) else 0) = 0 := by split_ifs with h0 <;> simp [h0]
    have hr2 : (N : Int) - (j : Int) = ((N - j : Nat) : Int) := by omega
    cases mv
    · simp only [Bool.false_eq_true, if_false]
      rw [hih _ (by omega) (by omega), hn0]
      simp [sdBody, evPy, actPy, stPy, hr2]
      omega
    · simp only [if_true]
      rw [hih _ (by omega) (by omega), hn0]
      simp [sdBody, evPy, actPy, stPy, hr2]
      omega


/-- `move_data = False`: `k` adjoint calculations -/
theorem sd_while2_copy (N : Nat) (hN : 1 ≤ N) : ∀ (k fuel : Nat) (n : Int) (out : List PyEv),
    N + k + 1 ≤ fuel →
    singleDisk_iterator.while2 false (N : Int) fuel (n, 0, false, out, (k : Int), some (N : Int)) =
      .ok (if k = 0 then n else 0, 0, false,
        out ++ ((List.replicate k (singleDiskPass false N N)).flatten).map (fun e => evPy e false),
        0, some (N : Int)) := by
  intro k
  induction k with
  | zero =>
    intro fuel n out h
    obtain ⟨fuel, rfl⟩ : ∃ g, fuel = g + 1 := ⟨fuel - 1, by omega⟩
    unfold singleDisk_iterator.while2
    simp [pure, Except.pure]
  | succ k ih =>
    intro fuel n out h
    obtain ⟨fuel, rfl⟩ : ∃ g, fuel = g + 1 := ⟨fuel - 1, by omega⟩
    have hpos : ((k + 1 : Nat) : Int) > 0 := by omega
    have h3 := sd_while3 false false N ((k + 1 : Nat) : Int) N fuel n out (le_refl _) (by omega)
    rw [sub_self] at h3
    have hN0 : ¬ N = 0 := by omega
    unfold singleDisk_iterator.while2
    simp only [hpos, if_true, bind, Except.bind, h3, hN0, if_false, unwrap, pure, Except.pure, gt_iff_lt,
      lt_irrefl, Bool.false_eq_true, clientHook_some]
    have e : ((k + 1 : Nat) : Int) - 1 = (k : Int) := by omega
    rw [e, ih fuel _ _ (by omega)]
    have hn0 : (if k = 0 then (0 : Int) else 0) = 0 := by split_ifs <;> rfl
    rw [hn0]
    simp [List.replicate_succ, singleDiskPass_eq, evPy, actPy]

/-- `move_data = True`: the generator returns after the first `EndReverse`, where `_exhausted` becomes true -/
theorem sd_while2_move (N : Nat) (hN : 1 ≤ N) (k fuel : Nat) (hk : 1 ≤ k) (n : Int) (out : List PyEv)
    (hf : N + 2 ≤ fuel) :
    singleDisk_iterator.while2 true (N : Int) fuel (n, 0, false, out, (k : Int), some (N : Int)) =
      .ok (0, (N : Int), true,
        out ++ (sdBody true N N).map (fun e => evPy e false) ++ [evPy ⟨.endReverse, 0, N⟩ true],
        (k : Int) - 1, some (N : Int)) := by
  obtain ⟨fuel, rfl⟩ : ∃ g, fuel = g + 1 := ⟨fuel - 1, by omega⟩
  have hpos : (k : Int) > 0 := by omega
  have h3 := sd_while3 true false N (k : Int) N fuel n out (le_refl _) (by omega)
  rw [sub_self] at h3
  have hN0 : ¬ N = 0 := by omega
  unfold singleDisk_iterator.while2
  simp only [hpos, if_true, bind, Except.bind, h3, hN0, if_false, unwrap, pure, Except.pure, gt_iff_lt,
    lt_irrefl, clientHook_some]
  simp [evPy, actPy]


theorem sd_stream (mv : Bool) (N k : Nat) (hk : 1 ≤ k) (evs : List Ev)
    (h : (singleDiskSched mv).stream N k = .ok evs) :
    evs = ⟨.endForward, N, 0⟩ :: (List.replicate k (singleDiskPass mv N N)).flatten := by
  obtain ⟨k, rfl⟩ : ∃ g, k = g + 1 := ⟨k - 1, by omega⟩
  simp only [Sched.stream, singleDiskSched, Except.ok.injEq, Nat.add_sub_cancel] at h
  subst h
  simp [List.replicate_succ]

/-- **`SingleDiskStorageSchedule._iterator` as generated from the Python source, run by the canonical client
(`finalize(N)` as soon as the forward has been told to reach `N`, `k` adjoint calculations wanted), yields the
forward phase of `singleDiskSched mv` followed by `(singleDiskSched mv).stream N k'`**, where `k' = k` for
`move_data = False` and `k' = 1` for `move_data = True` (the generator returns after its only calculation);
`_exhausted` is false at every yield, except at the final `EndReverse` when `move_data = True`.
Fuel: `N + k + 1` (forward loop: `N` rounds and the exit test; each of the `k` rounds of `while True` runs the
inner loop — `N` rounds and the exit test — with one unit less; then the exit test of `while True`). -/
theorem singleDisk_iterator_refines (mv : Bool) (N k fuel : Nat) (hN : 1 ≤ N) (hk : 1 ≤ k)
    (hf : N + k + 1 ≤ fuel) (evs : List Ev)
    (h : (singleDiskSched mv).stream N (if mv then 1 else k) = .ok evs) :
    singleDisk_iterator fuel 0 0 none mv false (k : Int) (N : Int) =
      .ok (pyEvs mv ((singleDiskSched mv).fwdPhase N ++ evs)) := by
  unfold singleDisk_iterator
  simp only [bind, Except.bind, pure, Except.pure, ne_eq, not_true_eq_false, if_false]
  have h1 := sd_while1 mv N (k : Int) N fuel 0 [] (by omega) (by omega) (by omega)
  simp only [Nat.cast_zero] at h1
  rw [h1]
  simp only [clientHook_some]
  cases mv
  · simp only [Bool.false_eq_true, if_false] at h
    rw [sd_stream false N k hk evs h, pyEvs_false, sd_while2_copy N hN k fuel _ _ hf]
    simp [evPy, actPy, Sched.fwdPhase]
  · simp only [if_true] at h
    rw [sd_stream true N 1 (le_refl _) evs h, sd_while2_move N hN k fuel hk _ _ (by omega)]
    have e : (singleDiskSched true).fwdPhase N ++
        ⟨.endForward, N, 0⟩ :: (List.replicate 1 (singleDiskPass true N N)).flatten =
        ((singleDiskSched true).fwdPhase N ++ ⟨.endForward, N, 0⟩ :: sdBody true N N) ++ [⟨.endReverse, 0, N⟩] := by
      simp [singleDiskPass_eq]
    rw [e, pyEvs_snoc]
    simp [evPy, actPy, Sched.fwdPhase]

example : (1 : Nat) ≤ 2 ∧ (1 : Nat) ≤ 2 ∧ 2 + 2 + 1 ≤ 5 ∧
    (singleDiskSched false).stream 2 (if false then 1 else 2) = .ok ([⟨.endForward, 2, 0⟩,
      ⟨.copy 1 .disk .work, 1, 0⟩, ⟨.reverse 2 1 true, 1, 1⟩, ⟨.copy 0 .disk .work, 0, 1⟩,
      ⟨.reverse 1 0 true, 0, 2⟩, ⟨.endReverse, 0, 0⟩,
      ⟨.copy 1 .disk .work, 1, 0⟩, ⟨.reverse 2 1 true, 1, 1⟩, ⟨.copy 0 .disk .work, 0, 1⟩,
      ⟨.reverse 1 0 true, 0, 2⟩, ⟨.endReverse, 0, 0⟩]) := by
  refine ⟨by decide, by decide, by decide, rfl⟩

example : (1 : Nat) ≤ 2 ∧ (1 : Nat) ≤ 3 ∧ 2 + 3 + 1 ≤ 6 ∧
    (singleDiskSched true).stream 2 (if true then 1 else 3) = .ok ([⟨.endForward, 2, 0⟩,
      ⟨.move 1 .disk .work, 1, 0⟩, ⟨.reverse 2 1 true, 1, 1⟩, ⟨.move 0 .disk .work, 0, 1⟩,
      ⟨.reverse 1 0 true, 0, 2⟩, ⟨.endReverse, 0, 2⟩]) := by
  refine ⟨by decide, by decide, by decide, rfl⟩


/-! ## NoneCheckpointSchedule -/

theorem none_while1 (N : Nat) : ∀ (f fuel n : Nat) (out : List PyEv),
    n < N → N ≤ n + f * maxsize → f + 1 ≤ fuel →
    none_iterator.while1 0 false (N : Int) fuel ((n : Int), out, none) =
      .ok ((N : Int), out ++ (fwdEvs noneSched N f n).map (fun e => evPy e false), some (N : Int)) := by
  intro f
  induction f with
  | zero => intro fuel n out h1 h2 _; omega
  | succ f ih =>
    intro fuel n out h1 h2 h3
    obtain ⟨fuel, rfl⟩ : ∃ g, fuel = g + 1 := ⟨fuel - 1, by omega⟩
    unfold none_iterator.while1 fwdEvs
    simp only [pure, Except.pure, if_true]
    rw [maxsize_cast]
    have hev : PyEv.mk (PyAction.forward (n : Int) ((n : Int) + (maxsize : Int)) false false StorageType.none)
        ((n : Int) + (maxsize : Int)) 0 false = evPy (noneSched.fwdEv n) false := by
      simp [evPy, actPy, stPy, noneSched]
    have hn : (noneSched.fwdEv n).n = n + maxsize := rfl
    rw [hev, hn]
    by_cases h : N ≤ n + maxsize
    · have h' : (n : Int) + (maxsize : Int) ≥ (N : Int) := by exact_mod_cast h
      rw [clientHook_none_ge _ _ h', if_pos h]
      obtain ⟨fuel, rfl⟩ : ∃ g, fuel = g + 1 := ⟨fuel - 1, by omega⟩
      unfold none_iterator.while1
      simp [pure, Except.pure]
    · have h' : ¬ (n : Int) + (maxsize : Int) ≥ (N : Int) := by exact_mod_cast h
      rw [clientHook_none_lt _ _ h', if_neg h]
      have e : (f + 1) * maxsize = f * maxsize + maxsize := Nat.succ_mul f maxsize
      have := ih fuel (n + maxsize) (out ++ [evPy (noneSched.fwdEv n) false]) (by omega) (by omega) (by omega)
      push_cast at this
      rw [this]
      simp

theorem none_stream (N k : Nat) (evs : List Ev) (h : noneSched.stream N k = .ok evs) :
    evs = [⟨.endForward, N, 0⟩] := by
  simp only [Sched.stream, noneSched, Except.ok.injEq] at h
  subst h
  simp

/-- all `N ≥ 1`, also beyond `sys.maxsize`: the forward loop then takes `f` rounds, `N ≤ f * sys.maxsize` -/
theorem none_iterator_refines_anyN (N k f fuel : Nat) (hN : 1 ≤ N) (hmax : N ≤ f * maxsize)
    (hf : f + 1 ≤ fuel) (evs : List Ev) (h : noneSched.stream N k = .ok evs) :
    none_iterator fuel 0 0 none false (N : Int) = .ok (pyEvs true (noneSched.fwdPhase N ++ evs)) := by
  have hfN : f ≤ N ∨ N < f := by omega
  have hmin : N ≤ 0 + min f N * maxsize := by
    rcases hfN with h' | h'
    · rw [Nat.min_eq_left h']; omega
    · rw [Nat.min_eq_right (by omega)]
      have : N * 1 ≤ N * maxsize := Nat.mul_le_mul_left N maxsize_pos
      omega
  have hfw : noneSched.fwdPhase N = fwdEvs noneSched N (min f N) 0 :=
    fwdEvs_fuel noneSched N maxsize (fun _ => rfl) (min f N) N 0 (by omega) hmin (by omega)
  rw [none_stream N k evs h, pyEvs_snoc, hfw]
  unfold none_iterator
  simp only [bind, Except.bind, pure, Except.pure, ne_eq, not_true_eq_false, if_false]
  have h1 := none_while1 N (min f N) fuel 0 [] (by omega) hmin (by omega)
  simp only [Nat.cast_zero] at h1
  rw [h1]
  simp [evPy, actPy]

/-- **`NoneCheckpointSchedule._iterator` as generated from the Python source, run by the canonical client
(`finalize(N)` as soon as the forward has been told to reach `N`), yields the forward phase of `noneSched`
followed by `noneSched.stream N k`** (`= [EndForward]` whatever `k`: no adjoint calculation is permitted);
`_exhausted` is true at `EndForward`, false before.  Fuel: `2` (one round of the forward loop, its exit test). -/
theorem none_iterator_refines (N k fuel : Nat) (hN : 1 ≤ N) (hmax : N ≤ maxsize) (hf : 2 ≤ fuel)
    (evs : List Ev) (h : noneSched.stream N k = .ok evs) :
    none_iterator fuel 0 0 none false (N : Int) = .ok (pyEvs true (noneSched.fwdPhase N ++ evs)) :=
  none_iterator_refines_anyN N k 1 fuel hN (by omega) hf evs h

/-- under `N ≤ sys.maxsize` the forward phase is the single `Forward(0, sys.maxsize)` -/
theorem none_fwdPhase (N : Nat) (hN : 1 ≤ N) (hmax : N ≤ maxsize) :
    noneSched.fwdPhase N = [⟨.forward 0 maxsize false false .none, maxsize, 0⟩] := by
  have hfw : noneSched.fwdPhase N = fwdEvs noneSched N 1 0 :=
    fwdEvs_fuel noneSched N maxsize (fun _ => rfl) 1 N 0 (by omega) (by omega) hN
  rw [hfw]
  simp [fwdEvs, noneSched, hmax]

example : (1 : Nat) ≤ 5 ∧ 5 ≤ maxsize ∧ 2 ≤ 2 ∧ noneSched.stream 5 1 = .ok [⟨.endForward, 5, 0⟩] := by
  refine ⟨by decide, by decide, by decide, rfl⟩

/-! ## The same with the literal twins (`Model/BasicIter.lean`) on the right-hand side -/

/-- composed with `twin_singleMemory` -/
theorem singleMemory_iterator_refines_twin (N k fuel : Nat) (hN : 1 ≤ N) (hmax : N ≤ maxsize) (hk : 1 ≤ k)
    (hf : 2 * k + 1 ≤ fuel) (evs : List Ev) (h : singleMemoryIter N k (singleMemoryIterFuel k) = .ok evs) :
    singleMemory_iterator fuel 0 0 none (k : Int) (N : Int) =
      .ok (pyEvs false (singleMemorySched.fwdPhase N ++ evs)) :=
  singleMemory_iterator_refines N k fuel hN hmax hk hf evs (by rw [← twin_singleMemory N k hN hk]; exact h)

/-- composed with `twin_singleDisk` -/
theorem singleDisk_iterator_refines_twin (mv : Bool) (N k fuel : Nat) (hN : 1 ≤ N) (hk : 1 ≤ k)
    (hf : N + k + 1 ≤ fuel) (evs : List Ev) (h : singleDiskIter mv N k (singleDiskIterFuel N k) = .ok evs) :
    singleDisk_iterator fuel 0 0 none mv false (k : Int) (N : Int) =
      .ok (pyEvs mv ((singleDiskSched mv).fwdPhase N ++ evs)) :=
  singleDisk_iterator_refines mv N k fuel hN hk hf evs (by rw [← twin_singleDisk mv N k hN hk]; exact h)

/-- composed with `twin_none` -/
theorem none_iterator_refines_twin (N fuel : Nat) (hN : 1 ≤ N) (hmax : N ≤ maxsize) (hf : 2 ≤ fuel)
    (evs : List Ev) (h : noneIter N = .ok evs) :
    none_iterator fuel 0 0 none false (N : Int) = .ok (pyEvs true (noneSched.fwdPhase N ++ evs)) :=
  none_iterator_refines N 1 fuel hN hmax hf evs (by rw [← twin_none N]; exact h)

/-! ## The streams exist for all parameters: the theorems in equational form -/

theorem singleMemory_iterator_eq (N k fuel : Nat) (hN : 1 ≤ N) (hmax : N ≤ maxsize) (hk : 1 ≤ k)
    (hf : 2 * k + 1 ≤ fuel) :
    singleMemory_iterator fuel 0 0 none (k : Int) (N : Int) =
      .ok (pyEvs false (singleMemorySched.fwdPhase N ++
        ⟨.endForward, N, 0⟩ :: (List.replicate k (singleMemorySched.again N)).flatten)) := by
  apply singleMemory_iterator_refines N k fuel hN hmax hk hf
  obtain ⟨k, rfl⟩ : ∃ g, k = g + 1 := ⟨k - 1, by omega⟩
  simp [Sched.stream, singleMemorySched, List.replicate_succ]

theorem singleDisk_iterator_eq (mv : Bool) (N k fuel : Nat) (hN : 1 ≤ N) (hk : 1 ≤ k) (hf : N + k + 1 ≤ fuel) :
    singleDisk_iterator fuel 0 0 none mv false (k : Int) (N : Int) =
      .ok (pyEvs mv ((singleDiskSched mv).fwdPhase N ++
        ⟨.endForward, N, 0⟩ :: (List.replicate (if mv then 1 else k) (singleDiskPass mv N N)).flatten)) := by
  apply singleDisk_iterator_refines mv N k fuel hN hk hf
  have hk' : 1 ≤ (if mv then 1 else k) := by split_ifs <;> omega
  obtain ⟨k', hk''⟩ : ∃ g, (if mv then 1 else k) = g + 1 := ⟨(if mv then 1 else k) - 1, by omega⟩
  rw [hk'']
  simp [Sched.stream, singleDiskSched, List.replicate_succ]

theorem none_iterator_eq (N fuel : Nat) (hN : 1 ≤ N) (hmax : N ≤ maxsize) (hf : 2 ≤ fuel) :
    none_iterator fuel 0 0 none false (N : Int) =
      .ok (pyEvs true (noneSched.fwdPhase N ++ [⟨.endForward, N, 0⟩])) :=
  none_iterator_refines N 1 fuel hN hmax hf _ rfl

/-! ## concrete runs (the generated text, evaluated) -/

example : singleDisk_iterator 5 0 0 none true false 2 2 = .ok [
    ⟨.forward 0 1 false true .disk, 1, 0, false⟩, ⟨.forward 1 2 false true .disk, 2, 0, false⟩,
    ⟨.endForward, 2, 0, false⟩,
    ⟨.move 1 .disk .work, 1, 0, false⟩, ⟨.reverse 2 1 true, 1, 1, false⟩,
    ⟨.move 0 .disk .work, 0, 1, false⟩, ⟨.reverse 1 0 true, 0, 2, false⟩,
    ⟨.endReverse, 0, 2, true⟩] := by decide

example : singleMemory_iterator 5 0 0 none 2 7 = .ok [
    ⟨.forward 0 9223372036854775807 false true .work, 9223372036854775807, 0, false⟩,
    ⟨.endForward, 7, 0, false⟩,
    ⟨.reverse 7 0 false, 7, 7, false⟩, ⟨.endReverse, 7, 0, false⟩,
    ⟨.reverse 7 0 false, 7, 7, false⟩, ⟨.endReverse, 7, 0, false⟩] := by decide

example : none_iterator 2 0 0 none false 7 = .ok [
    ⟨.forward 0 9223372036854775807 false false .none, 9223372036854775807, 0, false⟩,
    ⟨.endForward, 7, 0, true⟩] := by decide

end Ckpt.Py

#print axioms Ckpt.Py.singleMemory_iterator_refines
#print axioms Ckpt.Py.singleDisk_iterator_refines
#print axioms Ckpt.Py.none_iterator_refines
#print axioms Ckpt.Py.singleMemory_iterator_refines_anyN
#print axioms Ckpt.Py.none_iterator_refines_anyN
#print axioms Ckpt.Py.singleMemory_iterator_refines_twin
#print axioms Ckpt.Py.singleDisk_iterator_refines_twin
#print axioms Ckpt.Py.none_iterator_refines_twin
#print axioms Ckpt.Py.singleMemory_iterator_eq
#print axioms Ckpt.Py.singleDisk_iterator_eq
#print axioms Ckpt.Py.none_iterator_eq
#print axioms Ckpt.Py.fwdObs_eq_map
