#!/bin/bash
# usage: seed_recheck.sh <seed-id> <worktree> <property>...   re-runs single checks for a seed and updates checks.txt
ID=$1; WT=$2; shift 2
OUT=/verif/seeded/$ID
for P in "$@"; do
  r=$(cd ${VERIF_HOME:-/verif} && VERIF_REPO=$WT VERIF_NPROC=${VERIF_NPROC:-8} VERIF_CACHE_KEEP=12 timeout 2400 ./check $P --tier quick 2>&1 | grep -E "^VIOLATION|^OK|^KNOWN|harness error|^  " | head -3 | tr '\n' ' ' | cut -c1-400)
  grep -v "^$P: " $OUT/checks.txt > $OUT/checks.tmp; echo "$P: $r" >> $OUT/checks.tmp; sort $OUT/checks.tmp > $OUT/checks.txt; rm $OUT/checks.tmp
  echo "$ID $P: $r" | cut -c1-200
done
