"""Per-property checks.

Each check returns a `Result`: what was explored, model/implementation disagreements on the
property's projection, and violations of the property found on the *real* code (each with a
replayable input).  Verdicts on real streams are given by the Lean monitor / Lean kernels.
"""
import itertools
import collections
import random

import core
import gen


# set by ./check when an anchored source file differs from the baseline fingerprint:
# explore deeper kernel boxes ("the code changed, look harder")
DEEP = False


def _sz(quick, thorough, deep, tier):
    if DEEP:
        return deep
    return quick if tier == "quick" else thorough


class Result:
    def __init__(self, prop):
        self.prop = prop
        self.evaluations = 0
        self.programs = 0            # real streams/histories validated
        self.nontrivial = set()      # distinct non-trivial cases (hashes)
        self.rule = ""
        self.samples = []
        self.disagreements = []      # (input, what) model vs implementation on the projection
        self.violations = []         # dict(input=..., what=..., detail=...)
        self.stats = {}
        self.harness_errors = []

    def viol(self, inp, what, detail=None):
        self.violations.append({"input": inp, "what": what, "detail": detail})

    def disagree(self, inp, what):
        self.disagreements.append({"input": inp, "what": what})


def _class_of(x):
    return x[0].split()[0]


def _valid_map(inputs):
    specs = list(dict.fromkeys(x[0] for x in inputs))
    ans = core.driver().ask_many([("valid " + core.lean_spec(s), None) for s in specs])
    return {s: (a == ["1"]) for s, a in zip(specs, ans)}


def _dist(inputs):
    d = {}
    for x in inputs:
        d[_class_of(x)] = d.get(_class_of(x), 0) + 1
    return d


# ------------------------------------------------------------------ stream properties

STREAM = {
    "C01": dict(proj=core.proj_full, tags=("C01",)),
    "C02": dict(proj=core.proj_shape, tags=("C02",)),
    "C03": dict(proj=core.proj_storage, tags=("C03",)),
    "C04": dict(proj=core.proj_storage, tags=("C04",)),
    "C08": dict(proj=core.proj_counters, tags=("C08",)),
    "C09": dict(proj=core.proj_flags, tags=("C09",)),
    "C11": dict(proj=core.proj_uses, tags=("C11",)),
    "C12": dict(proj=core.proj_full, tags=("C12",)),
    "C18": dict(proj=core.proj_actions, tags=("C18",)),
}


def _nontrivial_stream(prop, lines):
    """is this real stream a non-trivial case for the property (exercises its mechanism)?"""
    acts = [ln for ln in lines if ln.startswith("A ")]
    if prop in ("C03", "C04", "C11"):
        return any(a.split()[1] in ("C", "M") for a in acts)
    if prop == "C09":
        return sum(1 for a in acts if a.split()[1] == "ER") >= 1
    return len(acts) > 4


def stream_inputs(tier, seed, prop):
    xs = gen.streams(tier, seed)
    if prop == "C09":
        # flags matter most for repeated passes: ask the single-pass classes for more than one too
        extra = []
        for x in xs:
            if _class_of(x) in ("MS", "MX", "RV", "DR", "PD", "HR") and x[1] <= 6:
                extra.append((x[0], x[1], 2))
        xs = list(dict.fromkeys(xs + extra))
    return xs


LATE_SPECS = ["SM", "SD 0", "SD 1", "NO", "TL 1 0 D maximum", "TL 2 1 R maximum", "TL 3 1 D maximum", "TL 3 2 D revolve",
              "TL 4 0 R maximum", "TL 4 2 R revolve", "TL 5 3 R revolve"]


def _late_finalize(res, prop, tier, cfg):
    """A client that finalises LATE: it has already asked for `late` further actions (and received further Forward
    actions, for TwoLevel / SingleDisk with further checkpoints written) when it calls finalize(N).  By C10 the call is
    accepted and the forward is clamped to N; the rest of the stream must then be the stream of the canonical client:
    the canonical forward phase followed by what the real object emits after the late finalize is given to the Lean
    executor."""
    passes = 2
    ns = (1, 2, 3, 4, 6, 9) if tier == "quick" else tuple(range(1, 14))
    canon = [(spec, n, passes) for spec in LATE_SPECS for n in ns]
    real = core.real_traces(canon)
    hists = []
    for x in canon:
        r = real[x]
        acts = [i for i, ln in enumerate(r) if ln.startswith("A ")]
        ef = next((i for i in acts if r[i].startswith("A EF")), None)
        if ef is None or (r and r[0].startswith(("X", "H"))):
            continue
        c0 = sum(1 for i in acts if i < ef)
        m = sum(1 for i in acts if i >= ef)
        for late in (1, 2):
            hists.append((x, late, (x[0], tuple(["n"] * (c0 + late) + [f"f{x[1]}"] + ["n"] * (m + 1)))))
    hreal = core.real_hists([h for _, _, h in hists])
    reqs, keep = [], []
    for x, late, h in hists:
        hr = hreal[h]
        if hr and hr[0].startswith(("H ", "X ")):
            continue
        k = next((i for i, (op, ln) in enumerate(zip(h[1], hr)) if op.startswith("f")), None)
        if k is None or not hr[k].startswith("f ok"):
            continue        # the late call was rejected: C10's business
        post = [ln for ln in hr[k + 1:] if ln.startswith(("A ", "B ", "S"))]
        out, ers = [], 0
        for ln in post:
            out.append(ln)
            if ln.startswith("A ER"):
                ers += 1
                if ers >= passes:
                    break
        r = real[x]
        ef = next(i for i, ln in enumerate(r) if ln.startswith("A EF"))
        synth = [ln for ln in r[:ef] if ln.startswith(("A ", "B "))] + [ln for ln in out if ln.startswith(("A ", "B "))]
        reqs.append((f"mon {core.lean_spec(x[0])} @ {x[1]} {x[2]}", synth))
        keep.append((h, synth))
    outs = core.driver().ask_many(reqs) if reqs else []
    for (h, synth), out in zip(keep, outs):
        res.programs += 1
        for ln in out:
            w = ln.split()
            if len(w) == 4 and w[0] == "V" and (w[2] in cfg["tags"]):
                i = int(w[1])
                res.viol(h, f"{w[2]}.{w[3]} at action {i} of the stream after a late finalize "
                            f"(canonical forward phase + the actions emitted after the call): {synth[i].split(' | ')[0] if i < len(synth) else '?'}",
                         {"actions": [a.split(" | ")[0] for a in synth[max(0, i - 6): i + 2]]})
                break
    res.stats["late_finalize_histories"] = len(keep)


def check_stream(prop, tier, seed, inputs=None):
    res = Result(prop)
    cfg = STREAM[prop]
    xs = inputs if inputs is not None else stream_inputs(tier, seed, prop)
    valid = _valid_map(xs)
    xs = [x for x in xs if valid[x[0]]]
    real = core.real_traces(xs)
    model = core.model_traces(xs)
    mon = core.monitor(xs, real)
    res.evaluations = len(xs)
    res.stats["classes"] = _dist(xs)
    seen = set()
    for x in xs:
        r = real[x]
        if r and r[0].startswith("H "):
            res.harness_errors.append((x, r[0]))
            continue
        res.programs += 1
        pr = cfg["proj"](r)
        if pr != cfg["proj"](model[x]):
            res.disagree(x, "projection differs between model and implementation")
        for (idx, tag, code) in mon[x]:
            if tag == "ERR":
                res.harness_errors.append((x, "monitor error"))
            elif tag in cfg["tags"] or (prop == "C09" and tag == "C02" and code in (11, 12)):
                res.viol(x, f"{tag}.{code} at action {idx}", _excerpt(r, idx))
                break
        if prop == "C09":
            w = _c09_repeat(x, r)
            if w:
                res.viol(x, w)
            # "each further calculation being an exact, executable repeat of the first":
            # an executability violation after the first EndReverse belongs to C09 as well
            acts = [ln.split(" | ")[0] for ln in r if ln.startswith(("A ", "B "))]
            if "A ER" in acts:
                first_er = acts.index("A ER")
                for (idx, tag, code) in mon[x]:
                    if idx > first_er and tag in ("C01", "C02", "C03", "C04", "C12") and not (tag == "C02" and code == 10):
                        res.viol(x, f"a further adjoint calculation is not an executable repeat: {tag}.{code} at action {idx}",
                                 _excerpt(r, idx))
                        break
        if prop == "C18" and any(ln.startswith("B badaction") for ln in r):
            res.viol(x, "emitted object is not a well-formed action")
        h = hash(tuple(map(str, pr))) if prop != "C11" else hash(x[0])
        if h not in seen and _nontrivial_stream(prop, r):
            seen.add(h)
            if len(res.samples) < 3:
                res.samples.append({"input": list(x), "trace_head": r[:8], "actions": sum(1 for ln in r if ln.startswith("A "))})
    if prop in ("C01", "C02", "C03", "C04", "C08", "C12") and inputs is None:
        _late_finalize(res, prop, tier, cfg)
    if prop in ("C01", "C12"):
        _twin_check(res, xs, real)
    if prop == "C11" and inputs is None:
        _c11_process(res, seed, 150 if tier == "quick" else 1500)
    res.nontrivial = seen
    res.rule = ("exhaustive parameter boxes per class + seeded random configurations + corpus; a case is "
                "(class, parameters, finalisation point, passes); non-trivial = distinct projected real trace "
                "that exercises the property's mechanism (checkpoint loads / a complete adjoint pass / >4 actions)")
    return res


def c11_history_violation(h):
    """C11 on the real code for one process history (fresh interpreter): every storage an object's actions touch must
    be reported as used whenever it is asked, and no query may raise"""
    ans = _proc_fresh_raw(h)
    touched = {}
    for ln, a in zip(h, ans):
        w = ln.split()
        if w[0] == "N" and a.startswith("A "):
            aw = a.split(" | ")[0].split()
            i = int(w[1])
            if aw[1] == "F" and (aw[4] == "1" or aw[5] == "1") and aw[6] in ("R", "D"):
                touched.setdefault(i, {}).setdefault(aw[6], a.split(" | ")[0])
            elif aw[1] in ("C", "M"):
                for st in aw[3:5]:
                    if st in ("R", "D"):
                        touched.setdefault(i, {}).setdefault(st, a.split(" | ")[0])
    for j, (ln, a) in enumerate(zip(h, ans)):
        w = ln.split()
        if w[0] != "U" or a == "?obj":
            continue
        i = int(w[1])
        if a == "U x":
            return j, f"uses_storage_type({w[2]}) of object {i} raises (operation #{j} of the history)"
        if a == "U 0" and w[2] in touched.get(i, {}):
            return j, (f"object {i} answers uses_storage_type({w[2]}) = False at operation #{j} although its stream "
                       f"contains {touched[i][w[2]]!r}")
    return None


def _c11_process(res, seed, count):
    rng = random.Random(seed * 13 + 11)
    hs = _proc_histories(rng, count)
    full = []
    for h in hs:
        h = list(h)
        nobj = sum(1 for ln in h if ln.startswith("C "))
        for i in range(nobj):
            h += [f"U {i} {t}" for t in "RDWN"]
        full.append(h)
    from concurrent.futures import ThreadPoolExecutor
    with ThreadPoolExecutor(core.NPROC) as ex:
        outs = list(ex.map(c11_history_violation, full))
    for h, v in zip(full, outs):
        if v is not None:
            j, msg = v
            small, v2 = _proc_shrink(h[:j + 1], v, budget=250, bad=lambda hh: c11_history_violation(hh) if hh else None)
            res.viol(["proc-uses"] + small, v2[1])
            break
    res.stats["process_histories_C11"] = len(full)


def _twin_check(res, xs, real):
    """The literal twins of the Python generators (iterative loops; operation sequences + conversion
    loop), proved equal to the stream models, are compared with the real streams as well, and the
    operation sequences of the Revolve family with `list(sequence)` of the real code."""
    tw = core.driver().ask_many([(f"twin {core.lean_spec(x[0])} @ {x[1]} {x[2]}", None) for x in xs])
    n = 0
    for x, t in zip(xs, tw):
        r = real[x]
        if not core.is_complete(r):
            continue
        acts = []
        for ln in r:
            if ln.startswith("A "):
                a, f = ln[2:].split(" | ")
                acts.append("E " + a + " | " + " ".join(f.split()[:2]))
        cls = _class_of(x)
        if cls in ("SM", "SD", "NO", "TL"):
            ef = next((i for i, a in enumerate(acts) if a.startswith("E EF")), None)
            if ef is None:
                continue
            acts = acts[ef:] if cls != "TL" else acts[ef + 1:]
        n += 1
        if t != acts:
            k = next((i for i, (u, v) in enumerate(itertools.zip_longest(acts, t)) if u != v), 0)
            res.disagree(x, f"iterative/operation-sequence twin differs from the implementation at event {k}: "
                            f"impl={acts[k] if k < len(acts) else None!r} twin={t[k] if k < len(t) else None!r}")
    res.stats["twin_streams_compared"] = n
    rv = [x for x in xs if _class_of(x) in ("RV", "DR", "PD", "HR") and core.is_complete(real[x]) and "." not in x[0]]
    rv = list(dict.fromkeys(x[0] for x in rv))
    py = core.pool().map(_pyk, [("ops", s_) for s_ in rv], chunksize=16)
    le = core.driver().ask_many([("ops " + s_, None) for s_ in rv])
    for s_, a, b in zip(rv, py, le):
        if a != b:
            res.disagree((s_, 0, 1), "operation sequence differs between the twin and list(sequence) of the implementation")
    res.stats["operation_sequences_compared"] = len(rv)


def _excerpt(lines, idx):
    acts = [ln for ln in lines if ln.startswith(("A ", "B "))]
    lo = max(0, idx - 3)
    return acts[lo:idx + 2]


def _c09_repeat(x, lines):
    """each further adjoint calculation is an exact repeat of the first; number of passes as documented"""
    cls = _class_of(x)
    acts = [ln.split(" | ")[0] for ln in lines if ln.startswith("A ")]
    if "A EF" not in acts:
        return None
    tail = acts[acts.index("A EF") + 1:]
    passes, cur = [], []
    for a in tail:
        cur.append(a)
        if a == "A ER":
            passes.append(cur)
            cur = []
    if cur:
        return "actions after the last EndReverse"
    repeating = cls in ("SM", "TL") or x[0] == "SD 0"
    want = min(x[2], 1) if not repeating else x[2]
    if cls == "NO":
        want = 0
    if len(passes) != want:
        return f"{len(passes)} adjoint calculations emitted, {want} expected"
    for p in passes[1:]:
        if p != passes[0]:
            return "a further adjoint calculation differs from the first"
    return None


# ------------------------------------------------------------------ kernels helper

def _kernel_compare(res, reqs):
    """reqs: list of (lean_request_string, py_task_tuple). Compare line by line."""
    py = core.pool().map(_pyk, [t for _, t in reqs])
    le = core.driver().ask_many([("kernel " + q, None) for q, _ in reqs])
    n = 0
    res.kernel_mismatches = getattr(res, "kernel_mismatches", [])
    for (q, t), a, b in zip(reqs, py, le):
        if a and a[0].startswith("H "):
            res.harness_errors.append((q, a[0]))
            continue
        n += max(len(a), 1)
        if a != b:
            k = next((i for i, (u, v) in enumerate(itertools.zip_longest(a, b)) if u != v), 0)
            res.disagree(("kernel", q), f"first difference at line {k}: impl={a[k] if k < len(a) else None!r} "
                                         f"model={b[k] if k < len(b) else None!r}")
            for u, v in itertools.zip_longest(a, b):
                if u != v and len(res.kernel_mismatches) < 5000:
                    res.kernel_mismatches.append((q, u, v))
    return n


def _pyk(task):
    import rtrace
    return rtrace.py_kernel(task)


def _trim_proc(h):
    """drop the trailing `N i` lines after the object's EndReverse / StopIteration (they change nothing)"""
    ans = _proc_fresh_raw(h)
    last = 0
    for j, a in enumerate(ans):
        if not (a == "S" or a.startswith("?")):
            last = j
    return h[:last + 1]


def proc_steps_violation(h):
    """C06 on the real code in a fresh interpreter: every Mixed object of the history that runs to its EndReverse
    performs optimal_steps_mixed(n, s) forward steps (optimum from the Lean table)"""
    ans = _proc_fresh_raw(h)
    specs = [ln.split()[1:] for ln in h if ln.startswith("C ")]
    steps = {}
    done = set()
    for ln, a in zip(h, ans):
        w = ln.split()
        if w[0] == "N" and a.startswith("A "):
            i = int(w[1])
            aw = a.split(" | ")[0].split()
            if aw[1] == "F":
                steps[i] = steps.get(i, 0) + int(aw[3]) - int(aw[2])
            if aw[1] == "ER":
                done.add(i)
    for i in sorted(done):
        sp = specs[i]
        if sp[0] != "MX":
            continue
        n, s_ = int(sp[1]), int(sp[2])
        T = _table(core.kernel(f"optmixedtab {n} {s_ + 1}"))
        want = T.get((n, s_))
        if want and want != ["raise"] and steps.get(i, 0) != int(want[0]):
            return (f"object {i} (MX {n} {s_} {sp[3]}) performs {steps.get(i, 0)} forward steps inside this history, "
                    f"the mixed optimum for n={n}, s={s_} is {want[0]}")
    return None


def _argmin_reqs(seed, count):
    """`argmin` (basic_functions.py) on its whole domain, not only on what today's callers pass: ties, large
    magnitudes with small differences, infinities"""
    rng = random.Random(seed * 7 + 3)
    reqs = []
    for _ in range(count):
        k = rng.randint(1, 12)
        mode = rng.random()
        if mode < 0.35:
            vals = [rng.randint(0, 6) for _ in range(k)]
        elif mode < 0.8:
            base = rng.choice([10 ** 5, 10 ** 7, 10 ** 9, 10 ** 12, 2 ** 40])
            vals = [base + rng.randint(0, 3) for _ in range(k)]
        else:
            vals = [rng.choice([rng.randint(0, 50), "inf"]) for _ in range(k)]
        words = " ".join(str(v) for v in vals)
        reqs.append((f"argmin {words}", ("argmin",) + tuple(vals)))
    return reqs


def _bands_check(res, nmax):
    """the cheap bands of the three cached kernels up to a large n, in one process, against the Lean tables"""
    got = _pyk(("bands", nmax))
    if got and got[0].startswith("H "):
        res.harness_errors.append(("bands", got[0]))
        return 0
    tabs = {"HS": _table(core.kernel(f"memotab {nmax} {nmax + 2}")),
            "HM": _table(core.kernel(f"optmixedtab {nmax} {nmax + 2}")),
            "HE": _table(core.kernel(f"extratab {nmax} {nmax + 2}"))}
    res.kernel_mismatches = getattr(res, "kernel_mismatches", [])
    bad = 0
    for ln in got:
        w = ln.split()
        want = tabs[w[0]].get((int(w[1]), int(w[2])))
        if want != w[3:]:
            bad += 1
            if bad <= 20:
                res.disagree(("kernel", f"bands {' '.join(w[:3])}"), f"impl={' '.join(w[3:])!r} model={' '.join(want or [])!r} "
                                                                     "(one process, low band / high band / low band again)")
            q = {"HS": "memotab", "HM": "optmixedtab", "HE": "extratab"}[w[0]]
            if len(res.kernel_mismatches) < 5000:
                res.kernel_mismatches.append((f"{q} {w[1]} {w[2]}", " ".join(w[1:]), " ".join(w[1:3] + (want or []))))
    res.stats["band_values_compared"] = len(got)
    return len(got)


def _table(lines):
    d = {}
    for ln in lines:
        w = ln.split()
        d[(int(w[0]), int(w[1]))] = w[2:]
    return d


_extra_cache = {}


def lean_extra(nmax):
    """E(n, s) from the Lean model for all n <= nmax, s <= nmax"""
    if nmax not in _extra_cache:
        t = _table(core.kernel(f"extratab {nmax} {nmax}"))
        _extra_cache[nmax] = {k: (None if v == ["raise"] else int(v[0])) for k, v in t.items()}
    return _extra_cache[nmax]


def _E(tab, n, s):
    return tab[(n, min(s, n - 1))] if n >= 1 else None


def fwd_steps(lines, nfin):
    return core.cost_counts(lines, nfin)[0]


# ------------------------------------------------------------------ C05

def check_C05(tier, seed):
    res = Result("C05")
    xs = [x for x in gen.streams(tier, seed, groups=("multistage", "revolve3"))
          if _class_of(x) in ("MS", "RV")]
    valid = _valid_map(xs)
    xs = [x for x in xs if valid[x[0]]]
    real = core.real_traces(xs)
    model = core.model_traces(xs)
    nmax = max(x[1] for x in xs)
    E = lean_extra(nmax)
    seen = set()
    for x in xs:
        r = real[x]
        if r[0].startswith("H "):
            res.harness_errors.append((x, r[0]))
            continue
        res.programs += 1
        if core.proj_fwdlens(r) != core.proj_fwdlens(model[x]):
            res.disagree(x, "forward lengths differ between model and implementation")
        w = x[0].split()
        n = int(w[1])
        s = int(w[2]) + int(w[3]) if w[0] == "MS" else int(w[2])
        if not core.is_complete(r):
            continue
        want = n + _E(E, n, s)
        got = fwd_steps(r, n)
        if got != want:
            res.viol(x, f"{got} forward steps, Griewank-Walther optimum for n={n}, s={min(s, n - 1)} is {want}")
        key = (w[0], n, min(s, n - 1), w[4] if w[0] == "MS" else "")
        if 1 < min(s, n - 1) < n - 1:
            seen.add(key)
            if len(res.samples) < 3:
                res.samples.append({"input": list(x), "forward_steps": got, "optimum": want})
    # kernels: n_advance, optimal_extra_steps / optimal_steps_binomial
    kn = _sz(48, 128, 200, tier)
    reqs = [(f"extratab {kn} {kn + 1}", ("extratab", kn, kn + 1))]
    reqs += _argmin_reqs(seed, _sz(300, 3000, 3000, tier))
    for traj in gen.TRAJ:
        for n in range(0, _sz(64, 160, 320, tier) + 1):
            reqs += [(f"nadv {n} {s} {traj}", ("nadv", n, s, traj)) for s in range(0, n + 2)]
    res.stats["kernel_values_compared"] = _kernel_compare(res, reqs)
    extra = []
    for q, u, v in getattr(res, "kernel_mismatches", []):
        w = q.split()
        if w[0] == "nadv" and int(w[1]) >= 2 and int(w[2]) >= 1:
            # a step size that differs from the model: run real schedules that reach this sub-problem
            for nn in (int(w[1]), int(w[1]) + 1, 2 * int(w[1])):
                extra.append((f"MS {nn} 0 {int(w[2])} {w[3]}", nn, 1))
                extra.append((f"MS {nn} 0 {int(w[2]) + 1} {w[3]}", nn, 1))
    extra = sorted(set(extra), key=lambda x: x[1])[:40]
    if extra:
        EE = lean_extra(max(x[1] for x in extra))
        rr = core.real_traces(extra)
        for x in extra:
            r = rr[x]
            if not core.is_complete(r):
                continue
            w = x[0].split()
            want = x[1] + _E(EE, x[1], int(w[2]) + int(w[3]))
            got = fwd_steps(r, x[1])
            if got != want:
                res.viol(x, f"{got} forward steps, Griewank-Walther optimum for n={x[1]}, s={int(w[2]) + int(w[3])} is {want}")
    res.evaluations = len(xs) + len(reqs)
    res.nontrivial = seen
    res.stats["classes"] = _dist(xs)
    res.rule = ("all Multistage splits/trajectories and Revolve cost vectors of the boxes + random; step count compared "
                "with n + E(n, s) computed by the Lean model of the Griewank-Walther recurrence; non-trivial = distinct "
                "(class, n, clamped s, trajectory) with 1 < s < n-1")
    return res


# ------------------------------------------------------------------ C06

def check_C06(tier, seed):
    res = Result("C06")
    xs = gen.streams(tier, seed, groups=("mixed",))
    valid = _valid_map(xs)
    xs = [x for x in xs if valid[x[0]]]
    real = core.real_traces(xs)
    model = core.model_traces(xs)
    nmax = max(x[1] for x in xs)
    T = _table(core.kernel(f"optmixedtab {nmax} {nmax + 2}"))
    seen = set()
    steps = {}
    for x in xs:
        r = real[x]
        if r[0].startswith("H "):
            res.harness_errors.append((x, r[0]))
            continue
        res.programs += 1
        if core.proj_fwdlens(r) != core.proj_fwdlens(model[x]):
            res.disagree(x, "forward lengths differ between model and implementation")
        w = x[0].split()
        n, s = int(w[1]), int(w[2])
        if not core.is_complete(r):
            continue
        want = int(T[(n, min(s, nmax + 2))][0]) if s <= nmax + 2 else None
        got = fwd_steps(r, n)
        if want is not None and got != want:
            res.viol(x, f"{got} forward steps, mixed optimum for n={n}, s={s} is {want}")
        steps.setdefault((n, s), set()).add(got)
        if 1 < min(s, n - 1) < n - 1:
            seen.add((n, min(s, n - 1)))
            if len(res.samples) < 3:
                res.samples.append({"input": list(x), "forward_steps": got, "optimum": want})
    for (n, s), v in steps.items():
        if len(v) > 1:
            res.viol((f"MX {n} {s} R/D", n, 1), f"step count depends on storage / code path: {sorted(v)}")
    kn = _sz(48, 110, 256, tier)
    reqs = [(f"memotab {kn} {kn + 1}", ("memotab", kn, kn + 1)),
            (f"optmixedtab {kn} {kn + 1}", ("optmixedtab", kn, kn + 1))]
    res.stats["kernel_values_compared"] = _kernel_compare(res, reqs)
    # a planner cell that differs from the model: run the real schedule of that size and compare its
    # step count with the optimum (this is what turns a kernel disagreement into a failing input)
    extra = []
    for q, u, v in getattr(res, "kernel_mismatches", []):
        if q.startswith("memotab") and u and v and len(u.split()) >= 2 and u.split()[-1] != v.split()[-1]:
            # the planner's COST differs from the model's (a different split of equal cost is not a failure)
            nn, ss = int(u.split()[0]), int(u.split()[1])
            if nn >= 1 and min(1, nn - 1) <= ss:
                extra.append((f"MX {nn} {ss} D 0", nn, 1))
    if DEEP or tier != "quick":
        nb = _sz(0, 300, 400, tier)
        res.stats["kernel_values_compared"] += _bands_check(res, nb)
        # a band value that differs in COST: replay the situation as a process history (few units first, then
        # the schedule with that key) in a fresh interpreter and count the forward steps of the real stream
        tried = 0
        for q, u, v in getattr(res, "kernel_mismatches", []):
            if tried >= 6:
                break
            if q.startswith("memotab") and u and v and u.split()[-1] != v.split()[-1] and len(u.split()) >= 5:
                nn, ss = int(u.split()[0]), int(u.split()[1])
                if nn >= 1 and min(1, nn - 1) <= ss:
                    tried += 1
                    for h in (["C MX %d 4 D 0" % nb, "N 0", "C MX %d %d D 0" % (nn, ss)],
                              ["C MX %d %d D 0" % (nn, ss), "N 0", "C MX %d 4 D 0" % nb]):
                        h = h + ["N 1"] * (6 * max(nn, nb) + 20) if h[2].endswith("%d %d D 0" % (nn, ss)) else \
                            h[:2] + ["N 0"] * (6 * nn + 20) + [h[2]] + ["N 1"] * (6 * nb + 20)
                        msg = proc_steps_violation(h)
                        if msg:
                            res.viol(["proc-steps"] + _trim_proc(h), msg)
                            break
    extra = sorted(set(extra), key=lambda x: x[1])[:24]
    if extra:
        big = max(x[1] for x in extra)
        TT = _table(core.kernel(f"optmixedtab {big} {big + 2}"))
        rr = core.real_traces(extra)
        for x in extra:
            r = rr[x]
            if not core.is_complete(r):
                continue
            w = x[0].split()
            want = TT[(int(w[1]), int(w[2]))]
            got = fwd_steps(r, x[1])
            if want != ["raise"] and got != int(want[0]):
                res.viol(x, f"{got} forward steps, mixed optimum for n={w[1]}, s={w[2]} is {want[0]}")
    # the published helper agrees with the planner's cost (Lean side: two tables of the model)
    M = _table(core.kernel(f"memotab {kn} {kn + 1}"))
    O = _table(core.kernel(f"optmixedtab {kn} {kn + 1}"))
    for k in M:
        if (M[k] == ["raise"]) != (O[k] == ["raise"]) or (M[k] != ["raise"] and M[k][2] != O[k][0]):
            res.disagree(("kernel", f"memo/optmixed {k}"), "model tables disagree")
    res.evaluations = len(xs) + len(M) * 2
    res.nontrivial = seen
    res.stats["classes"] = _dist(xs)
    res.rule = ("all (n, s), both storages, both planner code paths of the boxes + random; step count compared with the Lean "
                "model of the mixed recurrence; non-trivial = distinct (n, clamped s) with 1 < s < n-1")
    return res


# ------------------------------------------------------------------ C07

def _costs_of(w):
    """cost vector scaled by core.COST_SCALE when it is not integral (see core.lean_spec)"""
    if any("." in t for t in w[-4:]):
        return tuple(int(float(v) * core.COST_SCALE) for v in w[-4:])
    return tuple(int(v) for v in w[-4:])


def check_C07(tier, seed):
    res = Result("C07")
    xs = gen.streams(tier, seed, groups=("revolve3", "hrevolve"))
    # siblings for the inequalities
    extra = []
    for x in xs:
        w = x[0].split()
        if w[0] == "HR":
            c1 = int(w[3])
            # siblings with fewer disk units (all of them for small counts, a few for large ones)
            for d in (range(0, c1) if c1 <= 6 else sorted({0, 1, 2, c1 // 2, c1 - 1})):
                extra.append((" ".join(w[:3] + [str(d)] + w[4:]), x[1], 1))
        elif w[0] in ("DR", "PD", "RV"):
            for c in ("DR", "PD", "RV"):
                extra.append((" ".join([c] + w[1:]), x[1], 1))
    xs = list(dict.fromkeys(xs + extra))
    valid = _valid_map(xs)
    xs = [x for x in xs if valid[x[0]]]
    real = core.real_traces(xs)
    model = core.model_traces(xs)
    cost = {}
    seen = set()
    # table values from the Lean model, grouped per (class-params, costs) at the largest n
    need = {}
    for x in xs:
        w = x[0].split()
        uf, ub, wd, rd = _costs_of(w)
        n = int(w[1])
        if w[0] == "HR":
            key = ("hopt", int(w[2]), int(w[3]), wd, rd, ub, uf)
        elif w[0] == "RV":
            key = ("opt0", int(w[2]), uf, ub)
        elif w[0] == "DR":
            key = ("optinf", int(w[2]), uf, ub, wd + rd)
        else:
            continue
        need[key] = max(need.get(key, 0), n - 1)
    tabs = {}
    keys = list(need)
    reqs = []
    for key in keys:
        l = max(need[key], 1)
        if key[0] == "hopt":
            reqs.append(f"hopt {l} {key[1]} {key[2]} {key[3]} {key[4]} {key[5]} {key[6]}")
        elif key[0] == "opt0":
            reqs.append(f"opt0 {l} {key[1]} {key[2]} {key[3]}")
        else:
            reqs.append(f"optinf {l} {key[1]} {key[2]} {key[3]} {key[4]}")
    ans = core.driver().ask_many([("kernel " + q, None) for q in reqs])
    for key, a in zip(keys, ans):
        if key[0] == "hopt":
            rows = [ln.split()[1:] for ln in a if ln.startswith("opt1 ")]
            tabs[key] = [None if row[key[2]] == "inf" else int(row[key[2]]) for row in rows]
        elif key[0] == "opt0":
            tabs[key] = [int(v) for v in a[key[1]].split()]
        else:
            tabs[key] = [int(v) for v in a[0].split()]
    for x in xs:
        r = real[x]
        if r[0].startswith("H "):
            res.harness_errors.append((x, r[0]))
            continue
        res.programs += 1
        if core.proj_cost(r) != core.proj_cost(model[x]):
            res.disagree(x, "cost counts differ between model and implementation")
        if not core.is_complete(r):
            continue
        w = x[0].split()
        uf, ub, wd, rd = _costs_of(w)
        n = int(w[1])
        f, rv, dw, drd = core.cost_counts(r, n)
        c = f * uf + rv * ub + dw * wd + drd * rd
        cost[x[0]] = c
        if w[0] == "HR":
            key = ("hopt", int(w[2]), int(w[3]), wd, rd, ub, uf)
        elif w[0] == "RV":
            key = ("opt0", int(w[2]), uf, ub)
        elif w[0] == "DR":
            key = ("optinf", int(w[2]), uf, ub, wd + rd)
        else:
            key = None
        if key is not None:
            tv = tabs[key][n - 1] if n - 1 < len(tabs[key]) else None
            if tv is None or c != tv + n * uf:
                res.viol(x, f"stream cost {c} != optimum {None if tv is None else tv + n * uf} "
                            f"(table value {tv} + n*uf) for costs uf={uf} ub={ub} wd={wd} rd={rd}")
            if uf != ub or wd != rd:
                seen.add(x[0])
                if len(res.samples) < 3:
                    res.samples.append({"input": list(x), "cost": c, "table_plus_n_uf": None if tv is None else tv + n * uf})
    # inequalities between sibling classes
    for x in xs:
        w = x[0].split()
        if x[0] not in cost:
            continue
        if w[0] == "HR":
            for d in range(0, int(w[3])):
                sib = " ".join(w[:3] + [str(d)] + w[4:])
                if sib in cost and cost[x[0]] > cost[sib]:
                    res.viol(x, f"cost {cost[x[0]]} with {w[3]} disk units exceeds cost {cost[sib]} with {d}")
        elif w[0] == "DR":
            rvs = " ".join(["RV"] + w[1:])
            pds = " ".join(["PD"] + w[1:])
            if rvs in cost and cost[x[0]] > cost[rvs]:
                res.viol(x, f"DiskRevolve cost {cost[x[0]]} exceeds Revolve cost {cost[rvs]}")
            if pds in cost and cost[pds] < cost[x[0]]:
                res.viol((pds, x[1], 1), f"PeriodicDiskRevolve cost {cost[pds]} below DiskRevolve optimum {cost[x[0]]}")
    # the library's own cost accounting (Sequence.makespan) against the cost of its stream and the twin's makespan
    ints = [s_ for s_ in cost if "." not in s_]
    py = core.pool().map(_pyk, [("ops", s_) for s_ in ints], chunksize=16)
    le = core.driver().ask_many([("ops " + s_, None) for s_ in ints])
    for s_, a, b in zip(ints, py, le):
        ma = [ln for ln in a if ln.startswith("makespan ")]
        mb = [ln for ln in b if ln.startswith("makespan ")]
        if ma != mb:
            res.disagree((s_, int(s_.split()[1]), 1), f"Sequence.makespan: implementation {ma} vs operation-sequence twin {mb}")
        elif ma and ma[0].split()[1] != str(cost[s_]):
            res.disagree((s_, int(s_.split()[1]), 1), f"Sequence.makespan {ma[0].split()[1]} differs from the cost {cost[s_]} "
                                                      "of the action stream generated from that sequence")
    res.stats["makespans_compared"] = len(ints)
    # kernel tables
    kreq = []
    L = _sz(20, 40, 64, tier)
    for c in gen.COSTS:
        if "." in c:
            continue
        uf, ub, wd, rd = (int(v) for v in c.split())
        kreq.append((f"opt0 {L} 4 {uf} {ub}", ("opt0", L, 4, uf, ub)))
        for cm in (1, 2, 3):
            kreq.append((f"optinf {L} {cm} {uf} {ub} {wd + rd}", ("optinf", L, cm, uf, ub, wd + rd)))
        for c0 in (1, 2, 3):
            for c1 in (0, 1, 3):
                kreq.append((f"hopt {L} {c0} {c1} {wd} {rd} {ub} {uf}", ("hopt", L, c0, c1, wd, rd, ub, uf)))
    kreq += _argmin_reqs(seed, _sz(300, 3000, 3000, tier))
    res.stats["kernel_values_compared"] = _kernel_compare(res, kreq)
    res.evaluations = len(xs) + len(kreq)
    res.nontrivial = seen
    res.stats["classes"] = _dist(xs)
    res.rule = ("Revolve-family boxes x 10 cost vectors + random integer cost vectors; cost of the real stream compared with "
                "the Lean model's DP table value + n*uf, and sibling inequalities; non-trivial = distinct configuration with "
                "uf != ub or wd != rd")
    return res


# ------------------------------------------------------------------ C10 (finalize)

ONLINE_SPECS = ["SM", "SD 0", "SD 1", "NO", "TL 1 0 D maximum", "TL 2 1 R maximum", "TL 3 2 D revolve",
                "TL 4 0 R maximum", "TL 5 3 R revolve"]
OFFLINE_SPECS = ["MS 1 0 0 maximum", "MS 4 1 1 maximum", "MS 7 0 2 revolve", "MX 1 0 D 0", "MX 6 2 R 0",
                 "RV 5 2 1 1 2 2", "DR 6 1 1 1 2 2", "PD 7 1 1 1 2 2", "HR 6 1 1 1 1 2 2", "HR 1 1 0 1 1 2 2"]


OFFLINE_BIG = ["MS 257 0 3 maximum", "MS 300 2 1 revolve", "MX 260 3 D 0", "RV 257 3 1 1 2 2", "DR 300 2 1 1 2 2",
               "PD 258 2 1 1 2 2", "HR 257 1 2 1 1 2 2", "MS 1000 1 4 maximum"]


def hist_inputs(tier, seed):
    out = []
    depth = 8 if tier == "quick" else 12
    for spec in ONLINE_SPECS:
        per = int(spec.split()[1]) if spec.startswith("TL") else 1
        for i in range(0, depth + 1):
            hi = i * per + 2 if spec[:2] in ("SD", "TL") else 4
            for k in range(-1, hi + 1):
                tail = ["n"] * (6 if tier == "quick" else 10)
                out.append((spec, tuple(["n"] * i + [f"f{k}"] + tail)))
                # a second call after the first
                for k2 in (k, k - 1, k + 1):
                    out.append((spec, tuple(["n"] * i + [f"f{k}", "n", f"f{k2}"] + tail)))
    for spec in OFFLINE_SPECS:
        n = int(spec.split()[1])
        for i in range(0, depth + 1):
            for k in range(-1, n + 3):
                out.append((spec, tuple(["n"] * i + [f"f{k}"] + ["n"] * 6)))
    # sizes beyond CPython's small-integer cache (-5..256) and beyond 2^31: equal numbers that are distinct objects
    for spec in OFFLINE_BIG:
        n = int(spec.split()[1])
        for i in range(0, depth + 1):
            for k in (n - 1, n, n + 1):
                out.append((spec, tuple(["n"] * i + [f"f{k}"] + ["n"] * 4)))
                out.append((spec, tuple(["n"] * i + [f"f{k}", f"f{n}"] + ["n"] * 2)))
    for spec in ONLINE_SPECS:
        per = int(spec.split()[1]) if spec.startswith("TL") else 1
        for big in (257, 1000, 2 ** 31 + 5):
            if spec[:2] in ("SD", "TL") and big > 1000:
                continue
            steps = (big + per - 1) // per + 1 if spec[:2] in ("SD", "TL") else 1
            for k2 in (big - 1, big, big + 1):
                out.append((spec, tuple(["n"] * steps + [f"f{big}", f"f{k2}", "n", f"f{k2}", "n", "n"])))
    rng = random.Random(seed * 7919 + 13)
    count = 300 if tier == "quick" else 4000
    specs = ONLINE_SPECS + OFFLINE_SPECS
    for _ in range(count):
        spec = rng.choice(specs)
        if rng.random() < 0.3 and spec.startswith("TL"):
            spec = f"TL {rng.randint(1, 9)} {rng.randint(0, 3)} {rng.choice('RD')} {rng.choice(gen.TRAJ)}"
        ops = []
        nn = 0
        for _ in range(rng.randint(1, 40)):
            if rng.random() < 0.7:
                ops.append("n")
                nn += 1
            else:
                ops.append(f"f{rng.randint(-1, nn * 3 + 2)}")
        out.append((spec, tuple(ops)))
    return list(dict.fromkeys(out))


def _flags_of(line):
    w = line.split(" | ")[1].split()
    return (int(w[0]), int(w[1]), None if w[2] == "-" else int(w[2]))


def check_C10(tier, seed):
    res = Result("C10")
    xs = hist_inputs(tier, seed)
    real = core.real_hists(xs)
    model = core.model_hists(xs)
    seen = set()
    # twin histories without the rejected calls: the stream must be unchanged
    twins = {}
    for x in xs:
        r = real[x]
        if r and r[0].startswith(("H ", "X ")):
            continue
        keep = tuple(op for op, ln in zip(x[1], r) if not (op.startswith("f") and not ln.startswith("f ok")))
        if keep != x[1]:
            twins[x] = (x[0], keep)
    treal = core.real_hists(list(twins.values())) if twins else {}
    # the same histories with every finalize argument a numpy integer (not a builtin int): the outcome must not change
    np_twins = {}
    for x in xs[:: (3 if tier == "quick" else 1)]:
        if any(o.startswith("f") for o in x[1]) and all(abs(int(o[1:])) < 2 ** 62 for o in x[1] if o.startswith("f")):
            np_twins[x] = (x[0], tuple("g" + o[1:] if o.startswith("f") else o for o in x[1]))
    npreal = core.real_hists(list(np_twins.values())) if np_twins else {}
    for x, y in np_twins.items():
        r, r2 = real[x], npreal[y]
        if r and r[0].startswith(("H ", "X ")):
            continue
        if [core.norm_line(l) for l in r] != [core.norm_line(l) for l in r2]:
            k = next((i for i, (a, b) in enumerate(itertools.zip_longest(r, r2)) if a is None or b is None or core.norm_line(a) != core.norm_line(b)), 0)
            res.viol(y, f"finalize with a numpy integer behaves differently from the same call with an int, at op {k}: "
                        f"{r2[k] if k < len(r2) else None!r} instead of {r[k] if k < len(r) else None!r}", {"op": k})
    for x in xs:
        r = real[x]
        if r and r[0].startswith("H "):
            res.harness_errors.append((x, r[0]))
            continue
        res.programs += 1
        if [core.norm_line(l) for l in r] != [core.norm_line(l) for l in model[x]]:
            k = next((i for i, (a, b) in enumerate(itertools.zip_longest(r, model[x])) if a is None or b is None or core.norm_line(a) != core.norm_line(b)), 0)
            res.disagree(x, f"history outcome differs at op {k}: impl={r[k] if k < len(r) else None!r} model={model[x][k] if k < len(model[x]) else None!r}")
        # the documented contract, evaluated on the real outcomes
        n, mx = 0, None
        if x[0].split()[0] in ("MS", "MX", "RV", "DR", "PD", "HR"):
            mx = int(x[0].split()[1])
        first = True
        for i, (op, ln) in enumerate(zip(x[1], r)):
            if op.startswith("f"):
                k = int(op[1:])
                out = ln.split(" | ")[0]
                n2, _, mx2 = _flags_of(ln)
                if k < 1:
                    want = "f ValueError"
                elif mx is None:
                    want = "f ok" if n >= k else "f RuntimeError"
                else:
                    want = "f ok" if (k == mx and n == k) else "f RuntimeError"
                if out != want:
                    res.viol(x, f"finalize({k}) with n={n}, max_n={mx}: {out[2:]}, expected {want[2:]}", {"op": i})
                    break
                if want == "f ok":
                    if mx2 != k or n2 != k:
                        res.viol(x, f"after accepted finalize({k}): n={n2}, max_n={mx2}", {"op": i})
                        break
                    if mx is None:
                        nxt = next((l for o, l in zip(x[1][i + 1:], r[i + 1:]) if o == "n"), None)
                        if nxt is not None and not nxt.startswith("A EF"):
                            res.viol(x, f"action after finalize({k}) is not EndForward: {nxt}", {"op": i})
                            break
                elif (n2, mx2) != (n, mx):
                    res.viol(x, f"rejected finalize({k}) changed state: n {n}->{n2}, max_n {mx}->{mx2}", {"op": i})
                    break
                seen.add((x[0], want, mx is None, first))
                first = False
            n, _, mx = _flags_of(ln)
        if x in twins:
            a = [l.split(" | ")[0] for o, l in zip(x[1], r) if o == "n"]
            tr = treal[twins[x]]
            b = [l.split(" | ")[0] for o, l in zip(twins[x][1], tr) if o == "n"]
            if a != b:
                res.viol(x, "a rejected finalize call changed the subsequent action stream")
        if len(res.samples) < 3 and any(o.startswith("f") for o in x[1]) and len(x[1]) > 4:
            res.samples.append({"spec": x[0], "ops": list(x[1]), "outcomes": [l.split(" | ")[0] for l in r]})
    res.evaluations = len(xs) + len(twins)
    res.nontrivial = seen
    res.rule = ("every k in [-1, n+2] at every position of the first actions for 9 online and 10 offline configurations, "
                "double calls, plus seeded random histories (<= 40 ops); non-trivial = distinct (configuration, expected "
                "outcome, online?, first call?)")
    return res


# ------------------------------------------------------------------ C13

def check_C13(tier, seed):
    res = Result("C13")
    xs = gen.streams(tier, seed, groups=("twolevel",))
    valid = _valid_map(xs)
    xs = [x for x in xs if valid[x[0]]]
    real = core.real_traces(xs)
    model = core.model_traces(xs)
    pm = max(int(x[0].split()[1]) for x in xs)
    E = lean_extra(max(pm, 2))
    seen = set()
    for x in xs:
        r = real[x]
        if r[0].startswith("H "):
            res.harness_errors.append((x, r[0]))
            continue
        res.programs += 1
        if core.proj_fwdlens(r) != core.proj_fwdlens(model[x]) or core.proj_storage(r) != core.proj_storage(model[x]):
            res.disagree(x, "per-block forward lengths / storage events differ between model and implementation")
        if not core.is_complete(r):
            continue
        w = x[0].split()
        p, b, st = int(w[1]), int(w[2]), w[3]
        n = x[1]
        acts = [ln.split(" | ")[0].split()[1:] for ln in r if ln.startswith("A ")]
        ef = acts.index(["EF"])
        sweep = acts[:ef]
        want = [["F", str(k * p), str((k + 1) * p), "1", "0", "D"] for k in range((n + p - 1) // p)]
        if sweep != want:
            res.viol(x, f"forward sweep is {sweep[:4]}..., expected Forward(k*{p}, (k+1)*{p}, True, False, DISK)")
            continue
        # per pass, per block
        steps = {}
        ok = True
        for a in acts[ef + 1:]:
            if a[0] == "ER":
                for blk in range((n + p - 1) // p):
                    L = min(p, n - blk * p)
                    opt = L + _E(E, L, b + 1)
                    if steps.get(blk, 0) != opt:
                        res.viol(x, f"block {blk} (length {L}) recomputed with {steps.get(blk, 0)} forward steps, "
                                    f"binomial optimum with {b + 1} units is {opt}")
                        ok = False
                        break
                    if 1 < min(b + 1, L - 1) < L - 1:
                        seen.add((p, b, st, w[4], L))
                steps = {}
                if not ok:
                    break
            elif a[0] == "F":
                n0, n1 = int(a[1]), int(a[2])
                steps[n0 // p] = steps.get(n0 // p, 0) + (n1 - n0)
                if (n1 - 1) // p != n0 // p:
                    res.viol(x, f"Forward({n0},{n1}) crosses a period boundary")
                    ok = False
                    break
                if a[5] in ("R", "D") and not (a[5] == st):
                    res.viol(x, f"extra checkpoint written to {a[5]}, binomial storage is {st}")
                    ok = False
                    break
        if ok and len(res.samples) < 3 and p > 3 and b > 0:
            res.samples.append({"input": list(x), "actions": len(acts)})
    # the step-size kernel the blocks rely on, and real blocks for every step size that differs
    reqs = []
    for traj in gen.TRAJ:
        for n in range(0, _sz(64, 160, 320, tier) + 1):
            reqs += [(f"nadv {n} {s_} {traj}", ("nadv", n, s_, traj)) for s_ in range(0, min(n, 8) + 2)]
    res.stats["kernel_values_compared"] = _kernel_compare(res, reqs)
    extra = []
    mm = [(q.split(), u) for q, u, v in getattr(res, "kernel_mismatches", [])]
    mm = [(w, u) for w, u in mm if w[0] == "nadv" and int(w[1]) >= 2 and int(w[2]) >= 1]
    if mm:
        EK = lean_extra(max(int(w[1]) for w, _ in mm))

        def harmful(w, u):
            # is the implementation's step size still a minimiser of the Griewank-Walther recurrence?
            n, k = int(w[1]), min(int(w[2]), int(w[1]) - 1)
            try:
                a = int(u)
            except (TypeError, ValueError):
                return True
            if not (1 <= a <= n - 1):
                return True
            if k == 1:
                return a != n - 1
            return a + _E(EK, a, k) + _E(EK, n - a, k - 1) != _E(EK, n, k)
        mm.sort(key=lambda t: (not harmful(*t), int(t[0][1])))
        for w, u in mm:
            L, units = int(w[1]), int(w[2])
            for st in "RD":
                extra.append((f"TL {L} {units - 1} {st} {w[3]}", L, 1))
                extra.append((f"TL {L} {units - 1} {st} {w[3]}", 2 * L, 1))
            if len(extra) >= 24:
                break
    extra = list(dict.fromkeys(extra))[:24]
    if extra:
        EE = lean_extra(max(int(x[0].split()[1]) for x in extra))
        rr = core.real_traces(extra)
        for x in extra:
            r = rr[x]
            if not core.is_complete(r):
                continue
            w = x[0].split()
            p, b = int(w[1]), int(w[2])
            n = x[1]
            acts = [ln.split(" | ")[0].split()[1:] for ln in r if ln.startswith("A ")]
            ef = acts.index(["EF"])
            steps = {}
            for a in acts[ef + 1:]:
                if a[0] == "F":
                    steps[int(a[1]) // p] = steps.get(int(a[1]) // p, 0) + int(a[2]) - int(a[1])
            for blk in range((n + p - 1) // p):
                L = min(p, n - blk * p)
                opt = L + _E(EE, L, b + 1)
                if steps.get(blk, 0) != opt:
                    res.viol(x, f"block {blk} (length {L}) recomputed with {steps.get(blk, 0)} forward steps, "
                                f"binomial optimum with {b + 1} units is {opt}")
                    break
    res.evaluations = len(xs) + len(reqs)
    res.nontrivial = seen
    res.stats["classes"] = _dist(xs)
    res.rule = ("periods x binomial_snapshots x storages x trajectories x n (partial and full last block), several passes, "
                "+ random; per-block step counts compared with L + E(L, b+1) from the Lean model; non-trivial = distinct "
                "(period, units, storage, trajectory, block length) whose binomial part is not degenerate")
    return res


# ------------------------------------------------------------------ C14

def check_C14(tier, seed):
    res = Result("C14")
    nmax, smax = (20, 6) if tier == "quick" else (48, 8)
    if DEEP:
        nmax, smax = 72, 13
    rng = random.Random(seed + 77)
    ns = list(range(1, nmax + 1)) + [rng.randint(nmax + 1, 200 if tier == "quick" else 400) for _ in range(6 if tier == "quick" else 30)]
    xs = []
    fam = {}
    for n in ns:
        for s in range(1, smax + 1):
            for tr in gen.TRAJ:
                for a in range(0, s + 1):
                    x = (f"MS {n} {a} {s - a} {tr}", n, 1)
                    xs.append(x)
                    fam.setdefault((n, s, tr), []).append((a, x))
    xs = list(dict.fromkeys(xs))
    real = core.real_traces(xs)
    model = core.model_traces(xs)
    seen = set()

    def erase(lines):
        out = []
        for ln in lines:
            if ln.startswith("A "):
                w = ln.split(" | ")[0].split()
                if w[1] == "F" and w[6] in ("R", "D"):
                    w[6] = "*"
                elif w[1] in ("C", "M") and w[3] in ("R", "D"):
                    w[3] = "*"
                out.append(" ".join(w))
            elif ln.startswith(("X", "B", "S")):
                out.append(core.norm_line(ln).split()[0])
        return out

    # weights from the Lean model (and the implementation's own, compared as a kernel)
    kreq = []
    for (n, s, tr), members in fam.items():
        if n <= nmax and 1 <= min(s, n - 1) and s >= 2:
            kreq.append((f"alloc {n} 1 {s - 1} {tr}", ("alloc", n, 1, s - 1, tr)))
    res.stats["kernel_values_compared"] = _kernel_compare(res, kreq)
    wq = {}
    keys = [k for k in fam if k[0] >= 2]
    ans = core.driver().ask_many([(f"kernel alloc {n} 1 {s - 1} {tr}", None) for (n, s, tr) in keys])
    for k, a in zip(keys, ans):
        wq[k] = [int(v) for v in a[0].split()] if a and a[0] != "raise" and a[0] != "" else []
    for (n, s, tr), members in fam.items():
        base = None
        for a, x in members:
            r = real[x]
            if r[0].startswith("H "):
                res.harness_errors.append((x, r[0]))
                continue
            res.programs += 1
            if core.proj_storage(r) != core.proj_storage(model[x]):
                res.disagree(x, "storage events differ between model and implementation")
            if not core.is_complete(r):
                continue
            e = erase(r)
            if base is None:
                base = (x, e)
            elif e != base[1]:
                res.viol(x, f"stream differs from split {base[0][0]} in more than storage labels")
                continue
            # one storage per stack position; RAM positions <= declared; disk accesses minimal
            depth_st = {}
            stack = []
            disk_acc = 0
            bad = None
            for ln in r:
                if not ln.startswith("A "):
                    continue
                w = ln.split(" | ")[0].split()
                if w[1] == "F" and w[6] in ("R", "D"):
                    stack.append(w[6])
                    d = len(stack) - 1
                    if depth_st.setdefault(d, w[6]) != w[6]:
                        bad = f"stack position {d} changes storage"
                    disk_acc += w[6] == "D"
                elif w[1] in ("C", "M"):
                    d = len(stack) - 1
                    if d < 0 or depth_st.get(d) != w[3]:
                        bad = f"load from {w[3]} does not match the storage of stack position {d}"
                        break
                    disk_acc += w[3] == "D"
                    if w[1] == "M":
                        stack.pop()
            if bad:
                res.viol(x, bad)
                continue
            nram = sum(1 for v in depth_st.values() if v == "R")
            if nram > a:
                res.viol(x, f"{nram} stack positions labelled RAM, {a} declared")
                continue
            if n >= 2 and (n, s, tr) in wq and wq[(n, s, tr)]:
                wts = sorted(wq[(n, s, tr)], reverse=True)
                best = sum(wts) - sum(wts[:min(a, n - 1)])
                if min(s - a, n - 1) == 0:
                    best = 0  # no disk unit declared: everything is RAM
                if disk_acc != best:
                    res.viol(x, f"{disk_acc} DISK accesses, minimum over all choices of {a} RAM positions is {best}")
                    continue
            if 0 < a < s and n > s + 1:
                seen.add((n, s, a, tr))
                if len(res.samples) < 3:
                    res.samples.append({"input": list(x), "disk_accesses": disk_acc, "storage_by_depth": depth_st})
    res.evaluations = len(xs) + len(kreq)
    res.nontrivial = seen
    res.rule = ("every split (a, s-a) of every s <= %d for n <= %d (+ larger random n), both trajectories; label-erased stream "
                "compared with the sibling splits, labels per stack depth, DISK accesses compared with (total - top-a) of the "
                "weights computed by the Lean model; non-trivial = distinct (n, s, a, trajectory) with 0 < a < s < n-1" % (smax, nmax))
    return res


# ------------------------------------------------------------------ C15

def _mh(task):
    import rtrace
    return rtrace.multi_history(task)


def _ph(lines):
    import rtrace
    return rtrace.proc_history(lines)


def _proc_norm(l):
    if l.startswith("C X"):
        return "C X"
    if l.startswith("B"):
        return "B" + (l[l.index(" | "):] if " | " in l else "")
    return l


def _near_twin(ln, rng):
    w = ln.split()
    k = w[1]
    if k in ("RV", "DR", "PD", "HR"):
        c = [int(v) for v in w[-4:]]
        how = rng.randint(0, 3)
        if how == 0:
            c = [2 * v for v in c]
        elif how == 1:
            c[0] += rng.randint(1, 3)
        elif how == 2:
            c[1] += rng.randint(1, 3)
        else:
            c[2], c[3] = c[3] + rng.randint(0, 2), c[2] + rng.randint(0, 2)
        return " ".join(w[:-4] + [str(v) for v in c])
    if k == "MS":
        how = rng.randint(0, 2)
        if how == 0:
            w[5] = "revolve" if w[5] == "maximum" else "maximum"
        elif how == 1 and int(w[3]) > 0:
            w[3], w[4] = str(int(w[3]) - 1), str(int(w[4]) + 1)
        elif int(w[4]) > 0:
            w[3], w[4] = str(int(w[3]) + 1), str(int(w[4]) - 1)
        return " ".join(w)
    if k == "MX":
        if rng.random() < 0.5:
            w[4] = "R" if w[4] == "D" else "D"
        else:
            w[5] = "1" if w[5] == "0" else "0"
        return " ".join(w)
    if k == "TL":
        if rng.random() < 0.5:
            w[4] = "R" if w[4] == "D" else "D"
        else:
            w[5] = "revolve" if w[5] == "maximum" else "maximum"
        return " ".join(w)
    if k == "SD":
        w[2] = "1" if w[2] == "0" else "0"
        return " ".join(w)
    return ln


def _proc_histories(rng, count):
    hs = []
    costs = ["1 1 2 2", "2 2 4 4", "2 3 1 4", "4 6 2 8", "3 1 5 2", "1 2 0 0", "2 4 0 0", "2 1 1 1"]
    for _ in range(count):
        lines = []
        nobj = 0
        twin = None
        for _ in range(rng.randint(5, 120)):
            c = rng.random()
            if c < 0.10 or nobj == 0:
                if twin is not None and rng.random() < 0.5:
                    # an exact twin, or a near twin (one parameter changed: the classic missing-cache-key situation)
                    lines.append(twin if rng.random() < 0.4 else _near_twin(twin, rng))
                else:
                    k = rng.choice(["MX", "MX", "MX", "MS", "MS", "SM", "SD", "TL", "RV", "DR", "PD", "HR", "NO"])
                    if k == "MX":
                        ln = f"C MX {rng.randint(0, 14)} {rng.randint(0, 5)} {rng.choice('RDRDW')} {rng.choice('001')}"
                    elif k == "MS":
                        ln = f"C MS {rng.randint(0, 12)} {rng.randint(0, 3)} {rng.randint(0, 3)} {rng.choice(['maximum', 'revolve'])}"
                    elif k in ("SM", "NO"):
                        ln = "C " + k
                    elif k == "SD":
                        ln = f"C SD {rng.randint(0, 1)}"
                    elif k == "TL":
                        ln = f"C TL {rng.randint(0, 5)} {rng.randint(0, 3)} {rng.choice('RD')} {rng.choice(['maximum', 'revolve'])}"
                    elif k == "HR":
                        ln = f"C HR {rng.randint(0, 10)} {rng.randint(0, 2)} {rng.randint(0, 2)} {rng.choice(costs)}"
                    else:
                        ln = f"C {k} {rng.randint(0, 12)} {rng.randint(0, 3)} {rng.choice(costs)}"
                    lines.append(ln)
                    if rng.random() < 0.5:
                        twin = ln
                nobj += 1
            elif c < 0.74:
                lines.append(f"N {rng.randint(0, nobj) if rng.random() < 0.03 else rng.randint(0, nobj - 1)}")
            elif c < 0.80:
                lines.append(f"F {rng.randint(0, nobj - 1)} {rng.randint(-1, 14)}")
            elif c < 0.87:
                lines.append(f"O {rng.randint(0, nobj - 1)}")
            elif c < 0.92:
                lines.append(f"U {rng.randint(0, nobj - 1)} {rng.choice('RDWN')}")
            else:
                lines.append(f"{rng.choice(['HE', 'HM', 'HS'])} {rng.randint(0, 14)} {rng.randint(0, 6)}")
        hs.append(tuple(lines))
    return hs


def _own_history(h, i):
    """the sub-history of object i (the i-th construct line), renumbered to object 0, and the positions kept"""
    lines, pos = [], []
    nobj = -1
    for j, ln in enumerate(h):
        w = ln.split()
        if w[0] == "C":
            nobj += 1
            if nobj == i:
                lines.append(ln)
                pos.append(j)
        elif w[0] in ("N", "F", "O", "U") and int(w[1]) == i and nobj >= i:
            lines.append(" ".join([w[0], "0"] + w[2:]))
            pos.append(j)
    return lines, pos


def _proc_fresh(lines):
    import os
    import subprocess
    p = subprocess.run([core.PY, os.path.join(core.HERE, "proc_fresh.py")], input="\n".join(lines) + "\n",
                       stdout=subprocess.PIPE, stderr=subprocess.DEVNULL, text=True,
                       env=dict(os.environ, VERIF_REPO=core.REPO))
    return [_proc_norm(x) for x in p.stdout.splitlines()]


def _proc_fresh_raw(lines):
    import os
    import subprocess
    p = subprocess.run([core.PY, os.path.join(core.HERE, "proc_fresh.py")], input="\n".join(lines) + "\n",
                       stdout=subprocess.PIPE, stderr=subprocess.DEVNULL, text=True,
                       env=dict(os.environ, VERIF_REPO=core.REPO))
    return p.stdout.splitlines()


def _proc_property_violation(h, real_answers, upto):
    """C15 on the real code alone: the answers of every object touched up to op `upto` inside the history `h` against
    the answers to its own operations in a fresh interpreter"""
    objs = sorted({int(ln.split()[1]) for ln in h[:upto + 1] if ln.split()[0] in ("N", "F", "O", "U")})
    for i in objs:
        own, pos = _own_history(h[:upto + 1], i)
        if not own or not own[0].startswith("C "):
            continue
        alone = _proc_fresh(own)
        inside = [real_answers[j] for j in pos]
        if alone != inside:
            k = next((j for j in range(min(len(alone), len(inside))) if alone[j] != inside[j]), min(len(alone), len(inside)))
            return (f"stream depends on history: object {i} ({own[0][2:]}) answers {inside[k] if k < len(inside) else None!r} to its "
                    f"operation #{k} inside this history, {alone[k] if k < len(alone) else None!r} alone in a fresh interpreter")
    return None


def _proc_remove(h, j):
    """history without line j; removing a construction removes the object's operations and renumbers the others"""
    w = h[j].split()
    if w[0] != "C":
        return h[:j] + h[j + 1:]
    i = sum(1 for ln in h[:j] if ln.startswith("C "))
    out = []
    for jj, ln in enumerate(h):
        if jj == j:
            continue
        ww = ln.split()
        if ww[0] in ("N", "F", "O", "U"):
            t = int(ww[1])
            if t == i:
                continue
            if t > i:
                ww[1] = str(t - 1)
            out.append(" ".join(ww))
        else:
            out.append(ln)
    return out


def _proc_shrink(h, v, budget=400, bad=None):
    def bad_c15(hh):
        if not hh:
            return None
        a = [_proc_norm(x) for x in _proc_fresh_raw(hh)]
        return _proc_property_violation(hh, real_answers=a, upto=len(hh) - 1)
    bad = bad or bad_c15
    cur, curv = h, v
    tries = 0
    progress = True
    while progress and tries < budget:
        progress = False
        j = len(cur) - 2          # the last line is the failing operation
        while j >= 0 and tries < budget:
            cand = _proc_remove(cur, j)
            tries += 1
            vv = bad(cand)
            if vv is not None:
                cur, curv = cand, vv
                progress = True
            j = min(j - 1, len(cur) - 2)
    return cur, curv


def _c15_process(res, rng, count):
    """process-level model (Model/Process.lean, theorems C15_process / C15_equal_params / C15_observers) against the
    real library: the same interleaved history of constructions, next/finalize, observer reads and helper calls"""
    hs = _proc_histories(rng, count)
    # every history starts in a fresh interpreter: the answers then depend on nothing but the history (replayable)
    from concurrent.futures import ThreadPoolExecutor
    with ThreadPoolExecutor(core.NPROC if hasattr(core, "NPROC") else 16) as ex:
        real = list(ex.map(lambda h: _proc_fresh_raw(list(h)), hs))
    model = core.driver().ask_many([("proc", list(h) + ["ENDPROC"]) for h in hs])
    nops = 0
    tried = 0
    kinds = collections.Counter()
    for h, a, b in zip(hs, real, model):
        nops += len(h)
        for ln in h:
            kinds[ln.split()[0]] += 1
        a = [_proc_norm(x) for x in a]
        b = [_proc_norm(x) for x in b]
        if a != b:
            k = next((j for j in range(min(len(a), len(b))) if a[j] != b[j]), min(len(a), len(b)))
            res.disagree(["proc"] + list(h[:k + 1]),
                         f"process history: op {k} {h[k] if k < len(h) else None!r} answers "
                         f"{a[k] if k < len(a) else None!r} (implementation) vs "
                         f"{b[k] if k < len(b) else None!r} (process model)")
            # is it the PROPERTY that fails?  the object's own operations, alone, in a fresh interpreter
            # (decided and shrunk for the first failing history only: one replay is what a report needs, and every
            # further history costs hundreds of fresh interpreters)
            if res.violations or tried >= 12:
                continue
            tried += 1
            v = _proc_property_violation(h, real_answers=a, upto=k)
            if v is not None:
                small, v = _proc_shrink(list(h[:k + 1]), v, budget=150)
                res.viol(["proc"] + small, v)
    res.stats["process_histories"] = len(hs)
    res.stats["process_ops"] = nops
    res.stats["process_op_kinds"] = dict(kinds)


def check_C15(tier, seed):
    res = Result("C15")
    rng = random.Random(seed * 31 + 5)
    pool_specs = [x for x in gen.streams("quick", seed) if x[1] <= 40]
    valid = _valid_map(pool_specs)
    pool_specs = [x for x in pool_specs if valid[x[0]]]
    count = 120 if tier == "quick" else 1200
    tasks = []
    for _ in range(count):
        k = rng.randint(2, 6)
        objs = []
        for _ in range(k):
            x = rng.choice(pool_specs)
            # twins with equal parameters are the point of the property
            objs.append((x[0], x[1]))
        if rng.random() < 0.6:
            objs.append(objs[0])
        sched = []
        order = list(range(len(objs)))
        rng.shuffle(order)
        started = []
        budget = {i: 4000 for i in order}
        steps = rng.randint(10, 400)
        for _ in range(steps):
            if order and (not started or rng.random() < 0.1):
                i = order.pop()
                sched.append(("c", i))
                started.append(i)
            else:
                i = rng.choice(started)
                sched.append(("o", i) if rng.random() < 0.2 else ("n", i))
        for i in order:
            sched.append(("c", i))
            started.append(i)
        # then run everything to its end (bounded) round-robin-ish
        for i in started:
            sched += [("n", i)] * 600
        tasks.append((tuple(objs), tuple(sched)))
    outs = core.pool().map(_mh, tasks, chunksize=4)
    # reference: history-free traces (model and real, single-object runs)
    ref_inputs = list(dict.fromkeys((s, n, 3) for objs, _ in tasks for s, n in objs))
    real = core.real_traces(ref_inputs)
    model = core.model_traces(ref_inputs)
    seen = set()

    def acts(lines):
        out = []
        for ln in lines:
            if ln.startswith("A "):
                out.append(ln.split(" | ")[0])
            elif ln.startswith("S"):
                out.append("S")
            elif ln.startswith(("B", "X")):
                out.append(core.norm_line(ln))
        return out

    for x in ref_inputs:
        if core.proj_actions(real[x]) != core.proj_actions(model[x]):
            res.disagree(x, "history-free stream differs between model and implementation")
    for (objs, sched), out in zip(tasks, outs):
        for i, ((spec, nfin), got) in enumerate(zip(objs, out)):
            res.programs += 1
            ref = acts(real[(spec, nfin, 3)])
            g = [core.norm_line(l) for l in got]
            m = min(len(g), len(ref))
            # compare the common prefix (the interleaved run is bounded; repeating schedules never end)
            if g[:m] != ref[:m] or (len(g) < len(ref) and len(g) < 600 and "S" not in g and not any(l.startswith(("B", "X")) for l in g) and m < 590 and False):
                k = next(j for j in range(m) if g[j] != ref[j])
                res.viol((spec, nfin, 3), f"stream depends on history: action {k} is {g[k]!r} inside an interleaved history, "
                                          f"{ref[k]!r} alone", {"objects": [list(o) for o in objs], "object": i})
            else:
                seen.add((spec, nfin, len(objs)))
        if len(res.samples) < 2:
            res.samples.append({"objects": [list(o) for o in objs], "schedule_head": [list(s) for s in sched[:12]]})
    _c15_process(res, rng, 300 if tier == "quick" else 3000)
    if tier != "quick":
        _c15_fresh(res, rng, pool_specs)
    res.evaluations = len(tasks) + len(ref_inputs) + res.stats.get("process_histories", 0)
    res.nontrivial = seen
    res.rule = ("seeded histories: 2-7 live objects of mixed classes/parameters (with twins of equal parameters), random "
                "interleaving of constructions, next() and observer calls; each object's stream compared with its history-free "
                "stream; thorough adds a fresh interpreter per object; non-trivial = distinct (configuration, number of live objects)")
    return res


def _c15_fresh(res, rng, pool_specs):
    """compare with the stream obtained in a fresh interpreter"""
    import os
    import subprocess
    xs = rng.sample(pool_specs, min(200, len(pool_specs)))
    real = core.real_traces([(s, n, 2) for s, n, _ in xs])

    def one(x):
        p = subprocess.run([core.PY, os.path.join(core.HERE, "rtrace.py"), x[0], str(x[1]), "2"],
                           stdout=subprocess.PIPE, stderr=subprocess.DEVNULL, text=True,
                           env=dict(os.environ, VERIF_REPO=core.REPO))
        return p.stdout.splitlines()
    from concurrent.futures import ThreadPoolExecutor
    with ThreadPoolExecutor(16) as ex:
        outs = list(ex.map(one, xs))
    for x, o in zip(xs, outs):
        res.programs += 1
        if core.proj_actions(o) != core.proj_actions(real[(x[0], x[1], 2)]):
            res.viol((x[0], x[1], 2), "stream in a fresh interpreter differs from the stream in a long-lived process")
    res.stats["fresh_interpreter_runs"] = len(xs)


# ------------------------------------------------------------------ C16

def check_C16(tier, seed):
    res = Result("C16")
    xs = gen.streams(tier, seed, groups=("mixed",))
    valid = _valid_map(xs)
    xs = [x for x in xs if valid[x[0]]]
    # pair up both code paths
    pairs = {}
    for x in xs:
        w = x[0].split()
        pairs.setdefault((w[1], w[2], w[3]), {})[w[4]] = x
    for key in list(pairs):
        for nb in "01":
            if nb not in pairs[key]:
                x = (f"MX {key[0]} {key[1]} {key[2]} {nb}", int(key[0]), 1)
                pairs[key][nb] = x
                xs.append(x)
    real = core.real_traces(xs)
    model = core.model_traces(xs)
    seen = set()
    for key, d in pairs.items():
        a, b = real[d["0"]], real[d["1"]]
        res.programs += 2
        for x in (d["0"], d["1"]):
            if core.proj_actions(real[x]) != core.proj_actions(model[x]):
                res.disagree(x, "stream differs between model and implementation")
        if core.proj_actions(a) != core.proj_actions(b):
            k = next(i for i, (u, v) in enumerate(itertools.zip_longest(core.proj_actions(a), core.proj_actions(b))) if u != v)
            res.viol(d["1"], f"streams of the tabulated and the memoised planner differ at action {k}")
        elif int(key[0]) > int(key[1]) + 1 > 2:
            seen.add(key[:2])
            if len(res.samples) < 3:
                res.samples.append({"input": list(d["1"]), "actions": len(a)})
    # tables: tabulated cells vs memoised planner vs the Lean models of both
    kn = _sz(40, 96, 200, tier)
    kreq = [(f"tab {kn} {kn - 1}", ("tab", kn, kn - 1)), (f"tab 9 3", ("tab", 9, 3)), (f"tab 1 0", ("tab", 1, 0)),
            (f"memotab {kn} {kn}", ("memotab", kn, kn))]
    res.stats["kernel_values_compared"] = _kernel_compare(res, kreq)
    pyt = _pyk(("tab", kn, kn - 1))
    pym = _pyk(("memotab", kn, kn))
    T = _table(pyt)
    M = _table(pym)
    cells = 0
    for (ni, si), c in T.items():
        if ni < 1 or si < 1 or si > ni - 1 and False:
            continue
        cells += 1
        m = M.get((ni, si))
        if m is None:
            continue
        if m == ["raise"]:
            if c[0] != "0":
                res.viol(("kernel", f"cell n={ni} s={si}"), f"tabulated planner has {c} where the memoised planner raises")
        elif c != m:
            res.viol(("kernel", f"cell n={ni} s={si}"), f"tabulated planner prescribes {c}, memoised planner {m}")
    res.stats["table_cells_compared"] = cells
    res.evaluations = len(xs) + cells
    res.nontrivial = seen
    res.stats["classes"] = _dist(xs)
    res.rule = ("every (n, s, storage) of the Mixed boxes + random, run on both planner code paths (tabulated path forced); every "
                "table cell n_i <= %d, s_i < n_i compared; non-trivial = distinct (n, s) with 1 < s < n-1" % kn)
    return res


# ------------------------------------------------------------------ C17

def check_C17(tier, seed):
    res = Result("C17")
    xs = gen.streams(tier, seed, with_invalid=True)
    valid = _valid_map(xs)
    real = core.real_traces(xs)
    model = core.model_traces(xs)
    mon = core.monitor([x for x in xs if valid[x[0]]], real)
    seen = set()

    def outcome(lines):
        if lines[0].startswith("X"):
            return "construct"
        for ln in lines:
            if ln.startswith("A "):
                break
            if ln.startswith("B"):
                return "first-next"
        if any(ln.startswith("B") for ln in lines):
            return "later"
        return "complete"

    for x in xs:
        r = real[x]
        if r[0].startswith("H "):
            res.harness_errors.append((x, r[0]))
            continue
        res.programs += 1
        o = outcome(r)
        if o != outcome(model[x]):
            res.disagree(x, f"outcome class differs: impl={o} model={outcome(model[x])}")
        if valid[x[0]]:
            if o != "complete":
                res.viol(x, f"valid parameters, but the schedule fails at stage '{o}': {[l for l in r if l.startswith(('X', 'B'))][:1]}")
            elif any(t == "C02" and c == 10 for _, t, c in mon[x]):
                res.viol(x, "valid parameters, but the stream ends before its last permitted EndReverse")
            elif any(t == "C02" and c in (5, 8, 12) for _, t, c in mon[x]):
                i, _, c = next((i, t, c) for i, t, c in mon[x] if t == "C02" and c in (5, 8, 12))
                res.viol(x, f"valid parameters, but the stream is not a complete calculation: C02.{c} at action {i} "
                            "(EndForward / EndReverse / the end of the stream before every step was advanced / reversed)",
                         _excerpt(r, i))
            w = x[0].split()
            if w[0] in ("MS", "MX", "RV", "DR", "PD", "HR") and (int(w[1]) == 1 or int(w[2]) >= int(w[1])):
                seen.add(x[0])
        else:
            if o not in ("construct", "first-next"):
                res.viol(x, f"invalid parameters, but outcome is '{o}' (an action was emitted)")
            seen.add(x[0])
            if len(res.samples) < 3:
                res.samples.append({"input": list(x), "outcome": o, "first_lines": r[:3]})
    res.evaluations = len(xs)
    res.nontrivial = seen
    res.stats["classes"] = _dist(xs)
    res.stats["invalid_inputs"] = sum(1 for x in xs if not valid[x[0]])
    res.rule = ("all valid boxes (incl. max_n = 1 and more units than steps) + the box around the domain boundary (n = 0, no "
                "units, period 0, WORK/NONE storage); outcome class (construct / first-next / later / complete) compared; "
                "non-trivial = distinct configuration that is invalid or degenerate (max_n = 1 or units >= steps)")
    return res


# ------------------------------------------------------------------ C18 (value semantics; emitted well-formedness is check_stream)

def _rand_action(rng):
    k = rng.choice("FFRRCMEE")
    big = rng.choice([0, 0, 0, 2**63 - 1, 2**63 - 1, 2**63, 2 * (2**63 - 1), 2**63 + 2])
    st = lambda: rng.choice("RDWN")  # noqa: E731
    if k == "F":
        n0 = rng.choice([rng.randint(0, 30), rng.randint(0, 30), 2**63 - 1 if big else 0])
        return f"F {n0} {big + n0 if big else n0 + rng.randint(1, 9)} {rng.randint(0, 1)} {rng.randint(0, 1)} {st()}"
    if k == "R":
        n0 = rng.randint(0, 30)
        n1 = big + 3 if big and rng.random() < 0.5 else n0 + rng.randint(1, 9)
        return f"R {n1} {n0} {rng.randint(0, 1)}"
    if k in "CM":
        return f"{k} {rng.randint(0, 30)} {st()} {st()}"
    return rng.choice(["EF", "ER"])


def _c18_histories(res, tier, seed):
    """"Every emitted Forward …": also the actions an online schedule emits when the client finalises LATE (it asks for
    further actions before calling finalize) or not at all — histories the canonical client never produces.  The actions
    of the real object along C10's histories are judged by the Lean executor; only its C18 verdicts (well-formedness of
    the single action) are read, the other tags presuppose the canonical client."""
    xs = [x for x in hist_inputs(tier, seed) if x[0].split()[0] in ("SM", "SD", "NO", "TL")]
    late = [x for x in xs if sum(1 for o in x[1][:next((i for i, o2 in enumerate(x[1]) if o2.startswith("f")), len(x[1]))] if o == "n") >= 2]
    late = list(dict.fromkeys(late))[: (400 if tier == "quick" else 4000)]
    real = core.real_hists(late)
    reqs, keep = [], []
    for x in late:
        r = real[x]
        if r and r[0].startswith("H "):
            res.harness_errors.append((x, r[0]))
            continue
        acts = [ln for ln in r if ln.startswith(("A ", "B "))]
        if not acts:
            continue
        ks = [int(o[1:]) for o, ln in zip(x[1], r) if o.startswith("f") and ln.startswith("f ok")]
        reqs.append((f"mon {core.lean_spec(x[0])} @ {ks[0] if ks else 1} 1", acts))
        keep.append((x, acts))
    outs = core.driver().ask_many(reqs) if reqs else []
    for (x, acts), out in zip(keep, outs):
        res.programs += 1
        for ln in out:
            w = ln.split()
            if len(w) == 4 and w[0] == "V" and w[2] == "C18":
                i = int(w[1])
                res.viol(x, f"C18.{w[3]} at action {i} of a history with a late finalize: {acts[i].split(' | ')[0] if i < len(acts) else '?'}",
                         {"actions": [a.split(" | ")[0] for a in acts[: i + 2]]})
                break
            if not (len(w) == 4 and w[0] == "V"):
                res.harness_errors.append((x, "monitor error: " + ln[:80]))
                break
    res.nontrivial.add(("late-finalize histories", len(keep)))


def check_C18(tier, seed):
    res = check_stream("C18", tier, seed)
    _c18_histories(res, tier, seed)
    rng = random.Random(seed * 101 + 3)
    count = 400 if tier == "quick" else 5000
    acts = [_rand_action(rng) for _ in range(count)]
    # also actions really emitted
    pairs = []
    for _ in range(count):
        a = rng.choice(acts)
        x = rng.random()
        if x < 0.3:
            b = a
        elif x < 0.5:
            w = a.split()
            if len(w) > 1:
                j = rng.randrange(1, len(w))
                w[j] = str(int(w[j]) + 1) if w[j].isdigit() and w[0] in "CM" and j == 1 else w[j]
                if w[0] == "C":
                    w[0] = "M"
                elif w[0] == "M":
                    w[0] = "C"
            b = " ".join(w)
        elif x < 0.9:
            b = rng.choice(acts)
        else:
            b = rng.choice(["!int", "!none", "!str", "!tuple"])
        pairs.append((a, b))
        # numbers that CPython hashes alike (ints are hashed modulo 2^61 - 1): equality must not go through hashes
        w = a.split()
        if w[0] in "FR" and len(w) > 2:
            M61 = 2 ** 61 - 1
            for j in (1, 2):
                v = int(w[j])
                for v2 in ({v % M61, v + M61, v + 2 * M61} - {v}):
                    w2 = list(w)
                    w2[j] = str(v2)
                    if int(w2[1]) != int(w2[2]):
                        pairs.append((a, " ".join(w2)))
    import rtrace  # noqa: F401  (workers import it; here only for the task format)
    api = core.pool().map(_pyk, [("action_api",) + tuple(acts[i:i + 50]) for i in range(0, len(acts), 50)])
    api = [ln for chunk in api for ln in chunk]
    eqs = core.pool().map(_pyk, [("action_eq",) + tuple(pairs[i:i + 50]) for i in range(0, len(pairs), 50)])
    eqs = [ln for chunk in eqs for ln in chunk]
    lean_repr = core.driver().ask_many([("kernel repr " + a, None) for a in acts])
    def _small(a):
        w = a.split()
        return w[0] in "FR" and abs(int(w[2]) - int(w[1])) <= 10000
    lean_steps = core.driver().ask_many([("kernel steps " + a, None) if _small(a) else ("kernel beta 0 0", None) for a in acts])
    lean_eq = core.driver().ask_many([(f"kernel eq {a} | {b}", None) if not b.startswith("!") else ("kernel beta 0 0", None)
                                      for a, b in pairs])
    seen = set(res.nontrivial)
    for a, out, lr, ls in zip(acts, api, lean_repr, lean_steps):
        if out.startswith("H "):
            res.harness_errors.append((a, out))
            continue
        rp, back, lst, ln, cont = [s.strip() for s in out.split(" | ")] if out.count(" | ") == 4 else (out.split("|") + [""] * 5)[:5]
        rp, back, lst, ln, cont = rp.strip(), back.strip(), lst.strip(), ln.strip(), cont.strip()
        if rp != lr[0]:
            res.disagree(("action", a), f"repr differs: impl={rp!r} model={lr[0]!r}")
        if back != "True":
            res.viol(("action", a), f"eval(repr(a)) == a is {back} for a = {rp}")
        if a[0] in "FR":
            want = ls[0] if ls else ""
            n = len(want.split())
            if not _small(a):
                pass
            else:
                if lst != want:
                    res.viol(("action", a), f"iteration gives [{lst}], covered steps are [{want}]")
                if ln != str(n):
                    res.viol(("action", a), f"len is {ln}, {n} steps are covered")
            if cont != "True":
                res.viol(("action", a), "membership does not match the covered steps")
        seen.add(("api", a))
    for (a, b), out, le in zip(pairs, eqs, lean_eq):
        want = (le[0] == "1") if not b.startswith("!") else False
        if out.split() != [str(want), str(not want), str(want), str(want), str(want)]:
            res.viol(("pair", a, b), f"a == b, a != b, b == a, and a == b, b == a after iterating a give {out}; "
                                     f"same kind and equal parameters: {want}")
        seen.add(("eq", a, b))
    res.samples.append({"action": acts[0], "api": api[0], "pair": list(pairs[0]), "eq_ne_eqsym": eqs[0]})
    res.evaluations += len(acts) + len(pairs)
    res.programs += len(acts) + len(pairs)
    res.nontrivial = seen
    res.rule += ("; plus %d directly constructed random actions (repr/eval round trip, iteration, len, membership) and %d pairs "
                 "(same kind / other kind / non-action operand) for the equality laws, compared with the Lean model's printer, "
                 "step enumeration and structural equality" % (len(acts), len(pairs)))
    return res


# ------------------------------------------------------------------ C19

def check_C19(tier, seed):
    res = Result("C19")
    xs = [x for x in gen.streams(tier, seed, groups=("revolve3",)) if _class_of(x) == "PD"]
    # all n <= 5m+3 for a few (cm, costs)
    cfgs = [(1, "1 1 2 2"), (2, "1 1 2 2"), (1, "1 1 5 0"), (2, "2 3 40 1"), (3, "1 1 20 20"), (1, "3 1 2 2"), (2, "1 3 0 0"),
            (1, "1 1 3.5 2"), (1, "1 1 0.5 0.25"), (2, "2 2 7 4.5"), (1, "5 1 2 2")]
    if tier != "quick":
        rng = random.Random(seed + 19)
        cfgs += [(rng.randint(1, 4), gen.rnd_costs(rng)) for _ in range(20)]
    ms = core.driver().ask_many([(f"kernel mxrr {cm} {_costs_of(c.split())[0]} {_costs_of(c.split())[2] + _costs_of(c.split())[3]}", None)
                                 for cm, c in cfgs])
    for (cm, c), m in zip(cfgs, ms):
        m = int(m[0])
        for n in range(1, min(5 * m + 4, 90 if tier == "quick" else 200)):
            xs.append((f"PD {n} {cm} {c}", n, 1))
    xs = list(dict.fromkeys(xs))
    valid = _valid_map(xs)
    xs = [x for x in xs if valid[x[0]]]
    real = core.real_traces(xs)
    model = core.model_traces(xs)
    nmax = max(x[1] for x in xs)
    E = lean_extra(nmax)
    keys = list(dict.fromkeys((int(x[0].split()[2]),) + _costs_of(x[0].split()) for x in xs))
    ans = core.driver().ask_many([(f"kernel mxrr {k[0]} {k[1]} {k[3] + k[4]}", None) for k in keys])
    period = {k: int(a[0]) for k, a in zip(keys, ans)}
    seen = set()
    for x in xs:
        r = real[x]
        if r[0].startswith("H "):
            res.harness_errors.append((x, r[0]))
            continue
        res.programs += 1
        if core.proj_storage(r) != core.proj_storage(model[x]) or core.proj_fwdlens(r) != core.proj_fwdlens(model[x]):
            res.disagree(x, "DISK events / segment lengths differ between model and implementation")
        if not core.is_complete(r):
            continue
        w = x[0].split()
        n, cm = int(w[1]), int(w[2])
        m = period[(cm,) + _costs_of(w)]
        acts = [ln.split(" | ")[0].split()[1:] for ln in r if ln.startswith("A ")]
        ef = acts.index(["EF"])
        writes = [int(a[1]) for a in acts[:ef] if a[0] == "F" and a[5] == "D"]
        want = []
        c = 0
        while (n - 1) - c > m:
            want.append(c)
            c += m
        if writes != want:
            res.viol(x, f"DISK checkpoints written at {writes}, period {m} prescribes {want}")
            continue
        if any(a[0] == "F" and a[5] == "D" for a in acts[ef:]) or any(a[0] in "CM" and a[3] == "D" for a in acts[ef:]):
            res.viol(x, "DISK is written after EndForward")
            continue
        sweep_ok = all(a[0] == "F" and a[5] == "D" and int(a[2]) - int(a[1]) == m for a in acts[:len(want)])
        if not sweep_ok:
            res.viol(x, "the initial sweep is not a sequence of DISK-checkpointed advances of one period")
            continue
        reads = [int(a[1]) for a in acts if a[0] in "CM" and a[2] == "D"]
        if sorted(reads) != sorted(want) or any(a[0] == "C" and a[2] == "D" for a in acts):
            res.viol(x, f"DISK checkpoints {want} are read at {reads} (each must be read exactly once, by a Move)")
            continue
        # per segment: memory-only Revolve optimum
        segs = [(c0, c0 + m) for c0 in want] + [(c, n)]
        steps = {s: 0 for s in segs}
        for a in acts[len(want):]:
            if a[0] == "F":
                n0, n1 = int(a[1]), int(a[2])
                for s in segs:
                    if s[0] <= n0 < s[1]:
                        steps[s] += n1 - n0
        bad = False
        for s in segs:
            L = s[1] - s[0]
            opt = L + _E(E, L, cm)
            if steps[s] != opt:
                res.viol(x, f"segment {s} reversed with {steps[s]} forward steps, Revolve optimum with {cm} slots is {opt}")
                bad = True
                break
        if not bad and want:
            seen.add((cm,) + _costs_of(w) + (len(want),))
            if len(res.samples) < 3:
                res.samples.append({"input": list(x), "period": m, "disk_writes": writes, "disk_reads": reads})
    # period formula
    kreq = []
    top = 60 if tier == "quick" else 200
    rng = random.Random(seed + 191)
    for cm in range(1, 7):
        for _ in range(40 if tier == "quick" else 300):
            uf = rng.randint(1, 12)
            wr = rng.randint(0, top)
            kreq.append((f"mxrr {cm} {uf} {wr}", ("mxrr", cm, uf, wr)))
        for wr in range(0, 30):
            kreq.append((f"mxrr {cm} 1 {wr}", ("mxrr", cm, 1, wr)))
    res.stats["kernel_values_compared"] = _kernel_compare(res, kreq)
    res.evaluations = len(xs) + len(kreq)
    res.nontrivial = seen
    res.stats["classes"] = _dist(xs)
    res.rule = ("PeriodicDiskRevolve for all n <= 5m+3 for %d (slots, cost vector) pairs + the Revolve-family boxes + random; period "
                "taken from the Lean model of the closed form; non-trivial = distinct (slots, costs, number of disk checkpoints >= 1)" % len(cfgs))
    return res


CHECKS = {
    "C01": lambda t, s: check_stream("C01", t, s),
    "C02": lambda t, s: check_stream("C02", t, s),
    "C03": lambda t, s: check_stream("C03", t, s),
    "C04": lambda t, s: check_stream("C04", t, s),
    "C05": check_C05,
    "C06": check_C06,
    "C07": check_C07,
    "C08": lambda t, s: check_stream("C08", t, s),
    "C09": lambda t, s: check_stream("C09", t, s),
    "C10": check_C10,
    "C11": lambda t, s: check_stream("C11", t, s),
    "C12": lambda t, s: check_stream("C12", t, s),
    "C13": check_C13,
    "C14": check_C14,
    "C15": check_C15,
    "C16": check_C16,
    "C17": check_C17,
    "C18": check_C18,
    "C19": check_C19,
}
