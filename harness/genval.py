"""Validation of the translator itself: the Lean text generated from the Python sources (py2lean.py) is executed
(`lean --run CkptGen/Run.lean`, against the text regenerated from the tree under test) on the same inputs as the
real Python functions, and the answers are compared.

This is differential testing of `py2lean.py` + `CkptGen/Prelude.lean` (the translator is part of the trusted base of
the source-level tie); a disagreement is a translator bug or an untranslated Python subtlety, never a verdict on
a property.
"""
import contextlib
import io
import os
import random
import subprocess
import sys

import core


def _imports():
    sys.path.insert(0, core.REPO)
    import checkpoint_schedules as cs                      # noqa: E402
    from checkpoint_schedules import multistage, mixed      # noqa: E402
    from checkpoint_schedules.hrevolve_sequences import basic_functions  # noqa: E402
    return cs, multistage, mixed, basic_functions


def _st(s):
    return s.name


def _act(a, cs):
    b = lambda x: "1" if x else "0"   # noqa: E731
    if isinstance(a, cs.Forward):
        return "F %d %d %s %s %s" % (a.n0, a.n1, b(a.write_ics), b(a.write_adj_deps), _st(a.storage))
    if isinstance(a, cs.Reverse):
        return "R %d %d %s" % (a.n1, a.n0, b(a.clear_adj_deps))
    if isinstance(a, cs.Copy):
        return "C %d %s %s" % (a.n, _st(a.from_storage), _st(a.to_storage))
    if isinstance(a, cs.Move):
        return "M %d %s %s" % (a.n, _st(a.from_storage), _st(a.to_storage))
    if isinstance(a, cs.EndForward):
        return "EF"
    if isinstance(a, cs.EndReverse):
        return "ER"
    return "?"


def _client(obj, cs, passes, N, limit=200000):
    """the canonical client: finalise as soon as the forward has been told to reach N; stop after `passes`
    adjoint calculations (or at StopIteration)"""
    evs = []
    done = 0
    try:
        for _ in range(limit):
            try:
                a = next(obj)
            except StopIteration:
                break
            evs.append("%s | %d %d %s" % (_act(a, cs), obj.n, obj.r, "1" if obj.is_exhausted else "0"))
            if N is not None and obj.max_n is None and obj.n >= N:
                obj.finalize(N)
            if isinstance(a, cs.EndReverse):
                done += 1
                if passes is not None and done >= passes:
                    break
    except Exception as e:   # noqa: BLE001
        return "raise:" + type(e).__name__
    return ";".join(evs)


def _val(f):
    try:
        return str(int(f()))
    except Exception as e:   # noqa: BLE001
        return "raise:" + type(e).__name__


def requests(seed=1, size="quick"):
    """(request line, thunk computing the Python answer)"""
    cs, multistage, mixed, bf = _imports()
    rng = random.Random(seed * 1000003 + 17)
    out = []
    big = size != "quick"
    nmax = 40 if big else 22
    for n in list(range(-1, nmax)) + [64, 100, 257, 1000]:
        for s in sorted({-1, 0, 1, 2, 3, 5, n - 2, n - 1, n, n + 1}):
            for tr in ("maximum", "revolve"):
                out.append(("n_advance %d %d %s" % (n, s, tr), lambda n=n, s=s, tr=tr: _val(
                    lambda: multistage.n_advance(n, s, trajectory=tr))))
    for n in range(-1, 26 if big else 16):
        for s in range(-1, n + 2):
            out.append(("optimal_extra_steps %d %d" % (n, s), lambda n=n, s=s: _val(lambda: multistage.optimal_extra_steps(n, s))))
            out.append(("optimal_steps_binomial %d %d" % (n, s), lambda n=n, s=s: _val(lambda: multistage.optimal_steps_binomial(n, s))))
            out.append(("optimal_steps_mixed %d %d" % (n, s), lambda n=n, s=s: _val(lambda: mixed.optimal_steps_mixed(n, s))))

            def memo(n=n, s=s):
                try:
                    t, a, b = mixed.mixed_step_memoization(n, s)
                    return "%d %d %d" % (int(t), a, b)
                except Exception as e:   # noqa: BLE001
                    return "raise:" + type(e).__name__
            out.append(("mixed_step_memoization %d %d" % (n, s), memo))
    def tabu(n, s):
        try:
            t = mixed.mixed_steps_tabulation(n, s)
            return ";".join(",".join("%d %d %d" % tuple(int(v) for v in c) for c in row) for row in t)
        except Exception as e:   # noqa: BLE001
            return "raise:" + type(e).__name__
    for n in (-2, -1, 0, 1, 2, 3, 5, 8, 13, 20 if big else 16):
        for s in (-2, -1, 0, 1, 2, 3, 5, n - 1, n):
            out.append(("tabulation %d %d" % (n, s), lambda n=n, s=s: tabu(n, s)))
    from fractions import Fraction
    pdr = sys.modules.get("checkpoint_schedules.hrevolve_sequences.periodic_disk_revolve")
    if pdr is None:
        import importlib
        pdr = importlib.import_module("checkpoint_schedules.hrevolve_sequences.periodic_disk_revolve")

    def fr(x):
        f = Fraction(x)
        return str(f.numerator) if f.denominator == 1 else "%d/%d" % (f.numerator, f.denominator)
    rvm = sys.modules.get("checkpoint_schedules.hrevolve_sequences.revolve")
    drm = sys.modules.get("checkpoint_schedules.hrevolve_sequences.disk_revolve")

    def tab0(lmax, mmax, uf, ub):
        try:
            t = rvm.get_opt_0_table(lmax, mmax, uf, ub)
            return ";".join(",".join(fr(v) for v in row.content) for row in t)
        except Exception as e:   # noqa: BLE001
            return "raise:" + type(e).__name__

    def tabinf(lmax, cm, uf, ub, rd, wd):
        try:
            t = drm.get_opt_inf_table(lmax, cm, uf, ub, rd, wd, True)
            return ",".join(fr(v) for v in t.content)
        except Exception as e:   # noqa: BLE001
            return "raise:" + type(e).__name__
    for lmax in (0, 1, 2, 5, 9, 14):
        for mmax in (0, 1, 2, 4):
            for uf, ub in ((1, 1), (3, 1), (0.5, 2), (2, 0.25)):
                out.append(("opt0 %d %d %s %s" % (lmax, mmax, fr(uf), fr(ub)),
                            lambda lmax=lmax, mmax=mmax, uf=uf, ub=ub: tab0(lmax, mmax, uf, ub)))
                for rd, wd in ((2, 2), (0, 0.5), (5, 1)):
                    out.append(("optinf %d %d %s %s %s %s" % (lmax, mmax, fr(uf), fr(ub), fr(rd), fr(wd)),
                                lambda lmax=lmax, mmax=mmax, uf=uf, ub=ub, rd=rd, wd=wd: tabinf(lmax, mmax, uf, ub, rd, wd)))
    hrm = sys.modules.get("checkpoint_schedules.hrevolve_sequences.hrevolve")

    def ers(v):
        return "inf" if v == float("inf") else fr(v)

    def thopt(lmax, c0, c1, w0, w1, r0, r1, ub, uf):
        try:
            a, b = hrm.get_hopt_table(lmax, (c0, c1), (w0, w1), (r0, r1), ub, uf)
            sh = lambda t: "|".join(";".join(",".join(ers(v) for v in row) for row in lvl) for lvl in t)   # noqa: E731
            return sh(a) + " # " + sh(b)
        except Exception as e:   # noqa: BLE001
            return "raise:" + type(e).__name__
    for lmax in (0, 1, 2, 4, 7, 10):
        for c0, c1 in ((1, 0), (1, 1), (2, 1), (1, 3), (3, 2), (0, 1)):
            for (w1, r1, ub, uf) in ((2, 2, 1, 1), (0.5, 0, 1, 3), (5, 1, 2, 0.5), (0, 0, 1, 1)):
                out.append(("hopt %d %d %d 0 %s 0 %s %s %s" % (lmax, c0, c1, fr(w1), fr(r1), fr(ub), fr(uf)),
                            lambda lmax=lmax, c0=c0, c1=c1, w1=w1, r1=r1, ub=ub, uf=uf: thopt(lmax, c0, c1, 0, w1, 0, r1, ub, uf)))
    def seqof(kind, l, cm, rd, wd, uf, ub):
        try:
            with contextlib.redirect_stdout(io.StringIO()):
                f = {"revolve": rvm.revolve, "disk": drm.disk_revolve, "periodic": pdr.periodic_disk_revolve}[kind]
                sq = f(l, cm, rd, wd, uf, ub)
                ops2 = []
                for op in sq:
                    ix = op.index
                    ops2.append("%s:%d:%d" % (op.type, ix[0], ix[1]) if isinstance(ix, (list, tuple)) else "%s:%d" % (op.type, ix))
            return ",".join(ops2)
        except Exception as e:   # noqa: BLE001
            return "raise:" + type(e).__name__
    for kind in ("revolve", "disk", "periodic"):
        for l in (0, 1, 2, 3, 5, 8, 13, 21):
            for cm in (0, 1, 2, 3, 5):
                for (rd, wd, uf, ub) in ((2, 2, 1, 1), (0.25, 0.25, 1, 1), (1, 0.5, 3, 1), (5, 7, 1, 2)):
                    if kind == "periodic" and cm == 0:
                        continue
                    out.append(("seq %s %d %d %s %s %s %s" % (kind, l, cm, fr(rd), fr(wd), fr(uf), fr(ub)),
                                lambda kind=kind, l=l, cm=cm, rd=rd, wd=wd, uf=uf, ub=ub: seqof(kind, l, cm, rd, wd, uf, ub)))
    def hseqof(kind, l, K, cmem, c0, c1, w0, w1, r0, r1, uf, ub):
        try:
            with contextlib.redirect_stdout(io.StringIO()):
                if kind == "top":
                    sq = hrm.hrevolve(l, (c0, c1), (w0, w1), (r0, r1), uf, ub)
                else:
                    from checkpoint_schedules.hrevolve_sequences.utils import revolver_parameters
                    prm = revolver_parameters((w0, w1), (r0, r1), uf, ub)
                    f = hrm.hrevolve_recurse if kind == "rec" else hrm.hrevolve_aux
                    sq = f(l, K, cmem, (c0, c1), (w0, w1), (r0, r1), hoptp=None, hopt=None, **prm)
                ops2 = []
                for op in sq:
                    ix = op.index
                    ops2.append("%s:%d:%d" % (op.type, ix[0], ix[1]) if isinstance(ix, (list, tuple)) else "%s:%d" % (op.type, ix))
            return ",".join(ops2)
        except Exception as e:   # noqa: BLE001
            return "raise:" + type(e).__name__
    for l in (0, 1, 2, 3, 4, 6, 9, 14, 22):
        for c0, c1 in ((1, 0), (1, 1), (2, 1), (1, 3), (3, 2), (0, 1), (0, 0), (2, 0), (4, 4)):
            for (w1, r1, uf, ub) in ((2, 2, 1, 1), (0.5, 0, 3, 1), (5, 1, 0.5, 2), (0, 0, 1, 1), (0.25, 0.25, 1, 1)):
                out.append(("hseq top %d 1 %d %d %d 0 %s 0 %s %s %s" % (l, c1, c0, c1, fr(w1), fr(r1), fr(uf), fr(ub)),
                            lambda l=l, c0=c0, c1=c1, w1=w1, r1=r1, uf=uf, ub=ub:
                            hseqof("top", l, 1, c1, c0, c1, 0, w1, 0, r1, uf, ub)))
    for kind in ("rec", "aux"):
        for l in (0, 1, 2, 3, 5, 8):
            for K, cmem in ((0, 0), (0, 1), (0, 2), (1, 0), (1, 1), (1, 2)):
                for c0, c1 in ((1, 2), (2, 2), (3, 2), (0, 2)):
                    for (w0, w1, r0, r1, uf, ub) in ((0, 2, 0, 2, 1, 1), (1, 0.5, 1, 3, 1, 1), (0, 0, 0, 0, 2, 1)):
                        out.append(("hseq %s %d %d %d %d %d %s %s %s %s %s %s" % (kind, l, K, cmem, c0, c1, fr(w0), fr(w1), fr(r0), fr(r1), fr(uf), fr(ub)),
                                    lambda kind=kind, l=l, K=K, cmem=cmem, c0=c0, c1=c1, w0=w0, w1=w1, r0=r0, r1=r1, uf=uf, ub=ub:
                                    hseqof(kind, l, K, cmem, c0, c1, w0, w1, r0, r1, uf, ub)))
    for x in range(0, 8):
        for y in range(-1, 8):
            out.append(("beta %d %d" % (x, y), lambda x=x, y=y: _val(lambda: bf.beta(x, y))))
    for cm in (1, 2, 3, 5, 12):
        for uf in (1, 2, 0.5, 3):
            for wd, rd in ((0, 0), (0.25, 0.25), (1.75, 1.75), (2, 2), (3, 0.5), (30, 30), (250, 205), (0, 7)):
                out.append(("mxrr %d %s %s %s" % (cm, fr(uf), fr(rd), fr(wd)),
                            lambda cm=cm, uf=uf, rd=rd, wd=wd: _val(lambda: pdr.mxrr_close_formula(cm, uf, rd, wd))))
    for _ in range(60):
        xs = [rng.randint(0, 9) for _ in range(rng.randint(1, 8))]
        out.append(("argmin " + " ".join(map(str, xs)), lambda xs=xs: _val(lambda: bf.argmin(list(xs)))))
    out.append(("argmin", lambda: _val(lambda: bf.argmin([]))))
    # methods: finalize on a bare object state, __init__, uses_storage_type
    def fin(k, n, mx):
        o = cs.SingleMemoryStorageSchedule()
        o._n, o._max_n = n, mx
        try:
            o.finalize(k)
            return "%d %s" % (o._n, "-" if o._max_n is None else o._max_n)
        except Exception as e:   # noqa: BLE001
            return "raise:" + type(e).__name__
    for k in (-1, 0, 1, 2, 5, 300):
        for n in (0, 1, 2, 5, 300, 301):
            for mx in (None, 1, 2, 5, 300):
                out.append(("finalize %d %d %s" % (k, n, "-" if mx is None else mx), lambda k=k, n=n, mx=mx: fin(k, n, mx)))

    def ini(mx):
        try:
            o = cs.SingleMemoryStorageSchedule.__new__(cs.SingleMemoryStorageSchedule)
            cs.CheckpointSchedule.__init__(o, mx)
            return "%d %d %s" % (o._n, o._r, "-" if o._max_n is None else o._max_n)
        except Exception as e:   # noqa: BLE001
            return "raise:" + type(e).__name__
    for mx in (None, -3, 0, 1, 7):
        out.append(("init %s" % ("-" if mx is None else mx), lambda mx=mx: ini(mx)))

    def uses(mk, st):
        try:
            r = mk().uses_storage_type(cs.StorageType[st])
            return "None" if r is None else ("1" if r else "0")
        except Exception as e:   # noqa: BLE001
            return "raise:" + type(e).__name__
    for st in ("RAM", "DISK", "WORK", "NONE"):
        out.append(("uses singleMemory %s" % st, lambda st=st: uses(cs.SingleMemoryStorageSchedule, st)))
        out.append(("uses singleDisk %s" % st, lambda st=st: uses(cs.SingleDiskStorageSchedule, st)))
        out.append(("uses none %s" % st, lambda st=st: uses(cs.NoneCheckpointSchedule, st)))
        for ram, disk in ((0, 2), (2, 0), (1, 1), (0, 0)):
            def mkms(ram=ram, disk=disk):
                return cs.MultistageCheckpointSchedule(5 if ram + disk else 1, ram, disk)
            try:
                o = mkms()
            except Exception:   # noqa: BLE001
                continue
            out.append(("uses multistage %s %d %d" % (st, o._snapshots_in_ram, o._snapshots_on_disk), lambda st=st, mk=mkms: uses(mk, st)))
        for bst in ("RAM", "DISK"):
            out.append(("uses mixed %s %s" % (st, bst), lambda st=st, bst=bst: uses(
                lambda: cs.MixedCheckpointSchedule(4, 2, storage=cs.StorageType[bst]), st)))
            out.append(("uses twoLevel %s %s" % (st, bst), lambda st=st, bst=bst: uses(
                lambda: cs.TwoLevelCheckpointSchedule(2, 1, binomial_storage=cs.StorageType[bst]), st)))
        out.append(("uses revolve %s 2 0" % st, lambda st=st: uses(lambda: cs.Revolve(5, 2), st)))
        out.append(("uses revolve %s 2 -" % st, lambda st=st: uses(lambda: cs.DiskRevolve(5, 2), st)))
        out.append(("uses revolve %s 1 2" % st, lambda st=st: uses(lambda: cs.HRevolve(5, 1, 2), st)))
    def opt(v):
        return "none" if v is None else "(some %d)" % v

    def minit(n, sn, st):
        try:
            o = cs.MixedCheckpointSchedule(n, sn, storage=cs.StorageType[st])
            return "%d %d %s %s %d %s" % (o._n, o._r, opt(o._max_n), "1" if o._exhausted else "0", o._snapshots, o._storage.name)
        except Exception as e:   # noqa: BLE001
            return "raise:" + type(e).__name__
    for n in (-1, 0, 1, 2, 3, 7):
        for sn in (-1, 0, 1, 2, 6, 9):
            for st in ("RAM", "DISK", "WORK", "NONE"):
                out.append(("mixedInit %d %d %s" % (n, sn, st), lambda n=n, sn=sn, st=st: minit(n, sn, st)))

    def tinit(p, b, st, tr):
        try:
            o = cs.TwoLevelCheckpointSchedule(p, b, binomial_storage=cs.StorageType[st], binomial_trajectory=tr)
            return "%d %d %s %d %d %s %s" % (o._n, o._r, opt(o._max_n), o._period, o._binomial_snapshots,
                                             o._binomial_storage.name, o._trajectory)
        except Exception as e:   # noqa: BLE001
            return "raise:" + type(e).__name__
    for p in (-1, 0, 1, 4):
        for b in (-1, 0, 3):
            for st in ("RAM", "DISK", "WORK", "NONE"):
                out.append(("twoLevelInit %d %d %s revolve" % (p, b, st), lambda p=p, b=b, st=st: tinit(p, b, st, "revolve")))

    def rinit(kind, n, ram, disk, uf, ub, wd, rd):
        try:
            with contextlib.redirect_stdout(io.StringIO()):
                if kind == "H":
                    o = cs.HRevolve(n, ram, disk, uf=uf, ub=ub, wd=wd, rd=rd)
                else:
                    o = {"D": cs.DiskRevolve, "P": cs.PeriodicDiskRevolve, "R": cs.Revolve}[kind](n, ram, uf=uf, ub=ub, wd=wd, rd=rd)
            ops2 = []
            for op in o._schedule:
                ix = op.index
                ops2.append("%s:%d:%d" % (op.type, ix[0], ix[1]) if isinstance(ix, (list, tuple)) else "%s:%d" % (op.type, ix))
            return "%d %d %s %s %s %d %s" % (o._n, o._r, opt(o._max_n), "1" if o._exhausted else "0",
                                             opt(o._snapshots_on_disk), o._snapshots_in_ram, ",".join(ops2))
        except Exception as e:   # noqa: BLE001
            return "raise:" + type(e).__name__
    for kind in "HDPR":
        for n in (-1, 0, 1, 2, 3, 5, 9, 16):
            for ram in (-1, 0, 1, 2, 4):
                if kind == "P" and ram < 0:
                    continue    # PeriodicDiskRevolve(n, -1) does not terminate (the period search of mxrr_close_formula)
                for disk in ((0, 1, 3) if kind == "H" else (0,)):
                    for (uf, ub, wd, rd) in ((1, 1, 2, 2), (1, 1, 0.25, 0.25), (3, 1, 0.5, 1), (1, 2, 7, 5)):
                        out.append(("revInit %s %d %d %d %s %s %s %s" % (kind, n, ram, disk, fr(uf), fr(ub), fr(wd), fr(rd)),
                                    lambda kind=kind, n=n, ram=ram, disk=disk, uf=uf, ub=ub, wd=wd, rd=rd:
                                    rinit(kind, n, ram, disk, uf, ub, wd, rd)))

    msm = sys.modules.get("checkpoint_schedules.multistage")

    def alloc(n, ram, disk, ww, rw, dw, tr):
        try:
            with contextlib.redirect_stdout(io.StringIO()):
                wts, al = msm.allocate_snapshots(n, ram, disk, write_weight=ww, read_weight=rw, delete_weight=dw, trajectory=tr)
            return ",".join(fr(v) for v in wts) + " " + ",".join(x.name for x in al)
        except Exception as e:   # noqa: BLE001
            return "raise:" + type(e).__name__
    for n in (-1, 0, 1, 2, 3, 4, 5, 7, 10, 16, 25, 40):
        for ram in (-1, 0, 1, 2, 3, 5):
            for disk in (-1, 0, 1, 2, 4):
                for (ww, rw, dw) in ((1.0, 1.0, 0.0), (2.0, 0.5, 0.25), (0.0, 1.0, 1.0)):
                    for tr in ("maximum", "revolve"):
                        out.append(("alloc %d %d %d %s %s %s %s" % (n, ram, disk, fr(ww), fr(rw), fr(dw), tr),
                                    lambda n=n, ram=ram, disk=disk, ww=ww, rw=rw, dw=dw, tr=tr: alloc(n, ram, disk, ww, rw, dw, tr)))

    def msinit(n, ram, disk, tr):
        try:
            o = cs.MultistageCheckpointSchedule(n, ram, disk, trajectory=tr)
            return "%d %d %s %d %d %s %s %s" % (o._n, o._r, opt(o._max_n), o._snapshots_in_ram, o._snapshots_on_disk,
                                                ",".join(x.name for x in o._storage), "1" if o._exhausted else "0", o._trajectory)
        except Exception as e:   # noqa: BLE001
            return "raise:" + type(e).__name__
    for n in (-1, 0, 1, 2, 5, 9):
        for ram in (0, 1, 3, 12):
            for disk in (0, 2, 12):
                for tr in ("maximum", "revolve"):
                    stor = ""
                    try:
                        a, b2 = min(ram, n - 1), min(disk, n - 1)
                        if a > 0 and b2 > 0:
                            stor = ",".join(x.name for x in multistage.allocate_snapshots(n, a, b2, trajectory=tr)[1])
                    except Exception:   # noqa: BLE001
                        continue
                    out.append(("multistageInit %d %d %d %s %s" % (n, ram, disk, tr, stor),
                                lambda n=n, ram=ram, disk=disk, tr=tr: msinit(n, ram, disk, tr)))
    for k in ("F", "R"):
        for a, b in ((0, 5), (3, 4), (2, 2), (0, 2 ** 63 - 1)):
            mk = (lambda a=a, b=b: cs.Forward(a, b, False, False, cs.StorageType.WORK)) if k == "F" else \
                 (lambda a=a, b=b: cs.Reverse(b, a, True))
            out.append(("len %s %d %d" % (k, a, b), lambda mk=mk: _val(lambda: len(mk()) if True else 0)))
            for st in (a - 1, a, b - 1, b):
                out.append(("contains %s %d %d %d" % (k, a, b, st), lambda mk=mk, st=st: _val(lambda: int(st in mk()))))
    # the Revolve family: the operation sequence of the real object, converted by the translated iterator
    hrv = sys.modules["checkpoint_schedules.hrevolve"]

    def ops_csv(o):
        out2 = []
        for op in o._schedule:
            ix = op.index
            if isinstance(ix, (list, tuple)):
                out2.append("%s:%d:%d" % (op.type, ix[0], ix[1]))
            else:
                out2.append("%s:%d" % (op.type, ix))
        return ",".join(out2)
    rv = []
    for n in list(range(1, 16 if big else 11)) + [23]:
        for cm in (1, 2, 3):
            for costs in ((1, 1, 2, 2), (3, 1, 1, 4), (1, 2, 0, 0)):
                rv.append((lambda n=n, cm=cm, costs=costs: cs.Revolve(n, cm, *costs)))
                rv.append((lambda n=n, cm=cm, costs=costs: cs.DiskRevolve(n, cm, *costs)))
                rv.append((lambda n=n, cm=cm, costs=costs: cs.PeriodicDiskRevolve(n, cm, *costs)))
                for c1 in (0, 1, 3):
                    rv.append((lambda n=n, cm=cm, c1=c1, costs=costs: cs.HRevolve(n, cm, c1, *costs)))
    def robj(kind, n, ram, disk, costs):
        try:
            with contextlib.redirect_stdout(io.StringIO()):
                o = cs.HRevolve(n, ram, disk, *costs) if kind == "H" else \
                    {"D": cs.DiskRevolve, "P": cs.PeriodicDiskRevolve, "R": cs.Revolve}[kind](n, ram, *costs)
        except Exception as e:   # noqa: BLE001
            return "raise:" + type(e).__name__
        return _client(o, cs, None, None)
    for kind in "HDPR":
        for n in (0, 1, 2, 3, 4, 6, 9, 13, 20):
            for ram in (0, 1, 2, 3):
                for disk in ((0, 1, 2) if kind == "H" else (0,)):
                    for costs in ((1, 1, 2, 2), (3, 1, 1, 4), (1, 2, 0, 0), (1, 1, 0.25, 0.25)):
                        out.append(("revObj %s %d %d %d %s %s %s %s" % ((kind, n, ram, disk) + tuple(fr(c) for c in costs)),
                                    lambda kind=kind, n=n, ram=ram, disk=disk, costs=costs: robj(kind, n, ram, disk, costs)))
    for mk in rv:
        try:
            with contextlib.redirect_stdout(io.StringIO()):
                o = mk()
        except Exception:   # noqa: BLE001
            continue
        csv = ops_csv(o)
        out.append(("revolveIter %d %s" % (o._max_n, csv), lambda mk=mk: _client(mk(), cs, None, None)))
        if len(csv) < 4000:
            out.append(("lastReads %s" % csv, lambda o=o: " ".join(str(v) for v in sorted(hrv._last_reads(o._schedule), reverse=True))))
    # generators
    for N in range(1, 30 if big else 14):
        for ram in range(0, 4):
            for disk in range(0, 4):
                for tr in ("maximum", "revolve"):
                    try:
                        with contextlib.redirect_stdout(io.StringIO()):
                            o = cs.MultistageCheckpointSchedule(N, ram, disk, trajectory=tr)
                    except Exception:   # noqa: BLE001
                        continue
                    req = "multistage %d %d %d %s %s" % (N, o._snapshots_in_ram, o._snapshots_on_disk, tr,
                                                          ",".join(_st(x) for x in o._storage))
                    out.append((req, lambda N=N, ram=ram, disk=disk, tr=tr: _client(
                        cs.MultistageCheckpointSchedule(N, ram, disk, trajectory=tr), cs, None, None)))
    for N in range(1, 26 if big else 15):
        for sn in range(0, N + 2):
            for st in ("RAM", "DISK"):
                try:
                    o = cs.MixedCheckpointSchedule(N, sn, storage=cs.StorageType[st])
                except Exception:   # noqa: BLE001
                    continue
                out.append(("mixed %d %d %s" % (N, o._snapshots, st), lambda N=N, sn=sn, st=st: _client(
                    cs.MixedCheckpointSchedule(N, sn, storage=cs.StorageType[st]), cs, None, None)))
    for N in range(1, 12):
        for k in (1, 2, 3):
            out.append(("singleMemory %d %d" % (k, N), lambda N=N, k=k: _client(cs.SingleMemoryStorageSchedule(), cs, k, N)))
            for mv in (0, 1):
                out.append(("singleDisk %d %d %d" % (mv, k, N), lambda N=N, k=k, mv=mv: _client(
                    cs.SingleDiskStorageSchedule(move_data=bool(mv)), cs, k, N)))
        out.append(("none %d" % N, lambda N=N: _client(cs.NoneCheckpointSchedule(), cs, None, N)))
    for p in range(1, 8 if big else 6):
        for bs in range(0, 4):
            for st in ("RAM", "DISK"):
                for tr in ("maximum", "revolve"):
                    for N in sorted({1, 2, p, p + 1, 2 * p + 1, 3 * p, 3 * p + 2}):
                        for k in (1, 2):
                            out.append(("twoLevel %d %d %s %s %d %d" % (p, bs, st, tr, k, N),
                                        lambda p=p, bs=bs, st=st, tr=tr, k=k, N=N: _client(
                                            cs.TwoLevelCheckpointSchedule(p, bs, binomial_storage=cs.StorageType[st],
                                                                          binomial_trajectory=tr), cs, k, N)))
    return out


def run_lean(lines, lean_path_prefix=None):
    rc, lp, _ = core.run(["lake", "env", "printenv", "LEAN_PATH"], cwd=core.LEAN_DIR, timeout=120)
    lp = lp.strip().splitlines()[-1]
    if lean_path_prefix:
        lp = lean_path_prefix + ":" + lp
    env = dict(os.environ, LEAN_PATH=lp)
    p = subprocess.run(["lean", "-R", core.LEAN_DIR, "--run", os.path.join(core.LEAN_DIR, "CkptGen", "Run.lean")],
                       input="\n".join(lines) + "\n", stdout=subprocess.PIPE, stderr=subprocess.PIPE, text=True,
                       cwd=core.LEAN_DIR, env=env, timeout=3000)
    return p.stdout.splitlines(), p.stderr[-2000:]


def validate_cached(tier, seed=1):
    """translator validation for this (repo, lean) state: the full request set in the thorough tier, every 6th
    request in the quick tier; cached (the answer depends on nothing else)"""
    import json
    key = core.repo_hash() + "-" + core.lean_hash()[:10] + "-" + _hash_self()
    full = os.path.join(core.CACHE, "genval-full-%s.json" % key)
    part = os.path.join(core.CACHE, "genval-part-%s.json" % key)
    if os.path.exists(full):
        with open(full) as f:
            return json.load(f)
    if tier == "quick" and os.path.exists(part):
        with open(part) as f:
            return json.load(f)
    r = validate(seed, "quick", stride=(1 if tier != "quick" else 6))
    r["scope"] = "all requests" if tier != "quick" else "every 6th request (the thorough tier runs all)"
    os.makedirs(core.CACHE, exist_ok=True)
    with open(full if tier != "quick" else part, "w") as f:
        json.dump(r, f)
    return r


def _hash_self():
    import hashlib
    with open(os.path.abspath(__file__), "rb") as f:
        return hashlib.sha256(f.read()).hexdigest()[:8]


def validate(seed=1, size="quick", lean_path_prefix=None, stride=1):
    import warnings
    with warnings.catch_warnings():
        warnings.simplefilter("ignore")
        reqs = requests(seed, size)[::stride]
        with contextlib.redirect_stdout(io.StringIO()):
            want = [f() for _, f in reqs]
    got, err = run_lean([r for r, _ in reqs], lean_path_prefix)
    bad = []
    if len(got) != len(reqs):
        return {"requests": len(reqs), "disagreements": [("runner", "answered %d of %d requests: %s" % (len(got), len(reqs), err))]}
    kinds = {}
    for (r, _), w, g in zip(reqs, want, got):
        kinds[r.split()[0]] = kinds.get(r.split()[0], 0) + 1
        if w != g:
            bad.append((r, "python: %s | generated Lean: %s" % (w[:300], g[:300])))
    return {"requests": len(reqs), "by_function": kinds, "disagreements": bad[:20], "n_disagreements": len(bad)}


if __name__ == "__main__":
    import json
    import warnings
    warnings.simplefilter("ignore")
    r = validate(size=sys.argv[1] if len(sys.argv) > 1 else "quick",
                 lean_path_prefix=sys.argv[2] if len(sys.argv) > 2 else None)
    print(json.dumps(r, indent=1)[:6000])
