"""Shared machinery: source hashes, caches, parallel tracing of the real code, model/monitor
queries through the Lean driver, trace parsing and projections."""
import hashlib
import json
import os
import pickle
import subprocess
import sys
import time
from multiprocessing import Pool

HERE = os.path.dirname(os.path.abspath(__file__))
VERIF = os.path.dirname(HERE)
REPO = os.environ.get("VERIF_REPO", "/repo")
LEAN_DIR = os.path.join(VERIF, "lean")
CACHE = os.path.join(VERIF, ".cache")
PY = os.environ.get("VERIF_PYTHON", "/venv/bin/python")
NPROC = int(os.environ.get("VERIF_NPROC", "16"))

sys.path.insert(0, HERE)


def _hash_files(paths):
    h = hashlib.sha256()
    for p in sorted(paths):
        h.update(p.encode())
        with open(p, "rb") as f:
            h.update(f.read())
    return h.hexdigest()[:16]


def repo_hash():
    paths = []
    for root, _, files in os.walk(os.path.join(REPO, "checkpoint_schedules")):
        for f in files:
            if f.endswith(".py"):
                paths.append(os.path.join(root, f))
    return _hash_files(paths)


def tracer_hash():
    """the way real traces are taken (harness/rtrace.py) is part of the cache key"""
    return _hash_files([os.path.join(HERE, "rtrace.py")])[:8]


def lean_hash(sub=None):
    paths = []
    for root, dirs, files in os.walk(LEAN_DIR):
        dirs[:] = [d for d in dirs if d != ".lake"]
        for f in files:
            if f.endswith(".lean") or f in ("lakefile.toml", "obligations.json"):
                paths.append(os.path.join(root, f))
    return _hash_files(paths)


def model_hash():
    """hash of the executable model + spec + driver only (proof files do not change traces)"""
    paths = []
    for d in ("CkptVerif/Model", "CkptVerif/Spec", "Driver"):
        for root, _, files in os.walk(os.path.join(LEAN_DIR, d)):
            for f in files:
                if f.endswith(".lean"):
                    paths.append(os.path.join(root, f))
    return _hash_files(paths)


class Store:
    """A persistent dict (pickle) keyed by a content hash; merged on save."""

    def __init__(self, name, key):
        os.makedirs(CACHE, exist_ok=True)
        self.path = os.path.join(CACHE, f"{name}-{key}.pkl")
        self.d = {}
        if os.path.exists(self.path):
            try:
                with open(self.path, "rb") as f:
                    self.d = pickle.load(f)
            except Exception:
                self.d = {}
        self.dirty = False

    def save(self):
        if not self.dirty:
            return
        cur = {}
        if os.path.exists(self.path):
            try:
                with open(self.path, "rb") as f:
                    cur = pickle.load(f)
            except Exception:
                cur = {}
        cur.update(self.d)
        tmp = self.path + f".{os.getpid()}.tmp"
        with open(tmp, "wb") as f:
            pickle.dump(cur, f)
        os.replace(tmp, self.path)
        self.dirty = False


def prune_cache(keep=None):
    """disk is limited: keep only the most recently used files of every cache family"""
    if keep is None:
        keep = int(os.environ.get("VERIF_CACHE_KEEP", "2"))
    if not os.path.isdir(CACHE):
        return
    fam = {}
    for fn in os.listdir(CACHE):
        p = os.path.join(CACHE, fn)
        if fn.endswith(".tmp"):
            try:
                if time.time() - os.path.getmtime(p) > 3600:
                    os.remove(p)
            except OSError:
                pass
            continue
        fam.setdefault(fn.split("-")[0], []).append(p)
    for ps in fam.values():
        try:
            ps.sort(key=os.path.getmtime, reverse=True)
        except OSError:
            continue
        for p in ps[keep:]:
            try:
                os.remove(p)
            except OSError:
                pass


# ---------------------------------------------------------------- real code, in worker processes

def _trace_worker(x):
    import rtrace as T
    spec, nfin, k = x
    try:
        return T.canon_trace(spec, nfin, k)
    except BaseException as e:  # harness error, not a verdict
        return ["H " + type(e).__name__ + " " + str(e)]


def _hist_worker(x):
    import rtrace as T
    spec, ops = x
    try:
        return T.hist_trace(spec, list(ops))
    except BaseException as e:
        return ["H " + type(e).__name__ + " " + str(e)]


_pool = None


def pool():
    global _pool
    if _pool is None:
        _pool = Pool(NPROC)
    return _pool


def close_pool():
    global _pool
    if _pool is not None:
        _pool.close()
        _pool.join()
        _pool = None


def real_traces(inputs, use_cache=True):
    """inputs: list of (spec, nfin, k). Returns dict input -> lines."""
    st = Store("real", repo_hash() + "-" + tracer_hash())
    todo = [x for x in dict.fromkeys(inputs) if not (use_cache and x in st.d)]
    if todo:
        # longest first for load balance
        res = pool().map(_trace_worker, todo, chunksize=max(1, len(todo) // (NPROC * 8)))
        for x, r in zip(todo, res):
            st.d[x] = r
        st.dirty = True
        st.save()
    return {x: st.d[x] for x in inputs}


def real_hists(inputs):
    st = Store("hist", repo_hash() + "-" + tracer_hash())
    todo = [x for x in dict.fromkeys(inputs) if x not in st.d]
    if todo:
        res = pool().map(_hist_worker, todo, chunksize=max(1, len(todo) // (NPROC * 8)))
        for x, r in zip(todo, res):
            st.d[x] = r
        st.dirty = True
        st.save()
    return {x: st.d[x] for x in inputs}


# ---------------------------------------------------------------- model side

_driver = None


def driver():
    global _driver
    if _driver is None:
        from lean import Driver
        _driver = Driver()
    return _driver


def close_driver():
    global _driver
    if _driver is not None:
        _driver.close()
        _driver = None


COST_SCALE = 4


def lean_spec(spec):
    """The model takes integer cost vectors. Dyadic-rational cost vectors (multiples of 1/4, exactly
    representable as floats) are scaled by 4: every quantity the code computes from the costs scales
    linearly and the period formula only depends on the ratio (wd + rd) / uf."""
    w = spec.split()
    if w[0] in ("RV", "DR", "PD", "HR") and any("." in t for t in w[-4:]):
        scaled = []
        for t in w[-4:]:
            v = float(t) * COST_SCALE
            if v != int(v):
                raise ValueError("cost not a multiple of 1/4: " + spec)
            scaled.append(str(int(v)))
        return " ".join(w[:-4] + scaled)
    return spec


def model_traces(inputs):
    st = Store("model", model_hash())
    todo = [x for x in dict.fromkeys(inputs) if x not in st.d]
    if todo:
        res = driver().ask_many([(f"gen {lean_spec(s)} @ {n} {k}", None) for s, n, k in todo])
        for x, r in zip(todo, res):
            st.d[x] = r
        st.dirty = True
        st.save()
    return {x: st.d[x] for x in inputs}


def model_hists(inputs):
    res = driver().ask_many([(f"hist {s} @ {' '.join(ops)}", None) for s, ops in inputs])
    return dict(zip(inputs, res))


def monitor(inputs, traces):
    """Run the Lean monitor over real traces. Returns dict input -> list of (idx, tag, code)."""
    st = Store("mon", repo_hash() + "-" + tracer_hash() + "-" + model_hash())
    todo = [x for x in dict.fromkeys(inputs)
            if x not in st.d and not traces[x][0].startswith(("X", "H"))]
    if todo:
        res = driver().ask_many([(f"mon {lean_spec(x[0])} @ {x[1]} {x[2]}", traces[x]) for x in todo])
        for x, r in zip(todo, res):
            vs = []
            for ln in r:
                w = ln.split()
                if w and w[0] == "V":
                    vs.append((int(w[1]), w[2], int(w[3])))
                else:
                    vs.append((-1, "ERR", 0))
            st.d[x] = vs
        st.dirty = True
        st.save()
    return {x: st.d.get(x, []) for x in inputs}


def kernel(req):
    return driver().ask("kernel " + req)


# ---------------------------------------------------------------- trace parsing / projections

class Rec:
    """one parsed trace line"""
    __slots__ = ("kind", "act", "args", "flags", "raw")

    def __init__(self, raw):
        self.raw = raw
        w = raw.split()
        self.kind = w[0] if w else "?"
        self.act = None
        self.args = ()
        self.flags = None
        if self.kind == "A":
            bar = w.index("|")
            a = w[1:bar]
            self.act = a[0]
            self.args = tuple(a[1:])
            self.flags = tuple(w[bar + 1:])
        elif self.kind in ("I", "S"):
            self.flags = tuple(w[1:])
        elif self.kind == "U":
            self.args = tuple(w[1:])


def parse(lines):
    return [Rec(ln) for ln in lines]


def norm_line(ln):
    """compare exceptions by stage only (position in the trace), not by message"""
    if ln.startswith("X "):
        return " ".join(ln.split()[:2])
    if ln.startswith("B "):
        return "B"
    return ln


def proj_full(lines):
    return [norm_line(ln) for ln in lines]


def proj_actions(lines):
    """actions only (all arguments), plus error markers"""
    out = []
    for ln in lines:
        if ln.startswith("A "):
            out.append(ln.split(" | ")[0])
        elif ln.startswith(("X", "B")):
            out.append(norm_line(ln))
    return out


def proj_shape(lines):
    """kinds and step ranges, STOP behaviour"""
    out = []
    for ln in lines:
        w = ln.split()
        if w[0] == "A":
            if w[1] == "F":
                out.append(("F", w[2], w[3]))
            elif w[1] == "R":
                out.append(("R", w[2], w[3]))
            else:
                out.append((w[1],))
        elif w[0] in ("S", "X", "B"):
            out.append((norm_line(ln).split()[0],))
    return out


def proj_storage(lines):
    """storage events: writes/copies/moves with storage and key, and the pass delimiters"""
    out = []
    for ln in lines:
        w = ln.split()
        if w[0] == "A":
            if w[1] == "F" and w[6] in ("R", "D"):
                out.append(("W", w[2], w[3], w[4], w[5], w[6]))
            elif w[1] in ("C", "M"):
                out.append((w[1], w[2], w[3], w[4]))
            elif w[1] in ("EF", "ER"):
                out.append((w[1],))
        elif w[0] in ("X", "B"):
            out.append((norm_line(ln).split()[0],))
    return out


def proj_counters(lines):
    """actions without storage labels + reported n r max_n"""
    out = []
    for ln in lines:
        w = ln.split()
        if w[0] == "A":
            bar = w.index("|")
            a = w[1:bar]
            if a[0] == "F":
                a = a[:3]
            elif a[0] in ("C", "M"):
                a = a[:2]
            elif a[0] == "R":
                a = a[:3]
            out.append((tuple(a), tuple(w[bar + 1:bar + 4])))
        elif w[0] in ("I", "S"):
            out.append((w[0], tuple(w[1:4])))
        elif w[0] in ("X", "B"):
            out.append((norm_line(ln).split()[0],))
    return out


def proj_flags(lines):
    """exhaustion/running flags at every point + kinds"""
    out = []
    for ln in lines:
        w = ln.split()
        if w[0] == "A":
            bar = w.index("|")
            out.append((w[1], tuple(w[bar + 4:bar + 6])))
        elif w[0] in ("I", "S"):
            out.append((w[0], tuple(w[4:6])))
        elif w[0] in ("X", "B"):
            out.append((norm_line(ln).split()[0],))
    return out


def proj_uses(lines):
    out = []
    for ln in lines:
        w = ln.split()
        if w[0] == "U":
            out.append(tuple(w))
        elif w[0] == "A":
            if w[1] == "F" and w[6] in ("R", "D"):
                out.append(("touch", w[6]))
            elif w[1] in ("C", "M"):
                for s in (w[3], w[4]):
                    if s in ("R", "D"):
                        out.append(("touch", s))
    # order-insensitive on touches
    return sorted(set(out), key=str)


def proj_fwdlens(lines):
    """forward lengths per action (segment structure), error markers"""
    out = []
    for ln in lines:
        w = ln.split()
        if w[0] == "A" and w[1] == "F":
            out.append((int(w[2]), int(w[3])))
        elif w[0] in ("X", "B"):
            out.append((norm_line(ln).split()[0],))
    return out


def cost_counts(lines, nfin):
    """(forward steps, reversed steps, DISK writes, DISK reads)"""
    f = r = dw = dr = 0
    for ln in lines:
        w = ln.split()
        if w[0] != "A":
            continue
        if w[1] == "F":
            f += min(int(w[3]), nfin) - int(w[2])
            if w[6] == "D":
                dw += 1
        elif w[1] == "R":
            r += int(w[2]) - int(w[3])
        elif w[1] in ("C", "M") and w[3] == "D":
            dr += 1
    return (f, r, dw, dr)


def proj_cost(lines):
    return cost_counts(lines, 10**30) if not lines[0].startswith("X") else ("X",)


def is_complete(lines):
    return bool(lines) and not any(ln.startswith(("X", "B", "H")) for ln in lines)


def write_json(path, obj):
    os.makedirs(os.path.dirname(path), exist_ok=True)
    tmp = path + ".tmp"
    with open(tmp, "w") as f:
        json.dump(obj, f, indent=1, sort_keys=True)
        f.write("\n")
    os.replace(tmp, path)


def run(cmd, cwd=None, timeout=None, env=None):
    t = time.time()
    p = subprocess.run(cmd, cwd=cwd, stdout=subprocess.PIPE, stderr=subprocess.STDOUT, text=True,
                       timeout=timeout, env=env)
    return p.returncode, p.stdout, time.time() - t
