"""Generate MANIFEST.json from lean/obligations.json and the per-property texts below."""
import json
import os

HERE = os.path.dirname(os.path.abspath(__file__))
VERIF = os.path.dirname(HERE)

with open(os.path.join(VERIF, "lean", "obligations.json")) as f:
    OBL = json.load(f)

NOTE = ("Trusted: Lean 4.33 kernel; axioms propext/Classical.choice/Quot.sound only; the hand-written Lean model and spec "
        "executor; the correspondence check (harness canonicalisation, compiled driver) and its boundedness (agreement is "
        "established on the explored inputs only); CPython semantics; integer cost vectors; the clients of DESIGN section 5 for online schedules (canonical, noisy, journalling, late-finalising, numpy arguments; other call orders only through C10 histories). "
        "Where a source-level tie is listed: the translator harness/py2lean.py (rules in its docstring; validated per run "
        "against the real functions by harness/genval.py) instead of the hand-written model of those functions.")

TEXT = {
    "C01": "Every explored real stream (all classes, all passes) is run through the Lean spec executor, which checks every "
           "clause of executability (tag C01); the hand-written Lean model of each class is compared line by line with the real "
           "trace.",
    "C02": "Lean monitor tag C02 (phase structure, contiguous descending reversal, end of stream) on every explored real stream "
           "+ shape correspondence model/implementation.",
    "C03": "Lean monitor tag C03 (budgets per class as specified in the driver's Cfg, one kind of data per checkpoint) on every "
           "explored real stream + storage-event correspondence.",
    "C04": "Lean monitor tag C04 (storage empty / equal to the EndForward snapshot at every EndReverse) on every explored real "
           "stream + storage-event correspondence.",
    "C05": "Forward-step count of every explored real Multistage/Revolve stream compared with n + E(n,s) computed by the Lean "
           "model of the Griewank-Walther recurrence; n_advance and optimal_extra_steps compared value by value with the model.",
    "C06": "Forward-step count of every explored real Mixed stream (both storages, both planner paths) compared with the Lean "
           "model of the mixed recurrence; planner and helper tables compared cell by cell.",
    "C07": "Cost of every explored real Revolve-family stream compared with the Lean model's DP table value + n*uf for integer "
           "cost vectors incl. uf != ub, wd != rd; sibling inequalities; cost tables compared entry by entry.",
    "C08": "Lean monitor tag C08 (reported n, r, max_n against the executor's own positions) after every action of every explored "
           "real stream + counter correspondence.",
    "C09": "Lean monitor tag C09 (exhaustion/running flags at every point, StopIteration behaviour), exact repeat of further "
           "passes, number of permitted passes + flag correspondence.",
    "C10": "Histories of next()/finalize(k) calls (exhaustive short ones and seeded random ones) run on the real objects and on "
           "the Lean step machine; outcomes, state and subsequent stream compared; the documented contract evaluated on the "
           "real outcomes.",
    "C11": "Lean monitor tag C11 (uses_storage_type at three moments for all four members against the storages the real stream "
           "touches) + correspondence.",
    "C12": "Lean monitor tag C12 (one thing in working storage, no overshoot) on every explored real stream + full-trace "
           "correspondence.",
    "C13": "TwoLevel forward sweep and per-block forward-step counts of every explored real stream compared with L + E(L, b+1) "
           "from the Lean model; storage labels of extra checkpoints.",
    "C14": "All splits of every total s <= 6/8: label-erased real streams compared between siblings, one storage per stack "
           "depth, RAM count, DISK accesses compared with (total - top-a) of the Lean model's weights; allocate_snapshots "
           "compared with the model.",
    "C15": "Seeded multi-object interleaved histories on the real code; each object's stream compared with its history-free "
           "stream (and, thorough, with a fresh interpreter); process histories against the Lean process model.",
    "C16": "Tabulated planner (path forced) vs memoised planner on the real code, cell by cell and stream by stream, and both "
           "against the Lean models of both.",
    "C17": "Outcome class (construct / first-next / later / complete) of every configuration in the valid boxes and in the box "
           "around the domain boundary, against the Lean validity predicate and model outcome.",
    "C18": "Lean monitor tag C18 on every emitted action; repr/eval round trip, iteration, len, membership and the equality laws "
           "on directly constructed actions against the Lean model's printer, step enumeration and structural equality.",
    "C19": "PeriodicDiskRevolve DISK write/read positions and per-segment step counts for all n <= 5m+3 against the period from "
           "the Lean model of the closed form; the formula compared value by value.",
}


with open(os.path.join(VERIF, "lean", "CkptGen", "gen_obligations.json")) as _f:
    GEN = json.load(_f)


def main():
    checks = []
    for prop in sorted(OBL):
        spec = OBL[prop]
        level = spec.get("level", "translation_validation")
        thms = spec.get("theorems", [])
        text = TEXT[prop]
        if thms:
            text += " Machine-checked in Lean (re-checked on every run): " + ", ".join(t.split(".")[-1] for t in thms) + "."
        if spec.get("note"):
            text += " " + spec["note"]
        gen = [(fn, g) for fn, g in GEN.items() if prop in g.get("properties", [])]
        if gen:
            text += (" Source-level tie (the Lean text regenerated from the current Python source by harness/py2lean.py is proved "
                     "equal to the model, re-checked on every run): " +
                     "; ".join("%s [%s]" % (fn, ", ".join(t.split(".")[-1] for t in g["theorems"][:3])) for fn, g in gen) + ".")
        checks.append({
            "property_id": prop,
            "quick_cmd": f"./check {prop} --tier quick",
            "thorough_cmd": f"./check {prop} --tier thorough",
            "evidence_file": f"evidence/{prop}.json",
            "replay_cmd_template": f"./check {prop} --replay {{path}}",
            "engine": "lean4-model+monitor",
            "level_claimed": {"category": level, "text": text, "design_ref": "DESIGN.md section 7 (" + prop + ")"},
            "level_note": NOTE,
            "technique": spec.get("technique", "Lean 4 spec executor run on real streams + model/implementation correspondence"),
        })
    man = {
        "version": 1,
        "setup_cmd": "cd lean && lake build drv CkptVerif CkptGen && cd .. && (./check C10 --tier quick >/dev/null 2>&1 || true)",
        "hooks": {
            "guard": "CHECKPOINT_SCHEDULES_VERIF",
            "enable": "no source hooks are needed: everything is observed through the public iteration protocol",
            "baseline_off_cmd": "cd /repo && /venv/bin/python -m pytest -ra -q -p no:cacheprovider --timeout=900 --continue-on-collection-errors",
            "source_commits": [],
            "add_only": True,
        },
        "engines": [{
            "name": "lean4-model+monitor",
            "path": "lean/",
            "serves_properties": sorted(OBL),
            "kind_free_text": "Lean 4 executable model of every schedule class and numeric kernel, verified spec executor "
                              "(monitor) run on real streams, theorems about the model, line-protocol driver; Python harness "
                              "running /repo's current working tree in-process",
        }],
        "checks": checks,
        "notes": "See DESIGN.md. `./check Cxx --tier T` rebuilds the Lean project if its sources changed, audits the axioms, traces "
                 "/repo's current working tree, and decides. Exit 2 = harness error, never a verdict.",
        "not_applicable": [],
    }
    with open(os.path.join(VERIF, "MANIFEST.json"), "w") as f:
        json.dump(man, f, indent=1)
        f.write("\n")


if __name__ == "__main__":
    main()
