"""Build the Lean project, audit the proofs, report which obligations are discharged."""
import json
import os
import re

import core

ALLOWED_AXIOMS = {"propext", "Classical.choice", "Quot.sound"}
FORBIDDEN = re.compile(r"\b(sorry|admit|native_decide|bv_decide|implemented_by|unsafe)\b|^\s*axiom\s|maxHeartbeats\s+0\b", re.M)


def obligations():
    with open(os.path.join(core.LEAN_DIR, "obligations.json")) as f:
        return json.load(f)


def strip_comments(src):
    # block comments (nested) then line comments
    out = []
    depth = 0
    i = 0
    while i < len(src):
        if src.startswith("/-", i):
            depth += 1
            i += 2
        elif src.startswith("-/", i) and depth > 0:
            depth -= 1
            i += 2
        elif depth > 0:
            i += 1
        elif src.startswith("--", i):
            j = src.find("\n", i)
            i = len(src) if j < 0 else j
        else:
            out.append(src[i])
            i += 1
    return "".join(out)


def grep_forbidden():
    hits = []
    for root, dirs, files in os.walk(core.LEAN_DIR):
        dirs[:] = [d for d in dirs if d != ".lake"]
        for f in files:
            if f.endswith(".lean"):
                p = os.path.join(root, f)
                with open(p) as fh:
                    src = strip_comments(fh.read())
                # string literals may mention the words; drop them
                src = re.sub(r'"(\\.|[^"\\])*"', '""', src)
                for m in FORBIDDEN.finditer(src):
                    hits.append((os.path.relpath(p, core.LEAN_DIR), m.group(0).strip()))
    return hits


def build_and_audit(force=False):
    """Returns dict: built(bool), log, failed_modules, axioms{theorem: [axioms] or None}, forbidden."""
    key = core.lean_hash()
    cache = os.path.join(core.CACHE, f"audit-{key}.json")
    drv_ok = os.path.exists(os.path.join(core.LEAN_DIR, ".lake", "build", "bin", "drv"))
    if not force and os.path.exists(cache) and drv_ok:
        with open(cache) as f:
            return json.load(f)
    os.makedirs(core.CACHE, exist_ok=True)
    rc, log, secs = core.run(["lake", "build", "drv", "CkptVerif", "CkptGen"], cwd=core.LEAN_DIR, timeout=3000)
    failed = sorted(set(re.findall(r"^- (CkptVerif[\w.]*|Driver[\w.]*)", log, re.M)))
    obl = obligations()
    res = {"built": rc == 0, "build_seconds": round(secs, 1), "failed_modules": failed,
           "log_tail": log[-3000:] if rc != 0 else "", "axioms": {}, "forbidden": grep_forbidden()}
    # audit per property module (only those that built)
    for prop, spec in obl.items():
        mod = spec.get("module")
        thms = spec.get("theorems", [])
        if not mod or not thms:
            continue
        if any(m in failed for m in (mod if isinstance(mod, list) else [mod])):
            for t in thms:
                res["axioms"][t] = None
            continue
        mods = mod if isinstance(mod, list) else [mod]
        src = "".join(f"import {m}\n" for m in mods) + "".join(f"#print axioms {t}\n" for t in thms)
        path = os.path.join(core.LEAN_DIR, ".lake", f"audit_{prop}.lean")
        with open(path, "w") as f:
            f.write(src)
        rc2, out, _ = core.run(["lake", "env", "lean", path], cwd=core.LEAN_DIR, timeout=1200)
        for t in thms:
            m = re.search(r"'" + re.escape(t) + r"' depends on axioms: \[([^\]]*)\]", out, re.S)
            if m:
                res["axioms"][t] = [a.strip() for a in m.group(1).replace("\n", " ").split(",") if a.strip()]
            elif re.search(r"'" + re.escape(t) + r"' does not depend on any axioms", out):
                res["axioms"][t] = []
            else:
                res["axioms"][t] = None
    with open(cache, "w") as f:
        json.dump(res, f)
    return res


def property_status(prop, audit):
    """(obligations, discharged, problems[list of str], theorem->axioms)"""
    spec = obligations().get(prop, {})
    thms = spec.get("theorems", [])
    problems = []
    ax = {}
    ok = 0
    for t in thms:
        a = audit["axioms"].get(t)
        ax[t] = a
        if a is None:
            problems.append(f"theorem {t} does not check")
        elif not set(a) <= ALLOWED_AXIOMS:
            problems.append(f"theorem {t} depends on axioms {sorted(set(a) - ALLOWED_AXIOMS)}")
        else:
            ok += 1
    if audit["forbidden"]:
        problems.append("forbidden tokens in Lean sources: " + ", ".join(f"{p}:{w}" for p, w in audit["forbidden"][:5]))
    if not audit["built"] and not thms:
        # the executable model itself must build for any check to run
        pass
    return len(thms), ok, problems, ax
