"""Source-level tie: regenerate the Lean text of the translated Python functions from /repo's CURRENT sources
(py2lean.py) and re-check the refinement theorems `generated function = hand-written model` against it.

* the regenerated text equals the committed `lean/CkptGen/Src.lean`  ->  the lake-built `CkptGen` library (built
  from exactly that text) stands: the refinement theorems hold for what the code says now; their axioms are
  audited like those of every other registered theorem;
* it differs  ->  the new text is compiled in a scratch directory (never in place: several checks may run
  concurrently, possibly against different trees) and every refinement module is re-checked against it; a
  module that no longer compiles names the theorems that no longer check.

The result is reported per property (which translated functions a property depends on is registered in
`lean/CkptGen/gen_obligations.json`).  A broken source-level theorem is not by itself a violation: the check then
falls back to the correspondence of model and implementation on escalated boxes (see DESIGN.md section 5a).
"""
import hashlib
import json
import os
import re
import shutil
import tempfile

import core
import py2lean

GEN_DIR = os.path.join(core.LEAN_DIR, "CkptGen")
ALLOWED_AXIOMS = {"propext", "Classical.choice", "Quot.sound"}


def registry():
    with open(os.path.join(GEN_DIR, "gen_obligations.json")) as f:
        return json.load(f)


def _lean_path():
    rc, out, _ = core.run(["lake", "env", "printenv", "LEAN_PATH"], cwd=core.LEAN_DIR, timeout=120)
    return out.strip().splitlines()[-1] if rc == 0 and out.strip() else os.path.join(core.LEAN_DIR, ".lake", "build", "lib", "lean")


def _axioms_of(out, thms):
    res = {}
    for t in thms:
        m = re.search(r"'" + re.escape(t) + r"' depends on axioms: \[([^\]]*)\]", out, re.S)
        if m:
            res[t] = [a.strip() for a in m.group(1).replace("\n", " ").split(",") if a.strip()]
        elif re.search(r"'" + re.escape(t) + r"' does not depend on any axioms", out):
            res[t] = []
        else:
            res[t] = None
    return res


def _audit(env, cwd, modules, thms, workdir):
    src = "".join("import %s\n" % m for m in modules) + "".join("#print axioms %s\n" % t for t in thms)
    path = os.path.join(workdir, "gen_audit.lean")
    with open(path, "w") as f:
        f.write(src)
    rc, out, _ = core.run(["lean", path], cwd=cwd, timeout=1200, env=env)
    return _axioms_of(out, thms)


def status():
    """dict: matches_baseline, translator{fn: status}, functions{fn: {ok, theorems{name: axioms|None}, why}}"""
    reg = registry()
    text, tstatus = py2lean.generate(core.REPO)
    with open(os.path.join(GEN_DIR, "Src.lean")) as f:
        baseline = f.read()
    key = hashlib.sha256((text + core.lean_hash()).encode()).hexdigest()[:16]
    cache = os.path.join(core.CACHE, "gensrc-%s.json" % key)
    if os.path.exists(cache):
        with open(cache) as f:
            return json.load(f)
    os.makedirs(core.CACHE, exist_ok=True)
    res = {"matches_baseline": text == baseline, "translator": tstatus, "functions": {}}
    all_thms = [t for spec in reg.values() for t in spec["theorems"]]
    all_mods = sorted({spec["module"] for spec in reg.values()})
    lean_path = _lean_path()
    if text == baseline:
        work = tempfile.mkdtemp(prefix="gensrc-")
        try:
            env = dict(os.environ, LEAN_PATH=lean_path)
            ax = {}
            for m in all_mods:
                thms = [t for spec in reg.values() if spec["module"] == m for t in spec["theorems"]]
                ax.update(_audit(env, core.LEAN_DIR, [m], thms, work))
        finally:
            shutil.rmtree(work, ignore_errors=True)
        for fn, spec in reg.items():
            th = {t: ax.get(t) for t in spec["theorems"]}
            ok = all(a is not None and set(a) <= ALLOWED_AXIOMS for a in th.values()) and \
                tstatus.get(fn, "ok") == "ok"
            res["functions"][fn] = {"ok": ok, "theorems": th,
                                    "why": "" if ok else "refinement theorem missing or with unexpected axioms"}
    else:
        # compile the regenerated text and the refinement modules against it, in a scratch directory
        work = tempfile.mkdtemp(prefix="gensrc-")
        try:
            os.makedirs(os.path.join(work, "CkptGen"))
            src = os.path.join(work, "CkptGen", "Src.lean")
            built = os.path.join(core.LEAN_DIR, ".lake", "build", "lib", "lean", "CkptGen")
            shutil.copy(os.path.join(built, "Prelude.olean"), os.path.join(work, "CkptGen", "Prelude.olean"))
            with open(src, "w") as f:
                f.write(text)
            env = dict(os.environ, LEAN_PATH=work + ":" + lean_path)
            rc, out, _ = core.run(["lean", "-R", work, "-o", os.path.join(work, "CkptGen", "Src.olean"), src],
                                  cwd=work, timeout=1200, env=env)
            src_ok = rc == 0
            mod_ok = {}
            order = registry_order(reg)
            deps = module_deps(order)
            if src_ok:
                # in waves: every module whose imports are done, several at a time
                from concurrent.futures import ThreadPoolExecutor

                def compile_one(m):
                    rel = m.replace(".", "/") + ".lean"
                    rc2, out2, _ = core.run(["lean", "-R", core.LEAN_DIR, "-o", os.path.join(work, rel[:-5] + ".olean"),
                                             os.path.join(core.LEAN_DIR, rel)], cwd=core.LEAN_DIR, timeout=2400, env=env)
                    return m, (rc2 == 0, out2[-1500:])
                todo = list(order)
                while todo:
                    ready = [m for m in todo if all(d in mod_ok for d in deps[m])]
                    if not ready:
                        for m in todo:
                            mod_ok[m] = (False, "import cycle")
                        break
                    wave = []
                    for m in ready:
                        todo.remove(m)
                        broken = [d for d in deps[m] if not mod_ok[d][0]]
                        if broken:
                            # never compile against a stale (lake-built, old-text) copy of a module that failed
                            mod_ok[m] = (False, "its import %s no longer checks: %s" % (broken[0], mod_ok[broken[0]][1][-400:]))
                        else:
                            wave.append(m)
                    with ThreadPoolExecutor(max_workers=max(1, min(6, core.NPROC if hasattr(core, "NPROC") else 6))) as ex:
                        for m, r2 in ex.map(compile_one, wave):
                            mod_ok[m] = r2
            res["diff"] = []
            if src_ok:
                # the translated CURRENT source against the model, on sizes far beyond the Python boxes
                rc3, out3, _ = core.run(["lean", "-R", core.LEAN_DIR, "--run",
                                         os.path.join(core.LEAN_DIR, "CkptGen", "Diff.lean"), "3000", "14"],
                                        cwd=core.LEAN_DIR, timeout=1800, env=env)
                res["diff"] = [ln for ln in out3.splitlines() if ln.startswith(("nadv ", "finalize "))][:60]
                res["diff_completed"] = "done" in out3.splitlines()[-3:] if out3.strip() else False
            for fn, spec in reg.items():
                if tstatus.get(fn, "ok") != "ok":
                    res["functions"][fn] = {"ok": False, "theorems": {t: None for t in spec["theorems"]},
                                            "why": tstatus[fn]}
                elif not src_ok:
                    res["functions"][fn] = {"ok": False, "theorems": {t: None for t in spec["theorems"]},
                                            "why": "the regenerated Lean text does not compile: " + out[-800:]}
                else:
                    ok, log = mod_ok.get(spec["module"], (False, "not compiled"))
                    th = {}
                    if ok:
                        th = _audit(env, core.LEAN_DIR, [spec["module"]], spec["theorems"], work)
                        ok = all(a is not None and set(a) <= ALLOWED_AXIOMS for a in th.values())
                    res["functions"][fn] = {"ok": ok, "theorems": th or {t: None for t in spec["theorems"]},
                                            "why": "" if ok else "module %s no longer checks against the regenerated "
                                                                 "source: %s" % (spec["module"], log[-600:])}
        finally:
            shutil.rmtree(work, ignore_errors=True)
    with open(cache, "w") as f:
        json.dump(res, f)
    return res


def registry_order(reg=None):
    """EVERY module of CkptGen downstream of the generated `Src` (registered or not: a helper module compiled against
    the old text must not be mixed with the regenerated one), in an order compatible with their imports"""
    import glob
    skip = {"CkptGen.Prelude", "CkptGen.Src", "CkptGen.Run", "CkptGen.Diff"}
    mods = sorted("CkptGen." + os.path.basename(f)[:-5] for f in glob.glob(os.path.join(GEN_DIR, "*.lean")))
    mods = [m for m in mods if m not in skip]
    deps = module_deps(mods)
    out = []

    def visit(m):
        if m in out:
            return
        for d in deps[m]:
            visit(d)
        out.append(m)
    for m in mods:
        visit(m)
    return out


def module_deps(mods):
    deps = {}
    for m in mods:
        with open(os.path.join(core.LEAN_DIR, m.replace(".", "/") + ".lean")) as f:
            imps = re.findall(r"^import\s+(\S+)", f.read(), re.M)
        deps[m] = [i for i in imps if i in mods]
    return deps


def for_property(prop, st=None):
    """(functions relevant to `prop`, list of problems, theorem->axioms)"""
    reg = registry()
    st = st or status()
    fns = [fn for fn, spec in reg.items() if prop in spec.get("properties", [])]
    problems = []
    ax = {}
    for fn in fns:
        info = st["functions"].get(fn, {"ok": False, "theorems": {}, "why": "not evaluated"})
        ax.update(info["theorems"])
        if not info["ok"]:
            bad = [t for t, a in info["theorems"].items() if a is None or not set(a) <= ALLOWED_AXIOMS]
            problems.append("source-level theorem(s) %s of `%s` no longer check: %s" % (
                ", ".join(bad) or "(all)", fn, info["why"][:300]))
    return fns, problems, ax


def extra_inputs(st=None):
    """real schedules to run for the disagreements found by CkptGen/Diff.lean (translated current source vs model)"""
    st = st or status()
    out = []
    lines = st.get("diff", [])
    rank = {"SUBOPTIMAL": 0, "RAISES": 0, "unranked": 1, "still-optimal": 2}
    lines = sorted(lines, key=lambda ln: rank.get(ln.split()[-1], 1))
    for ln in lines:
        w = ln.split()
        if w[0] == "nadv":
            n, s_, tr = int(w[1]), int(w[2]), w[3]
            if n >= 2 and s_ >= 1:
                out.append(("MS %d 0 %d %s" % (n, s_, tr), n, 1))
                out.append(("MS %d %d 0 %s" % (n, s_, tr), n, 1))
                if s_ >= 2:
                    out.append(("TL %d %d R %s" % (n, s_ - 1, tr), n, 1))
    return list(dict.fromkeys(out))[:24]


if __name__ == "__main__":
    s = status()
    print(json.dumps({k: v for k, v in s.items() if k != "functions"}, indent=1))
    for fn, info in s["functions"].items():
        print(fn, "OK" if info["ok"] else "BROKEN", info["why"][:200])
