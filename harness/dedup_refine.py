"""Rename declarations of a new CkptGen/Refine*.lean file that clash with earlier files (helper lemmas written
independently by different proof sessions).  usage: dedup_refine.py NewFile.lean suffix"""
import re, sys, os, glob
new, suf = sys.argv[1], sys.argv[2]
d = os.path.dirname(new)
pat = re.compile(r"^(?:private\s+)?(?:theorem|def|lemma|abbrev|instance)\s+([A-Za-z_][\w.']*)", re.M)
others = set()
for f in glob.glob(os.path.join(d, "*.lean")):
    if os.path.abspath(f) != os.path.abspath(new):
        others |= set(pat.findall(open(f).read()))
s = open(new).read()
mine = pat.findall(s)
clash = [n for n in mine if n in others]
for n in sorted(set(clash), key=len, reverse=True):
    s = re.sub(r"(?<![\w.'])" + re.escape(n) + r"(?![\w'])", n + suf, s)
open(new, "w").write(s)
print("renamed:", sorted(set(clash)))
