#!/bin/bash
# usage: seed_eval.sh <property> <worktree> <seed-id>
# Confirms a seeded defect (demo before/after, test-suite) and runs all 19 quick checks against the
# changed tree.  The checks are pointed at the worktree (VERIF_REPO), which holds /repo's HEAD plus the
# change -- equivalent to `git -C /repo apply patch` ... `git -C /repo checkout -- .`, but several seeds
# can be evaluated concurrently and /repo is never left dirty.
set -u
P=$1; WT=$2; ID=$3
OUT=/verif/seeded/$ID
mkdir -p $OUT
git -C $WT diff -- checkpoint_schedules > $OUT/patch.diff
cp $WT/demo.py $OUT/demo.py
echo "== demo on unchanged library"
( cd $WT && git apply -R $OUT/patch.diff && /venv/bin/python demo.py > $OUT/demo_before.txt 2>&1; echo "exit $?" >> $OUT/demo_before.txt; git apply $OUT/patch.diff )
tail -2 $OUT/demo_before.txt | cut -c1-300
echo "== demo with change"
( cd $WT && /venv/bin/python demo.py > $OUT/demo_after.txt 2>&1; echo "exit $?" >> $OUT/demo_after.txt )
tail -3 $OUT/demo_after.txt | cut -c1-300
echo "== test-suite with change"
( cd $WT && /venv/bin/python -m pytest -q -p no:cacheprovider -n 4 --timeout=900 2>&1 | tail -1 ) | tee $OUT/tests.txt
echo "== patch applies to /repo HEAD"
git -C /repo apply --check $OUT/patch.diff && echo yes
echo "== checks against the changed tree"
: > $OUT/checks.txt
for i in 01 02 03 04 05 06 07 08 09 10 11 12 13 14 15 16 17 18 19; do
  r=$(cd ${VERIF_HOME:-/verif} && VERIF_REPO=$WT VERIF_NPROC=6 VERIF_CACHE_KEEP=12 timeout 2400 ./check C$i --tier quick 2>&1 | grep -E "^VIOLATION|^OK|^KNOWN|harness error|^  " | head -3 | tr '\n' ' ' | cut -c1-400)
  echo "C$i: $r" | tee -a $OUT/checks.txt
done
