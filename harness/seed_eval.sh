#!/bin/bash
# usage: seed_eval.sh <property> <worktree> <seed-id>  -- confirm a seeded defect and run all checks against it
set -u
P=$1; WT=$2; ID=$3
OUT=/verif/seeded/$ID
mkdir -p $OUT
git -C $WT diff -- checkpoint_schedules > $OUT/patch.diff
cp $WT/demo.py $OUT/demo.py
echo "== demo on unchanged library"
( cd $WT && git stash -q -- checkpoint_schedules && /venv/bin/python demo.py > $OUT/demo_before.txt 2>&1; echo "exit $?" >> $OUT/demo_before.txt; git stash pop -q )
tail -2 $OUT/demo_before.txt
echo "== demo with change"
( cd $WT && /venv/bin/python demo.py > $OUT/demo_after.txt 2>&1; echo "exit $?" >> $OUT/demo_after.txt )
tail -3 $OUT/demo_after.txt
echo "== test-suite with change"
( cd $WT && /venv/bin/python -m pytest -q -p no:cacheprovider -n 8 --timeout=900 2>&1 | tail -1 ) | tee $OUT/tests.txt
echo "== checks against the change applied to /repo"
git -C /repo apply $OUT/patch.diff || { echo "patch does not apply"; exit 3; }
: > $OUT/checks.txt
for i in 01 02 03 04 05 06 07 08 09 10 11 12 13 14 15 16 17 18 19; do
  r=$(cd /verif && timeout 1200 ./check C$i --tier quick 2>&1 | grep -E "^VIOLATION|^OK|^KNOWN|harness error" | head -2 | tr '\n' ' ')
  echo "C$i: $r" | tee -a $OUT/checks.txt
done
git -C /repo checkout -- .
git -C /repo status --short | head -3
