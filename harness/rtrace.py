"""Run the real classes from /repo in-process and record canonical traces.

The trace format is the line protocol of lean/Driver/Main.lean:
  I n r maxN exh run | U a b c d | A <action> | n r maxN exh run | S ... | B text | X stage exc
"""
import contextlib
import io
import os
import sys
import warnings

REPO = os.environ.get("VERIF_REPO", "/repo")
if REPO not in sys.path:
    sys.path.insert(0, REPO)

import numbers  # noqa: E402

warnings.simplefilter("ignore")

import checkpoint_schedules as cs  # noqa: E402
from checkpoint_schedules import schedule as sch  # noqa: E402
from checkpoint_schedules import mixed as mixed_mod  # noqa: E402
from checkpoint_schedules import multistage as ms  # noqa: E402

ST = sch.StorageType
ST_NAME = {ST.RAM: "R", ST.DISK: "D", ST.WORK: "W", ST.NONE: "N"}
ST_OF = {v: k for k, v in ST_NAME.items()}


def _is_int(x):
    return isinstance(x, numbers.Integral) and not isinstance(x, bool)


def _is_bool(x):
    try:
        import numpy as np
        return isinstance(x, (bool, np.bool_))
    except Exception:
        return isinstance(x, bool)


def canon_action(a):
    """Canonical text of an action, or None if it is not a well-formed action object."""
    try:
        if type(a) is sch.Forward:
            n0, n1, wi, wa, st = a.args
            if not (_is_int(n0) and _is_int(n1) and _is_bool(wi) and _is_bool(wa)
                    and isinstance(st, ST) and n0 >= 0 and n1 >= 0):
                return None
            return f"F {int(n0)} {int(n1)} {int(bool(wi))} {int(bool(wa))} {ST_NAME[st]}"
        if type(a) is sch.Reverse:
            n1, n0, c = a.args
            if not (_is_int(n0) and _is_int(n1) and _is_bool(c) and n0 >= 0 and n1 >= 0):
                return None
            return f"R {int(n1)} {int(n0)} {int(bool(c))}"
        if type(a) in (sch.Copy, sch.Move):
            n, s, d = a.args
            if not (_is_int(n) and isinstance(s, ST) and isinstance(d, ST) and n >= 0):
                return None
            return f"{'C' if type(a) is sch.Copy else 'M'} {int(n)} {ST_NAME[s]} {ST_NAME[d]}"
        if type(a) is sch.EndForward and a.args == ():
            return "EF"
        if type(a) is sch.EndReverse and a.args == ():
            return "ER"
    except Exception:
        return None
    return None


def flags(o):
    def g(f):
        try:
            return f()
        except Exception as e:  # a raising observer is reported, not hidden
            return "!" + type(e).__name__
    n = g(lambda: o.n)
    r = g(lambda: o.r)
    m = g(lambda: o.max_n)
    e = g(lambda: o.is_exhausted)
    ru = g(lambda: o.is_running)

    def num(x):
        if x is None:
            return "-"
        if _is_int(x):
            return str(int(x))
        return "?" + repr(x)

    def bl(x):
        if _is_bool(x):
            return str(int(bool(x)))
        return "?" + repr(x)
    return f"{num(n)} {num(r)} {num(m)} {bl(e)} {bl(ru)}"


def uses_line(o):
    out = []
    for t in (ST.RAM, ST.DISK, ST.WORK, ST.NONE):
        try:
            out.append(str(int(bool(o.uses_storage_type(t)))))
        except Exception:
            out.append("x")
    return "U " + " ".join(out)


def _cost(x):
    """integer costs stay Python ints (as in the library's defaults); dyadic rationals become floats"""
    return float(x) if "." in x else int(x)


def parse_spec(spec, np_ints=False, sub=False):
    """spec: class words as in the Lean driver. Returns a zero-argument constructor.  `np_ints`: every integer
    argument is handed over as a numpy integer (what a client computing its sizes with numpy passes).  `sub`: the
    object is an instance of a trivial client SUBCLASS of the schedule class (nothing overridden)."""
    w = spec.split()
    k = w[0]

    def C(cls):
        return type("Client" + cls.__name__, (cls,), {}) if sub else cls
    if np_ints:
        import numpy

        def I(x):       # noqa: E743
            return numpy.int64(int(x))
    else:
        I = int         # noqa: E741
    if k == "SM":
        return lambda: C(cs.SingleMemoryStorageSchedule)()
    if k == "SD":
        return lambda: C(cs.SingleDiskStorageSchedule)(move_data=bool(int(w[1])))
    if k == "NO":
        return lambda: C(cs.NoneCheckpointSchedule)()
    if k == "TL":
        return lambda: C(cs.TwoLevelCheckpointSchedule)(
            I(w[1]), I(w[2]), binomial_storage=ST_OF[w[3]], binomial_trajectory=w[4])
    if k == "MS":
        return lambda: C(cs.MultistageCheckpointSchedule)(I(w[1]), I(w[2]), I(w[3]), trajectory=w[4])
    if k == "MX":
        def mk():
            return C(cs.MixedCheckpointSchedule)(I(w[1]), I(w[2]), storage=ST_OF[w[3]])
        return mk
    if k in ("RV", "DR", "PD"):
        cls = C({"RV": cs.Revolve, "DR": cs.DiskRevolve, "PD": cs.PeriodicDiskRevolve}[k])
        return lambda: cls(I(w[1]), I(w[2]), *[_cost(x) for x in w[3:7]])
    if k == "HR":
        return lambda: C(cs.HRevolve)(I(w[1]), I(w[2]), I(w[3]), *[_cost(x) for x in w[4:8]])
    raise ValueError(spec)


@contextlib.contextmanager
def forced_numba(spec):
    """MX ... 1: force the tabulated planner (mixed.numba is None when numba is absent;
    njit is then already the identity wrapper)."""
    w = spec.split()
    if w[0] == "MX" and w[4] == "1":
        old = mixed_mod.numba
        mixed_mod.numba = True
        try:
            yield
        finally:
            mixed_mod.numba = old
    else:
        yield


def exc_name(e):
    return type(e).__name__


def _bigger(spec):
    """a sibling configuration: one more step and one more unit of everything (same class, same costs)"""
    w = spec.split()
    pos = {"TL": [1, 2], "MS": [1, 2, 3], "MX": [1, 2], "RV": [1, 2], "DR": [1, 2], "PD": [1, 2], "HR": [1, 2, 3]}.get(w[0])
    if not pos or int(w[1]) > 60:
        return None
    for i in pos:
        w[i] = str(int(w[i]) + 1)
    return " ".join(w)


def _disturbers(spec):
    """Other live objects of the same process (C15: they must not matter).  A sibling with one more step / unit is
    built and abandoned after 3 actions, then a twin with equal parameters is built and abandoned after 1-5 actions
    (it is resumed now and then while the object under test runs).  Every real trace is taken in this company, so a
    leak between instances (class attributes, module-level caches with incomplete keys, shared mutable defaults)
    shows up in the check of whichever property it breaks."""
    out = []
    w = spec.split()
    if w[0] == "MS" and int(w[1]) <= 150 and int(w[2]) > 0 and int(w[3]) > 0:
        # what-if queries of the public helper with non-default keyword arguments (a cache keyed without them would
        # hand the schedule below a stale allocation)
        for kw in ({"write_weight": 1.0, "read_weight": 0.0}, {"write_weight": 0.0, "read_weight": 1.0},
                   {"delete_weight": 3.0})[: 1 + sum(map(ord, spec)) % 3]:
            try:
                ms.allocate_snapshots(int(w[1]), int(w[2]), int(w[3]), trajectory=w[4], **kw)
            except Exception:
                pass
    big = _bigger(spec)
    if big is not None:
        # the sibling is driven like a real run and abandoned in the MIDDLE OF ITS ADJOINT SWEEP (three actions
        # after EndForward; an online one is finalised after a few forward actions)
        try:
            d = parse_spec(big)()
            after = None
            for cnt in range(400):
                a = next(d)
                if d.max_n is None and cnt >= 2:
                    d.finalize(d.n)
                if after is None and isinstance(a, cs.EndForward):
                    after = 0
                elif after is not None:
                    after += 1
                    if after >= 3:
                        break
            out.append(d)
        except Exception:
            pass
    try:
        d = parse_spec(spec)()
        for _ in range(1 + (sum(map(ord, spec)) % 5)):
            next(d)
        out.append(d)
    except Exception:
        pass
    return out


def canon_trace(spec, nfin, k, max_actions=2000000):
    """The canonical driver of tests/test_validity.py; mirrors Sched.canon of the model."""
    lines = []
    buf = io.StringIO()
    with contextlib.redirect_stdout(buf), forced_numba(spec):
        company = _disturbers(spec) if os.environ.get("VERIF_NO_COMPANY") != "1" else []
        # every fifth configuration receives its integer arguments (and the argument of finalize) as numpy integers
        np_mode = sum(map(ord, spec)) % 5 == 2 and os.environ.get("VERIF_NO_COMPANY") != "1"
        if np_mode:
            import numpy
            nfin_arg = numpy.int64(nfin)
        else:
            nfin_arg = nfin
        # every seventh configuration is an instance of a trivial client subclass; every eleventh one reaches the
        # driver through a deepcopy / pickle round trip of the not yet started object (a client that ships the
        # schedule to a worker, or keeps a pristine copy): none of this may change a single action or attribute
        quiet = os.environ.get("VERIF_NO_COMPANY") == "1"
        sub_mode = sum(map(ord, spec)) % 7 == 3 and not quiet
        ship_mode = (sum(map(ord, spec)) + nfin) % 11 in (4, 9) and not quiet
        try:
            o = parse_spec(spec, np_ints=np_mode, sub=sub_mode)()
        except Exception as e:
            return ["X construct " + exc_name(e)]
        if ship_mode:
            try:
                import copy
                import pickle
                if sub_mode or (sum(map(ord, spec)) + nfin) % 11 == 4:
                    o = copy.deepcopy(o)
                else:
                    o = pickle.loads(pickle.dumps(o))
            except Exception as e:
                return ["B ship-" + exc_name(e)]
        lines.append("I " + flags(o))
        lines.append(uses_line(o))
        if os.environ.get("VERIF_NO_COMPANY") != "1" and sum(map(ord, spec)) % 4 == 1:
            # a client peeks at the first action through a shallow copy of the not yet started schedule: the
            # original must not notice
            try:
                import copy
                next(copy.copy(o))
            except Exception:
                pass
        # every fourth configuration has a JOURNALLING client: it keeps the action objects it receives and reads
        # them only after the run (the text of an action is taken at the end, not on receipt)
        journal = [] if (os.environ.get("VERIF_NO_COMPANY") != "1" and (sum(map(ord, spec)) + nfin) % 4 == 3) else None
        seen = 0
        used_ef = False
        count = 0
        # every third configuration is driven through `for` loops (one per phase) instead of bare next() calls
        loop_mode = (sum(map(ord, spec)) + nfin) % 3 == 0 and os.environ.get("VERIF_NO_COMPANY") != "1"
        phase_it = None
        # every other configuration has a NOISY client: it polls `finalize(nfin)` after every action although the
        # forward has not been told to reach nfin yet, tries `finalize(0)`, and repeats the accepted call once — calls
        # that are rejected (RuntimeError / ValueError, caught) or are no-ops by C10; the object is used on as if
        # nothing had happened, so the trace must be the canonical one
        noisy = (sum(map(ord, spec)) + nfin) % 2 == 1 and os.environ.get("VERIF_NO_COMPANY") != "1"
        repeated = False
        while True:
            count += 1
            if count > max_actions:
                lines.append("B runaway")
                break
            try:
                if loop_mode:
                    # the documented client: `for cp_action in cp_schedule: ...; break` — one loop for the forward
                    # calculation, one per adjoint calculation; leaving a loop must not disturb the schedule
                    if phase_it is None:
                        # obtaining the iterator requests no action: no attribute may change (is_running in
                        # particular stays False until the first action has been requested)
                        before_iter = flags(o)
                        phase_it = iter(o)
                        if flags(o) != before_iter:
                            lines.append("B iter-changed-state " + flags(o))
                    a = next(phase_it)
                    if isinstance(a, (cs.EndForward, cs.EndReverse)):
                        del phase_it
                        phase_it = None
                else:
                    a = next(o)
            except StopIteration:
                lines.append("S " + flags(o))
                for _ in range(2):
                    try:
                        next(o)
                        lines.append("B action-after-stop")
                    except StopIteration:
                        lines.append("S " + flags(o))
                    except Exception as e:
                        lines.append("B " + exc_name(e))
                lines.append(uses_line(o))
                break
            except Exception as e:
                lines.append("B " + exc_name(e))
                lines.append(uses_line(o))
                break
            if noisy and count <= 400:
                try:
                    if o.max_n is None and o.n < nfin:
                        o.finalize(nfin_arg)       # too early: rejected
                        lines.append("B premature-finalize-accepted")
                except (RuntimeError, ValueError):
                    pass
                except Exception as e:
                    lines.append("B finalize-" + exc_name(e))
                try:
                    o.finalize(0)                  # never valid
                    lines.append("B finalize-0-accepted")
                except (RuntimeError, ValueError):
                    pass
                except Exception as e:
                    lines.append("B finalize-" + exc_name(e))
            try:
                if o.max_n is None and o.n >= nfin:
                    o.finalize(nfin_arg)
                    if noisy and not repeated:
                        repeated = True
                        o.finalize(nfin_arg)       # the same call again: a no-op
            except Exception as e:
                lines.append("B finalize-" + exc_name(e))
            if company and count == 3:
                # an object that is created and started WHILE the object under test is running (the siblings above were
                # started before it): a different size, same class and options
                try:
                    b2 = _bigger(spec)
                    if b2 is not None:
                        late_sibling = parse_spec(b2)()
                        next(late_sibling)
                        company.append(late_sibling)
                        company[-1], company[-2] = company[-2], company[-1]    # the twin stays the one that is resumed
                except Exception:
                    pass
            if company and count % 7 == 0 and count < 200:
                try:
                    next(company[-1])      # the twin is resumed while the object under test runs
                except Exception:
                    pass
            ca = canon_action(a)
            if ca is None:
                lines.append("B badaction " + repr(a))
                continue
            if journal is not None and len(journal) < 5000:
                journal.append((len(lines), a))
            lines.append("A " + ca + " | " + flags(o))
            if ca == "EF" and not used_ef:
                used_ef = True
                lines.append(uses_line(o))
            exh = False
            try:
                exh = bool(o.is_exhausted)
            except Exception:
                pass
            if exh:
                continue
            if ca == "ER":
                seen += 1
                if seen >= k:
                    lines.append(uses_line(o))
                    break
        if journal:
            import pickle
            for idx, a in journal:
                if idx % 2 == 1:
                    # the journal was written to disk and read back; an action also differs from anything that is
                    # not an action of its kind (comparison never raises)
                    try:
                        a2 = pickle.loads(pickle.dumps(a))
                        if not (a2 == a) or (a2 != a) or a == idx or a == cs.EndForward() and not isinstance(a, cs.EndForward):
                            lines[idx] = "B action-roundtrip " + repr(a)
                            continue
                        a = a2
                    except Exception as e:
                        lines[idx] = "B action-roundtrip-" + exc_name(e)
                        continue
                ca = canon_action(a)
                tail = lines[idx].split(" | ", 1)[1] if " | " in lines[idx] else ""
                lines[idx] = ("A " + ca + " | " + tail) if ca is not None else ("B badaction " + repr(a))
    return lines


def hist_trace(spec, ops):
    """History of `n` (next) and `f<k>` (finalize(k)) calls; mirrors runHist of the model."""
    out = []
    buf = io.StringIO()
    with contextlib.redirect_stdout(buf), forced_numba(spec):
        try:
            o = parse_spec(spec)()
        except Exception as e:
            return ["X construct " + exc_name(e)]
        for op in ops:
            if op == "n":
                try:
                    a = next(o)
                    ca = canon_action(a)
                    head = "A " + ca if ca is not None else "B badaction"
                except StopIteration:
                    head = "S"
                except Exception as e:
                    head = "B " + exc_name(e)
            else:
                kk = int(op[1:])
                if op[0] == "g":
                    # the same call with an integer that is not a builtin int (what numpy arithmetic hands a client)
                    import numpy
                    kk = (numpy.int64 if kk % 2 == 0 else numpy.int32)(kk) if abs(kk) < 2 ** 31 else numpy.int64(kk)
                try:
                    o.finalize(kk)
                    head = "f ok"
                except ValueError:
                    head = "f ValueError"
                except RuntimeError:
                    head = "f RuntimeError"
                except Exception as e:
                    head = "f !" + exc_name(e)
            out.append(head + " | " + flags(o))
    return out


if __name__ == "__main__":
    spec = sys.argv[1]
    for ln in canon_trace(spec, int(sys.argv[2]), int(sys.argv[3])):
        print(ln)


# ---------------------------------------------------------------- kernels and API probes

def py_kernel(task):
    """Evaluate one numeric kernel / API probe of the real code; returns canonical text lines."""
    name, args = task[0], task[1:]
    buf = io.StringIO()
    with contextlib.redirect_stdout(buf):
        try:
            return _py_kernel(name, args)
        except Exception as e:  # harness-level failure: reported, never a verdict
            return ["H " + type(e).__name__ + " " + str(e)]


def _val(f):
    try:
        return f()
    except Exception as e:
        return "raise:" + type(e).__name__


def _num(x):
    if isinstance(x, str):
        return x
    if isinstance(x, float):
        if x == float("inf"):
            return "inf"
        if x != int(x):
            return "float:" + repr(x)
        return str(int(x))
    return str(int(x))


def _py_kernel(name, args):
    from checkpoint_schedules import multistage as ms
    import importlib
    _m = lambda nm: importlib.import_module("checkpoint_schedules.hrevolve_sequences." + nm)  # noqa: E731
    rv, dr, hr, pdr, bf = _m("revolve"), _m("disk_revolve"), _m("hrevolve"), _m("periodic_disk_revolve"), \
        _m("basic_functions")
    if name == "nadv":
        n, s, traj = args
        r = _val(lambda: ms.n_advance(n, s, trajectory=traj))
        return ["raise" if isinstance(r, str) and r.startswith("raise") else str(int(r))]
    if name == "memotab":
        nmax, smax = args
        out = []
        for n in range(nmax + 1):
            for s in range(smax + 1):
                r = _val(lambda: mixed_mod.mixed_step_memoization(n, s))
                out.append(f"{n} {s} " + ("raise" if isinstance(r, str) else f"{int(r[0])} {int(r[1])} {int(r[2])}"))
        return out
    if name == "extratab":
        nmax, smax = args
        out = []
        for n in range(nmax + 1):
            for s in range(smax + 1):
                r = _val(lambda: ms.optimal_extra_steps(n, s))
                r2 = _val(lambda: ms.optimal_steps_binomial(n, s))
                if not isinstance(r, str) and r2 != n + r:
                    r = "mismatch-with-optimal_steps_binomial"
                out.append(f"{n} {s} " + ("raise" if isinstance(r, str) and r.startswith("raise") else str(r)))
        return out
    if name == "optmixedtab":
        nmax, smax = args
        out = []
        for n in range(nmax + 1):
            for s in range(smax + 1):
                r = _val(lambda: mixed_mod.optimal_steps_mixed(n, s))
                out.append(f"{n} {s} " + ("raise" if isinstance(r, str) else str(int(r))))
        return out
    if name == "argmin":
        vals = [float("inf") if v == "inf" else v for v in args]
        try:
            return [str(int(bf.argmin(list(vals))))]
        except Exception:
            return ["raise"]
    if name == "bands":
        # one process, many distinct keys of the three cached kernels: the cheap bands (few units; nearly as many
        # units as steps) up to a large n, low band first, then high, then low again -- answers must not depend on
        # what else the cache holds (key collisions, clamping at large sizes)
        (nmax,) = args
        fns = (("HS", mixed_mod.mixed_step_memoization), ("HM", mixed_mod.optimal_steps_mixed),
               ("HE", ms.optimal_extra_steps))
        keys = [(n, s_) for n in range(1, nmax + 1) for s_ in range(1, 5)]
        keys += [(n, s_) for n in range(1, nmax + 1) for s_ in range(max(n - 6, 0), n + 2)]
        keys += [(n, s_) for n in range(1, nmax + 1) for s_ in range(1, 5)]
        out = []
        for tag, f in fns:
            for n, s_ in keys:
                r = _val(lambda: f(n, s_))
                if isinstance(r, str):
                    out.append(f"{tag} {n} {s_} raise")
                elif isinstance(r, tuple):
                    out.append(f"{tag} {n} {s_} " + " ".join(str(int(v)) for v in r))
                else:
                    out.append(f"{tag} {n} {s_} {int(r)}")
        return out
    if name == "tab":
        n, s = args
        try:
            t = mixed_mod.mixed_steps_tabulation(n, s)
        except Exception:
            return ["raise"]
        return [f"{ni} {si} {int(t[ni, si, 0])} {int(t[ni, si, 1])} {int(t[ni, si, 2])}"
                for ni in range(n + 1) for si in range(s + 1)]
    if name == "opt0":
        lmax, mmax, uf, ub = args
        t = rv.get_opt_0_table(lmax, mmax, uf, ub)
        return [" ".join(_num(x) for x in row.content) for row in t]
    if name == "optinf":
        lmax, cm, uf, ub, wr = args
        # wd + rd only occurs as a sum: put it all on wd
        t = dr.get_opt_inf_table(lmax, cm, uf, ub, 0, wr, True)
        return [" ".join(_num(x) for x in t.content)]
    if name == "hopt":
        lmax, c0, c1, wd, rd, ub, uf = args
        optp, opt = hr.get_hopt_table(lmax, (c0, c1), [0, wd], [0, rd], ub, uf)
        out = []
        for nm, t in (("optp0", optp[0]), ("opt0", opt[0]), ("optp1", optp[1]), ("opt1", opt[1])):
            for row in t:
                out.append(nm + " " + " ".join(_num(x) for x in row))
        return out
    if name == "mxrr":
        cm, uf, wr = args
        r = _val(lambda: pdr.mxrr_close_formula(cm, uf, 0, wr))
        r2 = _val(lambda: pdr.mxrr_close_formula(cm, uf, wr, 0))
        if r != r2:
            return ["asymmetric"]
        return ["raise" if isinstance(r, str) else str(int(r))]
    if name == "beta":
        x, y = args
        return [_num(bf.beta(x, y))]
    if name == "alloc":
        n, ram, disk, traj = args
        try:
            w, a = ms.allocate_snapshots(n, ram, disk, trajectory=traj)
        except Exception:
            return ["raise"]
        return [" ".join(_num(x) for x in w), " ".join(ST_NAME[x] for x in a)]
    if name == "ops":
        # the operation sequence exactly as the schedule class constructors request it
        w = args[0].split()
        n, a = int(w[1]), int(w[2])
        uf, ub, wd, rd = [_cost(x) for x in w[-4:]]
        try:
            if w[0] == "RV":
                seq = rv.revolve(n - 1, a, wd, rd, uf, ub)
            elif w[0] == "DR":
                seq = dr.disk_revolve(n - 1, a, wd, rd, uf, ub)
            elif w[0] == "PD":
                seq = pdr.periodic_disk_revolve(n - 1, a, wd, rd, uf, ub)
            else:
                seq = hr.hrevolve(n - 1, (a, int(w[3])), [0, wd], [0, rd], uf, ub)
            return [repr(list(seq)), "makespan " + _num(seq.makespan)]
        except Exception:
            return ["raise"]
    if name == "action_api":
        # args: list of canonical action texts; returns per action: repr | eval(repr)==a | list | len | contains probes
        out = []
        ns = {"sys": sys, "StorageType": ST}
        for nm in ("Forward", "Reverse", "Copy", "Move", "EndForward", "EndReverse"):
            ns[nm] = getattr(sch, nm)
        for txt in args:
            a = build_action(txt)
            rp = _val(lambda: repr(a))
            back = _val(lambda: eval(rp, dict(ns)) == a)
            if type(a) in (sch.Forward, sch.Reverse):
                lst = _val(lambda: " ".join(str(int(x)) for x in list(a)))
                ln = _val(lambda: len(a))
                n0, n1 = a.n0, a.n1
                probes = [n0 - 1, n0, (n0 + n1) // 2, n1 - 1, n1]
                cont = _val(lambda: " ".join(str(int(p in a)) for p in probes))
                want = " ".join(str(int(n0 <= p < n1)) for p in probes)
                out.append(f"{rp} | {back} | {lst} | {ln} | {cont == want}")
            else:
                out.append(f"{rp} | {back} | | |")
        return out
    if name == "action_eq":
        # args: list of (textA, textB); returns "eq ne" per pair (or raise:...)
        out = []
        for ta, tb in args:
            a = build_action(ta)
            b = build_action(tb) if not tb.startswith("!") else {"!int": 3, "!none": None, "!str": "x", "!tuple": (0, 1)}[tb]
            e = _val(lambda: a == b)
            ne = _val(lambda: a != b)
            e2 = _val(lambda: b == a)
            # value semantics must not depend on whether an operand has been used before
            if type(a) in (sch.Forward, sch.Reverse) and abs(a.n1 - a.n0) <= 1000:
                _val(lambda: (list(a), len(a), a.n0 in a))
                _val(lambda: repr(a))
            e3 = _val(lambda: a == b)
            e4 = _val(lambda: b == a)
            out.append(f"{e} {ne} {e2} {e3} {e4}")
        return out
    raise ValueError(name)


def build_action(txt):
    w = txt.split()
    if w[0] == "F":
        return sch.Forward(int(w[1]), int(w[2]), bool(int(w[3])), bool(int(w[4])), ST_OF[w[5]])
    if w[0] == "R":
        return sch.Reverse(int(w[1]), int(w[2]), bool(int(w[3])))
    if w[0] == "C":
        return sch.Copy(int(w[1]), ST_OF[w[2]], ST_OF[w[3]])
    if w[0] == "M":
        return sch.Move(int(w[1]), ST_OF[w[2]], ST_OF[w[3]])
    if w[0] == "EF":
        return sch.EndForward()
    if w[0] == "ER":
        return sch.EndReverse()
    raise ValueError(txt)


def multi_history(task):
    """C15: build several objects, iterate them interleaved with observer calls, return per-object
    action streams. task = (objs, schedule): objs = [(spec, nfin)], schedule = list of
    ('c', i) construct object i | ('n', i) next on i | ('o', i) observers on i."""
    objs, schedule = task
    buf = io.StringIO()
    live = {}
    out = {i: [] for i in range(len(objs))}
    done = set()
    with contextlib.redirect_stdout(buf):
        for op, i in schedule:
            spec, nfin = objs[i]
            if op == "c":
                with forced_numba(spec):
                    try:
                        live[i] = parse_spec(spec)()
                    except Exception as e:
                        out[i].append("X construct " + exc_name(e))
                        done.add(i)
            elif i in live and i not in done:
                o = live[i]
                if op == "o":
                    flags(o)
                    uses_line(o)
                else:
                    with forced_numba(spec):
                        try:
                            a = next(o)
                        except StopIteration:
                            out[i].append("S")
                            done.add(i)
                            continue
                        except Exception as e:
                            out[i].append("B " + exc_name(e))
                            done.add(i)
                            continue
                    try:
                        if o.max_n is None and o.n >= nfin:
                            o.finalize(nfin)
                    except Exception as e:
                        out[i].append("B finalize-" + exc_name(e))
                    ca = canon_action(a)
                    out[i].append("A " + ca if ca else "B badaction")
    return [out[i] for i in range(len(objs))]


def proc_history(lines):
    """C15, process level: replay one interleaved history (the `proc` line syntax of the Lean driver) on the
    real library, in THIS interpreter with whatever the module-global memo tables hold from earlier tasks.
    C <class spec> | N i | F i n | O i | U i R|D|W|N | HE n s | HM n s | HS n s"""
    import checkpoint_schedules.multistage as ms_mod
    objs = []
    out = []
    buf = io.StringIO()
    STK = {"R": ST.RAM, "D": ST.DISK, "W": ST.WORK, "N": ST.NONE}
    with contextlib.redirect_stdout(buf):
        for ln in lines:
            w = ln.split()
            if w[0] == "C":
                spec = " ".join(w[1:])
                try:
                    with forced_numba(spec):
                        objs.append((parse_spec(spec)(), spec))
                    out.append("C ok")
                except Exception:
                    objs.append((None, spec))
                    out.append("C X")
            elif w[0] in ("N", "F", "O", "U"):
                i = int(w[1])
                o, spec = objs[i] if i < len(objs) else (None, "")
                if o is None:
                    out.append("?obj")
                    continue
                if w[0] == "N":
                    try:
                        with forced_numba(spec):
                            a = next(o)
                        ca = canon_action(a)
                        out.append(("A " + ca if ca else "B") + " | " + flags(o))
                    except StopIteration:
                        out.append("S")
                    except Exception:
                        out.append("B")
                elif w[0] == "F":
                    try:
                        o.finalize(int(w[2]))
                        out.append("f ok")
                    except Exception as e:
                        out.append("f " + exc_name(e))
                elif w[0] == "O":
                    out.append("O " + flags(o))
                else:
                    try:
                        out.append("U " + str(int(bool(o.uses_storage_type(STK[w[2]])))))
                    except Exception:
                        out.append("U x")
            else:
                f = {"HE": ms_mod.optimal_extra_steps, "HM": mixed_mod.optimal_steps_mixed,
                     "HS": mixed_mod.mixed_step_memoization}[w[0]]
                try:
                    r = f(int(w[1]), int(w[2]))
                    out.append("H " + (" ".join(str(int(x)) for x in r) if isinstance(r, tuple) else str(int(r))))
                except Exception:
                    out.append("H raise")
    return out
