"""Replays one process history (lines on stdin, `proc` syntax) on the real library in THIS fresh interpreter."""
import os
import sys

sys.path.insert(0, os.path.dirname(os.path.abspath(__file__)))
import rtrace  # noqa: E402

if __name__ == "__main__":
    lines = [ln.strip() for ln in sys.stdin if ln.strip()]
    for ln in rtrace.proc_history(lines):
        print(ln)
