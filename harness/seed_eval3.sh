#!/bin/bash
# usage: seed_eval3.sh <property> <worktree> <seed-id> [checks...]
# Like seed_eval.sh, but runs only the listed checks (default: the seed's own property) against the changed tree.
set -u
P=$1; WT=$2; ID=$3; shift 3
CHECKS=${@:-$P}
OUT=/verif/seeded/$ID
mkdir -p $OUT
git -C $WT diff -- checkpoint_schedules > $OUT/patch.diff
cp $WT/demo.py $OUT/demo.py
[ -f $WT/NOTES.md ] && cp $WT/NOTES.md $OUT/NOTES.md
echo "== demo on unchanged library"
( cd $WT && git apply -R $OUT/patch.diff && /venv/bin/python demo.py > $OUT/demo_before.txt 2>&1; echo "exit $?" >> $OUT/demo_before.txt; git apply $OUT/patch.diff )
tail -2 $OUT/demo_before.txt | cut -c1-300
echo "== demo with change"
( cd $WT && /venv/bin/python demo.py > $OUT/demo_after.txt 2>&1; echo "exit $?" >> $OUT/demo_after.txt )
tail -3 $OUT/demo_after.txt | cut -c1-300
echo "== test-suite with change"
( cd $WT && /venv/bin/python -m pytest -q -p no:cacheprovider -n 4 --timeout=900 2>&1 | tail -1 ) | tee $OUT/tests.txt
echo "== patch applies to /repo HEAD"
git -C /repo apply --check $OUT/patch.diff && echo yes
echo "== checks against the changed tree"
touch $OUT/checks.txt
for c in $CHECKS; do
  r=$(cd ${VERIF_HOME:-/verif} && VERIF_REPO=$WT VERIF_NPROC=6 VERIF_CACHE_KEEP=12 timeout 2400 ./check $c --tier quick 2>&1 | grep -E "^VIOLATION|^OK|^KNOWN|harness error|^  " | head -3 | tr '\n' ' ' | cut -c1-400)
  grep -v "^$c:" $OUT/checks.txt > $OUT/checks.tmp; mv $OUT/checks.tmp $OUT/checks.txt
  echo "$c: $r" | tee -a $OUT/checks.txt
done
