"""Source fingerprints of the anchored files of each property.

The baseline (harness/fingerprints.json) is the state of /repo the model was written against.
When an anchored file of a property differs from it, that property's check explores its
thorough boxes and deeper kernel boxes even in the quick tier ("the code changed, look harder").
"""
import ast
import hashlib
import json
import os
import sys

HERE = os.path.dirname(os.path.abspath(__file__))
VERIF = os.path.dirname(HERE)
REPO = os.environ.get("VERIF_REPO", "/repo")
BASE = os.path.join(HERE, "fingerprints.json")


def file_hash(path, src=None):
    """hash of the AST (comments/formatting do not matter), docstrings dropped"""
    try:
        if src is None:
            with open(path) as f:
                src = f.read()
        tree = ast.parse(src)
    except Exception:
        return "unparsable"
    for node in ast.walk(tree):
        if isinstance(node, (ast.FunctionDef, ast.ClassDef, ast.AsyncFunctionDef, ast.Module)):
            if node.body and isinstance(node.body[0], ast.Expr) and isinstance(getattr(node.body[0], "value", None), ast.Constant) \
                    and isinstance(node.body[0].value.value, str):
                node.body = node.body[1:] or [ast.Pass()]
    return hashlib.sha256(ast.dump(tree).encode()).hexdigest()[:16]


def anchors():
    out = {}
    with open(os.path.join(VERIF, "properties.jsonl")) as f:
        for ln in f:
            d = json.loads(ln)
            out[d["id"]] = d["anchors"]["files"]
    return out


def current():
    files = sorted({p for fs in anchors().values() for p in fs})
    return {p: file_hash(os.path.join(REPO, p)) for p in files}


def head_hashes():
    """hashes of the committed state (HEAD) of the repository at REPO"""
    import subprocess
    files = sorted({p for fs in anchors().values() for p in fs})
    base = {}
    for p in files:
        src = subprocess.run(["git", "-C", REPO, "show", "HEAD:" + p], stdout=subprocess.PIPE, text=True).stdout
        base[p] = file_hash(p, src)
    return base


def changed_files(prop):
    if not os.path.exists(BASE):
        return []
    with open(BASE) as f:
        base = json.load(f)
    if base.get("__python__") != sys.version.split()[0]:
        # `ast.dump` differs between interpreter versions: fall back to the committed state
        base = head_hashes()
    cur = current()
    return [p for p in anchors().get(prop, []) if cur.get(p) != base.get(p)]


if __name__ == "__main__":
    if "--update" in sys.argv:
        # baseline = the COMMITTED state of /repo (HEAD), never a dirty working tree
        import subprocess
        base = head_hashes()
        base["__python__"] = sys.version.split()[0]
        with open(BASE, "w") as f:
            json.dump(base, f, indent=1, sort_keys=True)
        print("baseline written for", subprocess.run(["git", "-C", REPO, "rev-parse", "--short", "HEAD"], stdout=subprocess.PIPE, text=True).stdout.strip())
    else:
        for p in sorted(anchors()):
            print(p, changed_files(p))
