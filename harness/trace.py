"""Run the real classes from /repo in-process and record canonical traces.

The trace format is the line protocol of lean/Driver/Main.lean:
  I n r maxN exh run | U a b c d | A <action> | n r maxN exh run | S ... | B text | X stage exc
"""
import contextlib
import io
import os
import sys
import warnings

REPO = os.environ.get("VERIF_REPO", "/repo")
if REPO not in sys.path:
    sys.path.insert(0, REPO)

import numbers  # noqa: E402

warnings.simplefilter("ignore")

import checkpoint_schedules as cs  # noqa: E402
from checkpoint_schedules import schedule as sch  # noqa: E402
from checkpoint_schedules import mixed as mixed_mod  # noqa: E402

ST = sch.StorageType
ST_NAME = {ST.RAM: "R", ST.DISK: "D", ST.WORK: "W", ST.NONE: "N"}
ST_OF = {v: k for k, v in ST_NAME.items()}


def _is_int(x):
    return isinstance(x, numbers.Integral) and not isinstance(x, bool)


def _is_bool(x):
    try:
        import numpy as np
        return isinstance(x, (bool, np.bool_))
    except Exception:
        return isinstance(x, bool)


def canon_action(a):
    """Canonical text of an action, or None if it is not a well-formed action object."""
    try:
        if type(a) is sch.Forward:
            n0, n1, wi, wa, st = a.args
            if not (_is_int(n0) and _is_int(n1) and _is_bool(wi) and _is_bool(wa)
                    and isinstance(st, ST) and n0 >= 0 and n1 >= 0):
                return None
            return f"F {int(n0)} {int(n1)} {int(bool(wi))} {int(bool(wa))} {ST_NAME[st]}"
        if type(a) is sch.Reverse:
            n1, n0, c = a.args
            if not (_is_int(n0) and _is_int(n1) and _is_bool(c) and n0 >= 0 and n1 >= 0):
                return None
            return f"R {int(n1)} {int(n0)} {int(bool(c))}"
        if type(a) in (sch.Copy, sch.Move):
            n, s, d = a.args
            if not (_is_int(n) and isinstance(s, ST) and isinstance(d, ST) and n >= 0):
                return None
            return f"{'C' if type(a) is sch.Copy else 'M'} {int(n)} {ST_NAME[s]} {ST_NAME[d]}"
        if type(a) is sch.EndForward and a.args == ():
            return "EF"
        if type(a) is sch.EndReverse and a.args == ():
            return "ER"
    except Exception:
        return None
    return None


def flags(o):
    def g(f):
        try:
            return f()
        except Exception as e:  # a raising observer is reported, not hidden
            return "!" + type(e).__name__
    n = g(lambda: o.n)
    r = g(lambda: o.r)
    m = g(lambda: o.max_n)
    e = g(lambda: o.is_exhausted)
    ru = g(lambda: o.is_running)

    def num(x):
        if x is None:
            return "-"
        if _is_int(x):
            return str(int(x))
        return "?" + repr(x)

    def bl(x):
        if _is_bool(x):
            return str(int(bool(x)))
        return "?" + repr(x)
    return f"{num(n)} {num(r)} {num(m)} {bl(e)} {bl(ru)}"


def uses_line(o):
    out = []
    for t in (ST.RAM, ST.DISK, ST.WORK, ST.NONE):
        try:
            out.append(str(int(bool(o.uses_storage_type(t)))))
        except Exception:
            out.append("x")
    return "U " + " ".join(out)


def parse_spec(spec):
    """spec: class words as in the Lean driver. Returns a zero-argument constructor."""
    w = spec.split()
    k = w[0]
    if k == "SM":
        return lambda: cs.SingleMemoryStorageSchedule()
    if k == "SD":
        return lambda: cs.SingleDiskStorageSchedule(move_data=bool(int(w[1])))
    if k == "NO":
        return lambda: cs.NoneCheckpointSchedule()
    if k == "TL":
        return lambda: cs.TwoLevelCheckpointSchedule(
            int(w[1]), int(w[2]), binomial_storage=ST_OF[w[3]], binomial_trajectory=w[4])
    if k == "MS":
        return lambda: cs.MultistageCheckpointSchedule(int(w[1]), int(w[2]), int(w[3]), trajectory=w[4])
    if k == "MX":
        def mk():
            return cs.MixedCheckpointSchedule(int(w[1]), int(w[2]), storage=ST_OF[w[3]])
        return mk
    if k in ("RV", "DR", "PD"):
        cls = {"RV": cs.Revolve, "DR": cs.DiskRevolve, "PD": cs.PeriodicDiskRevolve}[k]
        return lambda: cls(int(w[1]), int(w[2]), *[int(x) for x in w[3:7]])
    if k == "HR":
        return lambda: cs.HRevolve(int(w[1]), int(w[2]), int(w[3]), *[int(x) for x in w[4:8]])
    raise ValueError(spec)


@contextlib.contextmanager
def forced_numba(spec):
    """MX ... 1: force the tabulated planner (mixed.numba is None when numba is absent;
    njit is then already the identity wrapper)."""
    w = spec.split()
    if w[0] == "MX" and w[4] == "1":
        old = mixed_mod.numba
        mixed_mod.numba = True
        try:
            yield
        finally:
            mixed_mod.numba = old
    else:
        yield


def exc_name(e):
    return type(e).__name__


def canon_trace(spec, nfin, k, max_actions=2000000):
    """The canonical driver of tests/test_validity.py; mirrors Sched.canon of the model."""
    lines = []
    buf = io.StringIO()
    with contextlib.redirect_stdout(buf), forced_numba(spec):
        try:
            o = parse_spec(spec)()
        except Exception as e:
            return ["X construct " + exc_name(e)]
        lines.append("I " + flags(o))
        lines.append(uses_line(o))
        seen = 0
        used_ef = False
        count = 0
        while True:
            count += 1
            if count > max_actions:
                lines.append("B runaway")
                break
            try:
                a = next(o)
            except StopIteration:
                lines.append("S " + flags(o))
                for _ in range(2):
                    try:
                        next(o)
                        lines.append("B action-after-stop")
                    except StopIteration:
                        lines.append("S " + flags(o))
                    except Exception as e:
                        lines.append("B " + exc_name(e))
                lines.append(uses_line(o))
                break
            except Exception as e:
                lines.append("B " + exc_name(e))
                lines.append(uses_line(o))
                break
            try:
                if o.max_n is None and o.n >= nfin:
                    o.finalize(nfin)
            except Exception as e:
                lines.append("B finalize-" + exc_name(e))
            ca = canon_action(a)
            if ca is None:
                lines.append("B badaction " + repr(a))
                continue
            lines.append("A " + ca + " | " + flags(o))
            if ca == "EF" and not used_ef:
                used_ef = True
                lines.append(uses_line(o))
            exh = False
            try:
                exh = bool(o.is_exhausted)
            except Exception:
                pass
            if exh:
                continue
            if ca == "ER":
                seen += 1
                if seen >= k:
                    lines.append(uses_line(o))
                    break
    return lines


def hist_trace(spec, ops):
    """History of `n` (next) and `f<k>` (finalize(k)) calls; mirrors runHist of the model."""
    out = []
    buf = io.StringIO()
    with contextlib.redirect_stdout(buf), forced_numba(spec):
        try:
            o = parse_spec(spec)()
        except Exception as e:
            return ["X construct " + exc_name(e)]
        for op in ops:
            if op == "n":
                try:
                    a = next(o)
                    ca = canon_action(a)
                    head = "A " + ca if ca is not None else "B badaction"
                except StopIteration:
                    head = "S"
                except Exception as e:
                    head = "B " + exc_name(e)
            else:
                kk = int(op[1:])
                try:
                    o.finalize(kk)
                    head = "f ok"
                except ValueError:
                    head = "f ValueError"
                except RuntimeError:
                    head = "f RuntimeError"
                except Exception as e:
                    head = "f !" + exc_name(e)
            out.append(head + " | " + flags(o))
    return out


if __name__ == "__main__":
    spec = sys.argv[1]
    for ln in canon_trace(spec, int(sys.argv[2]), int(sys.argv[3])):
        print(ln)
