"""py2lean: translate a subset of the Python sources of /repo into Lean 4 text (shallow embedding).

Usage:  py2lean.py [--repo /repo] [--out lean/CkptGen/Src.lean] [--check]

The output is a Lean module over `CkptGen/Prelude.lean`.  The rules are deliberately few and syntactic, so
that the generated text can be read next to the Python source:

  Python                                   Lean (inside `do`, monad `M = Except PyErr`)
  ---------------------------------------  ------------------------------------------------------------
  int                                      Int            (unbounded, like Python)
  x = e   (first / later assignment)       let mut x : T := e   /   x := e
  a // b, a % b                            (← floordiv a b), (← pymod a b)   (ZeroDivisionError modelled)
  a < b <= c, and / or / not               a < b ∧ b ≤ c, ∧ / ∨ / ¬   (pure operands only; an operand that
                                           can raise makes the translator evaluate it in Python's order)
  if / elif / else, return, raise E(...)   if … then … else …, return, throw .e
  assert c                                 if ¬ c then throw .assertionError
  for i in range(a, b): body               for i in pyRange a b do body
  while c: body                            a separate fuelled, structurally recursive definition
                                           `f.whileK fuel (read-only vars) (state tuple)`
  recursive function                       structural recursion on a leading `fuel : Nat`
  x = None … x is None … use of x          Option T, `x = none`, `(← unwrap x)` (TypeError modelled)
  (a, b, c), t[2]                          Lean tuples and projections
  @cache_step                              the wrapper's `s = min(s, n - 1)` inlined as first statement; the
                                           memo table is elided (its transparency is `C15_memo_*`); the AST
                                           of `cache_step` itself is checked against the expected shape
  @njit                                    ignored (identity wrapper without numba)
  class X(IntEnum): A = 0 …                inductive X … with `X.toInt`
  print(...) / docstrings                  dropped

Anything else raises `Unsupported`; the function is then reported as not translatable and the source-level
tie of the properties that depend on it counts as broken (the checks fall back to the correspondence with
escalated exploration).
"""
import argparse
import ast
import hashlib
import os
import sys

LEAN_KEYWORDS = {"from", "at", "end", "in", "do", "then", "else", "if", "let", "fun", "match", "with", "have",
                 "show", "by", "open", "section", "namespace", "theorem", "def", "structure", "class", "instance",
                 "where", "return", "for", "mut", "Type", "Prop", "Sort", "local", "private", "protected"}


class Unsupported(Exception):
    pass


RESERVED = {"pyIndex", "unwrap", "floordiv", "pymod", "pyRange", "min", "max", "default", "some", "none", "pure",
            "throw", "fuel", "decide", "true", "false", "index"}


def lname(n):
    n = n.replace("__", "_u_")
    if n in LEAN_KEYWORDS or n in RESERVED:
        return n + "'"
    return n


# ---------------------------------------------------------------------------------------------------------
# types: 'Int', 'Bool', 'String', ('opt', T), ('tuple', [T...]), ('enum', name), ('list', T), None=unknown

def ty_str(t):
    if t is None:
        raise Unsupported("cannot infer a type")
    if isinstance(t, str):
        return t
    if t[0] == "opt":
        return "(Option %s)" % ty_str(t[1])
    if t[0] == "tuple":
        return "(" + " × ".join(ty_str(x) for x in t[1]) + ")"
    if t[0] == "enum":
        return t[1]
    if t[0] == "list":
        return "(List %s)" % ty_str(t[1])
    if t[0] == "set":
        return "(List %s)" % ty_str(t[1])     # a Python set, kept duplicate-free by `pySetAdd`
    if t[0] == "tab3":
        return "Tab3"                          # a numpy int64 array of shape (a, b, 3)
    if t[0] == "struct":
        return t[1]
    if t[0] == "pyidx":
        return "PyIdx"
    raise Unsupported("type " + repr(t))


NUM_RANK = {"Int": 0, "Rat": 1, "ER": 2}


def isnum(t):
    return isinstance(t, str) and t in NUM_RANK


def ty_join(a, b):
    if a is None:
        return b
    if b is None:
        return a
    if a == b:
        return a
    if isinstance(a, str) and isinstance(b, str) and a in NUM_RANK and b in NUM_RANK:
        return a if NUM_RANK[a] >= NUM_RANK[b] else b
    if not isinstance(a, str) and not isinstance(b, str) and a[0] == "list" and b[0] == "list":
        return ("list", ty_join(a[1], b[1]))
    if not isinstance(a, str) and not isinstance(b, str) and a[0] == "set" and b[0] == "set":
        return ("set", ty_join(a[1], b[1]))
    if a == ("pyidx",) and b == "Int":
        return "Int"       # `n = action.index` where the index is a plain integer
    if b == ("pyidx",) and a == "Int":
        return "Int"
    if a == ("opt", None):
        return b if (not isinstance(b, str) and b[0] == "opt") else ("opt", b)
    if b == ("opt", None):
        return a if (not isinstance(a, str) and a[0] == "opt") else ("opt", a)
    if not isinstance(a, str) and a[0] == "opt":
        return ("opt", ty_join(a[1], b[1] if (not isinstance(b, str) and b[0] == "opt") else b))
    if not isinstance(b, str) and b[0] == "opt":
        return ty_join(b, a)
    raise Unsupported("incompatible types %r / %r" % (a, b))


# action constructors of schedule.py: Lean constructor, argument types
ACTIONS = {
    "Forward": ("forward", ["Int", "Int", "Bool", "Bool", "enum"], ["n0", "n1", "write_ics", "write_adj_deps", "storage"]),
    "Reverse": ("reverse", ["Int", "Int", "Bool"], ["n1", "n0", "clear_adj_deps"]),
    "Copy": ("copy", ["Int", "enum", "enum"], ["n", "from_storage", "to_storage"]),
    "Move": ("move", ["Int", "enum", "enum"], ["n", "from_storage", "to_storage"]),
    "EndForward": ("endForward", [], []),
    "EndReverse": ("endReverse", [], []),
}

ACTION_TEXT = """/-- the six actions of schedule.py, arguments in the constructors' order -/
inductive PyAction
  | forward (n0 n1 : Int) (write_ics write_adj_deps : Bool) (storage : StorageType)
  | reverse (n1 n0 : Int) (clear_adj_deps : Bool)
  | copy (n : Int) (from_storage to_storage : StorageType)
  | move (n : Int) (from_storage to_storage : StorageType)
  | endForward
  | endReverse
deriving DecidableEq, Repr, Inhabited

/-- one `yield`: the action and the values of `self._n`, `self._r`, `self._exhausted` at that moment -/
structure PyEv where
  act : PyAction
  n : Int
  r : Int
  exhausted : Bool
deriving DecidableEq, Repr, Inhabited

/-- the canonical client of an online schedule: after an action it calls `finalize(N)` as soon as the forward has
been told to reach `N` (schedule.py `finalize`: sets `_n = _max_n = N`) -/
def clientHook (N n : Int) (max_n : Option Int) : Int × Option Int :=
  if max_n = none ∧ n ≥ N then (N, some N) else (n, max_n)"""



# fields of the object types that are passed around as values
STRUCTS = {"PyOp": {"type": "String", "index": ("pyidx",)}}

class Fn:
    """signature of a translated function, for calls"""

    def __init__(self, name, params, ret, fuel, ptypes=None, orig_params=None, dropped=(), defaults=None):
        self.name, self.params, self.ret, self.fuel, self.ptypes = name, params, ret, fuel, ptypes
        self.defaults = defaults or {}      # parameter -> the constant its `=default` is
        self.orig_params = orig_params or list(params)
        self.dropped = set(dropped)


class Ctx:
    def __init__(self, enums, fns, consts):
        self.enums = enums      # name -> [members]
        self.fns = fns          # python name -> Fn
        self.consts = consts    # module-level constant name -> (lean expr, type)
        self.fns_lean = set()   # lean names of translated methods
        self.inits = {}         # lean name of a translated constructor -> (params, ptypes, fields, field types, fuel)


class FnTr:
    def __init__(self, ctx, node, pname, lean_name, param_types, recursive, cache_step=False, self_fields=None,
                 src="", gen=None, method_fields=None, oracles=None, super_init=None):
        self.ctx = ctx
        self.super_init = super_init or "checkpointSchedule_init"
        self.node = node
        self.pname = pname
        self.lean_name = lean_name
        self.recursive = recursive
        self.cache_step = cache_step
        self.src = src
        self.params = [a.arg for a in node.args.args] + [a.arg for a in node.args.kwonlyargs]
        self.orig_params = getattr(node, "_orig_params", None) or list(self.params)
        self.dropped = set(getattr(node, "_dropped", ()))
        self.self_fields = self_fields or {}
        if self.params and self.params[0] == "self":
            self.params = self.params[1:]
        self.ptypes = {p: param_types.get(p, "Int") for p in self.params}
        self.vtypes = dict(self.ptypes)
        for f, t in self.self_fields.items():
            self.vtypes["self." + f] = t
        self.oracles = oracles or {}    # untranslated callees passed as parameters: name -> (param names, result type, lean type)
        self.method_fields = method_fields or []   # a method that changes object fields returns their new values
        for f2 in self.method_fields:
            if f2 in ("n", "r"):
                self.vtypes.setdefault("self." + f2, "Int")
            elif f2 == "max_n":
                self.vtypes.setdefault("self." + f2, ("opt", "Int"))
        if self.super_init in ctx.inits:
            for f2, t2 in ctx.inits[self.super_init][3].items():
                self.vtypes.setdefault("self." + f2, t2)
        self.gen = gen or {}    # generator translation: {"online": bool, "passes": bool}
        self.local_fns = {}
        if self.gen:
            self.vtypes["out_"] = ("list", "PyEv")
            if self.gen.get("passes"):
                self.vtypes["passes_left"] = "Int"
                self.vtypes["passes"] = "Int"
            if self.gen.get("online"):
                self.vtypes["clientN"] = "Int"
        self.nested_params = {a.arg for x in ast.walk(node) if isinstance(x, ast.FunctionDef) and x is not node
                              for a in x.args.args}
        self.aux = []           # auxiliary definitions (while loops)
        self.nwhile = 0
        self.ret = None
        self.uses_fuel = recursive
        self.infer_types()

    # ---- type inference (flow-insensitive, two passes) ----
    def infer_types(self):
        for _ in range(3):
            for st in ast.walk(self.node):
                if isinstance(st, ast.Assign) and len(st.targets) == 1:
                    self.bind(st.targets[0], self.etype(st.value))
                elif isinstance(st, ast.AugAssign):
                    self.bind(st.target, self.etype(ast.BinOp(left=st.target, op=st.op, right=st.value)))
                elif isinstance(st, ast.Call) and isinstance(st.func, ast.Attribute) and st.func.attr == "add" \
                        and len(st.args) == 1 and self.vkey(st.func.value) is not None:
                    self.bind(st.func.value, ("set", self.etype(st.args[0])))
                elif isinstance(st, ast.Call) and isinstance(st.func, ast.Attribute) and st.func.attr == "append" \
                        and len(st.args) == 1 and isinstance(st.func.value, ast.Subscript) \
                        and self.vkey(st.func.value.value) is not None:
                    self.bind(st.func.value.value, ("list", ("list", self.etype(st.args[0]))))
                elif isinstance(st, ast.Call) and isinstance(st.func, ast.Attribute) and st.func.attr == "append" \
                        and len(st.args) == 1 and self.vkey(st.func.value) is not None:
                    self.bind(st.func.value, ("list", self.etype(st.args[0])))
                elif isinstance(st, ast.Match):
                    for c in st.cases:
                        if isinstance(c.pattern, ast.MatchClass) and isinstance(c.pattern.cls, ast.Name) \
                                and c.pattern.cls.id in ACTIONS:
                            _, tys, names = ACTIONS[c.pattern.cls.id]
                            for t2, n2 in zip(tys, names):
                                self.vtypes["cp_action_" + n2] = ("enum", "StorageType") if t2 == "enum" else t2
                elif isinstance(st, ast.For):
                    it = st.iter
                    if isinstance(it, ast.Call) and isinstance(it.func, ast.Name) and it.func.id in ("range", "sorted_desc_indices_"):
                        self.bind(st.target, "Int")
                    elif isinstance(it, ast.Call) and isinstance(it.func, ast.Name) and it.func.id == "schedule_actions_":
                        self.bind(st.target, ("struct", "PyAction"))
                    elif isinstance(it, ast.Call) and isinstance(it.func, ast.Name) and it.func.id == "enumerate":
                        lt = self.etype(it.args[0])
                        if isinstance(st.target, ast.Tuple) and len(st.target.elts) == 2:
                            self.bind(st.target.elts[0], "Int")
                            if lt is not None and lt[0] == "list":
                                self.bind(st.target.elts[1], lt[1])
        rets = [self.etype(st.value) for st in ast.walk(self.node)
                if isinstance(st, ast.Return) and st.value is not None]
        plain = [t for t in rets if t is not None and not self.is_opt(t)]
        if plain:
            # a function with a plain return somewhere returns plain values: `return m` of a variable that may
            # be None is translated with `unwrap` (TypeError if it is None)
            r = None
            for t in plain:
                r = ty_join(r, t)
            self.ret = r
        else:
            r = None
            for t in rets:
                r = ty_join(r, t)
            self.ret = r
        self.ret_wrap = False
        body = [b for b in self.node.body if not (isinstance(b, ast.Expr) and isinstance(b.value, ast.Constant))]
        if self.ret is not None and not self.is_opt(self.ret) and body and not self.always_exits(body[-1]) \
                and not self.gen and not self.method_fields:
            # control can fall off the end (implicit `return None`) although other paths return a value
            self.ret = ("opt", self.ret)
            self.ret_wrap = True
        if self.method_fields:
            self.ret = None
        if self.ret is None:
            self.ret = "Unit"

    def vkey(self, t):
        if isinstance(t, ast.Name):
            return t.id
        if isinstance(t, ast.Attribute) and isinstance(t.value, ast.Name) and t.value.id == "self":
            return "self." + t.attr.lstrip("_")
        return None

    def bind(self, target, t):
        if isinstance(target, ast.Tuple):
            if t == ("pyidx",) and len(target.elts) == 2:
                t = ("tuple", ["Int", "Int"])
            if self.is_opt(t):
                t = t[1]
            if t is not None and not isinstance(t, str) and t[0] == "tuple" and len(t[1]) == len(target.elts):
                for e, tt in zip(target.elts, t[1]):
                    self.bind(e, tt)
            return
        k = self.vkey(target)
        if k is None:
            return
        if k == "_":
            return
        if k in self.ptypes or (k.startswith("self.") and k[5:] in self.self_fields):
            return      # declared types of parameters and object fields are fixed
        self.vtypes[k] = ty_join(self.vtypes.get(k), t)

    def etype(self, e):
        if isinstance(e, ast.Constant):
            if e.value is None:
                return ("opt", None)
            if isinstance(e.value, bool):
                return "Bool"
            if isinstance(e.value, int):
                return "Int"
            if isinstance(e.value, float):
                return "Rat"        # floats are exact rationals
            if isinstance(e.value, str):
                return "String"
            raise Unsupported("constant %r" % (e.value,))
        if isinstance(e, ast.Attribute) and not (isinstance(e.value, ast.Name) and e.value.id == "self"):
            bt = self.etype(e.value)
            if bt is not None and not isinstance(bt, str) and bt[0] == "struct" and e.attr in STRUCTS[bt[1]]:
                return STRUCTS[bt[1]][e.attr]
        if isinstance(e, ast.Subscript) and isinstance(e.value, ast.Dict):
            t = None
            for v in e.value.values:
                t = ty_join(t, self.etype(v))
            return t
        if isinstance(e, (ast.Name, ast.Attribute)):
            k = self.vkey(e)
            if k is not None and k in self.vtypes:
                return self.vtypes[k]
            if isinstance(e, ast.Name) and e.id in self.ctx.consts:
                return self.ctx.consts[e.id][1]
            if isinstance(e, ast.Name) and e.id in self.nested_params:
                return "Int"
            if isinstance(e, ast.Attribute) and isinstance(e.value, ast.Name) and e.value.id in self.ctx.enums:
                return ("enum", e.value.id)
            if isinstance(e, ast.Attribute) and isinstance(e.value, ast.Name) and e.value.id == "sys" \
                    and e.attr == "maxsize":
                return "Int"
            return None
        if isinstance(e, ast.BinOp) and isinstance(e.op, ast.Add):
            tl = self.etype(e.left)
            if tl is not None and not isinstance(tl, str) and tl[0] == "list":
                return ty_join(tl, self.etype(e.right))
        if isinstance(e, ast.BinOp) and isinstance(e.op, ast.Mult) and isinstance(e.left, ast.List) and len(e.left.elts) == 1:
            return ("list", self.etype(e.left.elts[0]))
        if isinstance(e, ast.BinOp):
            t = "Int"
            for x in (e.left, e.right):
                tx = self.etype(x)
                if self.is_opt(tx):
                    tx = tx[1]
                if isnum(tx):
                    t = ty_join(t, tx)
            if isinstance(e.op, ast.Div):
                t = ty_join(t, "Rat")       # true division: exact rationals stand for Python's floats
            return t
        if isinstance(e, ast.UnaryOp):
            return "Bool" if isinstance(e.op, ast.Not) else self.etype(e.operand)
        if isinstance(e, ast.Call) and isinstance(e.func, ast.Name) and e.func.id == "Sequence" and not e.args:
            return ("list", ("struct", "PyOp"))
        if isinstance(e, ast.Call) and isinstance(e.func, ast.Name) and e.func.id == "operation" and len(e.args) == 2:
            return ("struct", "PyOp")
        if isinstance(e, ast.Call) and isinstance(e.func, ast.Name) and e.func.id == "seq_last" and len(e.args) == 1:
            return ("struct", "PyOp")
        if isinstance(e, ast.Call) and isinstance(e.func, ast.Attribute) and e.func.attr in ("shift", "remove_useless_wm") \
                and self.etype(e.func.value) == ("list", ("struct", "PyOp")):
            return ("list", ("struct", "PyOp"))
        if isinstance(e, ast.Call) and isinstance(e.func, ast.Name) and e.func.id == "Table" and not e.args:
            return ("list", None)
        if isinstance(e, ast.ListComp):
            old_t = {}
            for g in e.generators:
                if isinstance(g.target, ast.Name) and g.target.id != "_":
                    old_t[g.target.id] = self.vtypes.get(g.target.id)
                    self.vtypes[g.target.id] = "Int"
            t = self.etype(e.elt)
            return ("list", t)
        if isinstance(e, ast.Call) and isinstance(e.func, ast.Name) and e.func.id in ("min", "max") and len(e.args) == 1:
            lt = self.etype(e.args[0])
            return lt[1] if lt is not None and not isinstance(lt, str) and lt[0] == "list" else None
        if isinstance(e, ast.BinOp) and isinstance(e.op, ast.Add) and not isinstance(self.etype(e.left), str) \
                and self.etype(e.left) is not None and self.etype(e.left)[0] == "list":
            return ty_join(self.etype(e.left), self.etype(e.right))
        if isinstance(e, ast.Call) and ast.unparse(e.func) == "math.factorial":
            return "Int"
        if isinstance(e, ast.Call) and ast.unparse(e.func) == "float" and len(e.args) == 1 \
                and isinstance(e.args[0], ast.Constant) and e.args[0].value == "inf":
            return "ER"
        if isinstance(e, (ast.Compare, ast.BoolOp)):
            return "Bool"
        if isinstance(e, ast.Tuple):
            return ("tuple", [self.etype(x) for x in e.elts])
        if isinstance(e, ast.List):
            t = None
            for x in e.elts:
                t = ty_join(t, self.etype(x))
            return ("list", t)
        if isinstance(e, ast.Call) and ast.unparse(e.func) == "np.zeros":
            return ("tab3",)
        if isinstance(e, ast.Subscript) and self.etype(e.value) == ("tab3",):
            return "Int"
        if isinstance(e, ast.Subscript):
            bt = self.etype(e.value)
            if bt is not None and not isinstance(bt, str) and bt[0] == "opt":
                bt = bt[1]
            if bt is not None and not isinstance(bt, str) and bt[0] == "tuple" and isinstance(e.slice, ast.Constant):
                return bt[1][e.slice.value]
            if bt is not None and not isinstance(bt, str) and bt[0] == "tuple" and isinstance(e.slice, ast.Slice) \
                    and e.slice.lower is None and e.slice.step is None and isinstance(e.slice.upper, ast.Constant):
                return ("tuple", bt[1][:e.slice.upper.value])
            if bt is not None and not isinstance(bt, str) and bt[0] == "list":
                return bt[1]
            return None
        if isinstance(e, ast.Call) and isinstance(e.func, ast.Attribute) and e.func.attr == "count" and len(e.args) == 1:
            return "Int"
        if isinstance(e, ast.Call) and isinstance(e.func, ast.Name) and e.func.id == "tuple" and len(e.args) == 1 \
                and isinstance(e.args[0], ast.GeneratorExp):
            return ("list", self.etype(e.args[0].elt))
        if isinstance(e, ast.Call) and isinstance(e.func, ast.Name) and e.func.id == "tuple" and len(e.args) == 1 \
                and isinstance(e.args[0], ast.Name) and self.etype(e.args[0]) is not None \
                and not isinstance(self.etype(e.args[0]), str) and self.etype(e.args[0])[0] == "list":
            return self.etype(e.args[0])       # tuple(list): sequences are lists
        if isinstance(e, ast.Call) and isinstance(e.func, ast.Name) and e.func.id in self.oracles:
            return self.oracles[e.func.id][1]
        if isinstance(e, ast.Call) and isinstance(e.func, ast.Name):
            f = e.func.id
            if f in ("min", "max") and len(e.args) == 2:
                t = None
                for x in e.args:
                    tx = self.etype(x)
                    t = ty_join(t, tx[1] if self.is_opt(tx) else tx)
                return t if isnum(t) else "Int"
            if f in ("min", "max", "len", "int"):
                return "Int"
            if f == "list" and len(e.args) == 1 and self.etype(e.args[0]) == ("list", ("struct", "PyOp")):
                return ("list", ("struct", "PyOp"))
            if f == "bool":
                return "Bool"
            if f == "set" and not e.args:
                return ("set", None)
            if f == self.pname:
                return self.ret
            if f in self.ctx.fns:
                return self.ctx.fns[f].ret
        return None

    # ---- expressions ----
    def num_as(self, e, T):
        """numeric expression `e` as a value of numeric type T (Int < Rat < ER)"""
        te = self.etype(e)
        if self.is_opt(te):
            te = te[1]
        txt = self.expr(e, "num")
        if te == T or not isnum(te) or not isnum(T):
            return txt
        if te == "Int" and T == "Rat":
            return "((%s : Int) : Rat)" % txt
        if te == "Int" and T == "ER":
            return "(ER.fin ((%s : Int) : Rat))" % txt
        if te == "Rat" and T == "ER":
            return "(ER.fin %s)" % txt
        raise Unsupported("cannot use a %s where a %s is needed" % (te, T))

    def is_set(self, t):
        return t is not None and not isinstance(t, str) and t[0] == "set"

    def is_opt(self, t):
        return t is not None and not isinstance(t, str) and t[0] == "opt"

    def expr(self, e, want=None):
        """Lean text of a Python expression (may contain `(← …)`); `want='num'` unwraps Options"""
        if isinstance(e, ast.Constant):
            if e.value is None:
                return "none"
            if isinstance(e.value, bool):
                return "true" if e.value else "false"
            if isinstance(e.value, int):
                return "(%d : Int)" % e.value if e.value >= 0 else "(-%d : Int)" % -e.value
            if isinstance(e.value, float):
                from fractions import Fraction
                q = Fraction(e.value)       # the exact value of the float literal
                return "(%d : Rat)" % q.numerator if q.denominator == 1 and q >= 0 else "((%d : Rat) / %d)" % (q.numerator, q.denominator)
            if isinstance(e.value, str):
                return '"%s"' % e.value.replace("\\", "\\\\").replace('"', '\\"')
            raise Unsupported("constant")
        if isinstance(e, ast.Attribute) and not (isinstance(e.value, ast.Name) and e.value.id == "self"):
            bt = self.etype(e.value)
            if bt is not None and not isinstance(bt, str) and bt[0] == "struct" and e.attr in STRUCTS[bt[1]]:
                r = "%s.%s" % (self.expr(e.value), e.attr)
                if want == "num" and STRUCTS[bt[1]][e.attr] == ("pyidx",):
                    return "(← idxSingle %s)" % r
                return r
        if isinstance(e, ast.Subscript) and isinstance(e.value, ast.Dict):
            items = []
            for k2, v2 in zip(e.value.keys, e.value.values):
                items.append("(%s, %s)" % (self.expr(k2, "num"), self.expr(v2)))
            return "(← pyDictGet [%s] %s)" % (", ".join(items), self.expr(e.slice, "num"))
        if isinstance(e, (ast.Name, ast.Attribute)):
            k = self.vkey(e)
            if k is not None and k in self.vtypes:
                nm = lname(k.replace("self.", "self_"))
                if want == "num" and self.is_opt(self.vtypes[k]):
                    return "(← unwrap %s)" % nm
                return nm
            if isinstance(e, ast.Name) and e.id in self.ctx.consts:
                return self.ctx.consts[e.id][0]
            if isinstance(e, ast.Attribute) and isinstance(e.value, ast.Name) and e.value.id in self.ctx.enums:
                if e.attr not in self.ctx.enums[e.value.id]:
                    raise Unsupported("unknown enum member %s.%s" % (e.value.id, e.attr))
                return "%s.%s" % (e.value.id, e.attr.lower())
            if isinstance(e, ast.Attribute) and isinstance(e.value, ast.Name) and e.value.id == "sys" \
                    and e.attr == "maxsize":
                return "(9223372036854775807 : Int)"
            raise Unsupported("name %s" % ast.dump(e))
        if isinstance(e, ast.BinOp) and isinstance(self.etype(e), str) and self.etype(e) in ("Rat", "ER"):
            T = self.etype(e)
            a, b = self.num_as(e.left, T), self.num_as(e.right, T)
            if isinstance(e.op, ast.Add):
                return "(%s + %s)" % (a, b)
            if isinstance(e.op, ast.Sub):
                return "(%s - %s)" % (a, b)
            if isinstance(e.op, ast.Mult):
                return "(%s * %s)" % (a, b)
            if isinstance(e.op, ast.Div) and T == "Rat":
                return "(← ratDiv %s %s)" % (a, b)
            raise Unsupported("operator %s on %s" % (type(e.op).__name__, T))
        if isinstance(e, ast.Call) and isinstance(e.func, ast.Name) and e.func.id == "Sequence" and not e.args:
            return "[]"
        if isinstance(e, ast.Call) and isinstance(e.func, ast.Name) and e.func.id == "operation" and len(e.args) == 2 \
                and isinstance(e.args[0], ast.Constant) and isinstance(e.args[0].value, str):
            ix = e.args[1]
            if isinstance(ix, ast.List) and len(ix.elts) == 2:
                idx = "(.pair %s %s)" % (self.expr(ix.elts[0], "num"), self.expr(ix.elts[1], "num"))
            elif isinstance(ix, ast.List):
                raise Unsupported("operation index of an unexpected length")
            else:
                idx = "(.single %s)" % self.expr(ix, "num")
            return '(PyOp.mk "%s" %s)' % (e.args[0].value, idx)
        if isinstance(e, ast.Call) and isinstance(e.func, ast.Name) and e.func.id == "seq_last" and len(e.args) == 1:
            return "(← seqLast %s)" % self.expr(e.args[0])
        if isinstance(e, ast.Call) and isinstance(e.func, ast.Attribute) and e.func.attr == "shift" and len(e.args) == 1 \
                and self.etype(e.func.value) == ("list", ("struct", "PyOp")):
            return "(seqShift %s %s)" % (self.expr(e.func.value), self.expr(e.args[0], "num"))
        if isinstance(e, ast.Call) and isinstance(e.func, ast.Attribute) and e.func.attr == "remove_useless_wm" \
                and self.etype(e.func.value) == ("list", ("struct", "PyOp")):
            k = self.expr(e.args[0], "num") if e.args else ("(-1 : Int)" if not e.keywords else self.expr(e.keywords[0].value, "num"))
            return "(seqRemoveUselessWm %s %s)" % (self.expr(e.func.value), k)
        if isinstance(e, ast.Call) and isinstance(e.func, ast.Name) and e.func.id == "Table" and not e.args:
            return "[]"
        if isinstance(e, ast.ListComp):
            if len(e.generators) != 1 or e.generators[0].ifs:
                raise Unsupported("list comprehension with several generators / conditions")
            g = e.generators[0]
            it = g.iter
            if not (isinstance(g.target, ast.Name) and isinstance(it, ast.Call) and isinstance(it.func, ast.Name)
                    and it.func.id == "range" and len(it.args) in (1, 2)):
                raise Unsupported("list comprehension over something else than range")
            a = "(0 : Int)" if len(it.args) == 1 else self.expr(it.args[0], "num")
            b = self.expr(it.args[-1], "num")
            if g.target.id == "_" and not self.effectful(e.elt):
                return "(List.replicate (%s - %s).toNat %s)" % (b, a, self.expr(e.elt))
            if g.target.id == "_":
                return "(← (pyRange %s %s).mapM (fun _ => do pure %s))" % (a, b, self.expr(e.elt))
            self.vtypes.setdefault(g.target.id, "Int")
            et = self.etype(e.elt)
            body = self.num_as(e.elt, et) if isnum(et) else self.expr(e.elt)
            return "(← (pyRange %s %s).mapM (fun %s => do pure %s))" % (a, b, self.vn(g.target.id), body)
        if isinstance(e, ast.Call) and isinstance(e.func, ast.Name) and e.func.id in ("min", "max") and len(e.args) == 1:
            return "(← py%s %s)" % (e.func.id.capitalize(), self.expr(e.args[0]))
        if isinstance(e, ast.BinOp) and isinstance(e.op, ast.Mult) and isinstance(e.left, ast.List) and len(e.left.elts) == 1:
            return "(List.replicate (%s).toNat %s)" % (self.expr(e.right, "num"), self.expr(e.left.elts[0]))
        if isinstance(e, ast.BinOp) and isinstance(e.op, ast.Add) and self.etype(e.left) is not None \
                and not isinstance(self.etype(e.left), str) and self.etype(e.left)[0] == "list":
            T = self.etype(e)
            def as_list(x):
                tx = self.etype(x)
                if isinstance(x, ast.List) and isnum(T[1]):
                    return "[" + ", ".join(self.num_as(z, T[1]) for z in x.elts) + "]"
                return self.expr(x)
            return "(%s ++ %s)" % (as_list(e.left), as_list(e.right))
        if isinstance(e, ast.Call) and ast.unparse(e.func) == "math.factorial" and len(e.args) == 1:
            return "(← pyFactorial %s)" % self.expr(e.args[0], "num")
        if isinstance(e, ast.Call) and ast.unparse(e.func) == "float" and len(e.args) == 1 \
                and isinstance(e.args[0], ast.Constant) and e.args[0].value == "inf":
            return "ER.inf"
        if isinstance(e, ast.BinOp):
            a, b = self.expr(e.left, "num"), self.expr(e.right, "num")
            if isinstance(e.op, ast.Add):
                return "(%s + %s)" % (a, b)
            if isinstance(e.op, ast.Sub):
                return "(%s - %s)" % (a, b)
            if isinstance(e.op, ast.Mult):
                return "(%s * %s)" % (a, b)
            if isinstance(e.op, ast.FloorDiv):
                return "(← floordiv %s %s)" % (a, b)
            if isinstance(e.op, ast.Mod):
                return "(← pymod %s %s)" % (a, b)
            raise Unsupported("operator %s" % type(e.op).__name__)
        if isinstance(e, ast.UnaryOp):
            if isinstance(e.op, ast.USub):
                return "(- %s)" % self.expr(e.operand, "num")
            if isinstance(e.op, ast.Not):
                return "(¬ %s)" % self.cond_pure(e.operand)
            raise Unsupported("unary")
        if isinstance(e, ast.Tuple):
            return "(" + ", ".join(self.expr(x) for x in e.elts) + ")"
        if isinstance(e, ast.List):
            lt = self.etype(e)
            if lt is not None and not isinstance(lt, str) and lt[0] == "list" and isnum(lt[1]) and lt[1] != "Int":
                return "[" + ", ".join(self.num_as(x, lt[1]) for x in e.elts) + "]"
            return "[" + ", ".join(self.expr(x) for x in e.elts) + "]"
        if isinstance(e, ast.Call) and ast.unparse(e.func) == "np.zeros":
            shp = e.args[0] if e.args else None
            kws = {k.arg: ast.unparse(k.value) for k in e.keywords}
            if not (isinstance(shp, ast.Tuple) and len(shp.elts) == 3 and isinstance(shp.elts[2], ast.Constant)
                    and shp.elts[2].value == 3 and kws == {"dtype": "np.int64"}):
                raise Unsupported("np.zeros of an unexpected shape / dtype")
            return "(← tab3Zeros %s %s)" % (self.expr(shp.elts[0], "num"), self.expr(shp.elts[1], "num"))
        if isinstance(e, ast.Subscript) and self.etype(e.value) == ("tab3",):
            ix = e.slice
            if not (isinstance(ix, ast.Tuple) and len(ix.elts) == 3 and isinstance(ix.elts[2], ast.Constant)
                    and ix.elts[2].value in (0, 1, 2)):
                raise Unsupported("array access of an unexpected form")
            proj = [".1", ".2.1", ".2.2"][ix.elts[2].value]
            return "(← tab3Get %s %s %s)%s" % (self.expr(e.value), self.expr(ix.elts[0], "num"),
                                               self.expr(ix.elts[1], "num"), proj)
        if isinstance(e, ast.Subscript):
            bt = self.etype(e.value)
            base = self.expr(e.value, "num")
            if self.is_opt(bt):
                bt = bt[1]
            if bt is not None and not isinstance(bt, str) and bt[0] == "tuple" and isinstance(e.slice, ast.Constant):
                i, n = e.slice.value, len(bt[1])
                proj = ".2" * i + (".1" if i < n - 1 else "")
                return "%s%s" % (base, proj)
            if bt is not None and not isinstance(bt, str) and bt[0] == "tuple" and isinstance(e.slice, ast.Slice) \
                    and e.slice.lower is None and e.slice.step is None and isinstance(e.slice.upper, ast.Constant):
                k2, n = e.slice.upper.value, len(bt[1])
                if not (2 <= k2 <= n):
                    raise Unsupported("tuple slice")
                comps = ["%s%s" % (base, ".2" * i2 + (".1" if i2 < n - 1 else "")) for i2 in range(k2)]
                return "(" + ", ".join(comps) + ")"
            if bt is not None and not isinstance(bt, str) and bt[0] == "list":
                return "(← pyIndex %s %s)" % (base, self.expr(e.slice, "num"))
            raise Unsupported("subscript of %r" % (bt,))
        if isinstance(e, ast.Call) and isinstance(e.func, ast.Attribute) and e.func.attr == "count" and len(e.args) == 1:
            return "((List.count %s %s : Nat) : Int)" % (self.expr(e.args[0]), self.expr(e.func.value))
        if isinstance(e, ast.Call) and isinstance(e.func, ast.Name) and e.func.id == "tuple" and len(e.args) == 1 \
                and isinstance(e.args[0], ast.Name):
            return self.expr(e.args[0])
        if isinstance(e, ast.Call) and isinstance(e.func, ast.Name) and e.func.id == "tuple" and len(e.args) == 1 \
                and isinstance(e.args[0], ast.GeneratorExp):
            g = e.args[0]
            if len(g.generators) != 1 or g.generators[0].ifs or not isinstance(g.generators[0].target, ast.Name) \
                    or g.generators[0].target.id != "_":
                raise Unsupported("generator expression")
            it = g.generators[0].iter
            if not (isinstance(it, ast.Call) and isinstance(it.func, ast.Name) and it.func.id == "range" and len(it.args) == 1):
                raise Unsupported("generator expression over something else than range(k)")
            return "(List.replicate (%s).toNat %s)" % (self.expr(it.args[0], "num"), self.expr(g.elt))
        if isinstance(e, ast.Call) and isinstance(e.func, ast.Name) and e.func.id in self.oracles:
            params = self.oracles[e.func.id][0]
            args = [None] * len(params)
            for i2, a in enumerate(e.args):
                args[i2] = self.expr(a, "num")
            for kw in e.keywords:
                if kw.arg not in params:
                    raise Unsupported("keyword %s of %s" % (kw.arg, e.func.id))
                args[params.index(kw.arg)] = self.expr(kw.value, "num")
            if any(a is None for a in args):
                raise Unsupported("call of %s with defaulted arguments" % e.func.id)
            return "(← %s %s)" % (e.func.id, " ".join(args))
        if isinstance(e, ast.Call) and isinstance(e.func, ast.Name):
            f = e.func.id
            if f in ("min", "max") and len(e.args) == 2 and not e.keywords:
                return "(%s %s %s)" % (f, self.expr(e.args[0], "num"), self.expr(e.args[1], "num"))
            if f == "len" and len(e.args) == 1:
                return "(%s.length : Int)" % self.expr(e.args[0])
            if f == "list" and len(e.args) == 1 and not e.keywords and self.etype(e.args[0]) == ("list", ("struct", "PyOp")):
                return self.expr(e.args[0])     # list(Sequence): the flattened operation list itself
            if f == "set" and not e.args:
                return "[]"
            if f == "bool" and len(e.args) == 1:
                return "(decide %s)" % self.cond_pure(e.args[0])
            if f == "int" and len(e.args) == 1 and self.etype(e.args[0]) == "Rat":
                return "(ratTrunc %s)" % self.expr(e.args[0], "num")
            if f in ("min", "max") and len(e.args) == 2 and not e.keywords and self.etype(e) in ("Rat", "ER"):
                T = self.etype(e)
                return "(%s %s %s)" % (f, self.num_as(e.args[0], T), self.num_as(e.args[1], T))
            if f == "int" and len(e.args) == 1 and self.etype(e.args[0]) == "Bool":
                return "(if %s then (1 : Int) else (0 : Int))" % self.cond_pure(e.args[0])
            if f == "int" and len(e.args) == 1 and self.etype(e.args[0]) is not None and \
                    self.etype(e.args[0])[0] == "enum":
                return "(%s.toInt %s)" % (self.etype(e.args[0])[1], self.expr(e.args[0]))
            if f == "argmin" and len(e.args) == 1:
                at = self.etype(e.args[0])
                et = at[1] if at is not None and not isinstance(at, str) and at[0] == "list" else None
                if et == "Rat" and "argmin_rat" in self.ctx.fns:
                    f = "argmin_rat"
                elif et == "ER" and "argmin_er" in self.ctx.fns:
                    f = "argmin_er"
            if f == self.pname or f in self.ctx.fns:
                if f == self.pname:
                    fuel, lean, params = self.recursive, self.lean_name, self.params
                else:
                    fn = self.ctx.fns[f]
                    fuel, lean, params = fn.fuel, fn.name, fn.params
                    if fuel:
                        self.uses_fuel = True
                args = [None] * len(params)
                ptys = (self.ctx.fns[f].ptypes if f in self.ctx.fns and self.ctx.fns[f].ptypes else {}) \
                    if f != self.pname else self.ptypes
                def arg_as(a, pt):
                    ta = self.etype(a)
                    if pt is not None and not isinstance(pt, str) and pt[0] == "list" and ta is not None \
                            and not isinstance(ta, str) and ta[0] == "tuple" and len(ta[1]) == 2 \
                            and all(t2 == pt[1] for t2 in ta[1]):
                        return "[%s.1, %s.2]" % (self.expr(a), self.expr(a))    # a pair passed where a sequence is read
                    if isnum(pt):
                        return self.num_as(a, pt)
                    if self.is_opt(pt):
                        return self.expr(a) if (self.is_opt(self.etype(a)) or (isinstance(a, ast.Constant) and a.value is None)) \
                        else "(some %s)" % self.expr(a)
                    return self.expr(a, "num")
                if f == self.pname:
                    orig, dropped = self.orig_params, self.dropped
                else:
                    orig, dropped = self.ctx.fns[f].orig_params, self.ctx.fns[f].dropped
                for i, a in enumerate(e.args):
                    if i >= len(orig):
                        raise Unsupported("too many arguments for %s" % f)
                    if orig[i] in dropped:
                        continue          # a parameter fixed by the specialisation (e.g. one_read_disk)
                    args[params.index(orig[i])] = arg_as(a, ptys.get(orig[i]))
                for kw in e.keywords:
                    if kw.arg in dropped:
                        continue
                    if kw.arg not in params:
                        raise Unsupported("keyword %s" % kw.arg)
                    args[params.index(kw.arg)] = arg_as(kw.value, ptys.get(kw.arg))
                dflt = self.ctx.fns[f].defaults if f != self.pname and f in self.ctx.fns else {}
                for i, a in enumerate(args):
                    if a is None and params[i] in dflt:
                        args[i] = arg_as(dflt[params[i]], ptys.get(params[i]))
                if any(a is None for a in args):
                    raise Unsupported("call of %s with defaulted arguments" % f)
                return "(← %s %s%s)" % (lean, "fuel " if fuel else "", " ".join(args))
            raise Unsupported("call of %s" % f)
        if isinstance(e, ast.BoolOp) and any(self.effectful(v) for v in e.values[1:]):
            # Python's left-to-right evaluation with early stop, as nested `do` blocks (nothing is hoisted out)
            isor = isinstance(e.op, ast.Or)
            first = e.values[0]
            restv = e.values[1:]
            rest_e = restv[0] if len(restv) == 1 else ast.BoolOp(op=e.op, values=restv)
            a = self.expr(first) if isinstance(first, (ast.BoolOp, ast.Compare)) else "(decide %s)" % self.cond_pure(first)
            b = self.expr(rest_e) if isinstance(rest_e, (ast.BoolOp, ast.Compare)) else "(decide %s)" % self.cond_pure(rest_e)
            if isor:
                return "(← (do if (%s = true) then pure true else do pure %s))" % (a, b)
            return "(← (do if (%s = true) then do pure %s else pure false))" % (a, b)
        if isinstance(e, (ast.Compare, ast.BoolOp)):
            return "(decide %s)" % self.cond_pure(e)
        raise Unsupported("expression %s" % type(e).__name__)

    def effectful(self, e):
        """can evaluating `e` raise / need the monad? (division, calls of translated functions, unwrapping)"""
        for x in ast.walk(e):
            if isinstance(x, ast.BinOp) and isinstance(x.op, (ast.FloorDiv, ast.Mod, ast.Div)):
                return True
            if isinstance(x, ast.Call) and ast.unparse(x.func) == "math.factorial":
                return True
            if isinstance(x, ast.ListComp):
                return True
            if isinstance(x, ast.Call) and isinstance(x.func, ast.Name) and x.func.id in ("min", "max") and len(x.args) == 1:
                return True
            if isinstance(x, ast.Call) and isinstance(x.func, ast.Name) and (
                    x.func.id == self.pname or x.func.id in self.ctx.fns or x.func.id in self.oracles):
                return True
            if isinstance(x, ast.Subscript) and isinstance(x.value, ast.Dict):
                return True
            if isinstance(x, ast.Subscript):
                bt = self.etype(x.value)
                if self.is_opt(bt) or (bt is not None and not isinstance(bt, str) and bt[0] in ("list", "tab3")):
                    return True
            if isinstance(x, (ast.Name, ast.Attribute)):
                k = self.vkey(x)
                if k in self.vtypes and self.is_opt(self.vtypes[k]):
                    return True
        return False

    def cond_pure(self, e):
        """a condition as a decidable Prop; operands must be effect-free except as handled by `cond`"""
        if isinstance(e, ast.BoolOp):
            op = " ∧ " if isinstance(e.op, ast.And) else " ∨ "
            return "(" + op.join(self.cond_pure(v) for v in e.values) + ")"
        if isinstance(e, ast.UnaryOp) and isinstance(e.op, ast.Not):
            return "(¬ %s)" % self.cond_pure(e.operand)
        if isinstance(e, ast.Compare):
            parts = []
            left = e.left
            for op, right in zip(e.ops, e.comparators):
                parts.append(self.compare(left, op, right))
                left = right
            return parts[0] if len(parts) == 1 else "(" + " ∧ ".join(parts) + ")"
        if isinstance(e, ast.Constant) and isinstance(e.value, bool):
            return "True" if e.value else "False"
        t = self.etype(e)
        if t == "Bool":
            return "(%s = true)" % self.expr(e)
        raise Unsupported("condition %s" % type(e).__name__)

    def compare(self, a, op, b):
        if isinstance(op, (ast.Is, ast.IsNot)):
            if not (isinstance(b, ast.Constant) and b.value is None):
                raise Unsupported("`is` with something other than None")
            t = self.etype(a)
            if not self.is_opt(t):
                raise Unsupported("`is None` on a value that is never None")
            k = self.vkey(a)
            nm = lname(k.replace("self.", "self_"))
            return "(%s = none)" % nm if isinstance(op, ast.Is) else "(%s ≠ none)" % nm
        if isinstance(op, (ast.In, ast.NotIn)):
            neg = isinstance(op, ast.NotIn)
            if isinstance(b, (ast.Set, ast.List)):
                body = "(" + " ∨ ".join("(%s = %s)" % (self.expr(a), self.expr(x)) for x in b.elts) + ")"
            elif isinstance(b, ast.Name) and b.id in self.ctx.enums:
                body = "True"      # a member of the enumeration by typing
            elif self.is_set(self.etype(b)) or (self.etype(b) is not None and not isinstance(self.etype(b), str)
                                                and self.etype(b)[0] == "list"):
                body = "(%s ∈ %s)" % (self.expr(a, "num"), self.expr(b))
            else:
                raise Unsupported("`in` on %s" % type(b).__name__)
            return "(¬ %s)" % body if neg else body
        ta, tb = self.etype(a), self.etype(b)
        sym = {ast.Lt: "<", ast.LtE: "≤", ast.Gt: ">", ast.GtE: "≥", ast.Eq: "=", ast.NotEq: "≠"}.get(type(op))
        if sym is None:
            raise Unsupported("comparison %s" % type(op).__name__)
        tja = ta[1] if self.is_opt(ta) else ta
        tjb = tb[1] if self.is_opt(tb) else tb
        if isnum(tja) and isnum(tjb) and tja != tjb:
            T = ty_join(tja, tjb)
            return "(%s %s %s)" % (self.num_as(a, T), sym, self.num_as(b, T))
        want = "num"
        return "(%s %s %s)" % (self.expr(a, want), sym, self.expr(b, want))

    

    def cond(self, e, ind, out):
        """returns Lean text of a decidable Prop for `if`; emits `let c ← …` lines into `out` when an operand is
        effectful and short-circuiting matters"""
        if isinstance(e, ast.BoolOp) and any(self.effectful(v) for v in e.values[1:]):
            # Python evaluates left to right and stops early: nested ifs inside a `do`
            var = "c_%d" % self.fresh()
            isor = isinstance(e.op, ast.Or)
            lines = []

            def build(vals, ind2):
                v = vals[0]
                sub = []
                c = self.cond(v, ind2, sub)
                lines.extend(sub)
                if len(vals) == 1:
                    lines.append("%spure (decide %s)" % (ind2, c))
                elif isor:
                    lines.append("%sif %s then pure true else do" % (ind2, c))
                    build(vals[1:], ind2 + "  ")
                else:
                    lines.append("%sif %s then do" % (ind2, c))
                    build(vals[1:], ind2 + "  ")
                    lines.append("%selse pure false" % ind2)
            out.append("%slet %s : Bool ← (do" % (ind, var))
            build(e.values, ind + "    ")
            out.extend(lines)
            out[-1] = out[-1] + ")"
            return "(%s = true)" % var
        return self.cond_pure(e)

    def fresh(self):
        self._fresh = getattr(self, "_fresh", 0) + 1
        return self._fresh

    # ---- statements ----
    def assigned(self, stmts):
        s = []
        for st in stmts:
            for x in ast.walk(st):
                tg = []
                if isinstance(x, ast.Assign):
                    tg = x.targets
                elif isinstance(x, ast.AugAssign):
                    tg = [x.target]
                elif isinstance(x, ast.For):
                    tg = [x.target]
                for t in tg:
                    flat = []

                    def fl(z):
                        if isinstance(z, ast.Tuple):
                            for w2 in z.elts:
                                fl(w2)
                        else:
                            flat.append(z)
                    fl(t)
                    for y in flat:
                        while isinstance(y, ast.Subscript):
                            y = y.value
                        k = self.vkey(y)
                        if k is not None and k != "_" and k not in s:
                            s.append(k)
        return s

    def used(self, nodes):
        s = []
        for st in nodes:
            for x in ast.walk(st):
                if isinstance(x, (ast.Name, ast.Attribute)):
                    k = self.vkey(x)
                    if k is not None and k in self.vtypes and k not in s:
                        s.append(k)
        return s

    def first_access(self, k, stmts):
        """'read' / 'write' / None: how `stmts` first touch variable `k` (conservative: 'read' when in doubt)"""
        for st in stmts:
            if isinstance(st, ast.Assign) and len(st.targets) == 1:
                if k in self.used([st.value]):
                    return "read"
                tks = [self.vkey(x) for x in (st.targets[0].elts if isinstance(st.targets[0], ast.Tuple)
                                              else [st.targets[0]])]
                if k in tks:
                    return "write"
                if k in self.used([st.targets[0]]):
                    return "read"
                continue
            if isinstance(st, ast.If):
                if k in self.used([st.test]):
                    return "read"
                a, b = self.first_access(k, st.body), self.first_access(k, st.orelse)
                if a == "read" or b == "read":
                    return "read"
                if a == "write" and b == "write":
                    return "write"
                continue
            if isinstance(st, (ast.While, ast.For)):
                hdr = [st.test] if isinstance(st, ast.While) else [st.iter]
                if k in self.used(hdr):
                    return "read"
                if isinstance(st, ast.For) and k in [self.vkey(x) for x in ast.walk(st.target)]:
                    continue
                if self.first_access(k, st.body) == "read":
                    return "read"
                continue
            if k in self.used([st]):
                return "read"
        return None

    def definitely_writes(self, k, stmts):
        for st in stmts:
            if isinstance(st, (ast.Assign, ast.AugAssign)):
                tgs = st.targets if isinstance(st, ast.Assign) else [st.target]
                for t in tgs:
                    for y in ast.walk(t):
                        if isinstance(y, (ast.Name, ast.Attribute)) and self.vkey(y) == k:
                            return True
            if isinstance(st, ast.If) and st.orelse and self.definitely_writes(k, st.body) \
                    and self.definitely_writes(k, st.orelse):
                return True
        return False

    def reads_before_write(self, k, stmts):
        """may `stmts` read variable `k` before assigning it (on some path)?"""
        for st in stmts:
            if isinstance(st, ast.Assign) and len(st.targets) == 1:
                if k in self.used([st.value]):
                    return True
                tks = [self.vkey(y) for y in ast.walk(st.targets[0]) if isinstance(y, (ast.Name, ast.Attribute))]
                if k in tks:
                    return False
                continue
            if isinstance(st, ast.If):
                if k in self.used([st.test]):
                    return True
                if self.reads_before_write(k, st.body) or self.reads_before_write(k, st.orelse):
                    return True
                if st.orelse and self.definitely_writes(k, st.body) and self.definitely_writes(k, st.orelse):
                    return False
                continue
            if isinstance(st, (ast.While, ast.For)):
                hdr = [st.test] if isinstance(st, ast.While) else [st.iter]
                if k in self.used(hdr) or self.reads_before_write(k, st.body):
                    return True
                continue
            if k in self.used([st]):
                return True
        return False

    def live_after(self, k, rest):
        """is the value of `k` read by `rest` before being overwritten? (conservative)"""
        return self.first_access(k, rest) == "read"

    def vn(self, k):
        return lname(k.replace("self.", "self_"))

    def has_jump(self, st):
        """does the statement contain a `break` / `continue` of the enclosing loop (not of a nested loop)?"""
        if isinstance(st, (ast.Break, ast.Continue)):
            return True
        if isinstance(st, ast.If):
            return any(self.has_jump(x) for x in st.body + st.orelse)
        return False

    def emit_yield(self, call, ind, out):
        """`yield Action(...)`: append the event (action, self._n, self._r, self._exhausted) to the output; for an
        online schedule the canonical client may then finalise (`clientHook`)"""
        if not (isinstance(call, ast.Call) and isinstance(call.func, ast.Name) and call.func.id in ACTIONS):
            raise Unsupported("yield of something that is not an action constructor")
        nm = call.func.id
        pnames = ACTIONS[nm][2]
        given = list(call.args) + [None] * (len(pnames) - len(call.args))
        for kw in call.keywords:
            if kw.arg not in pnames or given[pnames.index(kw.arg)] is not None:
                raise Unsupported("action %s with unexpected keyword %s" % (nm, kw.arg))
            given[pnames.index(kw.arg)] = kw.value
        if len(call.args) > len(pnames) or any(g is None for g in given):
            raise Unsupported("action %s with unexpected arguments" % nm)
        args = []
        for a, ty in zip(given, ACTIONS[nm][1]):
            if ty == "Int":
                args.append(self.expr(a, "num"))
            elif ty == "Bool":
                args.append(self.expr(a) if self.etype(a) == "Bool" else "(decide %s)" % self.cond_pure(a))
            else:
                args.append(self.expr(a, "num") if self.is_opt(self.etype(a)) else self.expr(a))
        act = "PyAction.%s%s" % (ACTIONS[nm][0], "".join(" " + a for a in args))
        ex = "self_exhausted" if "self.exhausted" in self.vtypes else "false"
        out.append("%sout_ := out_ ++ [PyEv.mk (%s) self_n self_r %s]" % (ind, act, ex))
        if self.gen.get("passes") and nm == "EndReverse":
            out.append("%spasses_left := passes_left - 1  -- the canonical client stops after `passes` adjoint calculations" % ind)
        if self.gen.get("online"):
            out.append("%s(self_n, self_max_n) := clientHook clientN self_n self_max_n" % ind)

    def inline_call(self, name, call, target, ind, defined, out):
        """`target = f(args)` for a nested `def f` without yields: its body, parameters substituted"""
        fn = self.local_fns[name]
        params = [a.arg for a in fn.args.args]
        if len(call.args) != len(params) or call.keywords:
            raise Unsupported("call of local function %s" % name)
        body = [b for b in fn.body if not (isinstance(b, ast.Expr) and isinstance(b.value, ast.Constant))]
        if not body or not isinstance(body[-1], ast.Return) or body[-1].value is None:
            raise Unsupported("local function %s must end in `return <expr>`" % name)
        for b in body[:-1]:
            for x in ast.walk(b):
                if isinstance(x, (ast.Return, ast.Yield)):
                    raise Unsupported("local function %s: early return / yield" % name)
        out.append("%s-- inlined local function `%s` (line %d)" % (ind, name, fn.lineno))
        for pn, a in zip(params, call.args):
            k = "%s_%s" % (name, pn)
            self.vtypes[k] = self.etype(a) or "Int"
            out.append("%slet %s : %s := %s" % (ind, self.vn(k), ty_str(self.vtypes[k]), self.expr(a, "num")))

        class Ren(ast.NodeTransformer):
            def visit_Name(s2, node):
                if node.id in params:
                    return ast.copy_location(ast.Name(id="%s_%s" % (name, node.id), ctx=node.ctx), node)
                return node
        import copy
        body2 = [Ren().visit(copy.deepcopy(b)) for b in body]
        d = set(defined) | {"%s_%s" % (name, pn) for pn in params}
        sub = self.block(body2[:-1], ind, d) if body2[:-1] else []
        out.extend(sub)
        defined |= (d & set(defined))
        asg = ast.Assign(targets=[target], value=body2[-1].value)
        ast.copy_location(asg, call)
        out.extend(self.block([asg], ind, defined))

    def block(self, stmts, ind, defined, in_loop=False, tail=None):
        """translate a statement list; `defined` = set of variables already declared (mutated in place);
        `tail` (inside a `while` loop) = what to do when control reaches the end / `continue` / `break`"""
        out = []
        for i, st in enumerate(stmts):
            rest = stmts[i + 1:]
            if isinstance(st, ast.Expr) and isinstance(st.value, ast.Constant) and isinstance(st.value.value, str):
                continue  # docstring
            if isinstance(st, ast.Expr) and isinstance(st.value, ast.Call) and \
                    isinstance(st.value.func, ast.Name) and st.value.func.id == "print":
                out.append("%s-- print(...) dropped (line %d)" % (ind, st.lineno))
                continue
            if isinstance(st, ast.Expr) and isinstance(st.value, ast.Call) and \
                    ast.unparse(st.value.func) == "warnings.warn":
                out.append("%s-- warnings.warn(...) dropped (line %d)" % (ind, st.lineno))
                continue
            if isinstance(st, ast.Pass):
                if tail is None:
                    out.append("%spure ()" % ind)
                continue
            if isinstance(st, ast.Delete):
                out.append("%s-- del ... dropped (line %d)" % (ind, st.lineno))
                continue
            if isinstance(st, ast.FunctionDef):
                for x in ast.walk(st):
                    if isinstance(x, (ast.Yield, ast.YieldFrom)):
                        raise Unsupported("nested generator %s" % st.name)
                self.local_fns[st.name] = st
                continue
            if isinstance(st, ast.Expr) and isinstance(st.value, ast.Call) and isinstance(st.value.func, ast.Attribute) \
                    and st.value.func.attr == "__init__" and isinstance(st.value.func.value, ast.Call) \
                    and isinstance(st.value.func.value.func, ast.Name) and st.value.func.value.func.id == "super":
                if self.super_init != "checkpointSchedule_init":
                    # the translated constructor of the base class: its fields become this object's fields
                    if self.super_init not in self.ctx.inits:
                        raise Unsupported("super().__init__ without a translated base constructor %s" % self.super_init)
                    bparams, bptypes, bfields, bftypes, bfuel = self.ctx.inits[self.super_init]
                    call = st.value
                    if call.keywords or len(call.args) != len(bparams):
                        raise Unsupported("super().__init__ with keywords / defaulted arguments")
                    args = []
                    for pn, a in zip(bparams, call.args):
                        pt = bptypes[pn]
                        if isnum(pt):
                            args.append(self.num_as(a, pt))
                        elif self.is_opt(pt):
                            args.append(self.expr(a) if (self.is_opt(self.etype(a)) or
                                                         (isinstance(a, ast.Constant) and a.value is None))
                                        else "(some %s)" % self.expr(a, "num"))
                        else:
                            args.append(self.expr(a))
                    if bfuel:
                        self.uses_fuel = True
                    tmp = "base_%d" % self.fresh()
                    out.append("%slet %s := (← %s%s %s)" % (ind, tmp, self.super_init, " fuel" if bfuel else "", " ".join(args)))
                    for i2, f2 in enumerate(bfields):
                        k = "self." + f2
                        self.vtypes[k] = bftypes[f2]
                        pr = ".2" * i2 + (".1" if i2 < len(bfields) - 1 else "")
                        if k in defined:
                            out.append("%s%s := %s%s" % (ind, self.vn(k), tmp, pr))
                        else:
                            out.append("%slet mut %s : %s := %s%s" % (ind, self.vn(k), ty_str(self.vtypes[k]), tmp, pr))
                            defined.add(k)
                    continue
                # CheckpointSchedule.__init__(self, max_n=None): the translated base constructor
                if "checkpointSchedule_init" not in self.ctx.fns_lean:
                    raise Unsupported("super().__init__ without a translated base constructor")
                call = st.value
                if call.keywords and not (len(call.keywords) == 1 and call.keywords[0].arg == "max_n" and not call.args):
                    raise Unsupported("super().__init__ with unexpected keywords")
                argn = call.args[0] if call.args else (call.keywords[0].value if call.keywords else None)
                if argn is None:
                    a = "none"
                elif self.is_opt(self.etype(argn)):
                    a = self.expr(argn)
                else:
                    a = "(some %s)" % self.expr(argn, "num")
                tmp = "base_%d" % self.fresh()
                out.append("%slet %s := (← checkpointSchedule_init %s)" % (ind, tmp, a))
                for f2, pr in (("n", ".1"), ("r", ".2.1"), ("max_n", ".2.2")):
                    k = "self." + f2
                    self.vtypes.setdefault(k, "Int" if f2 != "max_n" else ("opt", "Int"))
                    if k in defined:
                        out.append("%s%s := %s%s" % (ind, self.vn(k), tmp, pr))
                    else:
                        out.append("%slet mut %s : %s := %s%s" % (ind, self.vn(k), ty_str(self.vtypes[k]), tmp, pr))
                        defined.add(k)
                continue
            if isinstance(st, ast.Match):
                if not isinstance(st.subject, ast.Name):
                    raise Unsupported("match on an expression")
                out.append("%smatch %s with" % (ind, self.vn(st.subject.id)))
                for c in st.cases:
                    pt = c.pattern
                    if not (isinstance(pt, ast.MatchClass) and isinstance(pt.cls, ast.Name) and pt.cls.id in ACTIONS
                            and not pt.patterns and not pt.kwd_attrs and c.guard is None):
                        raise Unsupported("match pattern")
                    con, _, names = ACTIONS[pt.cls.id]
                    out.append("%s| .%s%s =>" % (ind, con, "".join(" cp_action_" + n2 for n2 in names)))
                    d2 = set(defined) | {"cp_action_" + n2 for n2 in names}
                    arm = self.block(c.body, ind + "    ", d2, in_loop=in_loop)
                    out.extend(arm if arm else ["%s    pure ()" % ind])
                continue
            if isinstance(st, ast.Expr) and isinstance(st.value, ast.Yield):
                if not self.gen:
                    raise Unsupported("yield outside a generator translation")
                self.emit_yield(st.value.value, ind, out)
                continue
            if isinstance(st, ast.Expr) and isinstance(st.value, ast.Call) and isinstance(st.value.func, ast.Attribute) \
                    and st.value.func.attr in ("insert", "insert_sequence") and len(st.value.args) == 1 \
                    and self.vtypes.get(self.vkey(st.value.func.value)) == ("list", ("struct", "PyOp")):
                k = self.vkey(st.value.func.value)
                if st.value.func.attr == "insert":
                    out.append("%s%s := %s ++ [%s]" % (ind, self.vn(k), self.vn(k), self.expr(st.value.args[0])))
                else:
                    out.append("%s%s := %s ++ %s" % (ind, self.vn(k), self.vn(k), self.expr(st.value.args[0])))
                continue
            if isinstance(st, ast.Expr) and isinstance(st.value, ast.Call) and isinstance(st.value.func, ast.Attribute) \
                    and st.value.func.attr == "append" and isinstance(st.value.func.value, ast.Subscript) \
                    and self.vkey(st.value.func.value.value) in self.vtypes and len(st.value.args) == 1:
                # X[i].append(v)
                arr = self.vkey(st.value.func.value.value)
                at = self.vtypes.get(arr)
                if self.is_opt(at):
                    raise Unsupported("append into an optional table")
                et = at[1][1] if at is not None and not isinstance(at, str) and at[0] == "list" and at[1] is not None \
                    and not isinstance(at[1], str) and at[1][0] == "list" else None
                v = self.num_as(st.value.args[0], et) if isnum(et) else self.expr(st.value.args[0])
                ix = self.expr(st.value.func.value.slice, "num")
                tmp = "app_%d" % self.fresh()
                out.append("%slet %s := %s" % (ind, tmp, v))
                out.append("%s%s := (← pySetAt %s %s ((← pyIndex %s %s) ++ [%s]))" % (
                    ind, self.vn(arr), self.vn(arr), ix, self.vn(arr), ix, tmp))
                continue
            if isinstance(st, ast.Expr) and isinstance(st.value, ast.Call) and isinstance(st.value.func, ast.Attribute) \
                    and self.vkey(st.value.func.value) in self.vtypes and st.value.func.attr in ("append", "pop"):
                k = self.vkey(st.value.func.value)
                if k not in defined:
                    raise Unsupported("list %s used before assignment" % k)
                if self.is_set(self.vtypes.get(k)):
                    raise Unsupported("list method on a set")
                if st.value.func.attr == "append" and len(st.value.args) == 1:
                    lt = self.vtypes.get(k)
                    et = lt[1] if lt is not None and not isinstance(lt, str) and lt[0] == "list" else None
                    v = self.num_as(st.value.args[0], et) if isnum(et) else self.expr(st.value.args[0])
                    out.append("%s%s := %s ++ [%s]" % (ind, self.vn(k), self.vn(k), v))
                elif st.value.func.attr == "pop" and not st.value.args:
                    out.append("%s%s := (← pyPop %s)" % (ind, self.vn(k), self.vn(k)))
                else:
                    raise Unsupported("list method call (line %d)" % st.lineno)
                continue
            if isinstance(st, ast.Expr) and isinstance(st.value, ast.Call) and isinstance(st.value.func, ast.Attribute) \
                    and self.vkey(st.value.func.value) in self.vtypes and st.value.func.attr in ("add", "remove", "discard") \
                    and self.is_set(self.vtypes.get(self.vkey(st.value.func.value))) and len(st.value.args) == 1:
                k = self.vkey(st.value.func.value)
                fnm = "pySetAdd" if st.value.func.attr == "add" else "(← pySetRemove"
                if st.value.func.attr == "add":
                    out.append("%s%s := pySetAdd %s %s" % (ind, self.vn(k), self.vn(k), self.expr(st.value.args[0], "num")))
                elif st.value.func.attr == "discard":
                    out.append("%s%s := %s.erase %s" % (ind, self.vn(k), self.vn(k), self.expr(st.value.args[0], "num")))
                else:
                    out.append("%s%s := (← pySetRemove %s %s)" % (ind, self.vn(k), self.vn(k), self.expr(st.value.args[0], "num")))
                continue
            if isinstance(st, ast.Assign) and len(st.targets) == 1 and isinstance(st.value, ast.Call) and \
                    isinstance(st.value.func, ast.Name) and st.value.func.id in self.local_fns:
                self.inline_call(st.value.func.id, st.value, st.targets[0], ind, defined, out)
                continue
            if isinstance(st, ast.Assign) and len(st.targets) == 1 and isinstance(st.targets[0], ast.Subscript) \
                    and self.etype(st.targets[0].value) == ("tab3",):
                tg = st.targets[0]
                arr = self.vkey(tg.value)
                ix = tg.slice
                if not (isinstance(ix, ast.Tuple) and len(ix.elts) == 3):
                    raise Unsupported("array assignment of an unexpected form")
                full = lambda z: isinstance(z, ast.Slice) and z.lower is None and z.upper is None and z.step is None  # noqa: E731
                if full(ix.elts[0]) and full(ix.elts[1]) and isinstance(ix.elts[2], ast.Constant):
                    out.append("%s%s := tab3Fill %s %d %s" % (ind, self.vn(arr), self.vn(arr), ix.elts[2].value,
                                                               self.expr(st.value, "num")))
                elif full(ix.elts[2]) and isinstance(st.value, ast.Tuple) and len(st.value.elts) == 3:
                    out.append("%s%s := (← tab3Set %s %s %s %s)" % (
                        ind, self.vn(arr), self.vn(arr), self.expr(ix.elts[0], "num"), self.expr(ix.elts[1], "num"),
                        "(" + ", ".join(self.expr(z, "num") for z in st.value.elts) + ")"))
                else:
                    raise Unsupported("array assignment of an unexpected form (line %d)" % st.lineno)
                continue
            if isinstance(st, ast.Assign) and len(st.targets) == 1 and isinstance(st.targets[0], ast.Subscript) \
                    and self.etype(st.targets[0].value) is not None and not isinstance(self.etype(st.targets[0].value), str) \
                    and self.etype(st.targets[0].value)[0] == "list":
                # X[i] = v, X[i][j] = v, X[i][j][k] = v on (nested) lists
                idx = []
                base = st.targets[0]
                while isinstance(base, ast.Subscript):
                    idx.append(base.slice)
                    base = base.value
                idx.reverse()
                arr = self.vkey(base)
                if arr is None or arr not in defined or self.is_opt(self.vtypes.get(arr)):
                    raise Unsupported("assignment into an unknown / optional list")
                et = self.etype(st.targets[0])
                v = self.num_as(st.value, et) if isnum(et) else self.expr(st.value)
                tmp = "set_%d" % self.fresh()
                out.append("%slet %s := %s" % (ind, tmp, v))
                ixs = []
                for z in idx:
                    nm = "ix_%d" % self.fresh()
                    out.append("%slet %s : Int := %s" % (ind, nm, self.expr(z, "num")))
                    ixs.append(nm)

                def build(cur, rest):
                    if len(rest) == 1:
                        return "(← pySetAt %s %s %s)" % (cur, rest[0], tmp)
                    inner = "(← pyIndex %s %s)" % (cur, rest[0])
                    return "(← pySetAt %s %s %s)" % (cur, rest[0], build(inner, rest[1:]))
                out.append("%s%s := %s" % (ind, self.vn(arr), build(self.vn(arr), ixs)))
                continue
            if isinstance(st, (ast.Assign, ast.AugAssign)):
                if isinstance(st, ast.Assign):
                    if len(st.targets) != 1:
                        raise Unsupported("chained assignment")
                    tgt, val = st.targets[0], self.expr(st.value)
                else:
                    tgt = st.target
                    val = self.expr(ast.BinOp(left=st.target, op=st.op, right=st.value))
                if isinstance(tgt, ast.Tuple):
                    vt = self.etype(st.value)
                    if vt == ("pyidx",):
                        vt = ("tuple", ["Int", "Int"])
                        val = "(← idxPair %s)" % self.expr(st.value)
                    if self.is_opt(vt):
                        vt = vt[1]
                        val = self.expr(st.value, "num")
                    if vt is None or isinstance(vt, str) or vt[0] != "tuple":
                        raise Unsupported("tuple assignment from a value of type %r" % (vt,))
                    tmp = "tup_%d" % self.fresh()
                    out.append("%slet %s := %s" % (ind, tmp, val))

                    def unpack(tg, ty, path):
                        if ty is None or isinstance(ty, str) or ty[0] != "tuple" or len(ty[1]) != len(tg.elts):
                            raise Unsupported("tuple assignment: shapes differ")
                        for i2, (te, ce) in enumerate(zip(tg.elts, ty[1])):
                            proj = path + ".2" * i2 + (".1" if i2 < len(tg.elts) - 1 else "")
                            if isinstance(te, ast.Tuple):
                                unpack(te, ce, proj)
                                continue
                            nme = self.vkey(te)
                            if nme is None:
                                raise Unsupported("assignment target")
                            if nme == "_":
                                continue
                            vty = self.vtypes.get(nme)
                            rhs = "%s%s" % (tmp, proj)
                            if self.is_opt(vty) and not self.is_opt(ce):
                                rhs = "(some %s)" % rhs
                            elif not self.is_opt(vty) and self.is_opt(ce):
                                rhs = "(← unwrap %s)" % rhs
                            if nme in defined:
                                out.append("%s%s := %s" % (ind, self.vn(nme), rhs))
                            else:
                                out.append("%slet mut %s : %s := %s" % (ind, self.vn(nme), ty_str(vty), rhs))
                                defined.add(nme)
                    unpack(tgt, vt, "")
                    continue
                k = self.vkey(tgt)
                if k is None:
                    raise Unsupported("assignment target %s" % type(tgt).__name__)
                t = self.vtypes.get(k)
                if self.is_opt(t) and not self.is_opt(self.etype(st.value if isinstance(st, ast.Assign) else tgt)) \
                        and isinstance(st, ast.Assign):
                    val = "(some %s)" % val
                if not self.is_opt(t) and isinstance(st, ast.Assign) and self.is_opt(self.etype(st.value)):
                    val = self.expr(st.value, "num")
                if t in ("Rat", "ER"):
                    val = self.num_as(st.value if isinstance(st, ast.Assign) else
                                      ast.BinOp(left=st.target, op=st.op, right=st.value), t)
                if isinstance(st, ast.Assign) and self.etype(st.value) == ("pyidx",) and (t == "Int" or t == ("opt", "Int")):
                    val = self.expr(st.value, "num")
                    if self.is_opt(t):
                        val = "(some %s)" % val
                if k in defined:
                    out.append("%s%s := %s" % (ind, self.vn(k), val))
                else:
                    out.append("%slet mut %s : %s := %s" % (ind, self.vn(k), ty_str(t), val))
                    defined.add(k)
                continue
            if isinstance(st, ast.If) and tail is not None and self.has_jump(st):
                # a branch leaves the loop body early: the rest of the body moves into both branches
                out.extend(self.if_push(st, ind, defined, rest, in_loop, tail))
                return out
            if isinstance(st, ast.If) and self.open_else(st) and self.exits(st) and (rest or tail is not None) \
                    and (not in_loop or tail is not None):
                # every branch of the `if` returns or raises: the rest of the block is its (missing) `else`
                # (no join point in the generated term: friendlier to proofs, same meaning)
                if tail is None:
                    out.extend(self.if_stmt(st, ind, defined, in_loop, tail=rest))
                else:
                    out.extend(self.if_push(st, ind, defined, rest, in_loop, tail))
                return out
            if isinstance(st, ast.If):
                # variables first assigned inside the branches and used later must be declared before
                for k in self.assigned([st]):
                    if k not in defined and self.live_after(k, rest):
                        out.append("%slet mut %s : %s := default  -- declared for use after the `if` (line %d)" % (
                            ind, self.vn(k), ty_str(self.vtypes.get(k)), st.lineno))
                        defined.add(k)
                out.extend(self.if_stmt(st, ind, defined, in_loop))
                continue
            if isinstance(st, ast.Return) and getattr(st, "_synthetic", False):
                if self.gen:
                    out.append("%sreturn out_" % ind)
                elif self.method_fields:
                    out.append("%sreturn (%s)" % (ind, ", ".join("self_" + f for f in self.method_fields)))
                else:
                    out.append("%sreturn none" % ind)
                if tail is not None:
                    return out
                continue
            if isinstance(st, ast.Return):
                if in_loop or self.gen:
                    raise Unsupported("return inside a loop / generator (line %d)" % st.lineno)
                if st.value is None:
                    out.append("%sreturn ()" % ind)
                elif self.ret in ("Rat", "ER") and isnum(self.etype(st.value)):
                    out.append("%sreturn %s" % (ind, self.num_as(st.value, self.ret)))
                elif self.ret_wrap and not self.is_opt(self.etype(st.value)):
                    out.append("%sreturn (some %s)" % (ind, self.expr(st.value)))
                elif self.is_opt(self.etype(st.value)) and not self.is_opt(self.ret):
                    out.append("%sreturn %s" % (ind, self.expr(st.value, "num")))
                else:
                    out.append("%sreturn %s" % (ind, self.expr(st.value)))
                if tail is not None:
                    return out
                continue
            if isinstance(st, ast.Raise):
                out.append("%sthrow %s" % (ind, self.exc(st.exc)))
                if tail is not None:
                    return out
                continue
            if isinstance(st, ast.Assert):
                pre = []
                c = self.cond(st.test, ind, pre)
                out.extend(pre)
                out.append("%sif ¬ %s then throw .assertionError" % (ind, c))
                continue
            if isinstance(st, ast.Continue):
                if tail is not None:
                    out.extend(tail["cont"](ind))
                    return out
                out.append("%scontinue" % ind)
                continue
            if isinstance(st, ast.Break):
                if tail is None:
                    raise Unsupported("break outside a while loop (line %d)" % st.lineno)
                out.extend(tail["brk"](ind))
                return out
            if isinstance(st, ast.For):
                out.extend(self.for_stmt(st, ind, defined, rest))
                continue
            if isinstance(st, ast.While):
                out.extend(self.while_stmt(st, ind, defined, rest))
                continue
            raise Unsupported("statement %s (line %d)" % (type(st).__name__, st.lineno))
        if tail is not None:
            out.extend(tail["cont"](ind))
        elif not out:
            out.append("%spure ()" % ind)
        return out

    def if_push(self, st, ind, defined, rest, in_loop, tail):
        """`if c: A else: B; rest` as `if c then (A; rest) else (B; rest)` (both in tail mode)"""
        out = []
        pre = []
        c = self.cond(st.test, ind, pre)
        out.extend(pre)
        out.append("%sif %s then" % (ind, c))
        out.extend(self.block(st.body + rest, ind + "  ", set(defined), in_loop, tail))
        out.append("%selse" % ind)
        out.extend(self.block(st.orelse + rest, ind + "  ", set(defined), in_loop, tail))
        return out

    def exc(self, e):
        name = None
        if isinstance(e, ast.Call) and isinstance(e.func, ast.Name):
            name = e.func.id
        elif isinstance(e, ast.Name):
            name = e.id
        m = {"ValueError": ".valueError", "RuntimeError": ".runtimeError", "AssertionError": ".assertionError",
             "IndexError": ".indexError", "KeyError": ".keyError", "TypeError": ".typeError",
             "StopIteration": ".stopIteration", "NotImplementedError": ".notImplementedError",
             "InvalidForwardStep": ".invalidForwardStep", "InvalidReverseStep": ".invalidReverseStep",
             "InvalidRevolverAction": ".invalidRevolverAction", "InvalidActionIndex": ".invalidActionIndex"}
        if name not in m:
            raise Unsupported("raise %s" % name)
        return m[name]

    def exits(self, st):
        """does every path through the statement end in `return` / `raise`? (an `if` without `else`: its body)"""
        if isinstance(st, (ast.Return, ast.Raise)):
            return True
        if isinstance(st, ast.If):
            if not (st.body and self.exits(st.body[-1])):
                return False
            if not st.orelse:
                return True
            return self.exits(st.orelse[-1])
        return False

    def always_exits(self, st):
        """every path through the statement ends in `return` / `raise` (an `if` needs a final `else`)"""
        if isinstance(st, (ast.Return, ast.Raise)):
            return True
        if isinstance(st, ast.If):
            return bool(st.body) and bool(st.orelse) and self.always_exits(st.body[-1]) and \
                self.always_exits(st.orelse[-1])
        return False

    def open_else(self, st):
        """the if / elif chain has no final `else`"""
        while True:
            if not st.orelse:
                return True
            if len(st.orelse) == 1 and isinstance(st.orelse[0], ast.If):
                st = st.orelse[0]
                continue
            return False

    def if_stmt(self, st, ind, defined, in_loop, tail=None):
        out = []
        pre = []
        c = self.cond(st.test, ind, pre)
        out.extend(pre)
        d1 = set(defined)
        body = self.block(st.body, ind + "  ", d1, in_loop)
        out.append("%sif %s then" % (ind, c))
        out.extend(body)
        if st.orelse:
            d2 = set(defined)
            if len(st.orelse) == 1 and isinstance(st.orelse[0], ast.If) and not self.effectful(st.orelse[0].test):
                sub = self.if_stmt(st.orelse[0], ind, d2, in_loop, tail=tail)
                out.append("%selse %s" % (ind, sub[0].lstrip()))
                out.extend(sub[1:])
            elif tail is not None:
                raise Unsupported("internal: tail with a final else")
            else:
                out.append("%selse" % ind)
                out.extend(self.block(st.orelse, ind + "  ", d2, in_loop))
        elif tail is not None:
            out.append("%selse" % ind)
            out.extend(self.block(tail, ind + "  ", set(defined), in_loop))
        return out

    def needs_pre(self, ifst):
        e = ifst.test
        return isinstance(e, ast.BoolOp) and any(self.effectful(v) for v in e.values[1:])

    def for_stmt(self, st, ind, defined, rest):
        if st.orelse:
            raise Unsupported("for/else")
        it = st.iter
        out = []
        body_assigned = self.assigned(st.body)
        for k in body_assigned:
            if k not in defined and self.live_after(k, rest):
                raise Unsupported("variable %s first assigned inside a loop and used after it" % k)
        if isinstance(it, ast.Call) and isinstance(it.func, ast.Name) and it.func.id == "range" \
                and isinstance(st.target, ast.Name):
            if len(it.args) == 1:
                a, b = "(0 : Int)", self.expr(it.args[0], "num")
            elif len(it.args) == 2:
                a, b = self.expr(it.args[0], "num"), self.expr(it.args[1], "num")
            elif len(it.args) == 3 and ast.unparse(it.args[2]) == "-1":
                a, b = self.expr(it.args[0], "num"), self.expr(it.args[1], "num")
                out.append("%sfor %s in pyRangeDown %s %s do" % (ind, self.vn(st.target.id), a, b))
                d = set(defined)
                d.add(st.target.id)
                out.extend(self.block(st.body, ind + "  ", d, in_loop=True))
                return out
            else:
                raise Unsupported("range with a step")
            out.append("%sfor %s in pyRange %s %s do" % (ind, self.vn(st.target.id), a, b))
            d = set(defined)
            d.add(st.target.id)
        elif isinstance(it, ast.Call) and isinstance(it.func, ast.Name) and it.func.id == "enumerate" \
                and isinstance(st.target, ast.Tuple) and len(st.target.elts) == 2 and len(it.args) == 1:
            i_, x_ = st.target.elts
            if not isinstance(i_, ast.Name) or not isinstance(x_, ast.Name):
                raise Unsupported("enumerate target")
            lst = self.expr(it.args[0])
            xn = "_x" if x_.id == "_" else self.vn(x_.id)
            out.append("%sfor (%s, %s) in (List.range %s.length).map (fun k => ((k : Int), %s.getD k default)) do" % (
                ind, self.vn(i_.id), xn, lst, lst) if False else
                "%sfor %s in pyRange 0 (%s.length : Int) do" % (ind, self.vn(i_.id), lst))
            if x_.id != "_":
                raise Unsupported("enumerate with a used element variable")
            d = set(defined)
            d.add(i_.id)
        elif isinstance(it, ast.Call) and isinstance(it.func, ast.Name) and it.func.id == "schedule_actions_" \
                and isinstance(st.target, ast.Name) and len(it.args) == 4:
            if "multistage_actions" not in self.ctx.fns_lean:
                raise Unsupported("the nested schedule's constructor / generator is not translated")
            self.uses_fuel = True
            out.append("%sfor %s in (← multistage_actions fuel %s) do" % (
                ind, self.vn(st.target.id), " ".join(self.expr(a, "num") for a in it.args)))
            d = set(defined)
            d.add(st.target.id)
        elif isinstance(it, ast.Call) and isinstance(it.func, ast.Name) and it.func.id == "sorted_desc_indices_" \
                and isinstance(st.target, ast.Name) and len(it.args) == 2:
            out.append("%sfor %s in pySortedDescIdx %s %s do" % (ind, self.vn(st.target.id), self.expr(it.args[0]),
                                                                 self.expr(it.args[1], "num")))
            d = set(defined)
            d.add(st.target.id)
        else:
            raise Unsupported("for over %s" % ast.dump(it)[:60])
        out.extend(self.block(st.body, ind + "  ", d, in_loop=True))
        return out

    def while_stmt(self, st, ind, defined, rest):
        if st.orelse:
            raise Unsupported("while/else")
        self.nwhile += 1
        self.uses_fuel = True
        name = "%s.while%d" % (self.lean_name, self.nwhile)
        yields = any(isinstance(x, ast.Yield) for x in ast.walk(st))
        forever = isinstance(st.test, ast.Constant) and st.test.value is True
        assigned = self.assigned(st.body)
        if yields:
            assigned = assigned + [k for k in ["out_"] + (["passes_left"] if self.gen.get("passes") else []) +
                                   (["self.n", "self.max_n"] if self.gen.get("online") else []) if k not in assigned]
        for x in ast.walk(st):   # lists changed by append / pop
            if isinstance(x, ast.Call) and isinstance(x.func, ast.Attribute) and \
                    x.func.attr in ("append", "pop", "add", "remove", "discard", "insert", "insert_sequence"):
                k = self.vkey(x.func.value.value if isinstance(x.func.value, ast.Subscript) else x.func.value)
                if k in self.vtypes and k not in assigned:
                    assigned.append(k)
        for fn in self.local_fns.values():   # and by inlined local functions
            called = any(isinstance(x, ast.Call) and isinstance(x.func, ast.Name) and x.func.id == fn.name
                         for x in ast.walk(st))
            if called:
                for k in self.assigned(fn.body) + [self.vkey(x.func.value) for x in ast.walk(fn)
                                                   if isinstance(x, ast.Call) and isinstance(x.func, ast.Attribute)
                                                   and x.func.attr in ("append", "pop", "add", "remove", "discard")]:
                    if k in self.vtypes and k not in assigned:
                        assigned.append(k)
        pre_decl = []
        for k in [k for k in assigned if k not in defined]:
            if self.reads_before_write(k, st.body):
                # read in an iteration before it is assigned in that iteration: the value of an EARLIER iteration
                # (Python: UnboundLocalError if there was none; here: a default value)
                pre_decl.append("%slet mut %s : %s := default  -- loop-carried, first assigned inside the loop (line %d)" % (
                    ind, self.vn(k), ty_str(self.vtypes.get(k)), st.lineno))
                defined.add(k)
        mutated = [k for k in assigned if k in defined]
        local = [k for k in assigned if k not in defined]
        for k in local:
            if self.live_after(k, rest):
                raise Unsupported("variable %s first assigned inside a loop and used after it" % k)
        used = self.used([st.test] + st.body)
        for fn in self.local_fns.values():
            if any(isinstance(x, ast.Call) and isinstance(x.func, ast.Name) and x.func.id == fn.name
                   for x in ast.walk(st)):
                used += [k for k in self.used(fn.body) if k not in used]
        if yields:
            used += [k for k in ["self.n", "self.r"] + (["self.exhausted"] if "self.exhausted" in self.vtypes else [])
                     if k not in used]
            if self.gen.get("online") and "clientN" not in used:
                used.append("clientN")
        readonly = [k for k in used if k in defined and k not in mutated]
        if not mutated:
            raise Unsupported("while loop that changes nothing")
        for x in ast.walk(st):
            if isinstance(x, ast.Return):
                raise Unsupported("return inside while (line %d)" % x.lineno)
        st_ty = " × ".join(ty_str(self.vtypes[k]) for k in mutated)
        st_pat = ", ".join(self.vn(k) for k in mutated)
        ro = "".join(" (%s : %s)" % (self.vn(k), ty_str(self.vtypes[k])) for k in readonly)
        roargs = "".join(" " + self.vn(k) for k in readonly)
        lines = []
        lines.append("/-- the `while` loop at line %d of `%s` -/" % (st.lineno, self.pname))
        lines.append("def %s%s : Nat → (%s) → M (%s)" % (name, ro, st_ty, st_ty))
        lines.append("  | 0, _ => throw .fuel")
        lines.append("  | fuel+1, (%s) => do" % st_pat)
        pre = []
        if forever and self.gen.get("passes"):
            c = "(passes_left > (0 : Int))"
        else:
            c = self.cond(st.test, "    ", pre)
        lines.extend(pre)
        lines.append("    if %s then" % c)
        d = set(defined)
        for k in mutated:
            lines.append("      let mut %s := %s" % (self.vn(k), self.vn(k)))
        tail = {"cont": lambda i2: ["%s%s%s fuel (%s)" % (i2, name, roargs, st_pat)],
                "brk": lambda i2: ["%spure (%s)" % (i2, st_pat)]}
        lines.extend(self.block(st.body, "      ", d, in_loop=True, tail=tail))
        lines.append("    else pure (%s)" % st_pat)
        self.aux.append("\n".join(lines))
        return pre_decl + ["%s(%s) ← %s%s fuel (%s)" % (ind, st_pat, name, roargs, st_pat)]

    # ---- the whole function ----
    def translate(self):
        body_stmts = self.node.body
        defined = set(self.params)
        for f in self.self_fields:
            defined.add("self." + f)
        ind = "    " if self.recursive else "  "
        pre = []
        # parameters that are re-assigned must become `let mut`
        reassigned = [k for k in self.assigned(body_stmts) if k in self.params]
        reassigned += [k for k in self.assigned(body_stmts) if k.startswith("self.") and k in defined]
        if self.gen.get("online"):
            reassigned += [k for k in ("self.n", "self.max_n") if k not in reassigned]
        if self.gen:
            defined.update(["out_"])
            pre.append("%slet mut out_ : List PyEv := []" % ind)
            if self.gen.get("passes"):
                defined.update(["passes_left", "passes"])
                pre.append("%slet mut passes_left : Int := passes" % ind)
            if self.gen.get("online"):
                defined.add("clientN")
        if self.cache_step:
            pre.append("%s-- @cache_step (mixed.py): the wrapper's `s = min(s, n - 1)`; the memo table is elided" % ind)
            pre.append("%slet s : Int := min s (n - 1)" % ind)
        for k in reassigned:
            pre.append("%slet mut %s := %s" % (ind, self.vn(k), self.vn(k)))
        if self.ret_wrap or self.method_fields:
            fin = ast.Return(value=ast.Constant(value=None))
            fin._synthetic = True
            fin.lineno = self.node.end_lineno
            body_stmts = list(body_stmts) + [fin]
        if self.gen:
            fin = ast.Return(value=ast.Name(id="out_", ctx=ast.Load()))
            fin._synthetic = True
            fin.lineno = self.node.end_lineno
            body_stmts = list(body_stmts) + [fin]
        body = self.block(body_stmts, ind, defined)
        return pre + body

    def emit(self):
        if self.gen:
            self.ret = ("list", "PyEv")
        if self.method_fields:
            self.ret = ("tuple", [self.vtypes.get("self." + f) for f in self.method_fields]) \
                if len(self.method_fields) > 1 else self.vtypes.get("self." + self.method_fields[0])
        body = self.translate()
        params = "".join(" (%s : %s)" % (self.vn(p), ty_str(self.ptypes[p])) for p in self.params)
        for f, t in self.self_fields.items():
            params += " (self_%s : %s)" % (f, ty_str(t))
        for nm, (_, _, lty) in self.oracles.items():
            params += " (%s : %s)" % (nm, lty)
        if self.gen.get("passes"):
            params += " (passes : Int)"
        if self.gen.get("online"):
            params += " (clientN : Int)"
        ret = ty_str(self.ret) if self.ret != "Unit" else "Unit"
        hdr = "/-- `%s` (%s) -/" % (self.pname, self.src)
        fuel = self.uses_fuel
        lines = []
        lines.extend(self.aux)
        lines.append(hdr)
        if self.recursive:
            tys = " → ".join(["Nat"] + [ty_str(self.ptypes[p]) for p in self.params] + ["M %s" % ret])
            lines.append("def %s : %s" % (self.lean_name, tys))
            lines.append("  | 0%s => throw .fuel" % "".join(", _" for _ in self.params))
            lines.append("  | fuel+1%s => do" % "".join(", " + self.vn(p) for p in self.params))
        else:
            lines.append("def %s%s%s : M %s := do" % (self.lean_name, " (fuel : Nat)" if fuel else "", params, ret))
        lines.extend(body)
        return "\n\n".join(["\n".join(lines)]) if not self.aux else "\n\n".join(self.aux + ["\n".join(lines[len(self.aux):])]), fuel


def prune_constants(fn, env, fold_bools=False):
    """Specialise a function body to module-level names with a known constant value (here: `numba = None`, the
    library's own fallback when numba is not installed): tests `X is None` on such names are decided, the dead
    branch is dropped, and a local that is assigned exactly once, to `None`, is treated the same way."""
    import copy
    fn = copy.deepcopy(fn)
    env = dict(env)
    for _ in range(4):
        counts = {}
        for x in ast.walk(fn):
            tg = []
            if isinstance(x, ast.Assign):
                tg = [(t, x.value) for t in x.targets]
            elif isinstance(x, ast.AugAssign):
                tg = [(x.target, None)]
            for t, v in tg:
                for y in (t.elts if isinstance(t, ast.Tuple) else [t]):
                    if isinstance(y, ast.Name):
                        counts.setdefault(y.id, []).append(v)
        for k, vs in counts.items():
            if len(vs) == 1 and isinstance(vs[0], ast.Constant) and vs[0].value is None and k not in env:
                env[k] = None
            if len(vs) == 1 and isinstance(vs[0], ast.Constant) and isinstance(vs[0].value, bool) and k not in env \
                    and fold_bools:
                env[k] = vs[0].value

        class T(ast.NodeTransformer):
            def visit_Compare(s2, node):
                s2.generic_visit(node)
                if ast.unparse(node) == "__name__ == '__main__'":
                    return ast.copy_location(ast.Constant(value=False), node)
                if isinstance(node.left, ast.Name) and node.left.id in env and env[node.left.id] is None \
                        and len(node.ops) == 1 and isinstance(node.comparators[0], ast.Constant) \
                        and node.comparators[0].value is None and isinstance(node.ops[0], (ast.Is, ast.IsNot)):
                    return ast.copy_location(ast.Constant(value=isinstance(node.ops[0], ast.Is)), node)
                return node

            def visit_Name(s2, node):
                if isinstance(node.ctx, ast.Load) and isinstance(env.get(node.id, 0), bool):
                    return ast.copy_location(ast.Constant(value=env[node.id]), node)
                return node

            def visit_UnaryOp(s2, node):
                s2.generic_visit(node)
                if isinstance(node.op, ast.Not) and isinstance(node.operand, ast.Constant) \
                        and isinstance(node.operand.value, bool):
                    return ast.copy_location(ast.Constant(value=not node.operand.value), node)
                return node

            def visit_BoolOp(s2, node):
                s2.generic_visit(node)
                isand = isinstance(node.op, ast.And)
                vals = []
                for v in node.values:
                    if isinstance(v, ast.Constant) and isinstance(v.value, bool):
                        if v.value != isand:      # False in an `and`, True in an `or`: decides the whole
                            return ast.copy_location(ast.Constant(value=v.value), node)
                        continue                   # neutral element
                    vals.append(v)
                if not vals:
                    return ast.copy_location(ast.Constant(value=isand), node)
                if len(vals) == 1:
                    return vals[0]
                node.values = vals
                return node

            def visit_If(s2, node):
                s2.generic_visit(node)
                if isinstance(node.test, ast.Name) and isinstance(env.get(node.test.id, 0), bool):
                    node.test = ast.copy_location(ast.Constant(value=env[node.test.id]), node.test)
                if isinstance(node.test, ast.UnaryOp) and isinstance(node.test.op, ast.Not) and \
                        isinstance(node.test.operand, ast.Name) and isinstance(env.get(node.test.operand.id, 0), bool):
                    node.test = ast.copy_location(ast.Constant(value=not env[node.test.operand.id]), node.test)
                if isinstance(node.test, ast.Constant) and isinstance(node.test.value, bool):
                    return node.body if node.test.value else (node.orelse or [ast.copy_location(ast.Pass(), node)])
                return node

            def visit_Assign(s2, node):
                s2.generic_visit(node)
                if len(node.targets) == 1 and isinstance(node.targets[0], ast.Name) and node.targets[0].id in env \
                        and node.targets[0].id in counts:
                    return ast.copy_location(ast.Pass(), node)
                return node
        fn = T().visit(fn)
        ast.fix_missing_locations(fn)
    return fn


def split_dict_keys(fn):
    """`X, n = a.index` / `X = 1` … `X = {0: A, 1: B}[X]`: the variable changes its type (key -> value).  The key
    gets its own name `X_key` (in the subscript and in the closest preceding assignment of the same block)."""
    import copy
    fn = copy.deepcopy(fn)

    def fix(stmts):
        for i, st in enumerate(stmts):
            for sub in ("body", "orelse"):
                if isinstance(getattr(st, sub, None), list):
                    fix(getattr(st, sub))
            if isinstance(st, ast.Assign) and len(st.targets) == 1 and isinstance(st.targets[0], ast.Name) \
                    and isinstance(st.value, ast.Subscript) and isinstance(st.value.value, ast.Dict) \
                    and isinstance(st.value.slice, ast.Name) and st.value.slice.id == st.targets[0].id:
                x = st.targets[0].id
                st.value.slice = ast.copy_location(ast.Name(id=x + "_key", ctx=ast.Load()), st.value.slice)
                for prev in reversed(stmts[:i]):
                    done = False
                    if isinstance(prev, ast.Assign):
                        for t in prev.targets:
                            for y in ([t] if isinstance(t, ast.Name) else list(ast.walk(t))):
                                if isinstance(y, ast.Name) and y.id == x and isinstance(y.ctx, ast.Store):
                                    y.id = x + "_key"
                                    done = True
                    if done:
                        break
    fix(fn.body)
    return fn


def inline_revolver_params(fn, utils_tree):
    """`params = revolver_parameters(wd, rd, uf, ub); parameters = dict(params); … parameters["uf"] …`: every subscript
    with a constant key is replaced by the value the dict literal of utils.revolver_parameters gives it (formal
    parameters substituted by the actual arguments); the `Sequence(Function(...), concat=…)` constructor becomes the empty
    operation list and `operation = partial(Op, params=…)` disappears (`operation(type, index)` builds a `PyOp`)."""
    import copy
    fn = copy.deepcopy(fn)
    rp = find_def(utils_tree, "revolver_parameters")
    formals = [a.arg for a in rp.args.args]
    lit = None
    for st in ast.walk(rp):
        if isinstance(st, ast.Dict):
            lit = st
            break
    if lit is None:
        raise Unsupported("revolver_parameters no longer builds a dict literal")
    table = {k.value: v for k, v in zip(lit.keys, lit.values) if isinstance(k, ast.Constant)}
    names = {}
    for st in ast.walk(fn):
        if isinstance(st, ast.Assign) and len(st.targets) == 1 and isinstance(st.targets[0], ast.Name) \
                and isinstance(st.value, ast.Call) and isinstance(st.value.func, ast.Name):
            if st.value.func.id == "revolver_parameters" and len(st.value.args) == len(formals) and not st.value.keywords:
                names[st.targets[0].id] = dict(zip(formals, st.value.args))
            elif st.value.func.id == "dict" and len(st.value.args) == 1 and isinstance(st.value.args[0], ast.Name) \
                    and st.value.args[0].id in names:
                names[st.targets[0].id] = names[st.value.args[0].id]

    class Sub(ast.NodeTransformer):
        def visit_Subscript(s2, node):
            s2.generic_visit(node)
            if isinstance(node.value, ast.Name) and node.value.id in names and isinstance(node.slice, ast.Constant):
                key = node.slice.value
                if key not in table:
                    return node      # only legal in code that constant folding removes
                actual = names[node.value.id]

                class Arg(ast.NodeTransformer):
                    def visit_Name(s3, n2):
                        return copy.deepcopy(actual[n2.id]) if n2.id in actual else n2
                return ast.copy_location(Arg().visit(copy.deepcopy(table[key])), node)
            return node

        def visit_Assign(s2, node):
            s2.generic_visit(node)
            if len(node.targets) == 1 and isinstance(node.targets[0], ast.Name):
                t, v = node.targets[0].id, node.value
                if t in names and isinstance(v, ast.Call) and isinstance(v.func, ast.Name) and \
                        v.func.id in ("revolver_parameters", "dict"):
                    return ast.copy_location(ast.Pass(), node)
                if isinstance(v, ast.Call) and isinstance(v.func, ast.Name) and v.func.id == "partial" and v.args \
                        and isinstance(v.args[0], ast.Name) and v.args[0].id in ("Op", "Operation"):
                    return ast.copy_location(ast.Pass(), node)
                if isinstance(v, ast.Call) and isinstance(v.func, ast.Name) and v.func.id == "Sequence":
                    node.value = ast.copy_location(ast.Call(func=ast.Name(id="Sequence", ctx=ast.Load()), args=[], keywords=[]), v)
            return node
    fn = Sub().visit(fn)
    ast.fix_missing_locations(fn)
    return fn


KW_KEYS = ["uf", "ub"]


def expand_kwargs(fn, utils_tree):
    """`def f(…, **params)` whose body reads `params["uf"]`, `params["ub"]` (and `params["concat"]` inside the `Sequence`
    constructor only): the keyword dictionary becomes the two explicit parameters `uf`, `ub`; `x = params["x"]`
    disappears, `parameters = dict(params)` is an alias, a call `g(…, **params)` passes `uf=uf, ub=ub`.  In a function
    WITHOUT `**params`, `params = revolver_parameters(a, b, c, d)` followed by `g(…, **params)` passes the values
    the dict literal of utils.revolver_parameters gives these keys."""
    import copy
    fn = copy.deepcopy(fn)
    has_kw = fn.args.kwarg is not None
    aliases = set()
    actual = None
    if has_kw:
        aliases.add(fn.args.kwarg.arg)
        fn.args.kwarg = None
        fn.args.args = fn.args.args + [ast.arg(arg=k) for k in KW_KEYS]
        fn.args.defaults = list(fn.args.defaults)
    rp = find_def(utils_tree, "revolver_parameters")
    formals = [a.arg for a in rp.args.args]
    lit = None
    for st in ast.walk(rp):
        if isinstance(st, ast.Dict):
            lit = st
            break
    if lit is None:
        raise Unsupported("revolver_parameters no longer builds a dict literal")
    table = {k.value: v for k, v in zip(lit.keys, lit.values) if isinstance(k, ast.Constant)}
    for st in ast.walk(fn):
        if isinstance(st, ast.Assign) and len(st.targets) == 1 and isinstance(st.targets[0], ast.Name) \
                and isinstance(st.value, ast.Call) and isinstance(st.value.func, ast.Name):
            if st.value.func.id == "dict" and len(st.value.args) == 1 and isinstance(st.value.args[0], ast.Name) \
                    and st.value.args[0].id in aliases:
                aliases.add(st.targets[0].id)
            elif st.value.func.id == "revolver_parameters" and not has_kw and len(st.value.args) == len(formals) \
                    and not st.value.keywords:
                aliases.add(st.targets[0].id)
                actual = dict(zip(formals, st.value.args))

    def value_of(key):
        if has_kw:
            return ast.Name(id=key, ctx=ast.Load())
        if key not in table:
            raise Unsupported("revolver_parameters gives no %s" % key)

        class Arg(ast.NodeTransformer):
            def visit_Name(s3, n2):
                return copy.deepcopy(actual[n2.id]) if n2.id in actual else n2
        return Arg().visit(copy.deepcopy(table[key]))

    class Sub(ast.NodeTransformer):
        def visit_Assign(s2, node):
            if len(node.targets) == 1 and isinstance(node.targets[0], ast.Name):
                t, v = node.targets[0].id, node.value
                if isinstance(v, ast.Subscript) and isinstance(v.value, ast.Name) and v.value.id in aliases \
                        and isinstance(v.slice, ast.Constant) and v.slice.value == t and t in KW_KEYS and has_kw:
                    return ast.copy_location(ast.Pass(), node)
                if t in aliases and isinstance(v, ast.Call) and isinstance(v.func, ast.Name) and \
                        v.func.id in ("dict", "revolver_parameters"):
                    return ast.copy_location(ast.Pass(), node)
                if isinstance(v, ast.Call) and isinstance(v.func, ast.Name) and v.func.id == "partial" and v.args \
                        and isinstance(v.args[0], ast.Name) and v.args[0].id in ("Op", "Operation"):
                    return ast.copy_location(ast.Pass(), node)
                if isinstance(v, ast.Call) and isinstance(v.func, ast.Name) and v.func.id == "Sequence":
                    node.value = ast.copy_location(ast.Call(func=ast.Name(id="Sequence", ctx=ast.Load()), args=[], keywords=[]), v)
                    return node
            s2.generic_visit(node)
            return node

        def visit_Call(s2, node):
            s2.generic_visit(node)
            kws = []
            for kw in node.keywords:
                if kw.arg is None:
                    if not (isinstance(kw.value, ast.Name) and kw.value.id in aliases):
                        raise Unsupported("** of something else than the parameter dictionary")
                    kws.extend(ast.keyword(arg=k, value=value_of(k)) for k in KW_KEYS)
                else:
                    kws.append(kw)
            node.keywords = kws
            return node
    fn = Sub().visit(fn)
    for x in ast.walk(fn):
        if isinstance(x, ast.Name) and x.id in aliases:
            raise Unsupported("the parameter dictionary %s is used in a way the translator has no rule for" % x.id)
    ast.fix_missing_locations(fn)
    return fn


def last_leaf_pattern(fn):
    """`aux = sequence; while aux.type == 'Function': aux = aux.sequence[-1]` followed by uses of `aux.type`: the walk
    to the last leaf of the sequence tree.  With a Sequence as the flattened operation list this is its last
    element (IndexError if empty, as `aux.sequence[-1]` of an empty sub-sequence): the two statements become
    `aux = seq_last(sequence)`."""
    import copy
    fn = copy.deepcopy(fn)

    def fix(stmts):
        i = 0
        while i < len(stmts):
            st = stmts[i]
            for sub in ("body", "orelse"):
                if isinstance(getattr(st, sub, None), list):
                    fix(getattr(st, sub))
            if i + 1 < len(stmts) and isinstance(st, ast.Assign) and len(st.targets) == 1 \
                    and isinstance(st.targets[0], ast.Name) and isinstance(st.value, ast.Name) \
                    and isinstance(stmts[i + 1], ast.While):
                a, w = st.targets[0].id, stmts[i + 1]
                if ast.unparse(w.test) in ("%s.type == 'Function'" % a,) and len(w.body) == 1 and not w.orelse \
                        and ast.unparse(w.body[0]) == "%s = %s.sequence[-1]" % (a, a):
                    st.value = ast.copy_location(ast.Call(func=ast.Name(id="seq_last", ctx=ast.Load()),
                                                          args=[st.value], keywords=[]), st.value)
                    del stmts[i + 1]
            i += 1
    fix(fn.body)
    ast.fix_missing_locations(fn)
    return fn


def const_defaults(node):
    """{parameter: constant} for the parameters of `node` that have a constant default"""
    pos = node.args.args
    out = {}
    for a, d in zip(pos[len(pos) - len(node.args.defaults):], node.args.defaults):
        if isinstance(d, ast.Constant):
            out[a.arg] = d
    for a, d in zip(node.args.kwonlyargs, node.args.kw_defaults):
        if isinstance(d, ast.Constant):
            out[a.arg] = d
    return out


DRIVER_EXPECTED = """while True:
    cp_action = next(cp_schedule)
    action(cp_action)
    if isinstance(cp_action, EndReverse):
        break"""
SORTED_EXPECTED = "sorted(enumerate(weights), key=itemgetter(1), reverse=True)[:snapshots_in_ram]"


def preprocess_allocate(fn):
    """`allocate_snapshots` (multistage.py): the dry run of a nested schedule object through `functools.singledispatch`
    handlers.  Rewritten (each shape is compared with the expected text, anything else is Unsupported) into
        for cp_action in schedule_actions_(<constructor arguments>):      # the driver loop, see `multistage_actions`
            match cp_action:  case Copy(): <body of the handler registered for Copy> …   # cp_action.x ↦ the field
        for i in sorted_desc_indices_(weights, snapshots_in_ram): …       # sorted(enumerate(w), key=itemgetter(1), reverse=True)[:k]
    `nonlocal` declarations disappear (the handlers are inlined), `w[i] += x` ↦ `w[i] = w[i] + x`."""
    import copy
    fn = copy.deepcopy(fn)
    handlers = {}
    default = None
    ctor = None
    body = []
    disp = None
    for st in fn.body:
        if isinstance(st, ast.FunctionDef):
            decos = [ast.unparse(d) for d in st.decorator_list]
            if decos == ["functools.singledispatch"]:
                if len(st.args.args) != 1:
                    raise Unsupported("dispatch function with several parameters")
                disp = st.name
                default = (st.args.args[0].arg, st.body)
                continue
            regs = []
            for d in st.decorator_list:
                if isinstance(d, ast.Call) and isinstance(d.func, ast.Attribute) and d.func.attr == "register" \
                        and isinstance(d.func.value, ast.Name) and d.func.value.id == disp and len(d.args) == 1 \
                        and isinstance(d.args[0], ast.Name) and d.args[0].id in ACTIONS:
                    regs.append(d.args[0].id)
                else:
                    raise Unsupported("decorator %s of a nested function" % ast.unparse(d))
            if not regs or len(st.args.args) != 1:
                raise Unsupported("nested function %s" % st.name)
            hb = [b for b in st.body if not isinstance(b, ast.Nonlocal)]
            for c in regs:
                if c in handlers:
                    raise Unsupported("two handlers for %s" % c)
                handlers[c] = (st.args.args[0].arg, hb)
            continue
        if isinstance(st, ast.Assign) and len(st.targets) == 1 and isinstance(st.targets[0], ast.Name) \
                and st.targets[0].id == "cp_schedule":
            v = st.value
            if not (isinstance(v, ast.Call) and isinstance(v.func, ast.Name) and v.func.id == "MultistageCheckpointSchedule"
                    and len(v.args) == 3 and [k.arg for k in v.keywords] == ["trajectory"]):
                raise Unsupported("construction of the nested schedule changed")
            ctor = list(v.args) + [v.keywords[0].value]
            continue
        if isinstance(st, ast.While):
            if ast.unparse(st) != DRIVER_EXPECTED or disp != "action" or ctor is None:
                raise Unsupported("the driver loop of allocate_snapshots changed")
            cases = []
            for cls in ACTIONS:
                par, hb = handlers.get(cls, default)
                fields = ACTIONS[cls][2]

                class Ren(ast.NodeTransformer):
                    def visit_Attribute(s2, node):
                        s2.generic_visit(node)
                        if isinstance(node.value, ast.Name) and node.value.id == par:
                            if node.attr not in fields:
                                raise Unsupported("attribute %s of a %s action" % (node.attr, cls))
                            return ast.copy_location(ast.Name(id="cp_action_" + node.attr, ctx=node.ctx), node)
                        return node

                    def visit_AugAssign(s2, node):
                        s2.generic_visit(node)
                        if isinstance(node.target, ast.Subscript):
                            ld = copy.deepcopy(node.target)
                            ld.ctx = ast.Load()
                            return ast.copy_location(ast.Assign(targets=[node.target], value=ast.BinOp(left=ld, op=node.op, right=node.value)), node)
                        return node
                hb2 = [Ren().visit(copy.deepcopy(b)) for b in hb]
                for b in hb2:
                    for x in ast.walk(b):
                        if isinstance(x, ast.Name) and x.id == par:
                            raise Unsupported("the action object itself is used in a handler")
                cases.append(ast.match_case(pattern=ast.MatchClass(cls=ast.Name(id=cls, ctx=ast.Load()), patterns=[], kwd_attrs=[], kwd_patterns=[]),
                                            guard=None, body=hb2))
            loop = ast.For(target=ast.Name(id="cp_action", ctx=ast.Store()),
                           iter=ast.Call(func=ast.Name(id="schedule_actions_", ctx=ast.Load()), args=ctor, keywords=[]),
                           body=[ast.Match(subject=ast.Name(id="cp_action", ctx=ast.Load()), cases=cases)], orelse=[])
            body.append(ast.copy_location(loop, st))
            continue
        if isinstance(st, ast.For) and isinstance(st.iter, ast.Subscript) and "sorted" in ast.unparse(st.iter):
            if ast.unparse(st.iter) != SORTED_EXPECTED or ast.unparse(st.target) != "(i, _)":
                raise Unsupported("the sorted(...) loop of allocate_snapshots changed")
            st.iter = ast.Call(func=ast.Name(id="sorted_desc_indices_", ctx=ast.Load()),
                               args=[ast.Name(id="weights", ctx=ast.Load()), ast.Name(id="snapshots_in_ram", ctx=ast.Load())], keywords=[])
            st.target = ast.Name(id="i", ctx=ast.Store())
            body.append(st)
            continue
        body.append(st)
    if ctor is None or not handlers:
        raise Unsupported("allocate_snapshots no longer has the expected structure")
    fn.body = body
    ast.fix_missing_locations(fn)
    return fn


def find_def(tree, qual):
    parts = qual.split(".")
    body = tree.body
    node = None
    for p in parts:
        node = None
        for x in body:
            if isinstance(x, (ast.FunctionDef, ast.ClassDef)) and x.name == p:
                node = x
                break
        if node is None:
            raise Unsupported("definition %s not found" % qual)
        body = node.body
    return node


def norm_dump(node):
    """AST dump without docstrings / positions"""
    node = ast.parse(ast.unparse(node))
    for x in ast.walk(node):
        if isinstance(x, (ast.FunctionDef, ast.ClassDef, ast.Module)) and x.body and isinstance(x.body[0], ast.Expr) \
                and isinstance(x.body[0].value, ast.Constant) and isinstance(x.body[0].value.value, str):
            x.body = x.body[1:] or [ast.Pass()]
    return ast.dump(node)


# expected shape of `cache_step` (mixed.py): any change breaks the translation rule for decorated functions
CACHE_STEP_EXPECTED = """def cache_step(fn):
    _cache = {}

    @functools.wraps(fn)
    def wrapped_fn(n, s):
        s = min(s, n - 1)
        if (n, s) not in _cache:
            _cache[(n, s)] = fn(n, s)
        return _cache[(n, s)]

    return wrapped_fn
"""

HTAB = ("opt", ("list", ("list", ("list", "ER"))))
HREV_T = {"cvect": ("list", "Int"), "wvect": ("list", "Rat"), "rvect": ("list", "Rat"), "hoptp": HTAB, "hopt": HTAB,
          "uf": "Rat", "ub": "Rat"}

# (file, qualified name, lean name, parameter types, options)
FUNCTIONS = [
    ("multistage.py", "optimal_extra_steps", "optimal_extra_steps", {}, {"recursive": True, "cache_step": True}),
    ("multistage.py", "optimal_steps_binomial", "optimal_steps_binomial", {}, {}),
    ("multistage.py", "n_advance", "n_advance", {"trajectory": "String"}, {}),
    ("mixed.py", "optimal_steps_mixed", "optimal_steps_mixed", {}, {"recursive": True, "cache_step": True}),
    ("mixed.py", "mixed_step_memoization", "mixed_step_memoization", {}, {"recursive": True, "cache_step": True}),
    ("hrevolve_sequences/basic_functions.py", "argmin", "argmin", {"list": ("list", "Int")}, {}),
    ("mixed.py", "mixed_steps_tabulation", "mixed_steps_tabulation", {}, {}),
    ("hrevolve_sequences/basic_functions.py", "beta", "beta", {}, {}),
    ("hrevolve_sequences/revolve.py", "get_opt_0_table", "get_opt_0_table", {"uf": "Rat", "ub": "Rat"},
     {"consts": {"print_table": None}, "drop_params": ["print_table"]}),
    ("hrevolve_sequences/disk_revolve.py", "get_opt_inf_table", "get_opt_inf_table",
     {"uf": "Rat", "ub": "Rat", "rd": "Rat", "wd": "Rat", "opt_0": ("opt", ("list", ("list", "Rat")))},
     {"consts": {"print_table": None, "one_read_disk": True, "opt_1d": None},
      "drop_params": ["print_table", "one_read_disk", "opt_1d"]}),
    ("hrevolve_sequences/hrevolve.py", "get_hopt_table", "get_hopt_table",
     {"cvect": ("list", "Int"), "wvect": ("list", "Rat"), "rvect": ("list", "Rat"), "ub": "Rat", "uf": "Rat"}, {}),
    ("hrevolve_sequences/basic_functions.py", "argmin", "argmin_rat", {"list": ("list", "Rat")}, {}),
    ("hrevolve_sequences/revolve.py", "revolve", "revolve",
     {"rd": "Rat", "wd": "Rat", "fwd_cost": "Rat", "bwd_cost": "Rat", "opt_0": ("opt", ("list", ("list", "Rat")))},
     {"recursive": True, "revolver_params": True, "consts": {}, "fold_bools": True}),
    ("hrevolve_sequences/disk_revolve.py", "disk_revolve", "disk_revolve",
     {"rd": "Rat", "wd": "Rat", "fwd_cost": "Rat", "bwd_cost": "Rat", "opt_0": ("opt", ("list", ("list", "Rat"))),
      "opt_inf": ("opt", ("list", "Rat"))},
     {"recursive": True, "revolver_params": True, "consts": {"opt_1d": None}, "drop_params": ["opt_1d"], "fold_bools": True}),
    ("hrevolve_sequences/periodic_disk_revolve.py", "mxrr_close_formula", "mxrr_close_formula",
     {"uf": "Rat", "rd": "Rat", "wd": "Rat"}, {}),
    ("hrevolve_sequences/periodic_disk_revolve.py", "periodic_disk_revolve", "periodic_disk_revolve",
     {"rd": "Rat", "wd": "Rat", "uf": "Rat", "ub": "Rat", "opt_0": ("opt", ("list", ("list", "Rat"))), "mmax": ("opt", "Int")},
     {"revolver_params": True, "consts": {"opt_1d": None}, "drop_params": ["opt_1d"], "fold_bools": True}),
    ("hrevolve_sequences/basic_functions.py", "argmin", "argmin_er", {"list": ("list", "ER")}, {}),
    ("hrevolve_sequences/hrevolve.py", "hrevolve_aux", "hrevolve_aux", HREV_T,
     {"recursive": True, "kwargs": True, "last_leaf": True, "mutual": "hrev", "ret": ["list", ("struct", "PyOp")]}),
    ("hrevolve_sequences/hrevolve.py", "hrevolve_recurse", "hrevolve_recurse", HREV_T,
     {"recursive": True, "kwargs": True, "mutual": "hrev", "ret": ["list", ("struct", "PyOp")]}),
    ("hrevolve_sequences/hrevolve.py", "hrevolve", "hrevolve",
     {"cvect": ("list", "Int"), "wvect": ("list", "Rat"), "rvect": ("list", "Rat"), "fwd_cost": "Rat", "bwd_cost": "Rat"},
     {"kwargs": True}),
    ("hrevolve.py", "_convert_action", "convert_action", {"action": ("struct", "PyOp")}, {"split_dict_keys": True}),
    ("hrevolve.py", "_last_reads", "last_reads", {"schedule": ("list", ("struct", "PyOp"))}, {}),
]

ENUMS = [("schedule.py", "StepType"), ("schedule.py", "StorageType")]

ST = ("enum", "StorageType")
REV_FIELDS = ["n", "r", "max_n", "exhausted", "snapshots_on_disk", "snapshots_in_ram", "schedule"]
COSTS_T = {"uf": "Rat", "ub": "Rat", "wd": "Rat", "rd": "Rat"}
# (file, qualified name, lean name, parameter types, self fields, fields whose new values the method returns)
METHODS = [
    ("schedule.py", "CheckpointSchedule.__init__", "checkpointSchedule_init", {"max_n": ("opt", "Int")}, {},
     ["n", "r", "max_n"]),
    ("schedule.py", "CheckpointSchedule.finalize", "finalize", {}, {"n": "Int", "max_n": ("opt", "Int")},
     ["n", "max_n"]),
    ("basic_schedules.py", "SingleMemoryStorageSchedule.uses_storage_type", "singleMemory_uses", {"storage_type": ST},
     {"storage": ST}, []),
    ("basic_schedules.py", "SingleDiskStorageSchedule.uses_storage_type", "singleDisk_uses", {"storage_type": ST},
     {"storage": ST}, []),
    ("basic_schedules.py", "NoneCheckpointSchedule.uses_storage_type", "none_uses", {"storage_type": ST}, {}, []),
    ("multistage.py", "MultistageCheckpointSchedule.uses_storage_type", "multistage_uses", {"storage_type": ST},
     {"snapshots_in_ram": "Int", "snapshots_on_disk": "Int"}, []),
    ("mixed.py", "MixedCheckpointSchedule.uses_storage_type", "mixed_uses", {"storage_type": ST}, {"storage": ST}, []),
    ("twolevel_binomial.py", "TwoLevelCheckpointSchedule.uses_storage_type", "twoLevel_uses", {"storage_type": ST},
     {"binomial_storage": ST}, []),
    ("hrevolve.py", "RevolveCheckpointSchedule.uses_storage_type", "revolve_uses", {"storage_type": ST},
     {"snapshots_in_ram": "Int", "snapshots_on_disk": ("opt", "Int")}, []),
    ("mixed.py", "MixedCheckpointSchedule.__init__", "mixed_init", {"storage": ST}, {},
     ["n", "r", "max_n", "exhausted", "snapshots", "storage"]),
    ("twolevel_binomial.py", "TwoLevelCheckpointSchedule.__init__", "twoLevel_init",
     {"binomial_storage": ST, "binomial_trajectory": "String"}, {},
     ["n", "r", "max_n", "period", "binomial_snapshots", "binomial_storage", "trajectory"]),
    ("multistage.py", "MultistageCheckpointSchedule.__init__", "multistage_init", {"trajectory": "String"}, {},
     ["n", "r", "max_n", "snapshots_in_ram", "snapshots_on_disk", "storage", "exhausted", "trajectory"],
     {"allocate_snapshots": (["max_n", "snapshots_in_ram", "snapshots_on_disk", "trajectory"],
                             ("tuple", [("list", "Int"), ("list", ST)]),
                             "Int → Int → Int → String → M (List Int × List StorageType)")}),
    ("hrevolve.py", "RevolveCheckpointSchedule.__init__", "revolveBase_init",
     {"snapshots_on_disk": ("opt", "Int"), "schedule": ("list", ("struct", "PyOp"))}, {}, REV_FIELDS),
    ("hrevolve.py", "HRevolve.__init__", "hrevolve_init", COSTS_T, {}, REV_FIELDS, None,
     ("revolveBase_init", "RevolveCheckpointSchedule")),
    ("hrevolve.py", "DiskRevolve.__init__", "diskRevolve_init", COSTS_T, {}, REV_FIELDS, None,
     ("revolveBase_init", "RevolveCheckpointSchedule")),
    ("hrevolve.py", "PeriodicDiskRevolve.__init__", "periodicDiskRevolve_init", COSTS_T, {}, REV_FIELDS, None,
     ("revolveBase_init", "RevolveCheckpointSchedule")),
    ("hrevolve.py", "Revolve.__init__", "revolve_init", COSTS_T, {}, REV_FIELDS, None,
     ("revolveBase_init", "RevolveCheckpointSchedule")),
    ("schedule.py", "Forward.__len__", "forward_len", {}, {"n0": "Int", "n1": "Int"}, []),
    ("schedule.py", "Forward.__contains__", "forward_contains", {}, {"n0": "Int", "n1": "Int"}, []),
    ("schedule.py", "Reverse.__len__", "reverse_len", {}, {"n0": "Int", "n1": "Int"}, []),
    ("schedule.py", "Reverse.__contains__", "reverse_contains", {}, {"n0": "Int", "n1": "Int"}, []),
]

F_BASE = {"n": "Int", "r": "Int", "max_n": ("opt", "Int")}
# (file, qualified name, lean name, self fields, generator options)
GENERATORS = [
    ("basic_schedules.py", "SingleMemoryStorageSchedule._iterator", "singleMemory_iterator", dict(F_BASE),
     {"online": True, "passes": True}),
    ("basic_schedules.py", "SingleDiskStorageSchedule._iterator", "singleDisk_iterator",
     dict(F_BASE, move_data="Bool", exhausted="Bool"), {"online": True, "passes": True}),
    ("basic_schedules.py", "NoneCheckpointSchedule._iterator", "none_iterator", dict(F_BASE, exhausted="Bool"),
     {"online": True}),
    ("multistage.py", "MultistageCheckpointSchedule._iterator", "multistage_iterator",
     dict(F_BASE, snapshots_in_ram="Int", snapshots_on_disk="Int", storage=("list", ("enum", "StorageType")),
          trajectory="String", exhausted="Bool"), {"offline": True}),
    ("mixed.py", "MixedCheckpointSchedule._iterator", "mixed_iterator",
     dict(F_BASE, snapshots="Int", storage=("enum", "StorageType"), exhausted="Bool"),
     {"offline": True, "consts": {"numba": None}}),
    ("hrevolve.py", "RevolveCheckpointSchedule._iterator", "revolve_iterator",
     dict(F_BASE, schedule=("list", ("struct", "PyOp")), exhausted="Bool"), {"offline": True}),
    ("twolevel_binomial.py", "TwoLevelCheckpointSchedule._iterator", "twoLevel_iterator",
     dict(F_BASE, period="Int", binomial_snapshots="Int", binomial_storage=("enum", "StorageType"),
          trajectory="String"), {"online": True, "passes": True}),
]


MULTISTAGE_ACTIONS_TEXT = """/-- the nested schedule of `allocate_snapshots`:
`cp_schedule = MultistageCheckpointSchedule(max_n, snapshots, 0, trajectory=…)` (the generated constructor; with no
disk units it never asks for an allocation: the oracle raises) driven by
`while True: cp_action = next(cp_schedule); action(cp_action); if isinstance(cp_action, EndReverse): break` —
the actions up to and including the first `EndReverse` (`StopIteration` if the generator ends before one).
The generator is run to its end first: if it raises, that exception is the result even where Python would have
raised from a handler at an earlier action. -/
def multistage_actions (fuel : Nat) (max_n : Int) (snapshots_in_ram : Int) (snapshots_on_disk : Int) (trajectory : String) : M (List PyAction) := do
  let (n, r, mx, ram, disk, storage, ex, tr) ← multistage_init max_n snapshots_in_ram snapshots_on_disk trajectory
    (fun _ _ _ _ => throw .notImplementedError)
  let evs ← multistage_iterator fuel n r mx ram disk storage tr ex
  let k := evs.findIdx (fun e => e.act = .endReverse)
  if k = evs.length then throw .stopIteration
  pure ((evs.take (k + 1)).map (·.act))"""

# functions translated after the constructors and generators they use
LATE_FUNCTIONS = [
    ("multistage.py", "allocate_snapshots", "allocate_snapshots",
     {"write_weight": "Rat", "read_weight": "Rat", "delete_weight": "Rat", "trajectory": "String"},
     {"allocate": True, "needs": ["multistage_init", "multistage_iterator"],
      "pre_text": MULTISTAGE_ACTIONS_TEXT, "pre_names": ["multistage_actions"]}),
]


def translate_enum(tree, name):
    node = find_def(tree, name)
    members = []
    for st in node.body:
        if isinstance(st, ast.Assign) and len(st.targets) == 1 and isinstance(st.targets[0], ast.Name):
            v = st.value
            if isinstance(v, ast.UnaryOp) and isinstance(v.op, ast.USub) and isinstance(v.operand, ast.Constant) \
                    and isinstance(v.operand.value, int):
                members.append((st.targets[0].id, -v.operand.value))
            elif isinstance(v, ast.Constant) and (isinstance(v.value, int) or v.value is None) \
                    and not isinstance(v.value, bool):
                members.append((st.targets[0].id, v.value))
    if not members:
        raise Unsupported("enum %s has no members" % name)
    if len({repr(v) for _, v in members}) != len(members):
        raise Unsupported("enum %s has aliased members" % name)
    lines = ["/-- `%s` (schedule.py)%s -/" % (name, "; `toInt` is `int(·)`" if all(v is not None for _, v in members) else ""),
             "inductive %s | %s" % (name, " | ".join(m.lower() for m, _ in members)),
             "deriving DecidableEq, Repr, Inhabited"]
    if all(v is not None for _, v in members):
        lines += ["", "def %s.toInt : %s → Int" % (name, name)]
        for m, v in members:
            lines.append("  | .%s => %d" % (m.lower(), v))
    return "\n".join(lines), [m for m, _ in members]


def generate(repo):
    pkg = os.path.join(repo, "checkpoint_schedules")
    trees = {}

    def tree(f):
        if f not in trees:
            with open(os.path.join(pkg, f)) as fh:
                trees[f] = ast.parse(fh.read())
        return trees[f]

    status = {}
    chunks = []
    enums = {}
    for f, name in ENUMS:
        try:
            text, members = translate_enum(tree(f), name)
            enums[name] = members
            chunks.append(text)
            status[name] = "ok"
        except (Unsupported, SyntaxError, OSError) as e:
            status[name] = "untranslatable: %s" % e
    cache_ok = False
    try:
        got = norm_dump(find_def(tree("mixed.py"), "cache_step"))
        want = norm_dump(ast.parse(CACHE_STEP_EXPECTED).body[0])
        cache_ok = got == want
        status["cache_step"] = "ok" if cache_ok else "untranslatable: cache_step no longer has the expected shape"
    except (Unsupported, SyntaxError, OSError) as e:
        status["cache_step"] = "untranslatable: %s" % e
    consts = {}
    try:
        for st in tree("mixed.py").body:
            if isinstance(st, ast.Assign) and len(st.targets) == 1 and isinstance(st.targets[0], ast.Name) \
                    and isinstance(st.value, ast.Call) and isinstance(st.value.func, ast.Name) \
                    and st.value.func.id == "int" and len(st.value.args) == 1 \
                    and isinstance(st.value.args[0], ast.Attribute) and isinstance(st.value.args[0].value, ast.Name) \
                    and st.value.args[0].value.id in enums:
                en, mem = st.value.args[0].value.id, st.value.args[0].attr
                consts[st.targets[0].id] = ("(%s.toInt %s.%s)" % (en, en, mem.lower()), "Int")
    except (OSError, SyntaxError):
        pass
    ctx = Ctx(enums, {}, consts)
    late_chunks = []

    def prepare(f, qual, opts):
        node = find_def(tree(f), qual)
        decos = [ast.unparse(d) for d in node.decorator_list]
        want_cache = bool(opts.get("cache_step"))
        has_cache = "cache_step" in decos
        if has_cache != want_cache:
            raise Unsupported("decorators changed: %s" % decos)
        if has_cache and not cache_ok:
            raise Unsupported("cache_step changed")
        for d in decos:
            if d not in ("cache_step", "njit"):
                raise Unsupported("decorator %s" % d)
        if opts.get("kwargs"):
            node = expand_kwargs(node, tree("hrevolve_sequences/utils.py"))
        if opts.get("last_leaf"):
            node = last_leaf_pattern(node)
        if opts.get("allocate"):
            node = preprocess_allocate(node)
        if node.args.vararg or node.args.kwarg:
            raise Unsupported("*args/**kwargs")
        if opts.get("split_dict_keys"):
            node = split_dict_keys(node)
        if opts.get("revolver_params"):
            node = inline_revolver_params(node, tree("hrevolve_sequences/utils.py"))
        if opts.get("consts") is not None:
            node = prune_constants(node, opts["consts"], fold_bools=bool(opts.get("fold_bools")))
            drop = set(opts.get("drop_params", []))
            node._orig_params = [a.arg for a in node.args.args] + [a.arg for a in node.args.kwonlyargs]
            node._dropped = drop
            node.args.args = [a for a in node.args.args if a.arg not in drop]
        return node, has_cache

    groups = {}
    for f, qual, lean, ptypes, opts in FUNCTIONS:
        if opts.get("mutual"):
            groups.setdefault(opts["mutual"], []).append((f, qual, lean, ptypes, opts))
    group_done = set()
    group_text = {}
    for f, qual, lean, ptypes, opts in FUNCTIONS:
        g = opts.get("mutual")
        if g and g not in group_done:
            # mutually recursive functions: the signatures of the whole group are registered before any body is translated
            group_done.add(g)
            try:
                for f2, qual2, lean2, ptypes2, opts2 in groups[g]:
                    node2, _ = prepare(f2, qual2, opts2)
                    ps = [a.arg for a in node2.args.args] + [a.arg for a in node2.args.kwonlyargs]
                    ctx.fns[qual2] = Fn(lean2, ps, tuple(opts2["ret"]) if isinstance(opts2["ret"], list) else opts2["ret"],
                                        True, {p: ptypes2.get(p, "Int") for p in ps}, list(ps), ())
            except (Unsupported, SyntaxError, OSError, KeyError, IndexError, TypeError, AttributeError) as e:
                for f2, qual2, lean2, ptypes2, opts2 in groups[g]:
                    status[lean2] = "untranslatable: %s: %s" % (type(e).__name__, e)
                    ctx.fns.pop(qual2, None)
        if g and status.get(lean, "").startswith("untranslatable"):
            continue
        try:
            node, has_cache = prepare(f, qual, opts)
            tr = FnTr(ctx, node, qual.split(".")[-1], lean, ptypes, bool(opts.get("recursive")),
                      cache_step=has_cache, src="%s:%d-%d" % (f, node.lineno, node.end_lineno))
            text, fuel = tr.emit()
            if g:
                if tr.ret != ctx.fns[qual].ret:
                    raise Unsupported("return type %r of a mutually recursive function is not the declared %r" % (tr.ret, ctx.fns[qual].ret))
                group_text.setdefault(g, []).append(text)
                if len(group_text[g]) == len(groups[g]):
                    (late_chunks if f == "hrevolve.py" else chunks).append("mutual\n\n" + "\n\n".join(group_text[g]) + "\n\nend")
            else:
                (late_chunks if f == "hrevolve.py" else chunks).append(text)
                ctx.fns[lean if lean != qual.split(".")[-1] and qual.split(".")[-1] in ctx.fns else qual.split(".")[-1]] = \
                    Fn(lean, tr.params, tr.ret, fuel, dict(tr.ptypes), tr.orig_params, tr.dropped, const_defaults(node))
            status[lean] = "ok"
        except (Unsupported, SyntaxError, OSError, KeyError, IndexError, TypeError, AttributeError) as e:
            status[lean] = "untranslatable: %s: %s" % (type(e).__name__, e)
            if g:
                # a group is translated completely or not at all
                for f2, qual2, lean2, ptypes2, opts2 in groups[g]:
                    if not status.get(lean2, "").startswith("untranslatable"):
                        status[lean2] = "untranslatable: its mutual-recursion partner %s is: %s" % (lean, e)
                    ctx.fns.pop(qual2, None)     # callers of the group become untranslatable too
                group_text[g] = [None] * (len(groups[g]) + 1)
    if "StorageType" in enums:
        chunks.insert(len(enums), ACTION_TEXT)
        chunks.extend(late_chunks)
        for entry in METHODS:
            f, qual, lean, ptypes, fields, mfields = entry[:6]
            orc = entry[6] if len(entry) > 6 else None
            sup = entry[7] if len(entry) > 7 else None
            try:
                node = find_def(tree(f), qual)
                if node.decorator_list:
                    raise Unsupported("decorated method")
                if sup:
                    cls = find_def(tree(f), qual.split(".")[0])
                    bases = [ast.unparse(b) for b in cls.bases]
                    if bases != [sup[1]]:
                        raise Unsupported("base classes of %s changed: %s" % (qual.split(".")[0], bases))
                tr = FnTr(ctx, node, qual, lean, ptypes, False, self_fields=fields, method_fields=mfields, oracles=orc,
                          src="%s:%d-%d" % (f, node.lineno, node.end_lineno), super_init=sup[0] if sup else None)
                text, fuel = tr.emit()
                chunks.append(text)
                ctx.fns_lean.add(lean)
                if qual.endswith(".__init__"):
                    ctx.inits[lean] = (list(tr.params), dict(tr.ptypes), list(mfields),
                                       {f2: tr.vtypes.get("self." + f2) for f2 in mfields}, fuel)
                status[lean] = "ok"
            except (Unsupported, SyntaxError, OSError, KeyError, IndexError, TypeError, AttributeError) as e:
                status[lean] = "untranslatable: %s: %s" % (type(e).__name__, e)
        for f, qual, lean, fields, gopts in GENERATORS:
            try:
                node = find_def(tree(f), qual)
                if node.decorator_list:
                    raise Unsupported("decorated generator")
                if gopts.get("consts"):
                    node = prune_constants(node, gopts["consts"])
                tr = FnTr(ctx, node, qual, lean, {}, False, self_fields=fields, gen=gopts,
                          src="%s:%d-%d" % (f, node.lineno, node.end_lineno))
                text, fuel = tr.emit()
                chunks.append(text)
                status[lean] = "ok"
            except (Unsupported, SyntaxError, OSError, KeyError, IndexError, TypeError, AttributeError) as e:
                status[lean] = "untranslatable: %s: %s" % (type(e).__name__, e)
        for f, qual, lean, ptypes, opts in LATE_FUNCTIONS:
            try:
                if opts.get("needs") and any(status.get(x) != "ok" for x in opts["needs"]):
                    raise Unsupported("needs %s" % ", ".join(x for x in opts["needs"] if status.get(x) != "ok"))
                if opts.get("pre_text"):
                    chunks.append(opts["pre_text"])
                    ctx.fns_lean.update(opts.get("pre_names", []))
                node, _ = prepare(f, qual, opts)
                tr = FnTr(ctx, node, qual.split(".")[-1], lean, ptypes, False,
                          src="%s:%d-%d" % (f, node.lineno, node.end_lineno))
                text, fuel = tr.emit()
                chunks.append(text)
                status[lean] = "ok"
            except (Unsupported, SyntaxError, OSError, KeyError, IndexError, TypeError, AttributeError) as e:
                if opts.get("pre_text") and chunks and chunks[-1] == opts["pre_text"]:
                    chunks.pop()
                status[lean] = "untranslatable: %s: %s" % (type(e).__name__, e)
    header = ("/-\n  GENERATED by harness/py2lean.py from the Python sources of /repo (checkpoint_schedules).\n"
              "  Do not edit: the file is regenerated on every check run and compared with this text.\n-/\n"
              "import CkptGen.Prelude\nset_option linter.unusedVariables false\nnamespace Ckpt.Py\n\n")
    return header + "\n\n".join(chunks) + "\n\nend Ckpt.Py\n", status


def main():
    ap = argparse.ArgumentParser()
    ap.add_argument("--repo", default=os.environ.get("VERIF_REPO", "/repo"))
    ap.add_argument("--out")
    a = ap.parse_args()
    text, status = generate(a.repo)
    if a.out:
        old = None
        if os.path.exists(a.out):
            with open(a.out) as f:
                old = f.read()
        if old != text:
            with open(a.out, "w") as f:
                f.write(text)
    else:
        sys.stdout.write(text)
    for k, v in status.items():
        print("-- %s: %s" % (k, v), file=sys.stderr)


if __name__ == "__main__":
    main()
