#!/bin/bash
# usage: harm_eval.sh <worktree> <id>   -- a behaviour-preserving rewrite: ALL 19 quick checks must stay silent
set -u
WT=$1; ID=$2
OUT=/verif/seeded/$ID
mkdir -p $OUT
git -C $WT diff -- checkpoint_schedules > $OUT/patch.diff
[ -f $WT/equiv.py ] && cp $WT/equiv.py $OUT/equiv.py
[ -f $WT/NOTES.md ] && cp $WT/NOTES.md $OUT/NOTES.md
echo "== test-suite with change"
( cd $WT && /venv/bin/python -m pytest -q -p no:cacheprovider -n 4 --timeout=900 2>&1 | tail -1 ) | tee $OUT/tests.txt
: > $OUT/checks.txt
for i in 01 02 03 04 05 06 07 08 09 10 11 12 13 14 15 16 17 18 19; do
  s=$(date +%s)
  r=$(cd /verif && VERIF_REPO=$WT VERIF_NPROC=8 VERIF_CACHE_KEEP=12 timeout 3000 ./check C$i --tier quick 2>&1 | grep -E "^VIOLATION|^OK|^KNOWN|harness error|^  " | head -3 | tr '\n' ' ' | cut -c1-400)
  e=$(date +%s)
  echo "C$i: [$((e-s))s] $r" | tee -a $OUT/checks.txt
done
