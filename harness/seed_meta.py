"""Writes seeded/<id>/meta.json and seeded/README.md from the evaluation outputs."""
import json
import os
import re

HERE = os.path.dirname(os.path.abspath(__file__))
SEEDED = os.path.join(os.path.dirname(HERE), "seeded")

DESCR = {
    "C01-1": ("C01", "TwoLevel reverse loop de-duplicated: Move-vs-Copy keyed on 'storage == binomial storage' instead of 'is the periodic checkpoint'",
              "binomial_storage=DISK (the default) AND a second adjoint pass: the periodic disk checkpoint is deleted by a Move at its last use in pass 1, pass 2 loads a checkpoint that no longer exists"),
    "C02-1": ("C02", "SingleDiskStorageSchedule tracks the adjoint position in a local set once before `while True`",
              "a second adjoint pass of SingleDisk(move_data=False): EndReverse is emitted immediately, no step is reversed"),
    "C03-1": ("C03", "process-global cache of `_last_reads` keyed by (class, max_n, ram, disk) — cost vector missing from the key",
              "two Revolve-family schedules of equal class/size but different cost vectors in one process: the second uses the first one's last-read positions, checkpoints are copied instead of moved and RAM exceeds its budget"),
    "C04-1": ("C04", "TwoLevel: retain-on-last-use keyed on 'lives on DISK' instead of 'is the periodic checkpoint'",
              "binomial_storage=DISK, period >= 3, binomial_snapshots >= 1: binomial checkpoints are copied at their last use and accumulate on disk"),
    "C05-1": ("C05", "Revolve's opt_0 table cached per (l, cm) — cost vector missing from the key",
              "two Revolve(n, s) with different uf in one process: the argmin mixes the current uf with a stale table; executable but more forward steps than the optimum"),
    "C06-1": ("C06", "early exit (`_SEARCH_SLACK = 6`) in the split search of both mixed planners",
              "n >= 144 with s about 11..20: the step count is not unimodal there, the planner misses the optimum by one forward step"),
    "C07-1": ("C07", "get_hopt_table border initialised with rvect[k]/wvect[k] instead of rvect[0]/wvect[0]",
              "HRevolve with exactly 1 RAM unit, >= 1 disk unit and 0 < wd+rd < 2*uf: entry opt[1][1][0] is over-priced, the schedule costs more than the optimum"),
    "C08-1": ("C08", "TwoLevel: `self._n = n1` moved after the `yield` of a checkpoint-writing Forward in the reverse sweep",
              "period >= 3 and binomial_snapshots >= 1: `schedule.n` is stale (reports n0) right after those Forward actions; the stream is unchanged"),
    "C09-1": ("C09", "same change as C01-1, found independently (TwoLevel Move of the periodic disk checkpoint)",
              "binomial_storage=DISK and a second adjoint pass: the repeat is not executable"),
    "C10-1": ("C10", "finalize() restructured: known-max_n branch no longer checks that the forward stands at max_n, and writes _n",
              "max_n already known AND finalize(k) with k == max_n while the forward is elsewhere (during the reverse sweep, second pass): silently accepted, _n overwritten, later stream changes"),
    "C11-1": ("C11", "uses_storage_type(DISK) 'sharpened' for unbounded disk: max_n - 1 > snapshots_in_ram",
              "PeriodicDiskRevolve with cheap disk (e.g. uf=5) and snapshots_in_ram >= max_n - 1 >= 2: DISK is written but reported unused"),
    "C12-1": ("C12", "TwoLevel stops one step short and emits a two-step Forward(..., write_adj_deps)/Reverse",
              "period >= 3 and binomial_snapshots >= 1: working storage holds adjoint data of two steps"),
    "C13-1": ("C13", "TwoLevel unit count for restarts from a binomial checkpoint lowered by one (with max(.,1))",
              "binomial_snapshots >= 2 and period >= 10 (>= 14 for 3 units): a block is recomputed with one forward step more than the binomial optimum"),
    "C14-1": ("C14", "allocate_snapshots: a Move is no longer charged as a read in the dry run",
              "mixed RAM+DISK split where write counts create a tie at the cut-off (e.g. n=7, ram=1, disk=1): one DISK access more than necessary"),
    "C15-1": ("C15", "process-global cache of allocate_snapshots weights — trajectory missing from the key",
              "two Multistage schedules with equal (max_n, total units), mixed RAM/DISK, different trajectory in one process: storage labels depend on which was built first"),
    "C16-1": ("C16", "Knuth-style start of the split search at the optimum for n_i - 1 in mixed_steps_tabulation only",
              "numba path only, (n, s) from (17,3), (25,4), (34,5), ...: the tabulated planner records a longer step and a cost one higher than the memoised planner"),
    "C17-1": ("C17", "opt_0 table rows capped at lmax+1, revolve() clamps cm, but disk_revolve still indexes opt_0[cm]",
              "DiskRevolve(max_n >= 3, snapshots_in_ram >= max_n + 1): IndexError at construction for a valid 'more units than steps' tuple"),
    "C18-1": ("C18", "__repr__ prints every int >= sys.maxsize as 'sys.maxsize'",
              "an action with an integer argument > sys.maxsize (second Forward of an unfinalised SingleMemory/None schedule, or directly constructed): repr no longer evaluates back to an equal action"),
    "C19-1": ("C19", "mxrr_close_formula rounds (wd+rd)/uf before comparing with beta",
              "non-integer cost ratios whose rounded value is a binomial coefficient (e.g. wd=3.5, rd=2, uf=1): wrong period; every integer cost vector is unaffected"),
}

import glob
for _p2 in sorted(glob.glob(os.path.join(HERE, "seed_descr*.json"))):
    with open(_p2) as _f:
        DESCR.update({k: tuple(v) for k, v in json.load(_f).items()})


def main():
    rows = []
    for sid in sorted(DESCR):
        d = os.path.join(SEEDED, sid)
        if not os.path.isdir(d):
            continue
        prop, what, needs = DESCR[sid]

        def rd(name):
            p = os.path.join(d, name)
            return open(p).read() if os.path.exists(p) else ""
        checks = {}
        for ln in rd("checks.txt").splitlines():
            m = re.match(r"(C\d+): (.*)", ln)
            if not m:
                continue
            t = m.group(2)
            if t.startswith("VIOLATION"):
                checks[m.group(1)] = "violation-no-input" if "no-failing-input-found" in t.split("  ")[0] else "violation-with-replay"
            elif t.startswith("OK"):
                checks[m.group(1)] = "ok"
            else:
                checks[m.group(1)] = "error: " + t[:80]
        meta = {
            "id": sid, "breaks_property": prop, "change": what, "needs_to_manifest": needs,
            "confirmed": {
                "demo_on_unchanged_library": rd("demo_before.txt").strip().splitlines()[-2:] if rd("demo_before.txt") else [],
                "demo_with_change": rd("demo_after.txt").strip().splitlines()[-1:] if rd("demo_after.txt") else [],
                "test_suite_with_change": rd("tests.txt").strip(),
            },
            "ran": "harness/seed_eval.sh %s <scratch worktree of %s> %s  (demo before/after, pytest, then all 19 quick checks with "
                   "VERIF_REPO pointing at a worktree holding /repo HEAD + patch.diff)" % (prop, prop, sid),
            "checks": checks,
            "caught_by_own_property_check": checks.get(prop, "?"),
        }
        with open(os.path.join(d, "meta.json"), "w") as f:
            json.dump(meta, f, indent=1)
            f.write("\n")
        rows.append(meta)
    props = ["C%02d" % i for i in range(1, 20)]
    with open(os.path.join(SEEDED, "README.md"), "w") as f:
        f.write("# Seeded defects: which quick checks report what\n\n"
                "`R` = VIOLATION with a concrete failing input (replay), `n` = VIOLATION … no-failing-input-found "
                "(the model/implementation correspondence on that property's projection broke, but the property itself "
                "was not seen to fail on the explored inputs), `.` = OK, blank = not run (round 3 was evaluated with the "
                "check of its own property, plus the checks named in the text of DESIGN.md section 11).  The column of the property "
                "the seed was written against is marked with brackets.\n\n")
        f.write("| seed | " + " | ".join(p[1:] for p in props) + " |\n|---|" + "---|" * len(props) + "\n")
        for m in rows:
            cells = []
            for p in props:
                v = m["checks"].get(p, "?")
                c = {"violation-with-replay": "R", "violation-no-input": "n", "ok": ".", "?": " "}.get(v, "E")
                cells.append("[" + c + "]" if p == m["breaks_property"] else c)
            f.write("| %s | %s |\n" % (m["id"], " | ".join(cells)))
        f.write("\n")
        for m in rows:
            f.write("* **%s** (%s): %s. *Needs:* %s.\n" % (m["id"], m["breaks_property"], m["change"], m["needs_to_manifest"]))


if __name__ == "__main__":
    main()
