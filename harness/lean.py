"""Wrapper around the Lean driver (compiled `drv`, with `lake env lean --run` as fallback)."""
import os
import subprocess

HERE = os.path.dirname(os.path.abspath(__file__))
LEAN_DIR = os.path.join(os.path.dirname(HERE), "lean")
DRV = os.path.join(LEAN_DIR, ".lake", "build", "bin", "drv")


class Driver:
    def __init__(self):
        if os.path.exists(DRV):
            cmd = [DRV]
        else:
            cmd = ["lake", "env", "lean", "--run", "Driver/Main.lean"]
        self.p = subprocess.Popen(cmd, cwd=LEAN_DIR, stdin=subprocess.PIPE, stdout=subprocess.PIPE,
                                  text=True, bufsize=1 << 20)

    def ask(self, request, payload=None):
        """Send one request (plus trace payload lines for `mon`), return answer lines."""
        self.p.stdin.write(request + "\n")
        if payload is not None:
            for ln in payload:
                self.p.stdin.write(ln + "\n")
            self.p.stdin.write("ENDTRACE\n")
        self.p.stdin.flush()
        out = []
        while True:
            ln = self.p.stdout.readline()
            if ln == "":
                raise RuntimeError("driver died on: " + request)
            ln = ln.rstrip("\n")
            if ln == ".":
                return out
            out.append(ln)

    def ask_many(self, requests):
        """requests: list of (request, payload-or-None). Pipelined in chunks."""
        res = []
        CH = 200
        for i in range(0, len(requests), CH):
            chunk = requests[i:i + CH]
            # write everything, then read: the OS pipe could fill up for large chunks, so use a thread
            import threading

            def writer():
                for req, payload in chunk:
                    self.p.stdin.write(req + "\n")
                    if payload is not None:
                        for ln in payload:
                            self.p.stdin.write(ln + "\n")
                        if not (payload and payload[-1] == "ENDPROC"):
                            self.p.stdin.write("ENDTRACE\n")
                self.p.stdin.flush()
            t = threading.Thread(target=writer)
            t.start()
            for _ in chunk:
                out = []
                while True:
                    ln = self.p.stdout.readline()
                    if ln == "":
                        raise RuntimeError("driver died")
                    ln = ln.rstrip("\n")
                    if ln == ".":
                        break
                    out.append(ln)
                res.append(out)
            t.join()
        return res

    def close(self):
        try:
            self.p.stdin.close()
            self.p.wait(timeout=10)
        except Exception:
            self.p.kill()
