"""Input generators: exhaustive boxes, seeded random configurations, histories.

Every random choice derives from one `random.Random(seed)`; inputs are plain tuples
(spec, nfin, k) so that a disagreement replays exactly.
"""
import random

COSTS = ["1 1 2 2", "1 3 2 2", "3 1 2 2", "2 5 1 4", "1 1 0 0", "1 1 5 0", "1 1 0 5",
         "4 1 3 7", "1 1 20 20", "2 3 40 1",
         # dyadic-rational cost vectors (exact as floats; the model sees them scaled by 4)
         "1 1 3.5 2", "1 1 0.5 0.25", "2 2 7 4.5", "0.5 1.5 1.25 0.75", "5 1 2 2"]
TRAJ = ("maximum", "revolve")


def basic(tier):
    nmax = 12 if tier == "quick" else 32
    out = []
    for n in range(1, nmax + 1):
        for k in (1, 2, 3):
            out += [("SM", n, k), ("SD 0", n, k), ("SD 1", n, k), ("NO", n, k)]
    return out


def twolevel(tier):
    pmax, bmax, k = (10, 4, 2) if tier == "quick" else (16, 6, 3)
    out = []
    for p in range(1, pmax + 1):
        for b in range(0, bmax + 1):
            for st in "RD":
                for tr in TRAJ:
                    for n in range(1, 3 * p + 3):
                        out.append((f"TL {p} {b} {st} {tr}", n, k))
    return out


def multistage(tier):
    nmax, umax = (24, 5) if tier == "quick" else (48, 7)
    out = []
    for n in range(1, nmax + 1):
        units = sorted(set(list(range(0, umax + 1)) + [n - 2, n - 1, n, n + 1]) - {-1})
        for ram in units:
            for disk in units:
                if ram > umax and disk > umax:
                    continue
                if n > 1 and ram + disk == 0:
                    continue
                for tr in TRAJ:
                    out.append((f"MS {n} {ram} {disk} {tr}", n, 1))
    return out


def mixed(tier):
    nmax = 32 if tier == "quick" else 64
    out = []
    for n in range(1, nmax + 1):
        for s in range(min(1, n - 1), n + 3):
            for st in "RD":
                for nb in "01":
                    out.append((f"MX {n} {s} {st} {nb}", n, 1))
    return out


def revolve3(tier):
    nmax, cmax = (30, 5) if tier == "quick" else (56, 7)
    out = []
    for n in range(1, nmax + 1):
        for cm in range(1, cmax + 1):
            for c in COSTS:
                for cl in ("RV", "DR", "PD"):
                    out.append((f"{cl} {n} {cm} {c}", n, 1))
    return out


def hrevolve(tier):
    nmax, c0max, c1max = (24, 3, 3) if tier == "quick" else (40, 4, 4)
    out = []
    for n in range(1, nmax + 1):
        for c0 in range(1, c0max + 1):
            for c1 in range(0, c1max + 1):
                for c in COSTS:
                    out.append((f"HR {n} {c0} {c1} {c}", n, 1))
    # the clamp boundary of the disk level (a slot for every step), as for Multistage
    for n in range(2, (14 if tier == "quick" else 24) + 1):
        for c0 in (1, 2):
            for c1 in (n - 2, n - 1, n, n + 2):
                if c1 > c1max:
                    for c in COSTS:
                        out.append((f"HR {n} {c0} {c1} {c}", n, 1))
    return out


def invalid(tier):
    """the box around the domain boundary (C17)"""
    nmax = 6 if tier == "quick" else 12
    out = []
    for n in range(0, nmax + 1):
        for a in range(0, n + 3):
            for st in "RDWN":
                out.append((f"MX {n} {a} {st} 0", max(n, 1), 1))
            for b in range(0, 3):
                for tr in TRAJ:
                    out.append((f"MS {n} {a} {b} {tr}", max(n, 1), 1))
                    out.append((f"MS {n} {b} {a} {tr}", max(n, 1), 1))
            for cl in ("RV", "DR", "PD"):
                out.append((f"{cl} {n} {a} 1 1 2 2", max(n, 1), 1))
            for d in range(0, 3):
                out.append((f"HR {n} {a} {d} 1 1 2 2", max(n, 1), 1))
                out.append((f"HR {n} {d} {a} 1 1 2 2", max(n, 1), 1))
    for p in range(0, 4):
        for b in range(0, 3):
            for st in "RDWN":
                for n in range(1, 6):
                    out.append((f"TL {p} {b} {st} maximum", n, 1))
    return out


def rnd_costs(rng):
    x = rng.random()
    if x < 0.3:
        return rng.choice(COSTS)
    if x < 0.45:
        q = lambda lo: rng.randint(lo, 80) / 4.0  # noqa: E731
        return f"{q(1)} {q(1)} {q(0)} {q(0)}"
    return f"{rng.randint(1, 50)} {rng.randint(1, 50)} {rng.randint(0, 50)} {rng.randint(0, 50)}"


def logu(rng, lo, hi):
    import math
    return int(round(math.exp(rng.uniform(math.log(lo), math.log(hi)))))


def units(rng, n):
    """biased to the interesting band s << n and to the clamp boundary s >= n-1"""
    x = rng.random()
    if x < 0.6:
        return rng.randint(1, max(1, min(8, n)))
    if x < 0.8:
        return max(0, n - 1 + rng.randint(-1, 2))
    return rng.randint(0, n + 2)


def random_streams(seed, tier):
    rng = random.Random(seed)
    count = 800 if tier == "quick" else 8000
    big = tier != "quick"
    out = []
    for _ in range(count):
        c = rng.choice(["SM", "SD", "NO", "TL", "MS", "MS", "MX", "MX", "RV", "DR", "PD", "HR", "HR"])
        if c == "SM":
            out.append(("SM", logu(rng, 1, 2000), rng.randint(1, 4)))
        elif c == "SD":
            out.append((f"SD {rng.randint(0, 1)}", logu(rng, 1, 150), rng.randint(1, 3)))
        elif c == "NO":
            out.append(("NO", logu(rng, 1, 2000), 1))
        elif c == "TL":
            p = logu(rng, 1, 40)
            n = logu(rng, 1, 200 if big else 120)
            out.append((f"TL {p} {rng.randint(0, 6)} {rng.choice('RD')} {rng.choice(TRAJ)}", n, rng.randint(1, 3)))
        elif c == "MS":
            n = logu(rng, 1, 400 if big else 200)
            ram, disk = units(rng, n), units(rng, n)
            if n > 1 and ram + disk == 0:
                ram = 1
            out.append((f"MS {n} {ram} {disk} {rng.choice(TRAJ)}", n, 1))
        elif c == "MX":
            n = logu(rng, 1, 120 if big else 80)
            s = max(min(1, n - 1), units(rng, n))
            out.append((f"MX {n} {s} {rng.choice('RD')} {rng.randint(0, 1)}", n, 1))
        elif c in ("RV", "DR", "PD"):
            n = logu(rng, 1, 120 if big else 70)
            out.append((f"{c} {n} {rng.randint(1, 7)} {rnd_costs(rng)}", n, 1))
        else:
            n = logu(rng, 1, 70 if big else 45)
            out.append((f"HR {n} {rng.randint(1, 5)} {rng.randint(0, 5)} {rnd_costs(rng)}", n, 1))
    return out


CORPUS = [
    # witnesses of the defects repaired in /repo (DESIGN.md section 9); run first
    ("SM", 3, 2),
    ("SD 1", 3, 1),
    ("TL 2 1 R maximum", 5, 2),
    ("DR 10 1 1 1 2 2", 10, 1),
    ("DR 7 1 1 1 2 2", 7, 1),
    ("HR 1 1 1 1 1 2 2", 1, 1),
    ("HR 3 2 0 3 1 2 2", 3, 1),
    ("HR 20 1 2 1 1 2 2", 20, 1),
    ("MS 17 2 1 maximum", 17, 1),
    ("MS 17 1 2 revolve", 17, 1),
]


def load_corpus():
    import json
    import os
    p = os.path.join(os.path.dirname(os.path.dirname(os.path.abspath(__file__))), "corpus", "streams.json")
    extra = []
    if os.path.exists(p):
        with open(p) as f:
            extra = [tuple(x) for x in json.load(f)]
    return list(CORPUS) + extra


GROUPS = {
    "basic": basic, "twolevel": twolevel, "multistage": multistage, "mixed": mixed,
    "revolve3": revolve3, "hrevolve": hrevolve, "invalid": invalid,
}


DEEP = False   # set by ./check when an anchored source file differs from the fingerprint baseline


def far(tier):
    """A thin shell of FAR points (thorough tier, and whenever an anchored file changed): sizes beyond the small-int /
    8-bit / 9-bit boundaries (257, 300, 520), unit counts beyond 8, the band 6s <= n < s*s/2, extreme but legitimate
    cost vectors (|ub/uf| up to 2^11, disk 250x a step, ratios that hit binomial coefficients exactly)."""
    out = []
    for n in (257, 300, 1025):
        out += [("SM", n, 2), ("NO", n, 1), ("SD 0", n, 2), ("SD 1", n, 1)]
    for p_, b in ((64, 9), (100, 12), (257, 3), (35, 2), (70, 3)):
        for st in "RD":
            for tr in TRAJ:
                out += [(f"TL {p_} {b} {st} {tr}", 257, 2), (f"TL {p_} {b} {st} {tr}", 300, 1)]
    for n in (257, 300):
        for ram, disk in ((3, 0), (0, 3), (2, 9), (1, 12), (9, 2), (255, 3), (3, 255)):
            for tr in TRAJ:
                out.append((f"MS {n} {ram} {disk} {tr}", n, 1))
    for s_ in range(9, 15):
        for n in range(6 * s_ - 2, (s_ * s_) // 2 + 4, 3):
            for ram in (1, 2, 3):
                for tr in TRAJ:
                    out.append((f"MS {n} {ram} {s_ - ram} {tr}", n, 1))
    for n in (257, 300):
        for s_ in (3, 9, 17, 255, 256, 299):
            for st in "RD":
                for nb in "01":
                    if nb == "1" and s_ > 17:
                        continue
                    out.append((f"MX {n} {s_} {st} {nb}", n, 1))
    out += [("MX 400 300 D 0", 400, 1), ("RV 520 9 1 1 2 2", 520, 1), ("MS 520 3 9 revolve", 520, 1)]
    for cl in ("RV", "DR", "PD"):
        for n in (257, 300):
            for cm in (1, 2, 5, 9):
                for c in ("1 1 2 2", "2 5 1 4"):
                    out.append((f"{cl} {n} {cm} {c}", n, 1))
        # nearly as many units as steps, beyond the small sizes
        for n in (130, 257):
            for cm in (n - 3, n - 2, n - 1, n):
                out.append((f"{cl} {n} {cm} 1 1 2 2", n, 1))
        for n in (60, 100, 130):
            for cm in (1, 3):
                for c in ("1 1000 2 2", "1 2048 0 0", "1000 1 2 2", "0.25 1024 2 2", "1 1 250 250", "1 100000 3 3"):
                    out.append((f"{cl} {n} {cm} {c}", n, 1))
    # periodic: cost ratios (wd+rd)/uf that are binomial coefficients C(cm+t, t) or just beside them
    for cm, ratios in ((1, (54, 55, 56, 230, 231, 232)), (2, (454, 455, 456, 500, 559, 560)), (3, (83, 84, 85, 209, 210)),
                       (5, (461, 462, 463))):
        for r_ in ratios:
            for n in (40, 130, 330):
                out.append((f"PD {n} {cm} 1 1 {r_ - r_ // 2} {r_ // 2}", n, 1))
    for n, c0, c1 in ((257, 2, 3), (300, 3, 4), (257, 1, 300)):
        for c in ("1 1 2 2", "2 5 1 4"):
            out.append((f"HR {n} {c0} {c1} {c}", n, 1))
    for n in (60, 100):
        for c in ("1 1000 2 2", "1 2048 0 0", "1000 1 2 2", "1 1 250 250"):
            out.append((f"HR {n} 2 2 {c}", n, 1))
    return out


EXTRA = []    # inputs added by ./check: sizes at which the translated current source disagrees with the model


def streams(tier, seed, groups=None, with_invalid=False):
    out = load_corpus() + list(EXTRA)
    for g, f in GROUPS.items():
        if g == "invalid" and not with_invalid:
            continue
        if groups is not None and g not in groups:
            continue
        out += f(tier)
    if tier != "quick" or DEEP:
        out += far(tier)
    rs = random_streams(seed, tier)
    if groups is not None:
        pref = {"basic": ("SM", "SD", "NO"), "twolevel": ("TL",), "multistage": ("MS",), "mixed": ("MX",),
                "revolve3": ("RV", "DR", "PD"), "hrevolve": ("HR",)}
        keep = tuple(p for g in groups for p in pref.get(g, ()))
        rs = [x for x in rs if x[0].split()[0] in keep]
        out = [x for x in out if x[0].split()[0] in keep]
    out += rs
    return list(dict.fromkeys(out))
